(* C29 — the run of every handler program in closed form (phase invariant). *)
From Coq Require Import String.
From Coq Require Import List NArith Bool Arith Lia.
Import ListNotations.
From TV Require Import Lib.Obs C29.Model C29.Run C29.Proofs1.
Local Open Scope N_scope.

(* ---------- splitting a program at its first flush ---------- *)
Fixpoint after_flush (p : list op) : list op :=
  match p with [] => [] | Flush :: t => t | _ :: t => after_flush t end.

Lemma split_flush : forall p, has_flush p = true -> p = before_flush p ++ Flush :: after_flush p.
Proof.
  induction p as [|o p IH]; simpl; intro H; try discriminate.
  destruct o; simpl; try (f_equal; auto); reflexivity.
Qed.
Lemma before_no_flush : forall p, has_flush (before_flush p) = false.
Proof. induction p as [|o p IH]; simpl; auto. destruct o; simpl; auto. Qed.
Lemma no_flush_before : forall p, has_flush p = false -> before_flush p = p.
Proof.
  induction p as [|o p IH]; simpl; intro H; auto.
  destruct o; try discriminate; f_equal; auto.
Qed.
Lemma writes_app : forall p q, writes (p ++ q) = writes p ++ writes q.
Proof. intros. unfold writes. apply flat_map_app. Qed.
Lemma writes_split : forall p, has_flush p = true ->
  writes p = writes (before_flush p) ++ writes (after_flush p).
Proof.
  intros p H. rewrite (split_flush p H) at 1. rewrite writes_app. reflexivity.
Qed.
Lemma concat_snoc : forall (bs : list bytes) d, concat (bs ++ [d]) = concat bs ++ d.
Proof. intros. rewrite concat_app. simpl. rewrite app_nil_r. reflexivity. Qed.

(* ---------- header-map facts for clear_header ---------- *)
Lemma hlist_clear : forall k k2 h, hlist k (clear_header k2 h) = if beqb k k2 then [] else hlist k h.
Proof.
  intros k k2 h. unfold clear_header. destruct (hmem k2 h) eqn:E.
  - apply hlist_hdel.
  - destruct (beqb k k2) eqn:E2; auto. apply beqb_true_iff in E2. subst. apply hmem_false_hlist. exact E.
Qed.
Lemma hmem_clear : forall k k2 h, hmem k (clear_header k2 h) = negb (beqb k k2) && hmem k h.
Proof.
  intros k k2 h. unfold clear_header. destruct (hmem k2 h) eqn:E.
  - apply hmem_hdel.
  - destruct (beqb k k2) eqn:E2; auto. apply beqb_true_iff in E2. subst. exact E.
Qed.

(* ---------- closed forms of the decision and of the header block ---------- *)
Definition decision (e : env) (prog : list op) (fin : option bytes) : bool :=
  compress e && ae_gzip e
  && gzip_decision (vary_step (final_hdrs prog fin)) (status_at prog) (first_chunk prog fin) (negb (has_flush prog)).

(* header block when compressing; [enc] = the encoded body *)
Definition hdr_gz (prog : list op) (fin : option bytes) (enc : bytes) : hdrs :=
  let h2 := hset K_CE V_GZIP (vary_step (final_hdrs prog fin)) in
  if hmem K_CL h2 then (if has_flush prog then hdel K_CL h2 else hset K_CL (dec_len enc) h2) else h2.
(* header block otherwise *)
Definition hdr_plain (e : env) (prog : list op) (fin : option bytes) : hdrs :=
  if compress e then vary_step (final_hdrs prog fin) else final_hdrs prog fin.

Definition lnil {A} (l : list A) : bool := match l with [] => true | _ => false end.
Lemma lnil_app : forall A (a b' : list A), lnil (a ++ b') = lnil a && lnil b'.
Proof. intros A [|x a] b'; simpl; auto. Qed.

Lemma status_before : forall p, has_flush p = false -> status_at p = fold_left status_op p 200.
Proof. intros p H. unfold status_at. rewrite no_flush_before; auto. Qed.

Section Run.
Variable c : codec.
Variable e : env.
Hypothesis NH : is_head e = false.

Definition g0 := fst (gz_open c).
Definition o0 := snd (gz_open c).
Lemma open_eq : gz_open c = (g0, o0).
Proof. unfold g0, o0. destruct (gz_open c); reflexivity. Qed.

(* phase A: nothing flushed yet *)
Definition stA (h : hdrs) (bs : list bytes) : st c :=
  mkSt h bs false (compress e && ae_gzip e) None [] None [] false.

Lemma execA : forall p h bs k wc, has_flush p = false ->
  exists bs', exec e p (mkHs (stA h bs) k wc)
              = mkHs (stA (fold_left (fun h o => hdr_op o h) p h) bs') (fold_left status_op p k) wc
              /\ concat bs' = concat bs ++ writes p
              /\ lnil bs' = lnil bs && negb (existsb is_write p).
Proof.
  induction p as [|o p IH]; intros h bs k wc H.
  - exists bs. simpl. rewrite app_nil_r, andb_true_r. auto.
  - destruct o; simpl in H; try discriminate;
      unfold exec in *; simpl fold_left.
    + apply (IH _ bs _ _ H).
    + apply (IH _ bs _ _ H).
    + apply (IH _ bs _ _ H).
    + destruct (IH h (bs ++ [chunk]) k wc H) as [bs' [E1 [E2 E3]]].
      exists bs'. split. exact E1. split.
      * rewrite E2. rewrite concat_snoc. unfold writes. simpl. rewrite app_assoc. reflexivity.
      * rewrite E3. rewrite lnil_app. simpl. rewrite !andb_false_r. reflexivity.
    + apply (IH h bs _ _ H).
Qed.

(* phase B: header block written with headers H, transform decided D *)
Definition gz_inv (D : bool) (flushed : bytes) (s : st c) : Prop :=
  if D then exists hist g o, gz s = Some g /\ gval s = [] /\ gz_run c g0 hist = (g, o)
                             /\ concat (sent s) = o0 ++ o /\ gz_data hist = flushed
  else concat (sent s) = flushed.

Record InvB (H : hdrs) (D : bool) (W : N) (w : bytes) (hs0 : hs c) : Prop := {
  ib_written : written (core hs0) = true;
  ib_err : err (core hs0) = false;
  ib_hdrs : w_hdrs (core hs0) = Some H;
  ib_gzf : gzipping (core hs0) = D;
  ib_code : wcode hs0 = W;
  ib_comp : D = true -> compress e = true;
  ib_data : exists flushed, w = flushed ++ concat (buf (core hs0)) /\ gz_inv D flushed (core hs0)
}.

Lemma flushB : forall H D W w s f, InvB H D W w s ->
  let s' := do_flush e f s in
  written (core s') = true /\ err (core s') = false /\ w_hdrs (core s') = Some H /\ wcode s' = W /\
  buf (core s') = [] /\
  if f then
    (if D then exists hist g o, gz_run c g0 hist = (g, o) /\ concat (sent (core s')) = o0 ++ o ++ gz_close c g
                                /\ gz_data hist = w
     else concat (sent (core s')) = w)
  else gzipping (core s') = D /\ gz_inv D w (core s').
Proof.
  intros H D W w [s k wc] f [I1 I2 I3 I4 I7 I8 [fl [I5 I6]]]. simpl in *.
  destruct s as [hd0 buf0 wr gzf gzo gv wh sn er]. simpl in *. subst wr er gzf wc.
  unfold do_flush, flush. simpl. rewrite NH. unfold transform_chunk. simpl.
  unfold gz_inv in I6. destruct D; simpl in *.
  - destruct I6 as [hist [g [o [G1 [G2 [G3 [G4 G5]]]]]]]. subst gzo gv.
    rewrite (I8 eq_refl). simpl.
    destruct (gz_write c g (concat buf0)) as [g1 o1] eqn:EW. destruct f; simpl.
    +
      repeat split; auto.
      exists (hist ++ [GW (concat buf0)]), g1, (o ++ o1). repeat split.
      * rewrite gz_run_app. rewrite G3. simpl. rewrite EW. rewrite app_nil_r. reflexivity.
      * rewrite concat_snoc. rewrite G4. simpl. rewrite <- !app_assoc. reflexivity.
      * rewrite gz_data_app. rewrite G5. simpl. rewrite !app_nil_r. symmetry. exact I5.
    + destruct (gz_flush c g1) as [g2 o2] eqn:EF. simpl. repeat split; auto.
      unfold gz_inv. simpl.
      exists (hist ++ [GW (concat buf0); GF]), g2, (o ++ o1 ++ o2). repeat split; auto.
      * rewrite gz_run_app. rewrite G3. simpl. rewrite EW. rewrite EF. rewrite app_nil_r. reflexivity.
      * rewrite concat_snoc. rewrite G4. simpl. rewrite <- !app_assoc. reflexivity.
      * rewrite gz_data_app. rewrite G5. simpl. rewrite !app_nil_r. symmetry. exact I5.
  - destruct (compress e); destruct f; simpl; repeat split; auto;
      try (unfold gz_inv; simpl); rewrite concat_snoc; rewrite I6; symmetry; exact I5.
Qed.

Lemma stepB : forall H D W w s o, InvB H D W w s -> InvB H D W (w ++ chunk_of o) (step e s o).
Proof.
  intros H D W w s o I.
  destruct o; simpl chunk_of; rewrite ?app_nil_r.
  1,2,3,6: destruct I as [I1 I2 I3 I4 I7 I8 [fl [I5 I6]]]; destruct s as [s k wc];
    destruct s as [hd0 buf0 wr gzf gzo gv wh sn er]; simpl in *;
    constructor; simpl; auto; exists fl; split; auto;
    unfold gz_inv in *; destruct D; simpl in *; auto.
  - (* Write *)
    destruct I as [I1 I2 I3 I4 I7 I8 [fl [I5 I6]]]. destruct s as [s k wc].
    destruct s as [hd0 buf0 wr gzf gzo gv wh sn er]. simpl in *.
    constructor; simpl; auto. exists fl. split.
    + rewrite concat_snoc. rewrite I5. rewrite app_assoc. reflexivity.
    + unfold gz_inv in *. destruct D; simpl in *; auto.
  - (* Flush *)
    pose proof (flushB H D W w s false I) as F. cbv zeta in F.
    destruct F as [F1 [F2 [F3 [F4 [F5 [F6 F7]]]]]].
    simpl step. constructor; auto.
    + destruct I; auto.
    + exists w. rewrite F5. simpl. rewrite app_nil_r. auto.
Qed.

Lemma execB : forall p H D W w s, InvB H D W w s -> InvB H D W (w ++ writes p) (exec e p s).
Proof.
  induction p as [|o p IH]; intros H D W w s I.
  - simpl. rewrite app_nil_r. exact I.
  - unfold exec in *. simpl fold_left.
    replace (w ++ writes (o :: p)) with ((w ++ chunk_of o) ++ writes p)
      by (unfold writes; simpl; rewrite app_assoc; reflexivity).
    apply IH. apply stepB. exact I.
Qed.

(* what the run looks like at the end *)
Definition Final (Hd : bytes -> hdrs) (H0 : hdrs) (D : bool) (W : N) (all : bytes) (s : hs c) : Prop :=
  err (core s) = false /\ wcode s = W /\
  if D then exists hist g o, gz_run c g0 hist = (g, o)
                             /\ concat (sent (core s)) = o0 ++ o ++ gz_close c g
                             /\ gz_data hist = all
                             /\ w_hdrs (core s) = Some (Hd (concat (sent (core s))))
  else concat (sent (core s)) = all /\ w_hdrs (core s) = Some H0.

Lemma finishB : forall H D W w s fin, InvB H D W w s ->
  exists s', finish e fin s = Some s' /\ Final (fun _ => H) H D W (w ++ fin_bytes fin) s'.
Proof.
  intros H D W w s fin I.
  assert (I' : InvB H D W (w ++ fin_bytes fin) (match fin with Some d => step e s (Write d) | None => s end)).
  { destruct fin as [d|]; simpl fin_bytes.
    - apply (stepB H D W w s (Write d) I).
    - rewrite app_nil_r. exact I. }
  unfold finish. remember (match fin with Some d => step e s (Write d) | None => s end) as s1 eqn:Es1. clear Es1 I.
  pose proof (flushB H D W _ s1 true I') as F. cbv zeta in F.
  destruct I' as [I1 _ _ _ _ _ _]. rewrite I1.
  eexists. split. reflexivity.
  destruct F as [F1 [F2 [F3 [F4 [F5 F6]]]]].
  unfold Final. split; auto. split; auto.
  destruct D.
  - destruct F6 as [hist [g [o [G1 [G2 G3]]]]]. exists hist, g, o. auto.
  - auto.
Qed.

(* the first flush, from phase A *)
Definition Dec (h : hdrs) (k : N) (chunk : bytes) (f : bool) : bool :=
  compress e && ae_gzip e && gzip_decision (vary_step h) k chunk f.
Definition Hdr0 (h : hdrs) : hdrs := if compress e then vary_step h else h.
Definition HdrB (h : hdrs) : hdrs :=
  let h2 := hset K_CE V_GZIP (vary_step h) in if hmem K_CL h2 then hdel K_CL h2 else h2.
Definition HdrF (h : hdrs) (enc : bytes) : hdrs :=
  let h2 := hset K_CE V_GZIP (vary_step h) in if hmem K_CL h2 then hset K_CL (dec_len enc) h2 else h2.

Lemma Dec_comp : forall h k ch f, Dec h k ch f = true -> compress e = true.
Proof. intros h k ch f H. unfold Dec in H. destruct (compress e); auto. Qed.

Lemma firstB : forall h bs k wc,
  InvB (if Dec h k (concat bs) false then HdrB h else Hdr0 h) (Dec h k (concat bs) false) k
       (concat bs) (do_flush e false (mkHs (stA h bs) k wc)).
Proof.
  intros h bs k wc. unfold do_flush, flush, stA, Dec, Hdr0. simpl. rewrite NH.
  destruct (compress e) eqn:CP; simpl.
  - unfold transform_first_chunk. simpl.
    destruct (if ae_gzip e then gzip_decision (vary_step h) k (concat bs) false else false) eqn:ED;
      [replace (ae_gzip e && gzip_decision (vary_step h) k (concat bs) false) with true
         by (destruct (ae_gzip e); auto)
      |replace (ae_gzip e && gzip_decision (vary_step h) k (concat bs) false) with false
         by (destruct (ae_gzip e); auto)].
    + rewrite open_eq. unfold transform_chunk. simpl.
      destruct (gz_write c g0 (concat bs)) as [g1 o1] eqn:EW.
      destruct (gz_flush c g1) as [g2 o2] eqn:EF. simpl.
      constructor; simpl; auto.
      exists (concat bs). split. rewrite app_nil_r. reflexivity.
      unfold gz_inv. exists [GW (concat bs); GF], g2, (o1 ++ o2). repeat split; auto.
      * simpl. rewrite EW, EF. rewrite app_nil_r. reflexivity.
      * simpl. rewrite app_nil_r. reflexivity.
      * simpl. rewrite !app_nil_r. reflexivity.
    + constructor; simpl; auto; try discriminate.
      exists (concat bs). split. rewrite app_nil_r. reflexivity.
      unfold gz_inv. simpl. rewrite app_nil_r. reflexivity.
  - constructor; simpl; auto; try discriminate.
    exists (concat bs). split. rewrite app_nil_r. reflexivity.
    unfold gz_inv. simpl. rewrite app_nil_r. reflexivity.
Qed.

Lemma firstF : forall h bs k wc,
  Final (HdrF h) (Hdr0 h) (Dec h k (concat bs) true) k (concat bs) (do_flush e true (mkHs (stA h bs) k wc)).
Proof.
  intros h bs k wc. unfold do_flush, flush, stA, Dec, Hdr0, Final. simpl. rewrite NH.
  destruct (compress e) eqn:CP; simpl.
  - unfold transform_first_chunk. simpl.
    destruct (if ae_gzip e then gzip_decision (vary_step h) k (concat bs) true else false) eqn:ED;
      [replace (ae_gzip e && gzip_decision (vary_step h) k (concat bs) true) with true
         by (destruct (ae_gzip e); auto)
      |replace (ae_gzip e && gzip_decision (vary_step h) k (concat bs) true) with false
         by (destruct (ae_gzip e); auto)].
    + rewrite open_eq. unfold transform_chunk. simpl.
      destruct (gz_write c g0 (concat bs)) as [g1 o1] eqn:EW. simpl.
      split; auto. split; auto.
      exists [GW (concat bs)], g1, o1. repeat split; auto.
      * simpl. rewrite EW. rewrite app_nil_r. reflexivity.
      * rewrite app_nil_r. reflexivity.
      * simpl. rewrite app_nil_r. reflexivity.
      * rewrite app_nil_r. unfold HdrF. reflexivity.
    + simpl. split; auto. split; auto. split; auto. rewrite app_nil_r. reflexivity.
  - split; auto. split; auto. split; auto. rewrite app_nil_r. reflexivity.
Qed.

(* ---------- every run, in closed form ---------- *)
Theorem run_spec : forall prog fin,
  if assertion_fails prog fin then run c e prog fin = None
  else exists s, run c e prog fin = Some s /\
       Final (hdr_gz prog fin) (hdr_plain e prog fin) (decision e prog fin) (status_at prog)
             (writes prog ++ fin_bytes fin) s.
Proof.
  intros prog fin. unfold run, assertion_fails.
  change (init c e) with (stA init_hd []).
  destruct (has_flush prog) eqn:HF.
  - (* flushed at least once *)
    simpl negb. simpl andb.
    assert (EX : exec e prog (mkHs (stA init_hd []) 200 200) =
                 exec e (after_flush prog) (step e (exec e (before_flush prog) (mkHs (stA init_hd []) 200 200)) Flush)).
    { rewrite (split_flush prog HF) at 1. unfold exec. rewrite fold_left_app. reflexivity. }
    rewrite EX. clear EX.
    destruct (execA (before_flush prog) init_hd [] 200 200 (before_no_flush prog)) as [bs [E1 [E2 _]]].
    rewrite E1. simpl in E2.
    fold (handler_hdrs prog). fold (status_at prog).
    pose proof (firstB (handler_hdrs prog) bs (status_at prog) 200) as IB.
    simpl step.
    eapply execB in IB. eapply finishB in IB. destruct IB as [s' [ES IB]].
    exists s'. split. exact ES.
    rewrite E2 in IB. rewrite <- app_assoc in IB. rewrite (app_assoc (writes (before_flush prog))) in IB.
    rewrite <- writes_split in IB by exact HF.
    unfold decision, hdr_gz, hdr_plain, final_hdrs, eff_hdrs, first_chunk. rewrite HF. simpl negb. simpl orb.
    unfold Dec, Hdr0 in IB. unfold Final in *.
    destruct IB as [IB1 [IB0 IB2]]. split. exact IB1. split. exact IB0.
    destruct (compress e && ae_gzip e &&
              gzip_decision (vary_step (handler_hdrs prog)) (status_at prog) (writes (before_flush prog)) false) eqn:ED.
    + destruct IB2 as [hist [g [o [G1 [G2 [G3 G4]]]]]].
      exists hist, g, o. repeat split; auto.
    + exact IB2.
  - (* single chunk *)
    simpl negb. rewrite andb_true_l.
    assert (EX : exec e prog (mkHs (stA init_hd []) 200 200) = exec e (before_flush prog) (mkHs (stA init_hd []) 200 200))
      by (rewrite (no_flush_before prog HF); reflexivity).
    rewrite EX. clear EX.
    destruct (execA (before_flush prog) init_hd [] 200 200 (before_no_flush prog)) as [bs [E1 [E2 E3]]].
    rewrite E1. simpl in E2. simpl in E3. fold (handler_hdrs prog). fold (status_at prog).
    rewrite (no_flush_before prog HF) in E2, E3.
    unfold finish.
    set (bs1 := match fin with Some d => bs ++ [d] | None => bs end).
    assert (EB : concat bs1 = writes prog ++ fin_bytes fin).
    { unfold bs1. destruct fin as [d|]; simpl.
      - rewrite concat_snoc. rewrite E2. reflexivity.
      - rewrite app_nil_r. exact E2. }
    assert (EN : lnil bs1 = negb (wrote prog fin)).
    { unfold bs1, wrote. destruct fin as [d|].
      - rewrite lnil_app. simpl. rewrite andb_false_r, orb_true_r. reflexivity.
      - rewrite E3. rewrite orb_false_r. reflexivity. }
    replace (match fin with
             | Some d => step e (mkHs (stA (handler_hdrs prog) bs) (status_at prog) 200) (Write d)
             | None => mkHs (stA (handler_hdrs prog) bs) (status_at prog) 200 end)
      with (mkHs (stA (handler_hdrs prog) bs1) (status_at prog) 200) by (unfold bs1; destruct fin; reflexivity).
    simpl core. simpl written. cbv iota. simpl code. simpl wcode. simpl hd. simpl buf.
    unfold decision, hdr_gz, hdr_plain, final_hdrs, eff_hdrs, first_chunk. rewrite HF. simpl negb. rewrite orb_false_l.
    destruct (bodiless (status_at prog)) eqn:EBL.
    + (* 204 / 304 / 1xx *)
      rewrite andb_true_l.
      destruct bs1 as [|x bs2] eqn:EBS; simpl in EN.
      * rewrite <- (negb_involutive (wrote prog fin)). rewrite <- EN. simpl negb. cbv iota.
        eexists. split. reflexivity.
        pose proof (firstF (clear_repr (handler_hdrs prog)) [] (status_at prog) 200) as IF.
        simpl concat in IF. simpl concat in EB. rewrite <- EB.
        unfold Dec, HdrF, Hdr0 in IF. exact IF.
      * rewrite <- (negb_involutive (wrote prog fin)). rewrite <- EN. reflexivity.
    + rewrite andb_false_l.
      destruct (hmem K_CL (handler_hdrs prog)) eqn:ECL.
      * eexists. split. reflexivity.
        pose proof (firstF (handler_hdrs prog) bs1 (status_at prog) 200) as IF.
        rewrite EB in IF. unfold Dec, HdrF, Hdr0 in IF. exact IF.
      * eexists. split. reflexivity. rewrite EB.
        pose proof (firstF (hset K_CL (dec_len (writes prog ++ fin_bytes fin)) (handler_hdrs prog)) bs1 (status_at prog) 200) as IF.
        rewrite EB in IF. unfold Dec, HdrF, Hdr0 in IF. exact IF.
Qed.

End Run.
