(* C29 — the run of every handler program in closed form (phase invariant). *)
From Coq Require Import String.
From Coq Require Import List NArith Bool Arith Lia.
Import ListNotations.
From TV Require Import Lib.Obs C29.Model C29.Run C29.Proofs1.
Local Open Scope N_scope.

(* ---------- splitting a program at its first flush ---------- *)
Fixpoint after_flush (p : list op) : list op :=
  match p with [] => [] | Flush :: t => t | _ :: t => after_flush t end.

Lemma split_flush : forall p, has_flush p = true -> p = before_flush p ++ Flush :: after_flush p.
Proof.
  induction p as [|o p IH]; simpl; intro H; try discriminate.
  destruct o; simpl; try (f_equal; auto); reflexivity.
Qed.
Lemma before_no_flush : forall p, has_flush (before_flush p) = false.
Proof. induction p as [|o p IH]; simpl; auto. destruct o; simpl; auto. Qed.
Lemma no_flush_before : forall p, has_flush p = false -> before_flush p = p.
Proof.
  induction p as [|o p IH]; simpl; intro H; auto.
  destruct o; try discriminate; f_equal; auto.
Qed.
Lemma writes_app : forall p q, writes (p ++ q) = writes p ++ writes q.
Proof. intros. unfold writes. apply flat_map_app. Qed.
Lemma writes_split : forall p, has_flush p = true ->
  writes p = writes (before_flush p) ++ writes (after_flush p).
Proof.
  intros p H. rewrite (split_flush p H) at 1. rewrite writes_app. reflexivity.
Qed.
Lemma concat_snoc : forall (bs : list bytes) d, concat (bs ++ [d]) = concat bs ++ d.
Proof. intros. rewrite concat_app. simpl. rewrite app_nil_r. reflexivity. Qed.

(* ---------- closed forms of the decision and of the header block ---------- *)
(* headers presented to transform_first_chunk: the handler's own, plus the Content-Length
   that finish() computes when nothing was flushed and the handler set none *)
Definition hh1 (prog : list op) (fin : option bytes) : hdrs :=
  let hh := handler_hdrs prog in
  if has_flush prog then hh
  else if hmem K_CL hh then hh
  else hset K_CL (dec_len (first_chunk prog fin)) hh.

Definition decision (e : env) (prog : list op) (fin : option bytes) : bool :=
  ae_gzip e && gzip_decision (vary_step (hh1 prog fin)) (first_chunk prog fin) (negb (has_flush prog)).

(* header block when compressing; [enc] = the encoded body *)
Definition hdr_gz (prog : list op) (fin : option bytes) (enc : bytes) : hdrs :=
  let h2 := hset K_CE V_GZIP (vary_step (hh1 prog fin)) in
  if hmem K_CL h2 then (if has_flush prog then hdel K_CL h2 else hset K_CL (dec_len enc) h2) else h2.

Section Run.
Variable c : codec.
Variable e : env.
Hypothesis NH : is_head e = false.

Definition g0 := fst (gz_open c).
Definition o0 := snd (gz_open c).
Lemma open_eq : gz_open c = (g0, o0).
Proof. unfold g0, o0. destruct (gz_open c); reflexivity. Qed.

(* phase A: nothing flushed yet *)
Definition stA (h : hdrs) (bs : list bytes) : st c :=
  mkSt h bs false (ae_gzip e) None [] None [] false.

Lemma execA : forall p h bs, has_flush p = false ->
  exists bs', exec e p (stA h bs) = stA (fold_left (fun h o => hdr_op o h) p h) bs'
              /\ concat bs' = concat bs ++ writes p.
Proof.
  induction p as [|o p IH]; intros h bs H.
  - exists bs. simpl. rewrite app_nil_r. auto.
  - destruct o; simpl in H; try discriminate;
      unfold exec in *; simpl fold_left.
    + apply (IH _ bs H).
    + apply (IH _ bs H).
    + apply (IH _ bs H).
    + destruct (IH h (bs ++ [chunk]) H) as [bs' [E1 E2]].
      exists bs'. split. exact E1. rewrite E2. rewrite concat_snoc.
      unfold writes. simpl. rewrite app_assoc. reflexivity.
Qed.

(* phase B: header block written with headers H, transform decided D *)
Definition gz_inv (D : bool) (flushed : bytes) (s : st c) : Prop :=
  if D then exists hist g o, gz s = Some g /\ gval s = [] /\ gz_run c g0 hist = (g, o)
                             /\ concat (sent s) = o0 ++ o /\ gz_data hist = flushed
  else concat (sent s) = flushed.

Record InvB (H : hdrs) (D : bool) (w : bytes) (s : st c) : Prop := {
  ib_written : written s = true;
  ib_err : err s = false;
  ib_hdrs : w_hdrs s = Some H;
  ib_gzf : gzipping s = D;
  ib_data : exists flushed, w = flushed ++ concat (buf s) /\ gz_inv D flushed s
}.

Lemma stepB : forall H D w s o, InvB H D w s -> InvB H D (w ++ chunk_of o) (step e s o).
Proof.
  intros H D w s o [I1 I2 I3 I4 [fl [I5 I6]]].
  destruct s as [hd0 buf0 wr gzf gzo gv wh sn er]. simpl in *. subst wr er gzf.
  destruct o; simpl.
  - (* SetH *) rewrite app_nil_r. constructor; simpl; auto. exists fl. split; auto;
    try (unfold gz_inv in *; destruct D; simpl in *; auto).
  - rewrite app_nil_r. constructor; simpl; auto. exists fl. split; auto;
    try (unfold gz_inv in *; destruct D; simpl in *; auto).
  - rewrite app_nil_r. constructor; simpl; auto. exists fl. split; auto;
    try (unfold gz_inv in *; destruct D; simpl in *; auto).
  - (* Write *) constructor; simpl; auto. exists fl. split.
    + rewrite concat_snoc. rewrite I5. rewrite app_assoc. reflexivity.
    + unfold gz_inv in *. destruct D; simpl in *; auto.
  - (* Flush *) rewrite app_nil_r. unfold flush. simpl. rewrite NH. unfold transform_chunk. simpl.
    unfold gz_inv in I6. destruct D; simpl in *.
    + destruct I6 as [hist [g [o [G1 [G2 [G3 [G4 G5]]]]]]]. subst gzo gv.
      destruct (gz_write c g (concat buf0)) as [g1 o1] eqn:EW.
      destruct (gz_flush c g1) as [g2 o2] eqn:EF.
      constructor; simpl; auto.
      exists (fl ++ concat buf0). split. rewrite app_nil_r. exact I5.
      unfold gz_inv. simpl.
      exists (hist ++ [GW (concat buf0); GF]), g2, (o ++ o1 ++ o2). repeat split; auto.
      * rewrite gz_run_app. rewrite G3. simpl. rewrite EW. rewrite EF. rewrite app_nil_r. reflexivity.
      * rewrite concat_snoc. rewrite G4. simpl. rewrite <- !app_assoc. reflexivity.
      * rewrite gz_data_app. rewrite G5. simpl. rewrite !app_nil_r. reflexivity.
    + constructor; simpl; auto.
      exists (fl ++ concat buf0). split. rewrite app_nil_r. exact I5.
      unfold gz_inv. simpl. rewrite concat_snoc. rewrite I6. reflexivity.
Qed.

Lemma execB : forall p H D w s, InvB H D w s -> InvB H D (w ++ writes p) (exec e p s).
Proof.
  induction p as [|o p IH]; intros H D w s I.
  - simpl. rewrite app_nil_r. exact I.
  - unfold exec in *. simpl fold_left.
    replace (w ++ writes (o :: p)) with ((w ++ chunk_of o) ++ writes p)
      by (unfold writes; simpl; rewrite app_assoc; reflexivity).
    apply IH. apply stepB. exact I.
Qed.

(* what the run looks like at the end *)
Definition Final (Hd : bytes -> hdrs) (H0 : hdrs) (D : bool) (all : bytes) (s : st c) : Prop :=
  err s = false /\
  if D then exists hist g o, gz_run c g0 hist = (g, o)
                             /\ concat (sent s) = o0 ++ o ++ gz_close c g
                             /\ gz_data hist = all
                             /\ w_hdrs s = Some (Hd (concat (sent s)))
  else concat (sent s) = all /\ w_hdrs s = Some H0.

Lemma finishB : forall H D w s fin, InvB H D w s ->
  Final (fun _ => H) H D (w ++ fin_bytes fin) (finish e fin s).
Proof.
  intros H D w s fin I.
  assert (I' : InvB H D (w ++ fin_bytes fin) (match fin with Some d => push s d | None => s end)).
  { destruct fin as [d|]; simpl.
    - apply (stepB H D w s (Write d) I).
    - rewrite app_nil_r. exact I. }
  unfold finish. remember (match fin with Some d => push s d | None => s end) as s1 eqn:Es1. clear Es1 I.
  destruct I' as [I1 I2 I3 I4 [fl [I5 I6]]]. rewrite I1.
  destruct s1 as [hd0 buf0 wr gzf gzo gv wh sn er]. simpl in *. subst wr er gzf.
  unfold flush. simpl. rewrite NH. unfold transform_chunk. simpl.
  unfold gz_inv in I6. unfold Final. destruct D; simpl in *.
  - destruct I6 as [hist [g [o [G1 [G2 [G3 [G4 G5]]]]]]]. subst gzo gv.
    destruct (gz_write c g (concat buf0)) as [g1 o1] eqn:EW. simpl.
    split; auto.
    exists (hist ++ [GW (concat buf0)]), g1, (o ++ o1). repeat split; auto.
    + rewrite gz_run_app. rewrite G3. simpl. rewrite EW. rewrite app_nil_r. reflexivity.
    + rewrite concat_snoc. rewrite G4. simpl. rewrite <- !app_assoc. reflexivity.
    + rewrite gz_data_app. rewrite G5. simpl. rewrite !app_nil_r. symmetry. exact I5.
  - split; auto. split; auto. rewrite concat_snoc. rewrite I6. symmetry. exact I5.
Qed.

(* the first flush, from phase A *)
Definition Dec (h : hdrs) (chunk : bytes) (f : bool) : bool :=
  ae_gzip e && gzip_decision (vary_step h) chunk f.
Definition HdrB (h : hdrs) : hdrs :=
  let h2 := hset K_CE V_GZIP (vary_step h) in if hmem K_CL h2 then hdel K_CL h2 else h2.
Definition HdrF (h : hdrs) (enc : bytes) : hdrs :=
  let h2 := hset K_CE V_GZIP (vary_step h) in if hmem K_CL h2 then hset K_CL (dec_len enc) h2 else h2.

Lemma firstB : forall h bs,
  InvB (if Dec h (concat bs) false then HdrB h else vary_step h) (Dec h (concat bs) false)
       (concat bs) (flush e false (stA h bs)).
Proof.
  intros h bs. unfold flush, stA. simpl. rewrite NH. unfold transform_first_chunk. simpl.
  fold (Dec h (concat bs) false).
  change (if ae_gzip e then gzip_decision (vary_step h) (concat bs) false else false)
    with (Dec h (concat bs) false).
  destruct (Dec h (concat bs) false) eqn:ED.
  - rewrite open_eq. unfold transform_chunk. simpl.
    destruct (gz_write c g0 (concat bs)) as [g1 o1] eqn:EW.
    destruct (gz_flush c g1) as [g2 o2] eqn:EF. simpl.
    constructor; simpl; auto.
    exists (concat bs). split. rewrite app_nil_r. reflexivity.
    unfold gz_inv. exists [GW (concat bs); GF], g2, (o1 ++ o2). repeat split; auto.
    + simpl. rewrite EW, EF. rewrite app_nil_r. reflexivity.
    + rewrite app_nil_r. reflexivity.
    + simpl. rewrite !app_nil_r. reflexivity.
  - constructor; simpl; auto.
    exists (concat bs). split. rewrite app_nil_r. reflexivity.
    unfold gz_inv. rewrite app_nil_r. reflexivity.
Qed.

Lemma firstF : forall h bs,
  Final (HdrF h) (vary_step h) (Dec h (concat bs) true) (concat bs) (flush e true (stA h bs)).
Proof.
  intros h bs. unfold flush, stA. simpl. rewrite NH. unfold transform_first_chunk. simpl.
  change (if ae_gzip e then gzip_decision (vary_step h) (concat bs) true else false)
    with (Dec h (concat bs) true).
  unfold Final.
  destruct (Dec h (concat bs) true) eqn:ED.
  - rewrite open_eq. unfold transform_chunk. simpl.
    destruct (gz_write c g0 (concat bs)) as [g1 o1] eqn:EW. simpl.
    split; auto.
    exists [GW (concat bs)], g1, o1. repeat split; auto.
    + simpl. rewrite EW. rewrite app_nil_r. reflexivity.
    + rewrite app_nil_r. reflexivity.
    + simpl. rewrite app_nil_r. reflexivity.
    + rewrite app_nil_r. unfold HdrF. reflexivity.
  - simpl. split; auto. split; auto. rewrite app_nil_r. reflexivity.
Qed.

(* ---------- every run, in closed form ---------- *)
Theorem run_spec : forall prog fin,
  Final (hdr_gz prog fin) (vary_step (hh1 prog fin)) (decision e prog fin)
        (writes prog ++ fin_bytes fin) (run c e prog fin).
Proof.
  intros prog fin. unfold run. change (init c e) with (stA init_hd []).
  destruct (has_flush prog) eqn:HF.
  - (* flushed at least once *)
    assert (EX : exec e prog (stA init_hd []) =
                 exec e (after_flush prog) (step e (exec e (before_flush prog) (stA init_hd [])) Flush)).
    { rewrite (split_flush prog HF) at 1. unfold exec. rewrite fold_left_app. reflexivity. }
    rewrite EX. clear EX.
    destruct (execA (before_flush prog) init_hd [] (before_no_flush prog)) as [bs [E1 E2]].
    rewrite E1. simpl in E2.
    fold (handler_hdrs prog).
    pose proof (firstB (handler_hdrs prog) bs) as IB.
    change (step e (stA (handler_hdrs prog) bs) Flush) with (flush e false (stA (handler_hdrs prog) bs)).
    eapply execB in IB. eapply finishB in IB. unfold exec in IB.
    rewrite E2 in IB. rewrite <- app_assoc in IB. rewrite (app_assoc (writes (before_flush prog))) in IB.
    rewrite <- writes_split in IB by exact HF.
    unfold decision, hdr_gz, hh1, first_chunk. rewrite HF. simpl negb.
    unfold Dec in IB. unfold Final in *.
    destruct IB as [IB1 IB2]. split. exact IB1.
    destruct (ae_gzip e && gzip_decision (vary_step (handler_hdrs prog)) (writes (before_flush prog)) false) eqn:ED.
    + destruct IB2 as [hist [g [o [G1 [G2 [G3 G4]]]]]].
      exists hist, g, o. repeat split; auto.
    + exact IB2.
  - (* single chunk *)
    assert (EX : exec e prog (stA init_hd []) = exec e (before_flush prog) (stA init_hd []))
      by (rewrite (no_flush_before prog HF); reflexivity).
    rewrite EX. clear EX.
    destruct (execA (before_flush prog) init_hd [] (before_no_flush prog)) as [bs [E1 E2]].
    rewrite E1. simpl in E2. fold (handler_hdrs prog).
    rewrite (no_flush_before prog HF) in E2.
    unfold finish.
    set (bs1 := match fin with Some d => bs ++ [d] | None => bs end).
    assert (EB : concat bs1 = writes prog ++ fin_bytes fin).
    { unfold bs1. destruct fin as [d|]; simpl.
      - rewrite concat_snoc. rewrite E2. reflexivity.
      - rewrite app_nil_r. exact E2. }
    replace (match fin with Some d => push (stA (handler_hdrs prog) bs) d | None => stA (handler_hdrs prog) bs end)
      with (stA (handler_hdrs prog) bs1) by (unfold bs1; destruct fin; reflexivity).
    simpl written. cbv iota. simpl hd. simpl buf.
    replace (if hmem K_CL (handler_hdrs prog) then stA (handler_hdrs prog) bs1
             else set_hd (stA (handler_hdrs prog) bs1) (hset K_CL (dec_len (concat bs1)) (handler_hdrs prog)))
      with (stA (hh1 prog fin) bs1).
    2:{ unfold hh1, first_chunk. rewrite HF. rewrite EB.
        destruct (hmem K_CL (handler_hdrs prog)); reflexivity. }
    pose proof (firstF (hh1 prog fin) bs1) as IF.
    rewrite EB in IF.
    unfold decision, hdr_gz, first_chunk. rewrite HF. simpl negb.
    unfold Dec, HdrF in IF. exact IF.
Qed.

End Run.
