(* C29 — executable entry points for the correspondence check, and the property as a
   boolean checker on observables (applied to the IMPLEMENTATION's observable).
   Definitions only. *)
From Coq Require Import String.
From Coq Require Import List NArith ZArith Bool Arith.
Import ListNotations.
From TV Require Import Lib.Obs C29.Model.
Local Open Scope N_scope.

(* what the fake connection saw: the status code and the four relevant headers (get_list) as handed
   to write_headers, and the chunks handed to write_headers / write *)
Record resp := mkResp {
  r_status : N;
  r_vary : list bytes; r_ce : list bytes; r_cl : list bytes; r_ct : list bytes;
  r_sent : list bytes
}.

Inductive outcome := NoHeaders | GzipError | AssertFail | Resp (r : resp).

Definition outcome_of {c} (o : option (hs c)) : outcome :=
  match o with
  | None => AssertFail
  | Some hs =>
      let s := core hs in
      if err s then GzipError else
      match w_hdrs s with
      | None => NoHeaders
      | Some h => Resp (mkResp (wcode hs) (hlist K_VARY h) (hlist K_CE h) (hlist K_CL h) (hlist K_CT h) (sent s))
      end
  end.

Definition obs_of (o : outcome) : obs :=
  match o with
  | NoHeaders => OTag "NoHeaders"
  | GzipError => OTag "GzipError"
  | AssertFail => OTag "AssertionError"
  | Resp r => OList [OInt (Z.of_N (r_status r));
                     OList (map OBytes (r_vary r)); OList (map OBytes (r_ce r)); OList (map OBytes (r_cl r));
                     OList (map OBytes (r_ct r)); OList (map OBytes (r_sent r))]
  end.

(* input: (toy codec? (false = real gzip, canonicalised to the transparent codec), HEAD request?,
           compress_response setting, Accept-Encoding request header values in order,
           handler program, finish(chunk) argument) *)
Definition input := (bool * bool * bool * list bytes * list op * option bytes)%type.

(* request.headers.get("Accept-Encoding"): absent, or the values joined by "," *)
Definition ae_of (vals : list bytes) : option bytes :=
  match vals with [] => None | _ => Some (join_comma vals) end.

(* compact chunk literal used by the harness: n bytes a, a+s, a+2s, ... (mod 256) *)
Fixpoint pat (n : nat) (a s : N) : bytes :=
  match n with O => [] | S k => a :: pat k ((a + s) mod 256) s end.

Definition run_outcome (i : input) : outcome :=
  let '(toy_mode, head, comp, aes, prog, fin) := i in
  let e := {| is_head := head; accept_enc := ae_of aes; compress := comp |} in
  if toy_mode then outcome_of (run toy e prog fin) else outcome_of (run sym e prog fin).
Definition run_case (i : input) : obs := obs_of (run_outcome i).

(* ---------- reading an observable back ---------- *)
Fixpoint bytes_list (l : list obs) : option (list bytes) :=
  match l with
  | [] => Some []
  | OBytes x :: t => match bytes_list t with Some r => Some (x :: r) | None => None end
  | _ => None
  end.
Definition resp_of_obs (o : obs) : option resp :=
  match o with
  | OList [OInt z; OList a; OList b'; OList c; OList d; OList s] =>
      match bytes_list a, bytes_list b', bytes_list c, bytes_list d, bytes_list s with
      | Some a, Some b', Some c, Some d, Some s => Some (mkResp (Z.to_N z) a b' c d s)
      | _, _, _, _, _ => None
      end
  | _ => None
  end.

(* ---------- the property, stated on the response and the handler program only ---------- *)
(* comma-separated fields of a header value, and OWS trimming *)
Fixpoint fields (l : bytes) : list bytes :=
  match l with
  | [] => [[]]
  | x :: t => if x =? 44 then [] :: fields t
              else match fields t with w :: ws => (x :: w) :: ws | [] => [[x]] end
  end.
Fixpoint lstrip (l : bytes) : bytes :=
  match l with x :: t => if (x =? 32) || (x =? 9) then lstrip t else l | [] => [] end.
Definition strip (l : bytes) : bytes := rev (lstrip (rev (lstrip l))).
Definition vary_mentions_ae (vals : list bytes) : bool :=
  existsb (fun v => existsb (fun f => beqb (strip f) V_AE) (fields v)) vals.

(* what the handler did, read off the program *)
Fixpoint before_flush (p : list op) : list op :=
  match p with [] => [] | Flush :: _ => [] | o :: t => o :: before_flush t end.
Fixpoint has_flush (p : list op) : bool :=
  match p with [] => false | Flush :: _ => true | _ :: t => has_flush t end.
Definition chunk_of (o : op) : bytes := match o with Write d => d | _ => [] end.
Definition writes (p : list op) : bytes := flat_map chunk_of p.
Definition fin_bytes (fin : option bytes) : bytes := match fin with Some d => d | None => [] end.
(* the handler's own headers / status when the header block is produced (first flush, else finish) *)
Definition handler_hdrs (p : list op) : hdrs := fold_left (fun h o => hdr_op o h) (before_flush p) init_hd.
Definition status_op (code : N) (o : op) : N := match o with Status n => n | _ => code end.
Definition status_at (p : list op) : N := fold_left status_op (before_flush p) 200.
(* write() was called at all before the header block (finish's assertion looks at the list, not its bytes) *)
Definition is_write (o : op) : bool := match o with Write _ => true | _ => false end.
Definition wrote (p : list op) (fin : option bytes) : bool :=
  existsb is_write p || match fin with Some _ => true | None => false end.
(* finish() without a previous flush and with a bodiless status asserts that nothing was written *)
Definition assertion_fails (p : list op) (fin : option bytes) : bool :=
  negb (has_flush p) && bodiless (status_at p) && wrote p fin.
(* ... and then drops the representation headers *)
Definition eff_hdrs (p : list op) : hdrs :=
  if has_flush p then handler_hdrs p
  else if bodiless (status_at p) then clear_repr (handler_hdrs p) else handler_hdrs p.
(* the chunk presented to transform_first_chunk *)
Definition first_chunk (p : list op) (fin : option bytes) : bytes :=
  if has_flush p then writes (before_flush p) else writes p ++ fin_bytes fin.
(* the header block without any transform: finish() adds Content-Length when nothing was flushed,
   the status may have a body and the handler set none *)
Definition final_hdrs (p : list op) (fin : option bytes) : hdrs :=
  let h := eff_hdrs p in
  if has_flush p || bodiless (status_at p) then h
  else if hmem K_CL h then h
  else hset K_CL (dec_len (first_chunk p fin)) h.

Definition list_beqb (x y : list bytes) : bool := list_eqb beqb x y.
Definition is_nil (x : bytes) : bool := match x with [] => true | _ => false end.

Definition mentions_gzip (ae : option bytes) : bool :=
  has_sub V_GZIP (match ae with Some v => v | None => [] end).

(* the decision, from the request, the handler's headers and the program only *)
Definition expected_gzip (ae : option bytes) (prog : list op) (fin : option bytes) (ctype : list bytes) : bool :=
  mentions_gzip ae
  && compressible (before_semi (join_comma ctype))
  && (has_flush prog || (MIN_LENGTH <=? List.length (first_chunk prog fin))%nat)
  && negb (hmem K_CE (eff_hdrs prog))
  && status_ok (status_at prog).

Definition check_resp (gunzip : bytes -> option bytes) (head comp : bool) (ae : option bytes)
           (prog : list op) (fin : option bytes) (r : resp) : bool :=
  let all := writes prog ++ fin_bytes fin in
  let body := List.concat (r_sent r) in
  let hh := eff_hdrs prog in
  let handler_ce := hmem K_CE hh in
  let handler_cl := hmem K_CL hh in
  let gz := negb handler_ce && list_beqb (r_ce r) [V_GZIP] in
  (* the status code is the handler's *)
  (r_status r =? status_at prog)
  (* a response that cannot have a body and for which nothing was written has no body byte *)
  && (if bodiless (r_status r) && is_nil all then beqb body [] else true)
  && (if comp then
        (* Vary always includes Accept-Encoding *)
        vary_mentions_ae (r_vary r)
        (* a client decoding by Content-Encoding gets exactly the bytes written (nothing for HEAD);
           a Content-Encoding set by the handler itself is left alone, and so is the body *)
        && (if head then beqb body []
            else if handler_ce then beqb body all && list_beqb (r_ce r) (hlist K_CE hh)
            else match r_ce r with
                 | [] => beqb body all
                 | [v] => beqb v V_GZIP && match gunzip body with Some d => beqb d all | None => false end
                 | _ => false
                 end)
        (* compressed exactly when: Accept-Encoding mentions gzip, compressible type, not a short
           single-chunk response, no Content-Encoding of the handler's own *)
        && Bool.eqb gz (expected_gzip ae prog fin (r_ct r))
        (* Content-Length, when present, is the encoded body length (unless the handler set its own
           and the transform did not compress) *)
        && (if gz || negb handler_cl then
              match r_cl r with
              | [] => true
              | [v] => head || beqb v (dec_len body)
              | _ => false
              end
            else true)
      else
        (* no transform configured: header block and body are the handler's *)
        let fh := final_hdrs prog fin in
        list_beqb (r_vary r) (hlist K_VARY fh) && list_beqb (r_ce r) (hlist K_CE fh)
        && list_beqb (r_cl r) (hlist K_CL fh) && list_beqb (r_ct r) (hlist K_CT fh)
        && (if head then beqb body [] else beqb body all)).

(* a client that decodes the body according to the response's Content-Encoding
   (None: an encoding it cannot decode, or a corrupt stream) *)
Definition client_decode (gunzip : bytes -> option bytes) (r : resp) : option bytes :=
  match r_ce r with
  | [] => Some (List.concat (r_sent r))
  | [v] => if beqb v V_GZIP then gunzip (List.concat (r_sent r)) else None
  | _ => None
  end.
Definition GET (ae : option bytes) : env := {| is_head := false; accept_enc := ae; compress := true |}.
Definition HEAD (ae : option bytes) : env := {| is_head := true; accept_enc := ae; compress := true |}.

Definition check_case (i : input) (o : obs) : bool :=
  let '(toy_mode, head, comp, aes, prog, fin) := i in
  match o with
  | OTag t => String.eqb t "AssertionError" && assertion_fails prog fin
  | _ =>
    match resp_of_obs o with
    | Some r => negb (assertion_fails prog fin)
                && check_resp (if toy_mode then toy_gunzip else sym_gunzip) head comp (ae_of aes) prog fin r
    | None => false
    end
  end.
