(* C29 — executable entry points for the correspondence check, and the property as a
   boolean checker on observables (applied to the IMPLEMENTATION's observable).
   Definitions only. *)
From Coq Require Import List NArith String Bool Arith.
Import ListNotations.
From TV Require Import Lib.Obs C29.Model.
Local Open Scope N_scope.

(* what the fake connection saw: the four relevant headers (get_list) as handed to
   write_headers, and the chunks handed to write_headers / write *)
Record resp := mkResp {
  r_vary : list bytes; r_ce : list bytes; r_cl : list bytes; r_ct : list bytes;
  r_sent : list bytes
}.

Inductive outcome := NoHeaders | GzipError | Resp (r : resp).

Definition outcome_of {c} (s : st c) : outcome :=
  if err s then GzipError else
  match w_hdrs s with
  | None => NoHeaders
  | Some h => Resp (mkResp (hlist K_VARY h) (hlist K_CE h) (hlist K_CL h) (hlist K_CT h) (sent s))
  end.

Definition obs_of (o : outcome) : obs :=
  match o with
  | NoHeaders => OTag "NoHeaders"
  | GzipError => OTag "GzipError"
  | Resp r => OList [OList (map OBytes (r_vary r)); OList (map OBytes (r_ce r)); OList (map OBytes (r_cl r));
                     OList (map OBytes (r_ct r)); OList (map OBytes (r_sent r))]
  end.

(* input: (toy codec? (false = real gzip, canonicalised to the transparent codec),
           HEAD request?, Accept-Encoding request header, handler program, finish(chunk) argument) *)
Definition input := (bool * bool * option bytes * list op * option bytes)%type.

(* compact chunk literal used by the harness: n bytes a, a+s, a+2s, ... (mod 256) *)
Fixpoint pat (n : nat) (a s : N) : bytes :=
  match n with O => [] | S k => a :: pat k ((a + s) mod 256) s end.

Definition run_outcome (i : input) : outcome :=
  let '(toy_mode, head, ae, prog, fin) := i in
  let e := {| is_head := head; accept_enc := ae |} in
  if toy_mode then outcome_of (run toy e prog fin) else outcome_of (run sym e prog fin).
Definition run_case (i : input) : obs := obs_of (run_outcome i).

(* ---------- reading an observable back ---------- *)
Fixpoint bytes_list (l : list obs) : option (list bytes) :=
  match l with
  | [] => Some []
  | OBytes x :: t => match bytes_list t with Some r => Some (x :: r) | None => None end
  | _ => None
  end.
Definition resp_of_obs (o : obs) : option resp :=
  match o with
  | OList [OList a; OList b'; OList c; OList d; OList s] =>
      match bytes_list a, bytes_list b', bytes_list c, bytes_list d, bytes_list s with
      | Some a, Some b', Some c, Some d, Some s => Some (mkResp a b' c d s)
      | _, _, _, _, _ => None
      end
  | _ => None
  end.

(* ---------- the property, stated on the response and the handler program only ---------- *)
(* comma-separated fields of a header value, and OWS trimming *)
Fixpoint fields (l : bytes) : list bytes :=
  match l with
  | [] => [[]]
  | x :: t => if x =? 44 then [] :: fields t
              else match fields t with w :: ws => (x :: w) :: ws | [] => [[x]] end
  end.
Fixpoint lstrip (l : bytes) : bytes :=
  match l with x :: t => if (x =? 32) || (x =? 9) then lstrip t else l | [] => [] end.
Definition strip (l : bytes) : bytes := rev (lstrip (rev (lstrip l))).
Definition vary_mentions_ae (vals : list bytes) : bool :=
  existsb (fun v => existsb (fun f => beqb (strip f) V_AE) (fields v)) vals.

(* what the handler did, read off the program *)
Fixpoint before_flush (p : list op) : list op :=
  match p with [] => [] | Flush :: _ => [] | o :: t => o :: before_flush t end.
Fixpoint has_flush (p : list op) : bool :=
  match p with [] => false | Flush :: _ => true | _ :: t => has_flush t end.
Definition chunk_of (o : op) : bytes := match o with Write d => d | _ => [] end.
Definition writes (p : list op) : bytes := flat_map chunk_of p.
Definition fin_bytes (fin : option bytes) : bytes := match fin with Some d => d | None => [] end.
(* the handler's own headers when the first flush happens *)
Definition handler_hdrs (p : list op) : hdrs := fold_left (fun h o => hdr_op o h) (before_flush p) init_hd.
(* the chunk presented to transform_first_chunk *)
Definition first_chunk (p : list op) (fin : option bytes) : bytes :=
  if has_flush p then writes (before_flush p) else writes p ++ fin_bytes fin.

Definition list_beqb (x y : list bytes) : bool := list_eqb beqb x y.

Definition mentions_gzip (ae : option bytes) : bool :=
  has_sub V_GZIP (match ae with Some v => v | None => [] end).

Definition check_resp (gunzip : bytes -> option bytes) (head : bool) (ae : option bytes)
           (prog : list op) (fin : option bytes) (r : resp) : bool :=
  let all := writes prog ++ fin_bytes fin in
  let body := List.concat (r_sent r) in
  let hh := handler_hdrs prog in
  let handler_ce := hmem K_CE hh in
  let handler_cl := hmem K_CL hh in
  let gz := negb handler_ce && list_beqb (r_ce r) [V_GZIP] in
  (* Vary always includes Accept-Encoding *)
  vary_mentions_ae (r_vary r)
  (* a client decoding by Content-Encoding gets exactly the bytes written (nothing for HEAD);
     a Content-Encoding set by the handler itself is left alone, and so is the body *)
  && (if head then beqb body []
      else if handler_ce then beqb body all && list_beqb (r_ce r) (hlist K_CE hh)
      else match r_ce r with
           | [] => beqb body all
           | [v] => beqb v V_GZIP && match gunzip body with Some d => beqb d all | None => false end
           | _ => false
           end)
  (* compressed exactly when: Accept-Encoding mentions gzip, compressible type, not a short
     single-chunk response, no Content-Encoding of the handler's own *)
  && Bool.eqb gz
       (mentions_gzip ae && compressible (before_semi (join_comma (r_ct r)))
        && (has_flush prog || (MIN_LENGTH <=? List.length (first_chunk prog fin))%nat) && negb handler_ce)
  (* Content-Length, when present, is the encoded body length (unless the handler set its own
     and the transform did not compress) *)
  && (if gz || negb handler_cl then
        match r_cl r with
        | [] => true
        | [v] => head || beqb v (dec_len body)
        | _ => false
        end
      else true).

(* a client that decodes the body according to the response's Content-Encoding
   (None: an encoding it cannot decode, or a corrupt stream) *)
Definition client_decode (gunzip : bytes -> option bytes) (r : resp) : option bytes :=
  match r_ce r with
  | [] => Some (List.concat (r_sent r))
  | [v] => if beqb v V_GZIP then gunzip (List.concat (r_sent r)) else None
  | _ => None
  end.
Definition GET (ae : option bytes) : env := {| is_head := false; accept_enc := ae |}.
Definition HEAD (ae : option bytes) : env := {| is_head := true; accept_enc := ae |}.

Definition check_case (i : input) (o : obs) : bool :=
  let '(toy_mode, head, ae, prog, fin) := i in
  match resp_of_obs o with
  | Some r => check_resp (if toy_mode then toy_gunzip else sym_gunzip) head ae prog fin r
  | None => false
  end.
