(* C29 — the statements quoted in Property.v. *)
From Coq Require Import String.
From Coq Require Import List NArith Bool Arith Lia.
Import ListNotations.
From TV Require Import Lib.Obs C29.Model C29.Run C29.Proofs1 C29.Proofs2 C29.Proofs3 C29.Proofs4.
Local Open Scope N_scope.

Lemma transparent : forall c gunzip, codec_ok c gunzip -> forall ae prog fin,
  hmem K_CE (handler_hdrs prog) = false ->
  exists r, outcome_of (run c (GET ae) prog fin) = Resp r /\
            client_decode gunzip r = Some (writes prog ++ fin_bytes fin).
Proof.
  intros c gunzip OK ae prog fin NCE.
  destruct (run_summary_any c false ae prog fin) as [r [R0 [R2 [R3 [R4 [R5 [R6 G]]]]]]].
  exists r. split. exact R0. unfold client_decode. rewrite R4, R6.
  destruct (expected_gzip ae prog fin).
  - rewrite beqb_refl. destruct G as [hist [G1 G2]]. rewrite G1, OK, G2. reflexivity.
  - rewrite (hmem_false_hlist _ _ NCE). rewrite G. reflexivity.
Qed.

Lemma handler_encoding_untouched : forall c ae prog fin,
  hmem K_CE (handler_hdrs prog) = true ->
  exists r, outcome_of (run c (GET ae) prog fin) = Resp r /\
            concat (r_sent r) = writes prog ++ fin_bytes fin /\
            r_ce r = hlist K_CE (handler_hdrs prog).
Proof.
  intros c ae prog fin CE.
  destruct (run_summary_any c false ae prog fin) as [r [R0 [R2 [R3 [R4 [R5 [R6 G]]]]]]].
  exists r. split. exact R0.
  destruct (expected_gzip ae prog fin) eqn:ED.
  - apply expected_no_ce in ED. congruence.
  - rewrite R6. auto.
Qed.

Lemma compressed_iff : forall c head ae prog fin,
  exists r, outcome_of (run c {| is_head := head; accept_enc := ae |} prog fin) = Resp r /\
    r_ct r = hlist K_CT (handler_hdrs prog) /\
    (hmem K_CE (handler_hdrs prog) = false ->
       (r_ce r = [V_GZIP] \/ r_ce r = []) /\
       (r_ce r = [V_GZIP] <->
          mentions_gzip ae = true /\
          compressible (before_semi (join_comma (r_ct r))) = true /\
          (has_flush prog = true \/ (MIN_LENGTH <= length (first_chunk prog fin))%nat))).
Proof.
  intros c head ae prog fin.
  destruct (run_summary_any c head ae prog fin) as [r [R0 [R2 [R3 [R4 [R5 R6]]]]]].
  exists r. split. exact R0. split. exact R3. intro NCE.
  rewrite R4, R3. rewrite (hmem_false_hlist _ _ NCE).
  unfold expected_gzip. rewrite NCE. cbv [negb]. rewrite andb_true_r.
  destruct (mentions_gzip ae); rewrite ?andb_true_l, ?andb_false_l; cbv iota.
  2:{ split; auto. split; intro H; [discriminate|]. destruct H as [H _]; discriminate. }
  destruct (compressible (before_semi (join_comma (hlist K_CT (handler_hdrs prog))))); rewrite ?andb_true_l, ?andb_false_l; cbv iota.
  2:{ split; auto. split; intro H; [discriminate|]. destruct H as [_ [H _]]; discriminate. }
  destruct (has_flush prog); rewrite ?orb_true_l, ?orb_false_l; cbv iota.
  { split; auto. split; auto. }
  destruct (MIN_LENGTH <=? length (first_chunk prog fin))%nat eqn:EL; cbv iota.
  - apply Nat.leb_le in EL. split; auto. split; auto.
  - apply Nat.leb_gt in EL. split; auto. split; intro H; [discriminate|].
    destruct H as [_ [_ [H|H]]]; [discriminate|lia].
Qed.

Lemma vary_always : forall c head ae prog fin,
  exists r, outcome_of (run c {| is_head := head; accept_enc := ae |} prog fin) = Resp r /\
            vary_mentions_ae (r_vary r) = true.
Proof.
  intros c head ae prog fin.
  destruct (run_summary_any c head ae prog fin) as [r [R0 [R2 _]]].
  exists r. auto.
Qed.

Lemma content_length : forall c ae prog fin,
  exists r, outcome_of (run c (GET ae) prog fin) = Resp r /\
    ((r_ce r = [V_GZIP] /\ hmem K_CE (handler_hdrs prog) = false) \/ hmem K_CL (handler_hdrs prog) = false ->
       (r_cl r = [] \/ r_cl r = [dec_len (concat (r_sent r))]) /\
       (has_flush prog = true -> r_cl r = [])).
Proof.
  intros c ae prog fin.
  destruct (run_summary_any c false ae prog fin) as [r [R0 [R2 [R3 [R4 [R5 [R6 G]]]]]]].
  exists r. split. exact R0. intro P.
  rewrite R5, R6. destruct (expected_gzip ae prog fin) eqn:ED.
  - destruct (has_flush prog); split; auto. discriminate.
  - assert (NCL : hmem K_CL (handler_hdrs prog) = false).
    { destruct P as [[P1 P2]|P]; auto. rewrite R4 in P1. rewrite (hmem_false_hlist _ _ P2) in P1. discriminate. }
    unfold hh1. rewrite NCL. destruct (has_flush prog) eqn:HF.
    + rewrite (hmem_false_hlist _ _ NCL). split; auto.
    + autorewrite with keys. rewrite G. rewrite first_chunk_all by exact HF. split; auto. discriminate.
Qed.

Lemma head_like_get : forall c ae prog fin,
  exists rH rG, outcome_of (run c (HEAD ae) prog fin) = Resp rH /\
                outcome_of (run c (GET ae) prog fin) = Resp rG /\
                r_vary rH = r_vary rG /\ r_ce rH = r_ce rG /\ r_cl rH = r_cl rG /\ r_ct rH = r_ct rG /\
                concat (r_sent rH) = [].
Proof.
  intros c ae prog fin.
  destruct (run_summary_any c false ae prog fin) as [rG [G0 _]].
  destruct (sim_run c ae prog fin) as [E1 E2].
  unfold HEAD, GET, outcome_of in *. rewrite E1. simpl.
  destruct (err (run c {| is_head := false; accept_enc := ae |} prog fin)); try discriminate.
  destruct (w_hdrs (run c {| is_head := false; accept_enc := ae |} prog fin)) as [H|]; try discriminate.
  inversion G0; subst rG. eexists. eexists. split. reflexivity. split. reflexivity. simpl. repeat split; auto.
Qed.

(* concrete, non-trivial instances of the hypotheses *)
Example transparent_example :
  let prog := [SetH (b "content-type") (b "application/json; charset=UTF-8"); Write (b "{""a"":"); Flush; Write (b "1}")] in
  hmem K_CE (handler_hdrs prog) = false /\
  exists r, outcome_of (run toy (GET (Some (b "deflate, gzip"))) prog None) = Resp r /\
            r_ce r = [V_GZIP] /\ r_cl r = [] /\
            client_decode toy_gunzip r = Some (b "{""a"":1}").
Proof. vm_compute. split. reflexivity. eexists. repeat split. Qed.

Example handler_encoding_example :
  let prog := [SetH (b "Content-Encoding") (b "br"); Write (b "xyz")] in
  hmem K_CE (handler_hdrs prog) = true /\
  exists r, outcome_of (run toy (GET (Some (b "gzip"))) prog None) = Resp r /\
            r_ce r = [b "br"] /\ concat (r_sent r) = b "xyz" /\ r_cl r = [b "3"].
Proof. vm_compute. split. reflexivity. eexists. repeat split. Qed.
