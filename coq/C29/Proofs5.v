(* C29 — the model satisfies the checker; the statements quoted in Property.v. *)
From Coq Require Import String.
From Coq Require Import List NArith ZArith Bool Arith Lia.
Import ListNotations.
From TV Require Import Lib.Obs C29.Model C29.Run C29.Proofs1 C29.Proofs2 C29.Proofs3 C29.Proofs4.
Local Open Scope N_scope.

Lemma list_beqb_refl : forall l, list_beqb l l = true.
Proof.
  induction l as [|x l IH]; simpl; auto. unfold list_beqb in *. simpl. rewrite beqb_refl, IH. reflexivity.
Qed.
Lemma first_chunk_all : forall prog fin, has_flush prog = false ->
  first_chunk prog fin = writes prog ++ fin_bytes fin.
Proof. intros prog fin H. unfold first_chunk. rewrite H. reflexivity. Qed.
Lemma status_ok_bodiless : forall k, status_ok k = negb (bodiless k).
Proof. intro k. unfold status_ok, bodiless. rewrite <- negb_orb. reflexivity. Qed.
Lemma expected_not_bodiless : forall ae prog fin ct, expected_gzip ae prog fin ct = true ->
  bodiless (status_at prog) = false.
Proof.
  intros ae prog fin ct H. unfold expected_gzip in H. apply andb_true_iff in H as [_ H].
  rewrite status_ok_bodiless in H. apply negb_true_iff in H. exact H.
Qed.
Lemma is_nil_eq : forall x, is_nil x = true -> x = [].
Proof. intros [|a x]; simpl; auto; discriminate. Qed.

Lemma check_resp_ok : forall c gunzip, codec_ok c gunzip -> forall head ae cp prog fin,
  assertion_fails prog fin = false ->
  exists r, outcome_of (run c {| is_head := head; accept_enc := ae; compress := cp |} prog fin) = Resp r /\
            check_resp gunzip head cp ae prog fin r = true.
Proof.
  intros c gunzip OK head ae cp prog fin NA.
  pose proof (run_summary_any c head ae cp prog fin) as S. cbv zeta in S. rewrite NA in S.
  destruct S as [sG [r [ES [R0 [R1 [R3 [R4 [R5 [R6 R7]]]]]]]]].
  exists r. split. exact R0.
  unfold check_resp. cbv zeta. rewrite R1. rewrite N.eqb_refl. rewrite andb_true_l.
  set (hh := eff_hdrs prog) in *.
  set (D := cp && expected_gzip ae prog fin (hlist K_CT hh)) in *.
  assert (DB : D = true -> bodiless (status_at prog) = false).
  { intro HD. unfold D in HD. apply andb_true_iff in HD as [_ HD]. eapply expected_not_bodiless; eauto. }
  assert (DC : D = true -> hmem K_CE hh = false).
  { intro HD. unfold D in HD. apply andb_true_iff in HD as [_ HD]. eapply expected_no_ce; eauto. }
  apply andb_true_iff. split.
  - (* bodiless status, nothing written: no body byte *)
    destruct (bodiless (status_at prog)) eqn:EB; auto.
    destruct (is_nil (writes prog ++ fin_bytes fin)) eqn:EN; auto. simpl andb. cbv iota.
    destruct head.
    + rewrite R7. reflexivity.
    + destruct R7 as [R7 G]. rewrite R7. destruct D eqn:ED.
      * discriminate (DB eq_refl).
      * rewrite G. rewrite (is_nil_eq _ EN). reflexivity.
  - destruct cp.
    + (* transform configured *)
      rewrite R3. fold hh. simpl andb in D.
      assert (GZ : negb (hmem K_CE hh) && list_beqb (r_ce r) [V_GZIP] = D).
      { rewrite R4. destruct D eqn:ED.
        - rewrite (DC eq_refl). reflexivity.
        - destruct (hmem K_CE hh) eqn:E; auto. rewrite (hmem_false_hlist _ _ E). reflexivity. }
      rewrite GZ.
      match goal with |- ?a && ?b && ?c && ?d = true =>
        assert (Ha : a = true); [exact R6|
        assert (Hb : b = true); [|
        assert (Hc : c = true); [unfold D; destruct (expected_gzip ae prog fin (hlist K_CT hh)); reflexivity|
        assert (Hd : d = true); [|rewrite Ha, Hb, Hc, Hd; reflexivity]]]]
      end.
      * (* body *)
        destruct head.
        -- rewrite R7. reflexivity.
        -- destruct R7 as [R7 G]. rewrite R7. rewrite R4. destruct D eqn:ED.
           ++ rewrite (DC eq_refl). destruct G as [hist [G1 G2]]. rewrite G1. rewrite OK. rewrite G2.
              rewrite !beqb_refl. reflexivity.
           ++ rewrite G. rewrite beqb_refl. destruct (hmem K_CE hh) eqn:E.
              ** rewrite list_beqb_refl. reflexivity.
              ** rewrite (hmem_false_hlist _ _ E). reflexivity.
      * (* Content-Length *)
        rewrite R5. destruct D eqn:ED.
        -- rewrite orb_true_l. destruct (has_flush prog); auto.
           destruct head; auto. destruct R7 as [R7 _]. rewrite R7. rewrite orb_false_l. apply beqb_refl.
        -- rewrite orb_false_l. destruct (hmem K_CL hh) eqn:ECL; auto. cbv [negb].
           unfold final_hdrs. fold hh. rewrite ECL.
           destruct (has_flush prog) eqn:HF; [rewrite orb_true_l|rewrite orb_false_l].
           ++ rewrite (hmem_false_hlist _ _ ECL). reflexivity.
           ++ destruct (bodiless (status_at prog)).
              ** rewrite (hmem_false_hlist _ _ ECL). reflexivity.
              ** autorewrite with keys. destruct head; auto. rewrite orb_false_l.
                 destruct R7 as [R7 G]. rewrite R7, G. rewrite first_chunk_all by exact HF. apply beqb_refl.
    + (* no transform *)
      simpl andb in D. unfold D in *. rewrite R3, R4, R5, R6. rewrite fh_ct, fh_ce.
      rewrite !list_beqb_refl. simpl andb.
      destruct head.
      * rewrite R7. reflexivity.
      * destruct R7 as [R7 G]. rewrite R7, G. apply beqb_refl.
Qed.

Lemma bytes_list_map : forall l, bytes_list (map OBytes l) = Some l.
Proof. induction l as [|x l IH]; simpl; auto. rewrite IH. reflexivity. Qed.
Lemma resp_roundtrip : forall r, resp_of_obs (obs_of (Resp r)) = Some r.
Proof. intros [k a b' c d s]. simpl. rewrite !bytes_list_map. rewrite N2Z.id. reflexivity. Qed.

Lemma check_any : forall c gunzip, codec_ok c gunzip -> forall (toy_mode : bool) head cp aes prog fin,
  (forall r, check_resp (if toy_mode then toy_gunzip else sym_gunzip) head cp (ae_of aes) prog fin r
             = check_resp gunzip head cp (ae_of aes) prog fin r) ->
  check_case (toy_mode, head, cp, aes, prog, fin)
    (obs_of (outcome_of (run c {| is_head := head; accept_enc := ae_of aes; compress := cp |} prog fin))) = true.
Proof.
  intros c gunzip OK toy_mode head cp aes prog fin EQ. unfold check_case.
  destruct (assertion_fails prog fin) eqn:NA.
  - pose proof (run_summary_any c head (ae_of aes) cp prog fin) as S. cbv zeta in S. rewrite NA in S.
    rewrite S. reflexivity.
  - destruct (check_resp_ok c gunzip OK head (ae_of aes) cp prog fin NA) as [r [E1 E2]].
    rewrite E1. rewrite resp_roundtrip. simpl obs_of. rewrite EQ, E2. reflexivity.
Qed.

Theorem check_case_model : forall i, check_case i (run_case i) = true.
Proof.
  intros [[[[[toy_mode head] cp] aes] prog] fin]. unfold run_case, run_outcome.
  destruct toy_mode.
  - apply (check_any toy toy_gunzip toy_ok true). reflexivity.
  - apply (check_any sym sym_gunzip sym_ok false). reflexivity.
Qed.

(* ---------- statements ---------- *)
Lemma transparent : forall c gunzip, codec_ok c gunzip -> forall ae prog fin,
  assertion_fails prog fin = false ->
  hmem K_CE (eff_hdrs prog) = false ->
  exists r, outcome_of (run c (GET ae) prog fin) = Resp r /\
            client_decode gunzip r = Some (writes prog ++ fin_bytes fin).
Proof.
  intros c gunzip OK ae prog fin NA NCE.
  pose proof (run_summary_any c false ae true prog fin) as S. cbv zeta in S. rewrite NA in S.
  destruct S as [sG [r [ES [R0 [R1 [R3 [R4 [R5 [R6 [R7 G]]]]]]]]]].
  exists r. split. exact R0. unfold client_decode. rewrite R4, R7. rewrite andb_true_l in *.
  destruct (expected_gzip ae prog fin (hlist K_CT (eff_hdrs prog))).
  - rewrite beqb_refl. destruct G as [hist [G1 G2]]. rewrite G1, OK, G2. reflexivity.
  - rewrite (hmem_false_hlist _ _ NCE). rewrite G. reflexivity.
Qed.

Lemma handler_encoding_untouched : forall c ae prog fin,
  assertion_fails prog fin = false ->
  hmem K_CE (eff_hdrs prog) = true ->
  exists r, outcome_of (run c (GET ae) prog fin) = Resp r /\
            concat (r_sent r) = writes prog ++ fin_bytes fin /\
            r_ce r = hlist K_CE (eff_hdrs prog).
Proof.
  intros c ae prog fin NA CE.
  pose proof (run_summary_any c false ae true prog fin) as S. cbv zeta in S. rewrite NA in S.
  destruct S as [sG [r [ES [R0 [R1 [R3 [R4 [R5 [R6 [R7 G]]]]]]]]]].
  exists r. split. exact R0. rewrite andb_true_l in *.
  destruct (expected_gzip ae prog fin (hlist K_CT (eff_hdrs prog))) eqn:ED.
  - apply expected_no_ce in ED. congruence.
  - rewrite R7. auto.
Qed.

Lemma compressed_iff : forall c head ae prog fin,
  assertion_fails prog fin = false ->
  exists r, outcome_of (run c {| is_head := head; accept_enc := ae; compress := true |} prog fin) = Resp r /\
    r_status r = status_at prog /\
    r_ct r = hlist K_CT (eff_hdrs prog) /\
    (hmem K_CE (eff_hdrs prog) = false ->
       (r_ce r = [V_GZIP] \/ r_ce r = []) /\
       (r_ce r = [V_GZIP] <->
          mentions_gzip ae = true /\
          compressible (before_semi (join_comma (r_ct r))) = true /\
          (has_flush prog = true \/ (MIN_LENGTH <= length (first_chunk prog fin))%nat) /\
          bodiless (r_status r) = false)).
Proof.
  intros c head ae prog fin NA.
  pose proof (run_summary_any c head ae true prog fin) as S. cbv zeta in S. rewrite NA in S.
  destruct S as [sG [r [ES [R0 [R1 [R3 [R4 [R5 [R6 R7]]]]]]]]].
  exists r. split. exact R0. split. exact R1. split. exact R3. intro NCE.
  rewrite R4, R3, R1. rewrite (hmem_false_hlist _ _ NCE). rewrite andb_true_l.
  unfold expected_gzip. rewrite NCE. cbv [negb]. rewrite andb_true_r. rewrite status_ok_bodiless.
  destruct (mentions_gzip ae); rewrite ?andb_true_l, ?andb_false_l; cbv iota.
  2:{ split; auto. split; intro H; [discriminate|]. destruct H as [H _]; discriminate. }
  destruct (compressible (before_semi (join_comma (hlist K_CT (eff_hdrs prog))))); rewrite ?andb_true_l, ?andb_false_l; cbv iota.
  2:{ split; auto. split; intro H; [discriminate|]. destruct H as [_ [H _]]; discriminate. }
  destruct (bodiless (status_at prog)); cbv [negb]; rewrite ?andb_true_r, ?andb_false_r; cbv iota.
  { split; auto. split; intro H; [discriminate|]. destruct H as [_ [_ [_ H]]]; discriminate. }
  destruct (has_flush prog); rewrite ?orb_true_l, ?orb_false_l; cbv iota.
  { split; auto. split; auto. }
  destruct (MIN_LENGTH <=? length (first_chunk prog fin))%nat eqn:EL; cbv iota.
  - apply Nat.leb_le in EL. split; auto. split; auto.
  - apply Nat.leb_gt in EL. split; auto. split; intro H; [discriminate|].
    destruct H as [_ [_ [[H|H] _]]]; [discriminate|lia].
Qed.

Lemma vary_always : forall c head ae prog fin,
  assertion_fails prog fin = false ->
  exists r, outcome_of (run c {| is_head := head; accept_enc := ae; compress := true |} prog fin) = Resp r /\
            vary_mentions_ae (r_vary r) = true.
Proof.
  intros c head ae prog fin NA.
  pose proof (run_summary_any c head ae true prog fin) as S. cbv zeta in S. rewrite NA in S.
  destruct S as [sG [r [ES [R0 [R1 [R3 [R4 [R5 [R6 R7]]]]]]]]].
  exists r. auto.
Qed.

Lemma content_length : forall c ae prog fin,
  assertion_fails prog fin = false ->
  exists r, outcome_of (run c (GET ae) prog fin) = Resp r /\
    ((r_ce r = [V_GZIP] /\ hmem K_CE (eff_hdrs prog) = false) \/ hmem K_CL (eff_hdrs prog) = false ->
       (r_cl r = [] \/ r_cl r = [dec_len (concat (r_sent r))]) /\
       (has_flush prog = true -> r_cl r = [])).
Proof.
  intros c ae prog fin NA.
  pose proof (run_summary_any c false ae true prog fin) as S. cbv zeta in S. rewrite NA in S.
  destruct S as [sG [r [ES [R0 [R1 [R3 [R4 [R5 [R6 [R7 G]]]]]]]]]].
  exists r. split. exact R0. intro P. rewrite andb_true_l in *.
  rewrite R5, R7. destruct (expected_gzip ae prog fin (hlist K_CT (eff_hdrs prog))) eqn:ED.
  - destruct (has_flush prog); split; auto. discriminate.
  - assert (NCL : hmem K_CL (eff_hdrs prog) = false).
    { destruct P as [[P1 P2]|P]; auto. rewrite R4 in P1. rewrite (hmem_false_hlist _ _ P2) in P1. discriminate. }
    unfold final_hdrs. rewrite NCL. destruct (has_flush prog) eqn:HF; [rewrite orb_true_l|rewrite orb_false_l].
    + rewrite (hmem_false_hlist _ _ NCL). split; auto.
    + destruct (bodiless (status_at prog)).
      * rewrite (hmem_false_hlist _ _ NCL). split; auto.
      * autorewrite with keys. rewrite G. rewrite first_chunk_all by exact HF. split; auto. discriminate.
Qed.

Lemma head_like_get : forall c ae cp prog fin,
  assertion_fails prog fin = false ->
  exists rH rG, outcome_of (run c (envH ae cp) prog fin) = Resp rH /\
                outcome_of (run c (envG ae cp) prog fin) = Resp rG /\
                r_status rH = r_status rG /\
                r_vary rH = r_vary rG /\ r_ce rH = r_ce rG /\ r_cl rH = r_cl rG /\ r_ct rH = r_ct rG /\
                concat (r_sent rH) = [].
Proof.
  intros c ae cp prog fin NA.
  pose proof (run_summary_any c false ae cp prog fin) as S. cbv zeta in S. rewrite NA in S.
  destruct S as [sG [rG [ES [G0 _]]]]. fold (envG ae cp) in G0.
  pose proof (sim_run c ae cp prog fin) as SR. rewrite ES in *.
  destruct (run c (envH ae cp) prog fin) as [sH|]; [|contradiction].
  destruct SR as [[E1 E2] [S1 S2]].
  unfold outcome_of in *. rewrite E1. simpl.
  destruct (err (core sG)); try discriminate.
  destruct (w_hdrs (core sG)) as [H|]; try discriminate.
  inversion G0; subst rG. eexists. eexists. split. reflexivity. split. reflexivity. simpl. repeat split; auto.
Qed.

(* bodiless statuses are never encoded, and carry no body byte unless the handler wrote one *)
Lemma bodiless_never_encoded : forall c head ae cp prog fin,
  assertion_fails prog fin = false ->
  exists r, outcome_of (run c {| is_head := head; accept_enc := ae; compress := cp |} prog fin) = Resp r /\
    r_status r = status_at prog /\
    (bodiless (r_status r) = true ->
       r_ce r = hlist K_CE (eff_hdrs prog) /\
       (writes prog ++ fin_bytes fin = [] -> concat (r_sent r) = [])).
Proof.
  intros c head ae cp prog fin NA.
  pose proof (run_summary_any c head ae cp prog fin) as S. cbv zeta in S. rewrite NA in S.
  destruct S as [sG [r [ES [R0 [R1 [R3 [R4 [R5 [R6 R7]]]]]]]]].
  exists r. split. exact R0. split. exact R1. rewrite R1. intro EB.
  assert (D : cp && expected_gzip ae prog fin (hlist K_CT (eff_hdrs prog)) = false).
  { destruct cp; auto. rewrite andb_true_l.
    destruct (expected_gzip ae prog fin (hlist K_CT (eff_hdrs prog))) eqn:ED; auto.
    apply expected_not_bodiless in ED. congruence. }
  rewrite D in *. split. exact R4. intro EW.
  destruct head. exact R7. destruct R7 as [R7 G]. rewrite R7, G. exact EW.
Qed.

(* without compress_response nothing is touched *)
Lemma no_transform : forall c ae prog fin,
  assertion_fails prog fin = false ->
  exists r, outcome_of (run c (envG ae false) prog fin) = Resp r /\
    r_vary r = hlist K_VARY (final_hdrs prog fin) /\ r_ce r = hlist K_CE (final_hdrs prog fin) /\
    r_cl r = hlist K_CL (final_hdrs prog fin) /\ r_ct r = hlist K_CT (final_hdrs prog fin) /\
    concat (r_sent r) = writes prog ++ fin_bytes fin.
Proof.
  intros c ae prog fin NA.
  pose proof (run_summary_any c false ae false prog fin) as S. cbv zeta in S. rewrite NA in S.
  destruct S as [sG [r [ES [R0 [R1 [R3 [R4 [R5 [R6 [R7 G]]]]]]]]]].
  exists r. split. exact R0. simpl andb in *. rewrite fh_ct, fh_ce. rewrite R7. auto.
Qed.

(* finish()'s assertion: exactly when nothing was flushed, the status is bodiless and write() was called *)
Lemma assertion_iff : forall c head ae cp prog fin,
  outcome_of (run c {| is_head := head; accept_enc := ae; compress := cp |} prog fin) = AssertFail
  <-> assertion_fails prog fin = true.
Proof.
  intros c head ae cp prog fin.
  pose proof (run_summary_any c head ae cp prog fin) as S. cbv zeta in S.
  destruct (assertion_fails prog fin).
  - split; auto.
  - destruct S as [sG [r [ES [R0 _]]]]. rewrite R0. split; discriminate.
Qed.

(* concrete, non-trivial instances of the hypotheses *)
Example transparent_example :
  let prog := [SetH (b "content-type") (b "application/json; charset=UTF-8"); Write (b "{""a"":"); Flush; Write (b "1}")] in
  assertion_fails prog None = false /\ hmem K_CE (eff_hdrs prog) = false /\
  exists r, outcome_of (run toy (GET (Some (b "deflate, gzip"))) prog None) = Resp r /\
            r_ce r = [V_GZIP] /\ r_cl r = [] /\
            client_decode toy_gunzip r = Some (b "{""a"":1}").
Proof. vm_compute. split. reflexivity. split. reflexivity. eexists. repeat split. Qed.

Example handler_encoding_example :
  let prog := [SetH (b "Content-Encoding") (b "br"); Write (b "xyz")] in
  assertion_fails prog None = false /\ hmem K_CE (eff_hdrs prog) = true /\
  exists r, outcome_of (run toy (GET (Some (b "gzip"))) prog None) = Resp r /\
            r_ce r = [b "br"] /\ concat (r_sent r) = b "xyz" /\ r_cl r = [b "3"].
Proof. vm_compute. split. reflexivity. split. reflexivity. eexists. repeat split. Qed.

(* the repaired defect (32796e6): set_status(204); flush() with Accept-Encoding: gzip *)
Example bodiless_flush_example :
  let prog := [Status 204; Flush] in
  assertion_fails prog None = false /\
  exists r, outcome_of (run toy (GET (Some (b "gzip"))) prog None) = Resp r /\
            r_status r = 204 /\ r_ce r = [] /\ concat (r_sent r) = [] /\ vary_mentions_ae (r_vary r) = true.
Proof. vm_compute. split. reflexivity. eexists. repeat split. Qed.
