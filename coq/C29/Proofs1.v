(* C29 — library lemmas: byte-string equality, the header map, comma fields,
   and the two concrete codecs satisfy [codec_ok]. *)
From Coq Require Import String.
From Coq Require Import List NArith Bool Arith Lia.
Import ListNotations.
From TV Require Import Lib.Obs C29.Model C29.Run.
Local Open Scope N_scope.

(* ---------- beqb ---------- *)
Lemma beqb_true_iff : forall x y, beqb x y = true <-> x = y.
Proof.
  induction x as [|a x IH]; intros [|c y]; simpl; split; intro H; try discriminate; auto.
  - apply andb_true_iff in H as [H1 H2]. apply N.eqb_eq in H1. apply IH in H2. subst; reflexivity.
  - inversion H; subst. rewrite N.eqb_refl. simpl. apply IH. reflexivity.
Qed.
Lemma beqb_refl : forall x, beqb x x = true.
Proof. intro x. apply beqb_true_iff. reflexivity. Qed.
Lemma beqb_false_iff : forall x y, beqb x y = false <-> x <> y.
Proof.
  intros x y. split.
  - intros H E. subst. rewrite beqb_refl in H. discriminate.
  - intro H. destruct (beqb x y) eqn:E; auto. apply beqb_true_iff in E. contradiction.
Qed.

Ltac beq :=
  repeat match goal with
  | H : beqb _ _ = true |- _ => apply beqb_true_iff in H
  | H : beqb _ _ = false |- _ => apply beqb_false_iff in H
  end.
Ltac hsolve :=
  repeat (simpl; rewrite ?beqb_refl, ?orb_true_r, ?orb_false_r, ?andb_false_r, ?andb_true_r;
          try congruence;
          match goal with
          | |- context [beqb ?a ?c] =>
              let E := fresh "E" in destruct (beqb a c) eqn:E; beq; subst; try congruence
          end);
  simpl; rewrite ?beqb_refl, ?orb_true_r, ?orb_false_r, ?andb_false_r, ?andb_true_r; try congruence; auto.

(* ---------- header map ---------- *)
Lemma hlist_hset : forall k k2 v h, hlist k (hset k2 v h) = if beqb k k2 then [v] else hlist k h.
Proof.
  intros k k2 v h. induction h as [|[kk vs] t IH]; [hsolve|].
  simpl. destruct (beqb k2 kk) eqn:E1; beq; subst; simpl; [hsolve|].
  rewrite IH. hsolve.
Qed.
Lemma hmem_hset : forall k k2 v h, hmem k (hset k2 v h) = beqb k k2 || hmem k h.
Proof.
  intros k k2 v h. induction h as [|[kk vs] t IH]; [hsolve|].
  simpl. destruct (beqb k2 kk) eqn:E1; beq; subst; simpl; [hsolve|].
  rewrite IH. hsolve.
Qed.
Lemma hlist_hdel : forall k k2 h, hlist k (hdel k2 h) = if beqb k k2 then [] else hlist k h.
Proof.
  intros k k2 h. induction h as [|[kk vs] t IH]; [hsolve|].
  simpl. destruct (beqb k2 kk) eqn:E1; beq; subst; simpl; rewrite IH; hsolve.
Qed.
Lemma hmem_hdel : forall k k2 h, hmem k (hdel k2 h) = negb (beqb k k2) && hmem k h.
Proof.
  intros k k2 h. induction h as [|[kk vs] t IH]; [hsolve|].
  simpl. destruct (beqb k2 kk) eqn:E1; beq; subst; simpl; rewrite IH; hsolve.
Qed.
Lemma hget_hlist : forall k h, hget k h = if hmem k h then Some (join_comma (hlist k h)) else None.
Proof.
  intros k h. induction h as [|[kk vs] t IH]; simpl; auto.
  destruct (beqb k kk); simpl; auto.
Qed.
Lemma hmem_false_hlist : forall k h, hmem k h = false -> hlist k h = [].
Proof.
  intros k h. induction h as [|[kk vs] t IH]; simpl; auto.
  destruct (beqb k kk); simpl; auto. discriminate.
Qed.

(* ---------- comma fields ---------- *)
Definition comma_free (t : bytes) : bool := forallb (fun x => negb (x =? 44)) t.
Lemma fields_comma_free : forall t, comma_free t = true -> fields t = [t].
Proof.
  induction t as [|x t IH]; simpl; intro H; auto.
  apply andb_true_iff in H as [H1 H2]. apply negb_true_iff in H1. rewrite H1. rewrite IH; auto.
Qed.
Lemma fields_nonempty : forall a, fields a <> [].
Proof.
  induction a as [|x a IH]; simpl; try discriminate.
  destruct (x =? 44); try discriminate. destruct (fields a); discriminate.
Qed.
Lemma fields_app_comma : forall a t, comma_free t = true -> fields (a ++ 44 :: t) = fields a ++ [t].
Proof.
  induction a as [|x a IH]; intros t H.
  - simpl. rewrite fields_comma_free; auto.
  - simpl. rewrite IH; auto. destruct (x =? 44); simpl; auto.
    destruct (fields a) as [|w ws] eqn:E; simpl; auto.
    exfalso. eapply fields_nonempty; eauto.
Qed.

Lemma vary_appended : forall v, vary_mentions_ae [v ++ b ", Accept-Encoding"] = true.
Proof.
  intro v. unfold vary_mentions_ae. simpl existsb. rewrite orb_false_r.
  change (b ", Accept-Encoding") with (44 :: b " Accept-Encoding").
  rewrite fields_app_comma by reflexivity.
  rewrite existsb_app. apply orb_true_iff. right. vm_compute. reflexivity.
Qed.
Lemma vary_fresh : vary_mentions_ae [V_AE] = true.
Proof. vm_compute. reflexivity. Qed.

(* ---------- codec runs ---------- *)
Lemma gz_run_app : forall c ops1 ops2 g,
  gz_run c g (ops1 ++ ops2) =
  let '(g1, o1) := gz_run c g ops1 in let '(g2, o2) := gz_run c g1 ops2 in (g2, o1 ++ o2).
Proof.
  intros c ops1. induction ops1 as [|o r IH]; intros ops2 g; simpl.
  - destruct (gz_run c g ops2); reflexivity.
  - destruct o.
    + destruct (gz_write c g d) as [g1 o1]. rewrite IH.
      destruct (gz_run c g1 r) as [g2 o2]. destruct (gz_run c g2 ops2) as [g3 o3].
      rewrite app_assoc. reflexivity.
    + destruct (gz_flush c g) as [g1 o1]. rewrite IH.
      destruct (gz_run c g1 r) as [g2 o2]. destruct (gz_run c g2 ops2) as [g3 o3].
      rewrite app_assoc. reflexivity.
Qed.
Lemma gz_data_app : forall a c, gz_data (a ++ c) = gz_data a ++ gz_data c.
Proof.
  induction a as [|o r IH]; intro c; simpl; auto.
  destruct o; rewrite IH; auto. rewrite app_assoc. reflexivity.
Qed.

(* ---------- the transparent codec ---------- *)
Lemma sym_run : forall ops g, gz_run sym g ops = (tt, gz_data ops).
Proof.
  induction ops as [|o r IH]; intro g; simpl.
  - destruct g; reflexivity.
  - destruct o; rewrite IH; reflexivity.
Qed.
Lemma sym_ok : codec_ok sym sym_gunzip.
Proof.
  intro ops. unfold gz_stream. rewrite sym_run. simpl.
  unfold sym_gunzip. rewrite rev_unit. rewrite N.eqb_refl. rewrite rev_involutive. reflexivity.
Qed.

(* ---------- the toy codec ---------- *)
Definition lift_body (d : bytes) (r : option (bytes * N)) : option (bytes * N) :=
  match r with Some (d', t) => Some (d ++ d', t) | None => None end.
Lemma toy_body_stuff : forall d rest, toy_body (stuff d ++ rest) = lift_body d (toy_body rest).
Proof.
  induction d as [|x d IH]; intro rest.
  - simpl. destruct (toy_body rest) as [[d' t]|]; reflexivity.
  - unfold stuff. simpl flat_map. fold (stuff d).
    destruct (x =? 255) eqn:E.
    + apply N.eqb_eq in E. subst x. simpl app.
      change (toy_body (255 :: 0 :: stuff d ++ rest))
        with (match toy_body (stuff d ++ rest) with Some (d0, t) => Some (255 :: d0, t) | None => None end).
      rewrite IH. destruct (toy_body rest) as [[d' t]|]; reflexivity.
    + simpl app. simpl toy_body. rewrite E. rewrite IH.
      destruct (toy_body rest) as [[d' t]|]; reflexivity.
Qed.
Lemma toy_body_flush : forall rest, toy_body (255 :: 1 :: rest) = toy_body rest.
Proof. intro rest. reflexivity. Qed.

Lemma toy_run : forall ops n,
  fst (gz_run toy n ops) = n + N.of_nat (length (gz_data ops)) /\
  forall rest, toy_body (snd (gz_run toy n ops) ++ rest) = lift_body (gz_data ops) (toy_body rest).
Proof.
  induction ops as [|o r IH]; intro n.
  - simpl. split. rewrite N.add_0_r. reflexivity.
    intro rest. destruct (toy_body rest) as [[d' t]|]; reflexivity.
  - destruct o as [d|].
    + simpl gz_run. destruct (IH (n + N.of_nat (length d))) as [I1 I2].
      destruct (gz_run toy (n + N.of_nat (length d)) r) as [g2 o2] eqn:E. simpl in *.
      split.
      * rewrite I1. rewrite app_length. rewrite Nat2N.inj_add. rewrite N.add_assoc. reflexivity.
      * intro rest. rewrite <- app_assoc. rewrite toy_body_stuff. rewrite I2.
        destruct (toy_body rest) as [[d' t]|]; simpl; auto. rewrite app_assoc. reflexivity.
    + simpl gz_run. destruct (IH n) as [I1 I2].
      destruct (gz_run toy n r) as [g2 o2] eqn:E. simpl in *.
      split; auto.
Qed.

Lemma toy_ok : codec_ok toy toy_gunzip.
Proof.
  intro ops. unfold gz_stream.
  destruct (toy_run ops 0) as [I1 I2].
  change (fst (gz_open toy)) with 0. change (snd (gz_open toy)) with [255; 3].
  destruct (gz_run toy 0 ops) as [g o] eqn:E. simpl fst in I1. simpl snd in I2.
  change ([255; 3] ++ o ++ gz_close toy g) with (255 :: 3 :: (o ++ [255; 2; g mod 251])).
  unfold toy_gunzip. rewrite !N.eqb_refl. simpl andb. cbv iota.
  rewrite I2.
  change (toy_body [255; 2; g mod 251]) with (Some (@nil N, g mod 251)).
  simpl lift_body. rewrite app_nil_r. rewrite I1. rewrite N.add_0_l. rewrite N.eqb_refl. reflexivity.
Qed.
