(* C29 — from the closed form of the run to the statements about the response. *)
From Coq Require Import String.
From Coq Require Import List NArith Bool Arith Lia.
Import ListNotations.
From TV Require Import Lib.Obs C29.Model C29.Run C29.Proofs1 C29.Proofs2.
Local Open Scope N_scope.

(* ---------- the four header names are pairwise distinct ---------- *)
Lemma k_ce_vary : beqb K_CE K_VARY = false. Proof. reflexivity. Qed.
Lemma k_ct_vary : beqb K_CT K_VARY = false. Proof. reflexivity. Qed.
Lemma k_cl_vary : beqb K_CL K_VARY = false. Proof. reflexivity. Qed.
Lemma k_vary_ce : beqb K_VARY K_CE = false. Proof. reflexivity. Qed.
Lemma k_ct_ce : beqb K_CT K_CE = false. Proof. reflexivity. Qed.
Lemma k_cl_ce : beqb K_CL K_CE = false. Proof. reflexivity. Qed.
Lemma k_vary_cl : beqb K_VARY K_CL = false. Proof. reflexivity. Qed.
Lemma k_ct_cl : beqb K_CT K_CL = false. Proof. reflexivity. Qed.
Lemma k_ce_cl : beqb K_CE K_CL = false. Proof. reflexivity. Qed.
Global Hint Rewrite k_ce_vary k_ct_vary k_cl_vary k_vary_ce k_ct_ce k_cl_ce k_vary_cl k_ct_cl k_ce_cl
  beqb_refl hlist_hset hmem_hset hlist_hdel hmem_hdel : keys.

Lemma vary_step_cases : forall h, exists v, vary_step h = hset K_VARY v h /\ vary_mentions_ae [v] = true.
Proof.
  intro h. unfold vary_step. destruct (hget K_VARY h) as [v|].
  - eexists. split. reflexivity. apply vary_appended.
  - eexists. split. reflexivity. apply vary_fresh.
Qed.

Lemma ctype_of_hlist : forall h, ctype_of h = before_semi (join_comma (hlist K_CT h)).
Proof.
  intro h. unfold ctype_of. rewrite hget_hlist. destruct (hmem K_CT h) eqn:E; auto.
  rewrite (hmem_false_hlist _ _ E). reflexivity.
Qed.

Lemma hh1_ct : forall prog fin, hlist K_CT (hh1 prog fin) = hlist K_CT (handler_hdrs prog).
Proof.
  intros. unfold hh1. destruct (has_flush prog); auto.
  destruct (hmem K_CL (handler_hdrs prog)); auto. autorewrite with keys. reflexivity.
Qed.
Lemma hh1_ce : forall prog fin, hlist K_CE (hh1 prog fin) = hlist K_CE (handler_hdrs prog).
Proof.
  intros. unfold hh1. destruct (has_flush prog); auto.
  destruct (hmem K_CL (handler_hdrs prog)); auto. autorewrite with keys. reflexivity.
Qed.
Lemma hh1_ce_mem : forall prog fin, hmem K_CE (hh1 prog fin) = hmem K_CE (handler_hdrs prog).
Proof.
  intros. unfold hh1. destruct (has_flush prog); auto.
  destruct (hmem K_CL (handler_hdrs prog)); auto. autorewrite with keys. reflexivity.
Qed.
Lemma hh1_cl_mem : forall prog fin, has_flush prog = false -> hmem K_CL (hh1 prog fin) = true.
Proof.
  intros prog fin HF. unfold hh1. rewrite HF.
  destruct (hmem K_CL (handler_hdrs prog)) eqn:E; auto. autorewrite with keys. reflexivity.
Qed.

(* the decision in terms of the request, the handler's headers and the program only *)
Definition expected_gzip (ae : option bytes) (prog : list op) (fin : option bytes) : bool :=
  mentions_gzip ae
  && compressible (before_semi (join_comma (hlist K_CT (handler_hdrs prog))))
  && (has_flush prog || (MIN_LENGTH <=? length (first_chunk prog fin))%nat)
  && negb (hmem K_CE (handler_hdrs prog)).

Lemma decision_eq : forall e prog fin, decision e prog fin = expected_gzip (accept_enc e) prog fin.
Proof.
  intros e prog fin. unfold decision, expected_gzip, gzip_decision, ae_gzip, mentions_gzip.
  rewrite ctype_of_hlist.
  destruct (vary_step_cases (hh1 prog fin)) as [v [EV _]]. rewrite EV.
  autorewrite with keys. simpl orb. rewrite hh1_ct, hh1_ce_mem. rewrite negb_involutive.
  rewrite !andb_assoc. reflexivity.
Qed.

(* ---------- everything about the response of a GET run ---------- *)
Lemma run_summary : forall c e, is_head e = false -> forall prog fin,
  let s := run c e prog fin in
  let hh := handler_hdrs prog in
  let all := writes prog ++ fin_bytes fin in
  let D := expected_gzip (accept_enc e) prog fin in
  exists r, outcome_of s = Resp r /\ r_sent r = sent s /\
    vary_mentions_ae (r_vary r) = true /\
    r_ct r = hlist K_CT hh /\
    r_ce r = (if D then [V_GZIP] else hlist K_CE hh) /\
    r_cl r = (if D then (if has_flush prog then [] else [dec_len (concat (sent s))])
              else hlist K_CL (hh1 prog fin)) /\
    (if D then exists hist, concat (sent s) = gz_stream c hist /\ gz_data hist = all
     else concat (sent s) = all).
Proof.
  intros c e NH prog fin. cbv zeta.
  pose proof (run_spec c e NH prog fin) as F. unfold Final in F.
  rewrite decision_eq in F. destruct F as [F1 F2].
  destruct (vary_step_cases (hh1 prog fin)) as [v [EV MV]].
  unfold outcome_of. rewrite F1.
  destruct (expected_gzip (accept_enc e) prog fin) eqn:ED.
  - destruct F2 as [hist [g [o [G1 [G2 [G3 G4]]]]]]. rewrite G4.
    eexists. split. reflexivity. simpl.
    unfold hdr_gz. rewrite EV.
    assert (HM : hmem K_CL (hset K_CE V_GZIP (hset K_VARY v (hh1 prog fin))) = hmem K_CL (hh1 prog fin))
      by (autorewrite with keys; reflexivity).
    rewrite HM.
    repeat split.
    + destruct (hmem K_CL (hh1 prog fin)); [destruct (has_flush prog)|]; autorewrite with keys; exact MV.
    + destruct (hmem K_CL (hh1 prog fin)); [destruct (has_flush prog)|]; autorewrite with keys; apply hh1_ct.
    + destruct (hmem K_CL (hh1 prog fin)); [destruct (has_flush prog)|]; autorewrite with keys; reflexivity.
    + destruct (has_flush prog) eqn:HF.
      * destruct (hmem K_CL (hh1 prog fin)) eqn:EM; autorewrite with keys; auto.
        apply hmem_false_hlist. exact EM.
      * rewrite (hh1_cl_mem prog fin HF). autorewrite with keys. reflexivity.
    + exists hist. split; auto. unfold gz_stream. fold (g0 c). rewrite G1. fold (o0 c). exact G2.
  - destruct F2 as [G2 G4]. rewrite G4.
    eexists. split. reflexivity. simpl. rewrite EV. autorewrite with keys.
    repeat split; auto.
    + apply hh1_ct.
    + apply hh1_ce.
Qed.
