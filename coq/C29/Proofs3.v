(* C29 — from the closed form of the run to the statements about the response. *)
From Coq Require Import String.
From Coq Require Import List NArith Bool Arith Lia.
Import ListNotations.
From TV Require Import Lib.Obs C29.Model C29.Run C29.Proofs1 C29.Proofs2.
Local Open Scope N_scope.

(* ---------- the four header names are pairwise distinct ---------- *)
Lemma k_ce_vary : beqb K_CE K_VARY = false. Proof. reflexivity. Qed.
Lemma k_ct_vary : beqb K_CT K_VARY = false. Proof. reflexivity. Qed.
Lemma k_cl_vary : beqb K_CL K_VARY = false. Proof. reflexivity. Qed.
Lemma k_vary_ce : beqb K_VARY K_CE = false. Proof. reflexivity. Qed.
Lemma k_ct_ce : beqb K_CT K_CE = false. Proof. reflexivity. Qed.
Lemma k_cl_ce : beqb K_CL K_CE = false. Proof. reflexivity. Qed.
Lemma k_vary_cl : beqb K_VARY K_CL = false. Proof. reflexivity. Qed.
Lemma k_ct_cl : beqb K_CT K_CL = false. Proof. reflexivity. Qed.
Lemma k_ce_cl : beqb K_CE K_CL = false. Proof. reflexivity. Qed.
Global Hint Rewrite k_ce_vary k_ct_vary k_cl_vary k_vary_ce k_ct_ce k_cl_ce k_vary_cl k_ct_cl k_ce_cl
  beqb_refl hlist_hset hmem_hset hlist_hdel hmem_hdel hlist_clear hmem_clear : keys.

Lemma vary_step_cases : forall h, exists v, vary_step h = hset K_VARY v h /\ vary_mentions_ae [v] = true.
Proof.
  intro h. unfold vary_step. destruct (hget K_VARY h) as [v|].
  - eexists. split. reflexivity. apply vary_appended.
  - eexists. split. reflexivity. apply vary_fresh.
Qed.

Lemma ctype_of_hlist : forall h, ctype_of h = before_semi (join_comma (hlist K_CT h)).
Proof.
  intro h. unfold ctype_of. rewrite hget_hlist. destruct (hmem K_CT h) eqn:E; auto.
  rewrite (hmem_false_hlist _ _ E). reflexivity.
Qed.

Lemma fh_ct : forall prog fin, hlist K_CT (final_hdrs prog fin) = hlist K_CT (eff_hdrs prog).
Proof.
  intros. unfold final_hdrs. destruct (has_flush prog || bodiless (status_at prog)); auto.
  destruct (hmem K_CL (eff_hdrs prog)); auto. autorewrite with keys. reflexivity.
Qed.
Lemma fh_ce : forall prog fin, hlist K_CE (final_hdrs prog fin) = hlist K_CE (eff_hdrs prog).
Proof.
  intros. unfold final_hdrs. destruct (has_flush prog || bodiless (status_at prog)); auto.
  destruct (hmem K_CL (eff_hdrs prog)); auto. autorewrite with keys. reflexivity.
Qed.
Lemma fh_ce_mem : forall prog fin, hmem K_CE (final_hdrs prog fin) = hmem K_CE (eff_hdrs prog).
Proof.
  intros. unfold final_hdrs. destruct (has_flush prog || bodiless (status_at prog)); auto.
  destruct (hmem K_CL (eff_hdrs prog)); auto. autorewrite with keys. reflexivity.
Qed.
Lemma fh_cl_mem : forall prog fin, has_flush prog = false -> bodiless (status_at prog) = false ->
  hmem K_CL (final_hdrs prog fin) = true.
Proof.
  intros prog fin HF HB. unfold final_hdrs. rewrite HF, HB. simpl orb. cbv iota.
  destruct (hmem K_CL (eff_hdrs prog)) eqn:E; auto. autorewrite with keys. reflexivity.
Qed.

Lemma decision_eq : forall e prog fin,
  decision e prog fin = compress e && expected_gzip (accept_enc e) prog fin (hlist K_CT (eff_hdrs prog)).
Proof.
  intros e prog fin. unfold decision, expected_gzip, gzip_decision, ae_gzip, mentions_gzip.
  rewrite ctype_of_hlist.
  destruct (vary_step_cases (final_hdrs prog fin)) as [v [EV _]]. rewrite EV.
  autorewrite with keys. rewrite orb_false_l. rewrite fh_ct, fh_ce_mem. rewrite negb_involutive.
  rewrite !andb_assoc. reflexivity.
Qed.

(* a response that is compressed as a single chunk has a status that may carry a body:
   finish() removed Content-Type otherwise *)
Lemma expected_single_not_bodiless : forall ae prog fin,
  expected_gzip ae prog fin (hlist K_CT (eff_hdrs prog)) = true -> has_flush prog = false ->
  bodiless (status_at prog) = false.
Proof.
  intros ae prog fin H HF. destruct (bodiless (status_at prog)) eqn:EB; auto.
  unfold expected_gzip, eff_hdrs in H. rewrite HF, EB in H. unfold clear_repr in H.
  rewrite hlist_clear in H. rewrite beqb_refl in H.
  change (compressible (before_semi (join_comma []))) with false in H.
  rewrite andb_false_r in H. simpl in H. discriminate.
Qed.

Lemma expected_no_ce : forall ae prog fin ct, expected_gzip ae prog fin ct = true ->
  hmem K_CE (eff_hdrs prog) = false.
Proof.
  intros ae prog fin ct H. unfold expected_gzip in H.
  apply andb_true_iff in H as [H _]. apply andb_true_iff in H as [_ H].
  apply negb_true_iff in H. exact H.
Qed.

(* ---------- everything about the response of a GET run ---------- *)
Lemma run_summary : forall c e, is_head e = false -> forall prog fin,
  let hh := eff_hdrs prog in
  let fh := final_hdrs prog fin in
  let all := writes prog ++ fin_bytes fin in
  let D := compress e && expected_gzip (accept_enc e) prog fin (hlist K_CT hh) in
  if assertion_fails prog fin then run c e prog fin = None
  else exists s r, run c e prog fin = Some s /\ outcome_of (Some s) = Resp r /\ r_sent r = sent (core s) /\
    r_status r = status_at prog /\
    r_ct r = hlist K_CT hh /\
    r_ce r = (if D then [V_GZIP] else hlist K_CE hh) /\
    r_cl r = (if D then (if has_flush prog then [] else [dec_len (concat (sent (core s)))])
              else hlist K_CL fh) /\
    (if compress e then vary_mentions_ae (r_vary r) = true else r_vary r = hlist K_VARY fh) /\
    (if D then exists hist, concat (sent (core s)) = gz_stream c hist /\ gz_data hist = all
     else concat (sent (core s)) = all).
Proof.
  intros c e NH prog fin. cbv zeta.
  pose proof (run_spec c e NH prog fin) as F.
  destruct (assertion_fails prog fin). exact F.
  destruct F as [s [ES F]]. exists s. unfold Final in F.
  rewrite decision_eq in F. destruct F as [F1 [F0 F2]].
  destruct (vary_step_cases (final_hdrs prog fin)) as [v [EV MV]].
  unfold outcome_of. rewrite F1.
  destruct (compress e && expected_gzip (accept_enc e) prog fin (hlist K_CT (eff_hdrs prog))) eqn:ED.
  - apply andb_true_iff in ED as [CP ED]. rewrite CP.
    destruct F2 as [hist [g [o [G1 [G2 [G3 G4]]]]]]. rewrite G4.
    eexists. split. exact ES. split. reflexivity. simpl.
    unfold hdr_gz. rewrite EV.
    assert (HM : hmem K_CL (hset K_CE V_GZIP (hset K_VARY v (final_hdrs prog fin))) = hmem K_CL (final_hdrs prog fin))
      by (autorewrite with keys; reflexivity).
    rewrite HM.
    repeat split; auto.
    + destruct (hmem K_CL (final_hdrs prog fin)); [destruct (has_flush prog)|]; autorewrite with keys; apply fh_ct.
    + destruct (hmem K_CL (final_hdrs prog fin)); [destruct (has_flush prog)|]; autorewrite with keys; reflexivity.
    + destruct (has_flush prog) eqn:HF.
      * destruct (hmem K_CL (final_hdrs prog fin)) eqn:EM; autorewrite with keys; auto.
        apply hmem_false_hlist. exact EM.
      * rewrite (fh_cl_mem prog fin HF (expected_single_not_bodiless _ _ _ ED HF)).
        autorewrite with keys. reflexivity.
    + destruct (hmem K_CL (final_hdrs prog fin)); [destruct (has_flush prog)|]; autorewrite with keys; exact MV.
    + exists hist. split; auto. unfold gz_stream. fold (g0 c). rewrite G1. fold (o0 c). exact G2.
  - destruct F2 as [G2 G4]. rewrite G4.
    eexists. split. exact ES. split. reflexivity. simpl. unfold hdr_plain.
    destruct (compress e).
    + rewrite EV. autorewrite with keys. repeat split; auto. apply fh_ct. apply fh_ce.
    + repeat split; auto. apply fh_ct. apply fh_ce.
Qed.
