(* C29 — Gzip output encoding is transparent to the client.
   Property theorems only; proofs are in Proofs1..5.v.

   Reading guide.  [run c e prog fin] is the model of RequestHandler + GZipContentEncoding executing
   the handler program [prog] (set_status / set_header / add_header / clear_header / write / flush
   calls) followed by finish(fin), for the request and application [e] (GET/HEAD, Accept-Encoding,
   compress_response), with the gzip stream [c] (an arbitrary stateful codec).  [outcome_of] reads
   off what the connection was handed: status code, the Vary, Content-Encoding, Content-Length,
   Content-Type values of the header block, and the chunks; or [AssertFail] when finish() raised
   its `assert not self._write_buffer`.
   [codec_ok c gunzip]: for every history of write/flush calls on one gzip file, [gunzip] applied to
   everything it emitted (incl. close) returns the concatenation of the written data.
   [eff_hdrs prog] = the handler's own headers when the header block is produced (first flush; else
   finish, after _clear_representation_headers for 204/304/1xx); [status_at prog] its status code;
   [first_chunk prog fin] = the chunk presented to transform_first_chunk;
   [assertion_fails prog fin] = nothing flushed, bodiless status, write() called (a handler error). *)
From Coq Require Import List NArith Bool.
Import ListNotations.
From TV Require C02.Model.
From TV Require Import Lib.Obs C29.Model C29.Run C29.Proofs1 C29.Proofs4 C29.Proofs5 Gen.C29_src Gen.C29_equiv C29.ModelP4 C29.ProofsP4.

(* Transparency: for EVERY codec satisfying the round-trip hypothesis, every Accept-Encoding and every
   program of status/header operations, writes and flushes in which the handler does not set a
   Content-Encoding of its own, a response is produced (no gzip call on a closed file) and a client
   decoding the body by the response's Content-Encoding obtains exactly the bytes written. *)
Theorem C29_decoding_returns_what_was_written :
  forall c gunzip, codec_ok c gunzip -> forall ae prog fin,
    assertion_fails prog fin = false ->
    hmem K_CE (eff_hdrs prog) = false ->
    exists r, outcome_of (run c (GET ae) prog fin) = Resp r /\
              client_decode gunzip r = Some (writes prog ++ fin_bytes fin).
Proof. exact transparent. Qed.
Print Assumptions C29_decoding_returns_what_was_written.

(* ... and when the handler did set a Content-Encoding, header and body are left alone. *)
Theorem C29_handler_content_encoding_left_alone :
  forall c ae prog fin, assertion_fails prog fin = false -> hmem K_CE (eff_hdrs prog) = true ->
    exists r, outcome_of (run c (GET ae) prog fin) = Resp r /\
              concat (r_sent r) = writes prog ++ fin_bytes fin /\
              r_ce r = hlist K_CE (eff_hdrs prog).
Proof. exact handler_encoding_untouched. Qed.
Print Assumptions C29_handler_content_encoding_left_alone.

(* Compression is applied exactly when Accept-Encoding mentions gzip, the (unchanged) Content-Type
   is compressible, the response is not a single chunk shorter than MIN_LENGTH = 1024 and the
   status can carry a body; otherwise no Content-Encoding is added.  GET and HEAD. *)
Theorem C29_compressed_iff :
  forall c head ae prog fin, assertion_fails prog fin = false ->
    exists r, outcome_of (run c {| is_head := head; accept_enc := ae; compress := true |} prog fin) = Resp r /\
      r_status r = status_at prog /\
      r_ct r = hlist K_CT (eff_hdrs prog) /\
      (hmem K_CE (eff_hdrs prog) = false ->
         (r_ce r = [V_GZIP] \/ r_ce r = []) /\
         (r_ce r = [V_GZIP] <->
            mentions_gzip ae = true /\
            compressible (before_semi (join_comma (r_ct r))) = true /\
            (has_flush prog = true \/ (MIN_LENGTH <= length (first_chunk prog fin))%nat) /\
            bodiless (r_status r) = false)).
Proof. exact compressed_iff. Qed.
Print Assumptions C29_compressed_iff.

(* 204 / 304 / 1xx responses are never encoded, whatever the flush placement, and carry no body
   byte unless the handler itself wrote one (the defect repaired by /repo 32796e6).  GET and HEAD,
   with or without compress_response. *)
Theorem C29_bodiless_status_never_encoded :
  forall c head ae cp prog fin, assertion_fails prog fin = false ->
    exists r, outcome_of (run c {| is_head := head; accept_enc := ae; compress := cp |} prog fin) = Resp r /\
      r_status r = status_at prog /\
      (bodiless (r_status r) = true ->
         r_ce r = hlist K_CE (eff_hdrs prog) /\
         (writes prog ++ fin_bytes fin = [] -> concat (r_sent r) = [])).
Proof. exact bodiless_never_encoded. Qed.
Print Assumptions C29_bodiless_status_never_encoded.

(* Vary always lists Accept-Encoding (as a comma-separated, OWS-trimmed element). *)
Theorem C29_vary_always_includes_accept_encoding :
  forall c head ae prog fin, assertion_fails prog fin = false ->
    exists r, outcome_of (run c {| is_head := head; accept_enc := ae; compress := true |} prog fin) = Resp r /\
              vary_mentions_ae (r_vary r) = true.
Proof. exact vary_always. Qed.
Print Assumptions C29_vary_always_includes_accept_encoding.

(* Content-Length: whenever the transform compressed, or the handler set no Content-Length of its
   own, the header block has at most one Content-Length and it is the decimal length of the encoded
   body; after a flush before finish there is none. *)
Theorem C29_content_length_is_encoded_length :
  forall c ae prog fin, assertion_fails prog fin = false ->
    exists r, outcome_of (run c (GET ae) prog fin) = Resp r /\
      ((r_ce r = [V_GZIP] /\ hmem K_CE (eff_hdrs prog) = false) \/ hmem K_CL (eff_hdrs prog) = false ->
         (r_cl r = [] \/ r_cl r = [dec_len (concat (r_sent r))]) /\
         (has_flush prog = true -> r_cl r = [])).
Proof. exact content_length. Qed.
Print Assumptions C29_content_length_is_encoded_length.

(* A HEAD response carries the status and header block of the GET response and no body byte
   (with or without compress_response). *)
Theorem C29_head_has_get_headers_and_no_body :
  forall c ae cp prog fin, assertion_fails prog fin = false ->
    exists rH rG, outcome_of (run c (envH ae cp) prog fin) = Resp rH /\
                  outcome_of (run c (envG ae cp) prog fin) = Resp rG /\
                  r_status rH = r_status rG /\
                  r_vary rH = r_vary rG /\ r_ce rH = r_ce rG /\ r_cl rH = r_cl rG /\ r_ct rH = r_ct rG /\
                  concat (r_sent rH) = [].
Proof. exact head_like_get. Qed.
Print Assumptions C29_head_has_get_headers_and_no_body.

(* Without compress_response (application.transforms = []) the header block and the body are the
   handler's: no Vary, no encoding, Content-Length as computed by finish(). *)
Theorem C29_without_compress_response_nothing_is_touched :
  forall c ae prog fin, assertion_fails prog fin = false ->
    exists r, outcome_of (run c (envG ae false) prog fin) = Resp r /\
      r_vary r = hlist K_VARY (final_hdrs prog fin) /\ r_ce r = hlist K_CE (final_hdrs prog fin) /\
      r_cl r = hlist K_CL (final_hdrs prog fin) /\ r_ct r = hlist K_CT (final_hdrs prog fin) /\
      concat (r_sent r) = writes prog ++ fin_bytes fin.
Proof. exact no_transform. Qed.
Print Assumptions C29_without_compress_response_nothing_is_touched.

(* finish() raises its assertion exactly when nothing was flushed, the status is 204/304/1xx and
   write() was called; in every other case a response is produced (all theorems above). *)
Theorem C29_finish_assertion_iff :
  forall c head ae cp prog fin,
    outcome_of (run c {| is_head := head; accept_enc := ae; compress := cp |} prog fin) = AssertFail
    <-> assertion_fails prog fin = true.
Proof. exact assertion_iff. Qed.
Print Assumptions C29_finish_assertion_iff.

(* The codec hypothesis is satisfiable: the toy codec used in the correspondence runs (stateful,
   byte-stuffing, length trailer) and the transparent codec both meet it. *)
Theorem C29_codec_hypothesis_met_by_toy : codec_ok toy toy_gunzip.
Proof. exact toy_ok. Qed.
Print Assumptions C29_codec_hypothesis_met_by_toy.
Theorem C29_codec_hypothesis_met_by_transparent : codec_ok sym sym_gunzip.
Proof. exact sym_ok. Qed.
Print Assumptions C29_codec_hypothesis_met_by_transparent.

(* The model satisfies the boolean checker that the harness applies to the implementation's
   observable, on every input (unconditional). *)
Theorem C29_model_satisfies_checker : forall i, check_case i (run_case i) = true.
Proof. exact check_case_model. Qed.
Print Assumptions C29_model_satisfies_checker.

(* The decision logic of the model is the one in the source: Gen/C29_src.v is regenerated from
   tornado/web.py (class GZipContentEncoding: CONTENT_TYPES, MIN_LENGTH, __init__, _compressible_type,
   the Vary block, the ctype statement and the `self._gzipping = (...)` expression of
   transform_first_chunk) by a fail-closed ast translator on every run. *)
Theorem C29_decision_logic_is_the_source's :
  src_content_types = CONTENT_TYPES /\ src_min_length = MIN_LENGTH /\
  (forall e, src_init (accept_enc e) = ae_gzip e) /\
  (forall ctype, src_compressible ctype = compressible ctype) /\
  (forall h, src_vary_step h = vary_step h) /\
  (forall h, src_ctype h = ctype_of h) /\
  (forall h status chunk finishing, src_decision h status chunk finishing = gzip_decision h status chunk finishing).
Proof.
  exact (conj src_content_types_eq (conj src_min_length_eq (conj src_init_eq (conj src_compressible_eq
        (conj src_vary_step_eq (conj src_ctype_eq src_decision_eq)))))).
Qed.
Print Assumptions C29_decision_logic_is_the_source's.

(* ---------- phase 4: the ETag / If-None-Match block of finish() ([run_etag], ModelP4.v) ----------
   [etag_applies prog]: nothing flushed, status 200, no Etag set by the handler (then finish() computes one).
   [sha] is SHA-1 (hex), a parameter. *)

(* The ETag is computed over the bytes the handler WROTE (finish() hashes _write_buffer before flush()
   runs the transforms): the header block carries exactly that tag for every Accept-Encoding,
   compress_response setting and If-None-Match ... *)
Theorem C29_etag_is_of_the_uncompressed_bytes :
  forall c e, is_head e = false -> forall sha inm prog fin, etag_applies prog = true ->
    etag_of (run_etag c e sha inm prog fin) = [quote (sha (writes prog ++ fin_bytes fin))].
Proof. exact etag_uncompressed. Qed.
Print Assumptions C29_etag_is_of_the_uncompressed_bytes.

(* ... so it is the same with and without gzip. *)
Theorem C29_etag_same_with_and_without_gzip :
  forall c ae1 ae2 cp1 cp2 sha inm prog fin, etag_applies prog = true ->
    etag_of (run_etag c {| is_head := false; accept_enc := ae1; compress := cp1 |} sha inm prog fin)
    = etag_of (run_etag c {| is_head := false; accept_enc := ae2; compress := cp2 |} sha inm prog fin).
Proof. exact etag_same_with_and_without_gzip. Qed.
Print Assumptions C29_etag_same_with_and_without_gzip.

(* When If-None-Match matches that tag, the response is a 304 that is never encoded: no
   Content-Encoding, no Content-Type, no body byte (whatever was written), Vary still lists
   Accept-Encoding when the transform is configured. *)
Theorem C29_etag_304_is_never_encoded_and_has_no_body :
  forall c e, is_head e = false -> forall sha inm prog fin,
    etag_applies prog = true ->
    C02.Model.etag_matches (quote (sha (writes prog ++ fin_bytes fin))) (inm_value inm) = true ->
    exists r, outcome_of (run_etag c e sha inm prog fin) = Resp r /\
              r_status r = 304%N /\ r_ce r = [] /\ r_ct r = [] /\ concat (r_sent r) = [] /\
              (compress e = true -> vary_mentions_ae (r_vary r) = true) /\
              etag_of (run_etag c e sha inm prog fin) = [quote (sha (writes prog ++ fin_bytes fin))].
Proof. exact etag_304_resp. Qed.
Print Assumptions C29_etag_304_is_never_encoded_and_has_no_body.
