(* C29 — Gzip output encoding is transparent to the client.
   Property theorems only; proofs are in Proofs1..5.v.

   Reading guide.  [run c e prog fin] is the model of RequestHandler + GZipContentEncoding executing
   the handler program [prog] (set_header / add_header / clear_header / write / flush calls) followed
   by finish(fin), for the request [e] (GET/HEAD, Accept-Encoding), with the gzip stream [c] (an
   arbitrary stateful codec).  [outcome_of] reads off what the connection was handed: the Vary,
   Content-Encoding, Content-Length, Content-Type values of the header block and the chunks.
   [codec_ok c gunzip]: for every history of write/flush calls on one gzip file, [gunzip] applied to
   everything it emitted (incl. close) returns the concatenation of the written data.
   [handler_hdrs prog] = the handler's own headers when the first flush happens;
   [first_chunk prog fin] = the chunk presented to transform_first_chunk. *)
From Coq Require Import List NArith Bool.
Import ListNotations.
From TV Require Import Lib.Obs C29.Model C29.Run C29.Proofs1 C29.Proofs4 C29.Proofs5.

(* Transparency: for EVERY codec satisfying the round-trip hypothesis, every Accept-Encoding and every
   program of header operations, writes and flushes in which the handler does not set a
   Content-Encoding of its own, a response is produced (no gzip call on a closed file) and a client
   decoding the body by the response's Content-Encoding obtains exactly the bytes written. *)
Theorem C29_decoding_returns_what_was_written :
  forall c gunzip, codec_ok c gunzip -> forall ae prog fin,
    hmem K_CE (handler_hdrs prog) = false ->
    exists r, outcome_of (run c (GET ae) prog fin) = Resp r /\
              client_decode gunzip r = Some (writes prog ++ fin_bytes fin).
Proof. exact transparent. Qed.
Print Assumptions C29_decoding_returns_what_was_written.

(* ... and when the handler did set a Content-Encoding, header and body are left alone. *)
Theorem C29_handler_content_encoding_left_alone :
  forall c ae prog fin, hmem K_CE (handler_hdrs prog) = true ->
    exists r, outcome_of (run c (GET ae) prog fin) = Resp r /\
              concat (r_sent r) = writes prog ++ fin_bytes fin /\
              r_ce r = hlist K_CE (handler_hdrs prog).
Proof. exact handler_encoding_untouched. Qed.
Print Assumptions C29_handler_content_encoding_left_alone.

(* Compression is applied exactly when Accept-Encoding mentions gzip, the (unchanged) Content-Type
   is compressible, and the response is not a single chunk shorter than MIN_LENGTH = 1024;
   otherwise no Content-Encoding is added.  GET and HEAD. *)
Theorem C29_compressed_iff :
  forall c head ae prog fin,
    exists r, outcome_of (run c {| is_head := head; accept_enc := ae |} prog fin) = Resp r /\
      r_ct r = hlist K_CT (handler_hdrs prog) /\
      (hmem K_CE (handler_hdrs prog) = false ->
         (r_ce r = [V_GZIP] \/ r_ce r = []) /\
         (r_ce r = [V_GZIP] <->
            mentions_gzip ae = true /\
            compressible (before_semi (join_comma (r_ct r))) = true /\
            (has_flush prog = true \/ (MIN_LENGTH <= length (first_chunk prog fin))%nat))).
Proof. exact compressed_iff. Qed.
Print Assumptions C29_compressed_iff.

(* Vary always lists Accept-Encoding (as a comma-separated, OWS-trimmed element). *)
Theorem C29_vary_always_includes_accept_encoding :
  forall c head ae prog fin,
    exists r, outcome_of (run c {| is_head := head; accept_enc := ae |} prog fin) = Resp r /\
              vary_mentions_ae (r_vary r) = true.
Proof. exact vary_always. Qed.
Print Assumptions C29_vary_always_includes_accept_encoding.

(* Content-Length: whenever the transform compressed, or the handler set no Content-Length of its
   own, the header block has at most one Content-Length and it is the decimal length of the encoded
   body; after a flush before finish there is none. *)
Theorem C29_content_length_is_encoded_length :
  forall c ae prog fin,
    exists r, outcome_of (run c (GET ae) prog fin) = Resp r /\
      ((r_ce r = [V_GZIP] /\ hmem K_CE (handler_hdrs prog) = false) \/ hmem K_CL (handler_hdrs prog) = false ->
         (r_cl r = [] \/ r_cl r = [dec_len (concat (r_sent r))]) /\
         (has_flush prog = true -> r_cl r = [])).
Proof. exact content_length. Qed.
Print Assumptions C29_content_length_is_encoded_length.

(* A HEAD response carries the header block of the GET response and no body byte. *)
Theorem C29_head_has_get_headers_and_no_body :
  forall c ae prog fin,
    exists rH rG, outcome_of (run c (HEAD ae) prog fin) = Resp rH /\
                  outcome_of (run c (GET ae) prog fin) = Resp rG /\
                  r_vary rH = r_vary rG /\ r_ce rH = r_ce rG /\ r_cl rH = r_cl rG /\ r_ct rH = r_ct rG /\
                  concat (r_sent rH) = [].
Proof. exact head_like_get. Qed.
Print Assumptions C29_head_has_get_headers_and_no_body.

(* The codec hypothesis is satisfiable: the toy codec used in the correspondence runs (stateful,
   byte-stuffing, length trailer) and the transparent codec both meet it. *)
Theorem C29_codec_hypothesis_met_by_toy : codec_ok toy toy_gunzip.
Proof. exact toy_ok. Qed.
Print Assumptions C29_codec_hypothesis_met_by_toy.
Theorem C29_codec_hypothesis_met_by_transparent : codec_ok sym sym_gunzip.
Proof. exact sym_ok. Qed.
Print Assumptions C29_codec_hypothesis_met_by_transparent.

(* The model satisfies the boolean checker that the harness applies to the implementation's
   observable, on every input. *)
Theorem C29_model_satisfies_checker : forall i, check_case i (run_case i) = true.
Proof. exact check_case_model. Qed.
Print Assumptions C29_model_satisfies_checker.
