(* C29, phase 4 — the ETag / If-None-Match block of finish() with the gzip transform in place. *)
From Coq Require Import String.
From Coq Require Import List NArith ZArith Bool Arith Lia.
Import ListNotations.
From TV Require C02.Model.
From TV Require Import Lib.Obs C29.Model C29.Run C29.Proofs1 C29.Proofs2 C29.Proofs3 C29.ModelP4.
Local Open Scope N_scope.

Lemma k_etag_vary : beqb K_ETAG K_VARY = false. Proof. reflexivity. Qed.
Lemma k_etag_ce : beqb K_ETAG K_CE = false. Proof. reflexivity. Qed.
Lemma k_etag_cl : beqb K_ETAG K_CL = false. Proof. reflexivity. Qed.
Lemma k_etag_ct : beqb K_ETAG K_CT = false. Proof. reflexivity. Qed.
Lemma k_etag_clang : beqb K_ETAG K_CLANG = false. Proof. reflexivity. Qed.
Lemma k_ce_etag : beqb K_CE K_ETAG = false. Proof. reflexivity. Qed.
Lemma k_ct_etag : beqb K_CT K_ETAG = false. Proof. reflexivity. Qed.
Lemma k_cl_etag : beqb K_CL K_ETAG = false. Proof. reflexivity. Qed.
Lemma k_ct_clang : beqb K_CT K_CLANG = false. Proof. reflexivity. Qed.
Lemma k_ce_clang : beqb K_CE K_CLANG = false. Proof. reflexivity. Qed.
Lemma k_ce_ct : beqb K_CE K_CT = false. Proof. reflexivity. Qed.
Global Hint Rewrite k_etag_vary k_etag_ce k_etag_cl k_etag_ct k_etag_clang k_ce_etag k_ct_etag k_cl_etag
  k_ct_clang k_ce_clang k_ce_ct : keys.

Lemma etag_clear_repr : forall h, hlist K_ETAG (clear_repr h) = hlist K_ETAG h.
Proof. intro h. unfold clear_repr. autorewrite with keys. reflexivity. Qed.
Lemma ct_clear_repr : forall h, hlist K_CT (clear_repr h) = [].
Proof. intro h. unfold clear_repr. autorewrite with keys. reflexivity. Qed.
Lemma ce_clear_repr : forall h, hlist K_CE (clear_repr h) = [].
Proof. intro h. unfold clear_repr. autorewrite with keys. reflexivity. Qed.

Lemma etag_Hdr0 : forall e h, hlist K_ETAG (Hdr0 e h) = hlist K_ETAG h.
Proof.
  intros e h. unfold Hdr0. destruct (compress e); auto.
  destruct (vary_step_cases h) as [v [EV _]]. rewrite EV. autorewrite with keys. reflexivity.
Qed.
Lemma etag_HdrF : forall h enc, hlist K_ETAG (HdrF h enc) = hlist K_ETAG h.
Proof.
  intros h enc. unfold HdrF. destruct (vary_step_cases h) as [v [EV _]]. rewrite EV.
  destruct (hmem K_CL (hset K_CE V_GZIP (hset K_VARY v h))); autorewrite with keys; reflexivity.
Qed.

Lemma status_ok_304 : forall h chunk f, gzip_decision h 304 chunk f = false.
Proof. intros. unfold gzip_decision. replace (status_ok 304) with false by reflexivity. apply andb_false_r. Qed.

Section Etag.
Variable c : codec.
Variable e : env.
Hypothesis NH : is_head e = false.
Variable sha : bytes -> bytes.
Variable inm : option bytes.

(* the handler state when finish() reaches its ETag block, nothing having been flushed *)
Lemma before_etag : forall prog fin, has_flush prog = false ->
  exists bs1, push_fin e fin (exec e prog (mkHs (init c e) 200 200))
              = mkHs (stA c e (handler_hdrs prog) bs1) (status_at prog) 200
              /\ concat bs1 = writes prog ++ fin_bytes fin.
Proof.
  intros prog fin HF.
  change (init c e) with (stA c e init_hd []).
  destruct (execA c e prog init_hd [] 200 200 HF) as [bs [E1 [E2 _]]].
  rewrite E1. unfold handler_hdrs, status_at. rewrite (no_flush_before prog HF).
  destruct fin as [d|]; simpl.
  - exists (bs ++ [d]). split. reflexivity. rewrite concat_snoc. rewrite E2. reflexivity.
  - exists bs. split. reflexivity. rewrite app_nil_r. exact E2.
Qed.

Definition the_etag (prog : list op) (fin : option bytes) : bytes := quote (sha (writes prog ++ fin_bytes fin)).

(* If-None-Match matches: a bare 304 *)
Lemma etag_304 : forall prog fin,
  etag_applies prog = true ->
  C02.Model.etag_matches (the_etag prog fin) (inm_value inm) = true ->
  exists s, run_etag c e sha inm prog fin = Some s /\ err (core s) = false /\ wcode s = 304 /\
            concat (sent (core s)) = [] /\
            w_hdrs (core s) = Some (Hdr0 e (clear_repr (hset K_ETAG (the_etag prog fin) (handler_hdrs prog)))).
Proof.
  intros prog fin AP M. unfold etag_applies in AP.
  apply andb_true_iff in AP as [AP A3]. apply andb_true_iff in AP as [A1 A2].
  apply negb_true_iff in A1. apply negb_true_iff in A3.
  destruct (before_etag prog fin A1) as [bs1 [E1 E2]].
  unfold run_etag. rewrite E1. unfold etag_block. simpl core. simpl written. cbv iota.
  simpl code. rewrite A2. simpl hd. rewrite A3. simpl andb. cbv iota.
  simpl buf. rewrite E2. fold (the_etag prog fin). rewrite M.
  unfold finish. simpl.
  eexists. split. reflexivity.
  pose proof (firstF c e NH (clear_repr (hset K_ETAG (the_etag prog fin) (handler_hdrs prog))) [] 304 200) as F.
  unfold Final, Dec in F. simpl concat in F. rewrite status_ok_304 in F. rewrite andb_false_r in F.
  destruct F as [F1 [F2 [F3 F4]]]. repeat split; assumption.
Qed.

(* the ETag is computed over the bytes the handler wrote, before any transform: the header block of
   every unflushed 200 response of a handler that set no Etag carries exactly that tag, whatever
   Accept-Encoding / compress_response / If-None-Match are *)
Lemma etag_uncompressed : forall prog fin,
  etag_applies prog = true ->
  etag_of (run_etag c e sha inm prog fin) = [the_etag prog fin].
Proof.
  intros prog fin AP.
  destruct (C02.Model.etag_matches (the_etag prog fin) (inm_value inm)) eqn:M.
  - destruct (etag_304 prog fin AP M) as [s [ES [_ [_ [_ H]]]]]. rewrite ES. unfold etag_of. rewrite H.
    rewrite etag_Hdr0, etag_clear_repr. autorewrite with keys. reflexivity.
  - unfold etag_applies in AP.
    apply andb_true_iff in AP as [AP A3]. apply andb_true_iff in AP as [A1 A2].
    apply negb_true_iff in A1. apply negb_true_iff in A3.
    destruct (before_etag prog fin A1) as [bs1 [E1 E2]].
    unfold run_etag. rewrite E1. unfold etag_block. simpl core. simpl written. cbv iota.
    simpl code. rewrite A2. simpl hd. rewrite A3. simpl andb. cbv iota.
    simpl buf. rewrite E2. fold (the_etag prog fin). rewrite M.
    set (h1 := hset K_ETAG (the_etag prog fin) (handler_hdrs prog)).
    unfold finish. simpl core. simpl written. cbv iota. simpl code.
    apply N.eqb_eq in A2. rewrite A2.
    replace (bodiless 200) with false by reflexivity. simpl hd. simpl buf.
    assert (G : forall h, hlist K_ETAG h = [the_etag prog fin] ->
                etag_of (Some (do_flush e true (mkHs (stA c e h bs1) 200 200))) = [the_etag prog fin]).
    { intros h Hh. pose proof (firstF c e NH h bs1 200 200) as F. unfold Final in F.
      destruct F as [_ [_ F]]. unfold etag_of.
      destruct (Dec e h 200 (concat bs1) true).
      - destruct F as [hist [g [o [_ [_ [_ F]]]]]]. rewrite F. rewrite etag_HdrF. exact Hh.
      - destruct F as [_ F]. rewrite F. rewrite etag_Hdr0. exact Hh. }
    destruct (hmem K_CL h1).
    + apply G. unfold h1. autorewrite with keys. reflexivity.
    + apply (G (hset K_CL (dec_len (concat bs1)) h1)). unfold h1. autorewrite with keys. reflexivity.
Qed.

End Etag.

(* the 304 at the level of the response: never encoded, no representation headers, no body byte *)
Lemma etag_304_resp : forall c e, is_head e = false -> forall sha inm prog fin,
  etag_applies prog = true ->
  C02.Model.etag_matches (quote (sha (writes prog ++ fin_bytes fin))) (inm_value inm) = true ->
  exists r, outcome_of (run_etag c e sha inm prog fin) = Resp r /\
            r_status r = 304 /\ r_ce r = [] /\ r_ct r = [] /\ concat (r_sent r) = [] /\
            (compress e = true -> vary_mentions_ae (r_vary r) = true) /\
            etag_of (run_etag c e sha inm prog fin) = [quote (sha (writes prog ++ fin_bytes fin))].
Proof.
  intros c e NH sha inm prog fin AP M.
  pose proof (etag_uncompressed c e NH sha inm prog fin AP) as EU.
  destruct (etag_304 c e NH sha inm prog fin AP M) as [s [ES [S1 [S2 [S3 S4]]]]].
  rewrite ES in *. unfold outcome_of. rewrite S1, S4. eexists. split. reflexivity. simpl.
  repeat split; auto.
  - unfold Hdr0. destruct (compress e).
    + destruct (vary_step_cases (clear_repr (hset K_ETAG (the_etag sha prog fin) (handler_hdrs prog)))) as [v [EV _]].
      rewrite EV. autorewrite with keys. apply ce_clear_repr.
    + apply ce_clear_repr.
  - unfold Hdr0. destruct (compress e).
    + destruct (vary_step_cases (clear_repr (hset K_ETAG (the_etag sha prog fin) (handler_hdrs prog)))) as [v [EV _]].
      rewrite EV. autorewrite with keys. apply ct_clear_repr.
    + apply ct_clear_repr.
  - intro CP. unfold Hdr0. rewrite CP.
    destruct (vary_step_cases (clear_repr (hset K_ETAG (the_etag sha prog fin) (handler_hdrs prog)))) as [v [EV MV]].
    rewrite EV. autorewrite with keys. exact MV.
Qed.

(* same ETag with and without gzip *)
Lemma etag_same_with_and_without_gzip : forall c ae1 ae2 cp1 cp2 sha inm prog fin,
  etag_applies prog = true ->
  etag_of (run_etag c {| is_head := false; accept_enc := ae1; compress := cp1 |} sha inm prog fin)
  = etag_of (run_etag c {| is_head := false; accept_enc := ae2; compress := cp2 |} sha inm prog fin).
Proof.
  intros. rewrite !etag_uncompressed by auto. reflexivity.
Qed.

Example etag_304_example :
  let prog := [Write (b "hello")] in
  let sha := fun _ : bytes => b "aaf4c61ddcc5e8a2dabede0f3b482cd9aea9434d" in
  etag_applies prog = true /\
  C02.Model.etag_matches (quote (sha (writes prog ++ fin_bytes None))) (inm_value (Some (b "W/""aaf4c61ddcc5e8a2dabede0f3b482cd9aea9434d"""))) = true.
Proof. vm_compute. split; reflexivity. Qed.
