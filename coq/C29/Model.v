(* C29 — Gzip output encoding is transparent to the client.
   Executable model of tornado.web.GZipContentEncoding (__init__, _compressible_type,
   transform_first_chunk, transform_chunk) and of the part of RequestHandler
   (set_header / add_header / clear_header / write / flush / finish) that applies it,
   as the code is in /repo NOW.  The gzip stream (gzip.GzipFile over zlib) is an
   abstract stateful codec: a record of functions, universally quantified in the
   theorems.  Definitions only (total, computable).  Bytes and text are [list N]. *)
From Coq Require Import String Ascii.
From Coq Require Import NArith Bool Arith List.
From Coq Require Import DecimalN.
Import ListNotations.
Local Open Scope N_scope.

Definition bytes := list N.

(* ASCII string literal -> bytes *)
Definition b (s : string) : bytes := map N_of_ascii (list_ascii_of_string s).
Arguments b s%string.

Fixpoint beqb (x y : bytes) : bool :=
  match x, y with
  | [], [] => true
  | a :: x', c :: y' => (a =? c) && beqb x' y'
  | _, _ => false
  end.

(* ---------- str(int) ---------- *)
Fixpoint uint_bytes (u : Decimal.uint) : bytes :=
  match u with
  | Decimal.Nil => []
  | Decimal.D0 u => 48 :: uint_bytes u | Decimal.D1 u => 49 :: uint_bytes u
  | Decimal.D2 u => 50 :: uint_bytes u | Decimal.D3 u => 51 :: uint_bytes u
  | Decimal.D4 u => 52 :: uint_bytes u | Decimal.D5 u => 53 :: uint_bytes u
  | Decimal.D6 u => 54 :: uint_bytes u | Decimal.D7 u => 55 :: uint_bytes u
  | Decimal.D8 u => 56 :: uint_bytes u | Decimal.D9 u => 57 :: uint_bytes u
  end.
Definition dec (n : N) : bytes := uint_bytes (N.to_uint n).
Definition dec_len (x : bytes) : bytes := dec (N.of_nat (length x)).

(* ---------- httputil._normalize_header (ASCII names) ---------- *)
Definition upper (c : N) : N := if (97 <=? c) && (c <=? 122) then c - 32 else c.
Definition lower (c : N) : N := if (65 <=? c) && (c <=? 90) then c + 32 else c.
Fixpoint norm_from (start : bool) (l : bytes) : bytes :=
  match l with
  | [] => []
  | c :: l' => if c =? 45 then 45 :: norm_from true l'
               else (if start then upper c else lower c) :: norm_from false l'
  end.
Definition norm (n : bytes) : bytes := norm_from true n.

(* ---------- HTTPHeaders: insertion-ordered dict  normalised-name -> list of values ---------- *)
Definition hdrs := list (bytes * list bytes).
Fixpoint hmem (k : bytes) (h : hdrs) : bool :=                       (* __contains__ *)
  match h with [] => false | (k', _) :: t => beqb k k' || hmem k t end.
Fixpoint hset (k v : bytes) (h : hdrs) : hdrs :=                     (* __setitem__ *)
  match h with
  | [] => [(k, [v])]
  | (k', vs) :: t => if beqb k k' then (k', [v]) :: t else (k', vs) :: hset k v t
  end.
Fixpoint hadd (k v : bytes) (h : hdrs) : hdrs :=                     (* add *)
  match h with
  | [] => [(k, [v])]
  | (k', vs) :: t => if beqb k k' then (k', vs ++ [v]) :: t else (k', vs) :: hadd k v t
  end.
Fixpoint hdel (k : bytes) (h : hdrs) : hdrs :=                       (* __delitem__ (keys are unique in a dict) *)
  match h with
  | [] => []
  | (k', vs) :: t => if beqb k k' then hdel k t else (k', vs) :: hdel k t
  end.
Fixpoint join_comma (vs : list bytes) : bytes :=
  match vs with [] => [] | [v] => v | v :: t => v ++ 44 :: join_comma t end.
Fixpoint hget (k : bytes) (h : hdrs) : option bytes :=               (* get: values joined by "," *)
  match h with
  | [] => None
  | (k', vs) :: t => if beqb k k' then Some (join_comma vs) else hget k t
  end.
Fixpoint hlist (k : bytes) (h : hdrs) : list bytes :=                (* get_list *)
  match h with
  | [] => []
  | (k', vs) :: t => if beqb k k' then vs else hlist k t
  end.

Definition K_VARY := b "Vary".
Definition K_CT := b "Content-Type".
Definition K_CE := b "Content-Encoding".
Definition K_CL := b "Content-Length".
Definition V_AE := b "Accept-Encoding".
Definition V_GZIP := b "gzip".

(* ---------- small string functions used by the transform ---------- *)
Fixpoint is_prefix (p l : bytes) : bool :=                           (* l.startswith(p) *)
  match p, l with
  | [], _ => true
  | a :: p', c :: l' => (a =? c) && is_prefix p' l'
  | _ :: _, [] => false
  end.
Fixpoint has_sub (p l : bytes) : bool :=                             (* p in l *)
  is_prefix p l || match l with [] => false | _ :: t => has_sub p t end.
Fixpoint before_semi (l : bytes) : bytes :=                          (* l.split(";")[0] *)
  match l with [] => [] | c :: t => if c =? 59 then [] else c :: before_semi t end.

(* GZipContentEncoding.CONTENT_TYPES / _compressible_type *)
Definition CONTENT_TYPES : list bytes :=
  [ b "application/javascript"; b "application/x-javascript"; b "application/xml";
    b "application/atom+xml"; b "application/json"; b "application/xhtml+xml"; b "image/svg+xml" ].
Definition compressible (ctype : bytes) : bool :=
  is_prefix (b "text/") ctype || existsb (beqb ctype) CONTENT_TYPES.
Definition MIN_LENGTH : nat := 1024.

(* ---------- the gzip stream: gzip.GzipFile(mode="w", fileobj=BytesIO) ----------
   gz_open  : constructing the file (state, bytes put into the BytesIO at once)
   gz_write : write(chunk); gz_flush : flush(); gz_close : close()
   each returns the bytes appended to the BytesIO by that call. *)
Record codec := {
  gzs : Type;
  gz_open : gzs * bytes;
  gz_write : gzs -> bytes -> gzs * bytes;
  gz_flush : gzs -> gzs * bytes;
  gz_close : gzs -> bytes
}.

(* ---------- handler + transform + connection state ---------- *)
Record st (c : codec) := mkSt {
  hd : hdrs;                       (* RequestHandler._headers *)
  buf : list bytes;                (* RequestHandler._write_buffer *)
  written : bool;                  (* RequestHandler._headers_written *)
  gzipping : bool;                 (* GZipContentEncoding._gzipping *)
  gz : option (gzs c);             (* _gzip_file (None: not created, or closed) *)
  gval : bytes;                    (* _gzip_value (BytesIO contents) *)
  w_hdrs : option hdrs;            (* headers handed to connection.write_headers *)
  sent : list bytes;               (* chunks handed to connection.write_headers / write, in order *)
  err : bool                       (* a gzip call was made on a missing/closed file (would raise) *)
}.
Arguments mkSt {c}. Arguments hd {c}. Arguments buf {c}. Arguments written {c}.
Arguments gzipping {c}. Arguments gz {c}. Arguments gval {c}. Arguments w_hdrs {c}.
Arguments sent {c}. Arguments err {c}.

(* the request and the application setting: HEAD?, request.headers.get("Accept-Encoding") (None = absent),
   Application(compress_response=...) (False: application.transforms is empty) *)
Record env := { is_head : bool; accept_enc : option bytes; compress : bool }.

(* RequestHandler.clear(): only Content-Type matters here (Server/Date are not touched by the transform) *)
Definition init_hd : hdrs := [(K_CT, [b "text/html; charset=UTF-8"])].

(* GZipContentEncoding.__init__ *)
Definition ae_gzip (e : env) : bool :=
  has_sub V_GZIP (match accept_enc e with Some v => v | None => [] end).

(* without a transform instance there is no _gzipping flag; it is modelled as false *)
Definition init (c : codec) (e : env) : st c :=
  mkSt init_hd [] false (compress e && ae_gzip e) None [] None [] false.

(* statuses that cannot carry a body: RequestHandler.finish's test *)
Definition bodiless (code : N) : bool :=
  (code =? 204) || (code =? 304) || ((100 <=? code) && (code <? 200)).
(* transform_first_chunk: `status_code not in (204, 304) and not (100 <= status_code < 200)` (fix 32796e6) *)
Definition status_ok (code : N) : bool :=
  negb ((code =? 204) || (code =? 304)) && negb ((100 <=? code) && (code <? 200)).

(* GZipContentEncoding.transform_chunk *)
Definition transform_chunk {c} (s : st c) (chunk : bytes) (finishing : bool) : st c * bytes :=
  if gzipping s then
    match gz s with
    | None => (mkSt (hd s) (buf s) (written s) (gzipping s) None (gval s) (w_hdrs s) (sent s) true, chunk)
    | Some g =>
        let '(g1, o1) := gz_write c g chunk in
        if finishing then
          let o2 := gz_close c g1 in
          (mkSt (hd s) (buf s) (written s) (gzipping s) None [] (w_hdrs s) (sent s) (err s),
           gval s ++ o1 ++ o2)
        else
          let '(g2, o2) := gz_flush c g1 in
          (mkSt (hd s) (buf s) (written s) (gzipping s) (Some g2) [] (w_hdrs s) (sent s) (err s),
           gval s ++ o1 ++ o2)
    end
  else (s, chunk).

Definition vary_step (h : hdrs) : hdrs :=
  match hget K_VARY h with
  | Some v => hset K_VARY (v ++ b ", Accept-Encoding") h
  | None => hset K_VARY V_AE h
  end.
Definition ctype_of (h : hdrs) : bytes :=
  before_semi (match hget K_CT h with Some v => v | None => [] end).
(* the decision taken in transform_first_chunk (given that __init__ saw "gzip") *)
Definition gzip_decision (h : hdrs) (code : N) (chunk : bytes) (finishing : bool) : bool :=
  compressible (ctype_of h) && (negb finishing || (MIN_LENGTH <=? length chunk)%nat) && negb (hmem K_CE h)
  && status_ok code.

(* GZipContentEncoding.transform_first_chunk *)
Definition transform_first_chunk {c} (s : st c) (code : N) (chunk : bytes) (finishing : bool) : st c * bytes :=
  let h1 := vary_step (hd s) in
  let g1 := if gzipping s then gzip_decision h1 code chunk finishing else false in
  if g1 then
    let h2 := hset K_CE V_GZIP h1 in
    let '(g0, o0) := gz_open c in
    let s1 := mkSt h2 (buf s) (written s) true (Some g0) o0 (w_hdrs s) (sent s) (err s) in
    let '(s2, chunk') := transform_chunk s1 chunk finishing in
    let h3 := if hmem K_CL (hd s2) then
                (if finishing then hset K_CL (dec_len chunk') (hd s2) else hdel K_CL (hd s2))
              else hd s2 in
    (mkSt h3 (buf s2) (written s2) (gzipping s2) (gz s2) (gval s2) (w_hdrs s2) (sent s2) (err s2), chunk')
  else
    (mkSt h1 (buf s) (written s) false (gz s) (gval s) (w_hdrs s) (sent s) (err s), chunk).

(* RequestHandler.flush(include_footers); transforms = [GZipContentEncoding] or [] *)
Definition flush {c} (e : env) (code : N) (finishing : bool) (s : st c) : st c :=
  let chunk := concat (buf s) in
  let s0 := mkSt (hd s) [] (written s) (gzipping s) (gz s) (gval s) (w_hdrs s) (sent s) (err s) in
  if negb (written s) then
    let s1 := mkSt (hd s0) [] true (gzipping s0) (gz s0) (gval s0) (w_hdrs s0) (sent s0) (err s0) in
    let '(s2, chunk') := if compress e then transform_first_chunk s1 code chunk finishing else (s1, chunk) in
    let chunk'' := if is_head e then [] else chunk' in
    mkSt (hd s2) (buf s2) (written s2) (gzipping s2) (gz s2) (gval s2) (Some (hd s2)) (sent s2 ++ [chunk'']) (err s2)
  else
    let '(s2, chunk') := if compress e then transform_chunk s0 chunk finishing else (s0, chunk) in
    if is_head e then s2
    else mkSt (hd s2) (buf s2) (written s2) (gzipping s2) (gz s2) (gval s2) (w_hdrs s2) (sent s2 ++ [chunk']) (err s2).

(* handler operations before finish() *)
Inductive op :=
| SetH (name value : bytes)      (* set_header *)
| AddH (name value : bytes)      (* add_header *)
| ClearH (name : bytes)          (* clear_header *)
| Write (chunk : bytes)          (* write *)
| Flush                          (* flush() *)
| Status (code : N).             (* set_status(code) *)

Definition set_hd {c} (s : st c) (h : hdrs) : st c :=
  mkSt h (buf s) (written s) (gzipping s) (gz s) (gval s) (w_hdrs s) (sent s) (err s).
Definition push {c} (s : st c) (d : bytes) : st c :=
  mkSt (hd s) (buf s ++ [d]) (written s) (gzipping s) (gz s) (gval s) (w_hdrs s) (sent s) (err s).

Definition clear_header (k : bytes) (h : hdrs) : hdrs := if hmem k h then hdel k h else h.
Definition hdr_op (o : op) (h : hdrs) : hdrs :=
  match o with
  | SetH n v => hset (norm n) v h
  | AddH n v => hadd (norm n) v h
  | ClearH n => clear_header (norm n) h
  | _ => h
  end.

(* the handler: the fields above, _status_code, and the status code handed to write_headers
   (meaningful once the header block is written) *)
Record hs (c : codec) := mkHs { core : st c; code : N; wcode : N }.
Arguments mkHs {c}. Arguments core {c}. Arguments code {c}. Arguments wcode {c}.

Definition do_flush {c} (e : env) (finishing : bool) (s : hs c) : hs c :=
  mkHs (flush e (code s) finishing (core s)) (code s) (if written (core s) then wcode s else code s).

Definition step {c} (e : env) (s : hs c) (o : op) : hs c :=
  match o with
  | Write d => mkHs (push (core s) d) (code s) (wcode s)
  | Flush => do_flush e false s
  | Status n => mkHs (core s) n (wcode s)
  | _ => mkHs (set_hd (core s) (hdr_op o (hd (core s)))) (code s) (wcode s)
  end.

(* RequestHandler._clear_representation_headers *)
Definition K_CLANG := b "Content-Language".
Definition clear_repr (h : hdrs) : hdrs :=
  clear_header K_CT (clear_header K_CLANG (clear_header K_CE h)).

(* RequestHandler.finish(chunk), no If-None-Match (the Etag header it adds for a 200 is not read by
   the transform and is not observed).  None = the `assert not self._write_buffer` failed. *)
Definition finish {c} (e : env) (fin : option bytes) (s : hs c) : option (hs c) :=
  let s1 := match fin with Some d => step e s (Write d) | None => s end in
  let k := core s1 in
  if written k then Some (do_flush e true s1)
  else if bodiless (code s1) then
    match buf k with
    | [] => Some (do_flush e true (mkHs (set_hd k (clear_repr (hd k))) (code s1) (wcode s1)))
    | _ :: _ => None
    end
  else if hmem K_CL (hd k) then Some (do_flush e true s1)
  else Some (do_flush e true (mkHs (set_hd k (hset K_CL (dec_len (concat (buf k))) (hd k))) (code s1) (wcode s1))).

Definition exec {c} (e : env) (prog : list op) (s : hs c) : hs c := fold_left (step e) prog s.
Definition run (c : codec) (e : env) (prog : list op) (fin : option bytes) : option (hs c) :=
  finish e fin (exec e prog (mkHs (init c e) 200 200)).

(* ---------- what is assumed of a gzip codec ----------
   A history of calls on one GzipFile: write(d) / flush().  [gz_run] threads the state and
   concatenates what the calls emit; [codec_ok c gunzip]: for EVERY history, the decoder applied to
   (bytes emitted at construction ++ bytes emitted by the calls ++ bytes emitted by close) returns
   the concatenation of the written data. *)
Inductive gzop := GW (d : bytes) | GF.
Fixpoint gz_run (c : codec) (g : gzs c) (ops : list gzop) : gzs c * bytes :=
  match ops with
  | [] => (g, [])
  | GW d :: r => let '(g1, o1) := gz_write c g d in let '(g2, o2) := gz_run c g1 r in (g2, o1 ++ o2)
  | GF :: r => let '(g1, o1) := gz_flush c g in let '(g2, o2) := gz_run c g1 r in (g2, o1 ++ o2)
  end.
Fixpoint gz_data (ops : list gzop) : bytes :=
  match ops with [] => [] | GW d :: r => d ++ gz_data r | GF :: r => gz_data r end.
Definition gz_stream (c : codec) (ops : list gzop) : bytes :=
  let '(g, o) := gz_run c (fst (gz_open c)) ops in snd (gz_open c) ++ o ++ gz_close c g.
Definition codec_ok (c : codec) (gunzip : bytes -> option bytes) : Prop :=
  forall ops, gunzip (gz_stream c ops) = Some (gz_data ops).

(* ---------- two concrete codecs used by the correspondence check ---------- *)

(* (1) toy codec, also installed in place of gzip.GzipFile in the implementation run:
   header FF 03; data byte-stuffed (FF -> FF 00); flush marker FF 01;
   trailer FF 02 (n mod 251) where n = number of bytes written so far (stateful, like ISIZE). *)
Definition stuff (d : bytes) : bytes := flat_map (fun x => if x =? 255 then [255; 0] else [x]) d.
Definition toy : codec := {|
  gzs := N;
  gz_open := (0, [255; 3]);
  gz_write := fun n d => (n + N.of_nat (length d), stuff d);
  gz_flush := fun n => (n, [255; 1]);
  gz_close := fun n => [255; 2; n mod 251]
|}.
Fixpoint toy_body (s : bytes) : option (bytes * N) :=
  match s with
  | [] => None
  | x :: s' =>
      if x =? 255 then
        match s' with
        | [] => None
        | y :: s'' =>
            if y =? 0 then match toy_body s'' with Some (d, t) => Some (255 :: d, t) | None => None end
            else if y =? 1 then toy_body s''
            else if y =? 2 then match s'' with [t] => Some ([], t) | _ => None end
            else None
        end
      else match toy_body s' with Some (d, t) => Some (x :: d, t) | None => None end
  end.
Definition toy_gunzip (s : bytes) : option bytes :=
  match s with
  | x :: y :: r =>
      if (x =? 255) && (y =? 3) then
        match toy_body r with
        | Some (d, t) => if (N.of_nat (length d)) mod 251 =? t then Some d else None
        | None => None
        end
      else None
  | _ => None
  end.

(* (2) transparent codec: what the harness canonicalises a REAL gzip stream to (each chunk is
   replaced by what a streaming zlib decompressor yields for it, plus the token 256 when the
   decompressor reports end-of-stream). *)
Definition sym : codec := {|
  gzs := unit;
  gz_open := (tt, []);
  gz_write := fun _ d => (tt, d);
  gz_flush := fun _ => (tt, []);
  gz_close := fun _ => [256]
|}.
Definition sym_gunzip (s : bytes) : option bytes :=
  match rev s with
  | x :: r => if x =? 256 then Some (rev r) else None
  | [] => None
  end.
