(* C29 — HEAD runs (simulation by the GET run), the model satisfies the checker,
   and the statements quoted in Property.v. *)
From Coq Require Import String.
From Coq Require Import List NArith Bool Arith Lia.
Import ListNotations.
From TV Require Import Lib.Obs C29.Model C29.Run C29.Proofs1 C29.Proofs2 C29.Proofs3.
Local Open Scope N_scope.

(* ---------- a HEAD run is the GET run with every chunk dropped ---------- *)
Definition set_sent {c} (s : st c) (x : list bytes) : st c :=
  mkSt (hd s) (buf s) (written s) (gzipping s) (gz s) (gval s) (w_hdrs s) x (err s).
Definition Sim {c} (sH sG : st c) : Prop := sH = set_sent sG (sent sH) /\ concat (sent sH) = [].

Lemma sim_flush : forall c (eH eG : env), is_head eH = true -> is_head eG = false ->
  forall f (sH sG : st c), Sim sH sG -> Sim (flush eH f sH) (flush eG f sG).
Proof.
  intros c eH eG HH HG f sH sG [E1 E2]. rewrite E1. clear E1.
  destruct sG as [hd0 buf0 wr gzf gzo gv wh sn er].
  unfold Sim, flush, set_sent, transform_first_chunk, transform_chunk; simpl. rewrite HH, HG.
  destruct wr; simpl.
  - destruct gzf; simpl.
    + destruct gzo; simpl.
      * destruct (gz_write c g (concat buf0)). destruct f. simpl. split; auto.
        destruct (gz_flush c g0). simpl. split; auto.
      * split; auto.
    + split; auto.
  - destruct (if gzf then gzip_decision (vary_step hd0) (concat buf0) f else false); simpl.
    + destruct (gz_open c). simpl. destruct (gz_write c g (concat buf0)). destruct f; simpl.
      * split; auto. rewrite concat_app. rewrite E2. reflexivity.
      * destruct (gz_flush c g0). simpl. split; auto. rewrite concat_app. rewrite E2. reflexivity.
    + split; auto. rewrite concat_app. rewrite E2. reflexivity.
Qed.

Lemma sim_step : forall c (eH eG : env), is_head eH = true -> is_head eG = false ->
  forall o (sH sG : st c), Sim sH sG -> Sim (step eH sH o) (step eG sG o).
Proof.
  intros c eH eG HH HG o sH sG S.
  destruct o; try (destruct S as [E1 E2]; rewrite E1; destruct sG; unfold Sim; simpl; split; [reflexivity|exact E2]).
  simpl. apply sim_flush; auto.
Qed.

Lemma sim_exec : forall c (eH eG : env), is_head eH = true -> is_head eG = false ->
  forall p (sH sG : st c), Sim sH sG -> Sim (exec eH p sH) (exec eG p sG).
Proof.
  intros c eH eG HH HG p. induction p as [|o p IH]; intros sH sG S; auto.
  unfold exec in *. simpl. apply IH. apply sim_step; auto.
Qed.

Lemma sim_finish : forall c (eH eG : env), is_head eH = true -> is_head eG = false ->
  forall fin (sH sG : st c), Sim sH sG -> Sim (finish eH fin sH) (finish eG fin sG).
Proof.
  intros c eH eG HH HG fin sH sG S. unfold finish.
  apply sim_flush; auto.
  assert (S1 : Sim (match fin with Some d => push sH d | None => sH end)
                   (match fin with Some d => push sG d | None => sG end)).
  { destruct fin as [d|]; auto. apply (sim_step c eH eG HH HG (Write d) sH sG S). }
  destruct S1 as [E1 E2]. rewrite E1.
  destruct (match fin with Some d => push sG d | None => sG end) as [hd0 buf0 wr gzf gzo gv wh sn er].
  unfold Sim, set_sent, set_hd. simpl. destruct wr; simpl; [split; auto|].
  destruct (hmem K_CL hd0); simpl; split; auto.
Qed.

Lemma sim_run : forall c ae prog fin,
  Sim (run c {| is_head := true; accept_enc := ae |} prog fin)
      (run c {| is_head := false; accept_enc := ae |} prog fin).
Proof.
  intros. unfold run. apply sim_finish; auto. apply sim_exec; auto.
  unfold Sim, init, set_sent, ae_gzip. simpl. auto.
Qed.

(* ---------- everything about the response, GET or HEAD ---------- *)
Lemma run_summary_any : forall c head ae prog fin,
  let s := run c {| is_head := head; accept_enc := ae |} prog fin in
  let sG := run c {| is_head := false; accept_enc := ae |} prog fin in
  let hh := handler_hdrs prog in
  let all := writes prog ++ fin_bytes fin in
  let D := expected_gzip ae prog fin in
  exists r, outcome_of s = Resp r /\
    vary_mentions_ae (r_vary r) = true /\
    r_ct r = hlist K_CT hh /\
    r_ce r = (if D then [V_GZIP] else hlist K_CE hh) /\
    r_cl r = (if D then (if has_flush prog then [] else [dec_len (concat (sent sG))])
              else hlist K_CL (hh1 prog fin)) /\
    (if head then concat (r_sent r) = []
     else r_sent r = sent sG /\
          if D then exists hist, concat (sent sG) = gz_stream c hist /\ gz_data hist = all
          else concat (sent sG) = all).
Proof.
  intros c head ae prog fin. cbv zeta.
  destruct (run_summary c {| is_head := false; accept_enc := ae |} eq_refl prog fin)
    as [r [R0 [R1 [R2 [R3 [R4 [R5 R6]]]]]]]. simpl accept_enc in *.
  destruct head.
  - destruct (sim_run c ae prog fin) as [E1 E2].
    unfold outcome_of in *. rewrite E1. simpl.
    destruct (err (run c {| is_head := false; accept_enc := ae |} prog fin)); try discriminate.
    destruct (w_hdrs (run c {| is_head := false; accept_enc := ae |} prog fin)) as [H|]; try discriminate.
    inversion R0; subst r; simpl in *. eexists. split. reflexivity. simpl. repeat split; auto.
  - exists r. repeat split; auto.
Qed.

(* ---------- the model satisfies the checker ---------- *)
Lemma list_beqb_refl : forall l, list_beqb l l = true.
Proof.
  induction l as [|x l IH]; simpl; auto. unfold list_beqb in *. simpl. rewrite beqb_refl, IH. reflexivity.
Qed.

Lemma expected_no_ce : forall ae prog fin, expected_gzip ae prog fin = true ->
  hmem K_CE (handler_hdrs prog) = false.
Proof.
  intros ae prog fin H. unfold expected_gzip in H. apply andb_true_iff in H as [_ H].
  apply negb_true_iff in H. exact H.
Qed.

Lemma first_chunk_all : forall prog fin, has_flush prog = false ->
  first_chunk prog fin = writes prog ++ fin_bytes fin.
Proof. intros prog fin H. unfold first_chunk. rewrite H. reflexivity. Qed.

Lemma check_resp_ok : forall c gunzip, codec_ok c gunzip -> forall head ae prog fin,
  exists r, outcome_of (run c {| is_head := head; accept_enc := ae |} prog fin) = Resp r /\
            check_resp gunzip head ae prog fin r = true.
Proof.
  intros c gunzip OK head ae prog fin.
  destruct (run_summary_any c head ae prog fin) as [r [R0 [R2 [R3 [R4 [R5 R6]]]]]].
  exists r. split. exact R0.
  unfold check_resp. cbv zeta. rewrite R3.
  change (mentions_gzip ae && compressible (before_semi (join_comma (hlist K_CT (handler_hdrs prog))))
          && (has_flush prog || (MIN_LENGTH <=? length (first_chunk prog fin))%nat)
          && negb (hmem K_CE (handler_hdrs prog))) with (expected_gzip ae prog fin).
  set (hh := handler_hdrs prog) in *. set (D := expected_gzip ae prog fin) in *.
  set (sG := run c {| is_head := false; accept_enc := ae |} prog fin) in *.
  assert (GZ : negb (hmem K_CE hh) && list_beqb (r_ce r) [V_GZIP] = D).
  { rewrite R4. destruct D eqn:ED.
    - pose proof (expected_no_ce ae prog fin ED) as NCE. fold hh in NCE. rewrite NCE. reflexivity.
    - destruct (hmem K_CE hh) eqn:E; auto. rewrite (hmem_false_hlist _ _ E). reflexivity. }
  rewrite GZ.
  match goal with |- ?a && ?b && ?c && ?d = true =>
    assert (Ha : a = true); [exact R2|
    assert (Hb : b = true); [|
    assert (Hc : c = true); [destruct D; reflexivity|
    assert (Hd : d = true); [|rewrite Ha, Hb, Hc, Hd; reflexivity]]]]
  end.
  - (* body *)
    destruct head.
    + rewrite R6. reflexivity.
    + destruct R6 as [R6 G]. rewrite R6. rewrite R4. destruct D eqn:ED.
      * pose proof (expected_no_ce ae prog fin ED) as NCE. fold hh in NCE. rewrite NCE.
        destruct G as [hist [G1 G2]]. rewrite G1. rewrite OK. rewrite G2.
        rewrite !beqb_refl. reflexivity.
      * rewrite G. rewrite beqb_refl. destruct (hmem K_CE hh) eqn:E.
        -- rewrite list_beqb_refl. reflexivity.
        -- rewrite (hmem_false_hlist _ _ E). reflexivity.
  - (* Content-Length *)
    rewrite R5. destruct D eqn:ED.
    + rewrite orb_true_l. destruct (has_flush prog); auto.
      destruct head; auto. destruct R6 as [R6 _]. rewrite R6. rewrite orb_false_l. apply beqb_refl.
    + rewrite orb_false_l. destruct (hmem K_CL hh) eqn:ECL; auto. cbv [negb].
      unfold hh1. fold hh. rewrite ECL.
      destruct (has_flush prog) eqn:HF.
      * rewrite (hmem_false_hlist _ _ ECL). reflexivity.
      * autorewrite with keys. destruct head; auto. rewrite orb_false_l.
        destruct R6 as [R6 G]. rewrite R6, G. rewrite first_chunk_all by exact HF. apply beqb_refl.
Qed.

Lemma bytes_list_map : forall l, bytes_list (map OBytes l) = Some l.
Proof. induction l as [|x l IH]; simpl; auto. rewrite IH. reflexivity. Qed.
Lemma resp_roundtrip : forall r, resp_of_obs (obs_of (Resp r)) = Some r.
Proof. intros [a b' c d s]. simpl. rewrite !bytes_list_map. reflexivity. Qed.

Theorem check_case_model : forall i, check_case i (run_case i) = true.
Proof.
  intros [[[[toy_mode head] ae] prog] fin]. unfold check_case, run_case, run_outcome.
  destruct toy_mode.
  - destruct (check_resp_ok toy toy_gunzip toy_ok head ae prog fin) as [r [E1 E2]].
    rewrite E1. rewrite resp_roundtrip. exact E2.
  - destruct (check_resp_ok sym sym_gunzip sym_ok head ae prog fin) as [r [E1 E2]].
    rewrite E1. rewrite resp_roundtrip. exact E2.
Qed.
