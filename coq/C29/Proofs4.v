(* C29 — HEAD runs (simulation by the GET run) and the model against the checker. *)
From Coq Require Import String.
From Coq Require Import List NArith ZArith Bool Arith Lia.
Import ListNotations.
From TV Require Import Lib.Obs C29.Model C29.Run C29.Proofs1 C29.Proofs2 C29.Proofs3.
Local Open Scope N_scope.

(* ---------- a HEAD run is the GET run with every chunk dropped ---------- *)
Definition set_sent {c} (s : st c) (x : list bytes) : st c :=
  mkSt (hd s) (buf s) (written s) (gzipping s) (gz s) (gval s) (w_hdrs s) x (err s).
Definition Sim0 {c} (sH sG : st c) : Prop := sH = set_sent sG (sent sH) /\ concat (sent sH) = [].
Definition Sim {c} (sH sG : hs c) : Prop :=
  Sim0 (core sH) (core sG) /\ code sH = code sG /\ wcode sH = wcode sG.

Definition envH (ae : option bytes) (cp : bool) : env := {| is_head := true; accept_enc := ae; compress := cp |}.
Definition envG (ae : option bytes) (cp : bool) : env := {| is_head := false; accept_enc := ae; compress := cp |}.

Lemma sim_flush0 : forall c ae cp k f (sH sG : st c), Sim0 sH sG ->
  Sim0 (flush (envH ae cp) k f sH) (flush (envG ae cp) k f sG).
Proof.
  intros c ae cp k f sH sG [E1 E2]. rewrite E1. clear E1.
  destruct sG as [hd0 buf0 wr gzf gzo gv wh sn er].
  unfold Sim0, flush, set_sent, transform_first_chunk, transform_chunk; simpl.
  destruct cp; simpl.
  - destruct wr; simpl.
    + destruct gzf; simpl.
      * destruct gzo; simpl.
        -- destruct (gz_write c g (concat buf0)). destruct f. simpl. split; auto.
           destruct (gz_flush c g0). simpl. split; auto.
        -- split; auto.
      * split; auto.
    + destruct (if gzf then gzip_decision (vary_step hd0) k (concat buf0) f else false); simpl.
      * destruct (gz_open c). simpl. destruct (gz_write c g (concat buf0)). destruct f; simpl.
        -- split; auto. rewrite concat_app. rewrite E2. reflexivity.
        -- destruct (gz_flush c g0). simpl. split; auto. rewrite concat_app. rewrite E2. reflexivity.
      * split; auto. rewrite concat_app. rewrite E2. reflexivity.
  - destruct wr; simpl; split; auto. rewrite concat_app. rewrite E2. reflexivity.
Qed.

Lemma sim_written : forall c (sH sG : st c), Sim0 sH sG -> written sH = written sG /\ hd sH = hd sG /\ buf sH = buf sG.
Proof. intros c sH sG [E1 _]. rewrite E1. destruct sG; simpl; auto. Qed.

Lemma sim_do_flush : forall c ae cp f (sH sG : hs c), Sim sH sG ->
  Sim (do_flush (envH ae cp) f sH) (do_flush (envG ae cp) f sG).
Proof.
  intros c ae cp f sH sG [S0 [S1 S2]]. unfold do_flush, Sim. simpl.
  destruct (sim_written c _ _ S0) as [W _]. rewrite S1, S2, W. split; auto.
  apply sim_flush0. exact S0.
Qed.

Lemma sim_set : forall c (sH sG : st c) (f : st c -> st c),
  (forall s x, f (set_sent s x) = set_sent (f s) x) -> (forall s, sent (f s) = sent s) ->
  Sim0 sH sG -> Sim0 (f sH) (f sG).
Proof.
  intros c sH sG f Hf Hs [E1 E2]. unfold Sim0. rewrite Hs. split; auto.
  rewrite E1 at 1. apply Hf.
Qed.

Lemma sim_step : forall c ae cp o (sH sG : hs c), Sim sH sG -> Sim (step (envH ae cp) sH o) (step (envG ae cp) sG o).
Proof.
  intros c ae cp o sH sG S.
  destruct o; try (apply sim_do_flush; exact S);
    destruct S as [S0 [S1 S2]]; destruct (sim_written c _ _ S0) as [_ [HD _]];
    unfold Sim; simpl; rewrite ?HD; (split; [|split; auto]).
  - apply (sim_set c _ _ (fun s => set_hd s (hset (norm name) value (hd (core sG))))); auto; intros []; reflexivity.
  - apply (sim_set c _ _ (fun s => set_hd s (hadd (norm name) value (hd (core sG))))); auto; intros []; reflexivity.
  - apply (sim_set c _ _ (fun s => set_hd s (clear_header (norm name) (hd (core sG))))); auto; intros []; reflexivity.
  - apply (sim_set c _ _ (fun s => push s chunk)); auto; intros []; reflexivity.
  - exact S0.
Qed.

Lemma sim_exec : forall c ae cp p (sH sG : hs c), Sim sH sG -> Sim (exec (envH ae cp) p sH) (exec (envG ae cp) p sG).
Proof.
  intros c ae cp p. induction p as [|o p IH]; intros sH sG S; auto.
  unfold exec in *. simpl. apply IH. apply sim_step; auto.
Qed.

Lemma sim_finish : forall c ae cp fin (sH sG : hs c), Sim sH sG ->
  match finish (envH ae cp) fin sH, finish (envG ae cp) fin sG with
  | Some a, Some b' => Sim a b'
  | None, None => True
  | _, _ => False
  end.
Proof.
  intros c ae cp fin sH sG S. unfold finish.
  assert (S1 : Sim (match fin with Some d => step (envH ae cp) sH (Write d) | None => sH end)
                   (match fin with Some d => step (envG ae cp) sG (Write d) | None => sG end)).
  { destruct fin as [d|]; auto. apply (sim_step c ae cp (Write d) sH sG S). }
  remember (match fin with Some d => step (envH ae cp) sH (Write d) | None => sH end) as aH.
  remember (match fin with Some d => step (envG ae cp) sG (Write d) | None => sG end) as aG.
  clear HeqaH HeqaG S.
  destruct S1 as [S0 [S1 S2]]. destruct (sim_written c _ _ S0) as [W [HD BF]].
  rewrite W, S1, HD, BF.
  destruct (written (core aG)).
  - apply sim_do_flush. unfold Sim; auto.
  - destruct (bodiless (code aG)).
    + destruct (buf (core aG)); auto. apply sim_do_flush. unfold Sim; simpl. rewrite S2. split; [|split; auto].
      apply (sim_set c _ _ (fun s => set_hd s (clear_repr (hd (core aG))))); auto; intros []; reflexivity.
    + destruct (hmem K_CL (hd (core aG))).
      * apply sim_do_flush. unfold Sim; auto.
      * apply sim_do_flush. unfold Sim; simpl. rewrite S2. split; [|split; auto].
        apply (sim_set c _ _ (fun s => set_hd s (hset K_CL (dec_len (concat (buf (core aG)))) (hd (core aG))))); auto;
          intros []; reflexivity.
Qed.

Lemma sim_run : forall c ae cp prog fin,
  match run c (envH ae cp) prog fin, run c (envG ae cp) prog fin with
  | Some a, Some b' => Sim a b'
  | None, None => True
  | _, _ => False
  end.
Proof.
  intros. unfold run. apply sim_finish. apply sim_exec.
  unfold Sim, Sim0, init, set_sent, ae_gzip. simpl. auto.
Qed.

(* ---------- everything about the response, GET or HEAD ---------- *)
Lemma run_summary_any : forall c head ae cp prog fin,
  let e := {| is_head := head; accept_enc := ae; compress := cp |} in
  let hh := eff_hdrs prog in
  let fh := final_hdrs prog fin in
  let all := writes prog ++ fin_bytes fin in
  let D := cp && expected_gzip ae prog fin (hlist K_CT hh) in
  if assertion_fails prog fin then outcome_of (run c e prog fin) = AssertFail
  else exists sG r, run c (envG ae cp) prog fin = Some sG /\ outcome_of (run c e prog fin) = Resp r /\
    r_status r = status_at prog /\
    r_ct r = hlist K_CT hh /\
    r_ce r = (if D then [V_GZIP] else hlist K_CE hh) /\
    r_cl r = (if D then (if has_flush prog then [] else [dec_len (concat (sent (core sG)))])
              else hlist K_CL fh) /\
    (if cp then vary_mentions_ae (r_vary r) = true else r_vary r = hlist K_VARY fh) /\
    (if head then concat (r_sent r) = []
     else r_sent r = sent (core sG) /\
          if D then exists hist, concat (sent (core sG)) = gz_stream c hist /\ gz_data hist = all
          else concat (sent (core sG)) = all).
Proof.
  intros c head ae cp prog fin. cbv zeta.
  pose proof (run_summary c (envG ae cp) eq_refl prog fin) as G. cbv zeta in G. simpl accept_enc in G. simpl compress in G.
  pose proof (sim_run c ae cp prog fin) as S.
  destruct (assertion_fails prog fin).
  - destruct head.
    + fold (envH ae cp). rewrite G in S. destruct (run c (envH ae cp) prog fin); [contradiction|reflexivity].
    + fold (envG ae cp). rewrite G. reflexivity.
  - destruct G as [sG [r [ES [R0 [R1 [R2 [R3 [R4 [R5 [R6 R7]]]]]]]]]].
    exists sG. destruct head.
    + fold (envH ae cp). rewrite ES in S. destruct (run c (envH ae cp) prog fin) as [sH|]; [|contradiction].
      destruct S as [[E1 E2] [S1 S2]].
      unfold outcome_of in *. rewrite E1. simpl.
      destruct (err (core sG)); try discriminate.
      destruct (w_hdrs (core sG)) as [H|]; try discriminate.
      inversion R0; subst r; simpl in *. eexists. split. exact ES. split. reflexivity.
      simpl. rewrite S2. repeat split; auto.
    + fold (envG ae cp). exists r. rewrite ES. repeat split; auto.
Qed.
