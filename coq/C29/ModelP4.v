(* C29, phase 4 — the ETag block of RequestHandler.finish in front of the modelled finish:
     if not self._headers_written:
         if status == 200 and method in (GET, HEAD) and "Etag" not in headers:
             self.set_etag_header()            # '"' + sha1(b"".join(_write_buffer)).hexdigest() + '"'
             if self.check_etag_header():      # against If-None-Match (C02.Model.etag_matches)
                 self._write_buffer = []; self.set_status(304)
   followed by the rest of finish (C29.Model.finish with no chunk).  SHA-1 is a parameter.
   Definitions only. *)
From Coq Require Import String.
From Coq Require Import List NArith ZArith Bool Arith.
Import ListNotations.
From TV Require C02.Model.
From TV Require Import Lib.Obs C29.Model C29.Run.
Local Open Scope N_scope.

Definition K_ETAG := b "Etag".
Definition quote (x : bytes) : bytes := [34] ++ x ++ [34].
Definition inm_value (inm : option bytes) : bytes := match inm with Some v => v | None => [] end.

Definition set_buf {c} (s : st c) (l : list bytes) : st c :=
  mkSt (hd s) l (written s) (gzipping s) (gz s) (gval s) (w_hdrs s) (sent s) (err s).

Definition push_fin {c} (e : env) (fin : option bytes) (s : hs c) : hs c :=
  match fin with Some d => step e s (Write d) | None => s end.

Definition etag_block {c} (sha : bytes -> bytes) (inm : option bytes) (s : hs c) : hs c :=
  let k := core s in
  if written k then s
  else if (code s =? 200) && negb (hmem K_ETAG (hd k)) then
    let etag := quote (sha (concat (buf k))) in
    let k1 := set_hd k (hset K_ETAG etag (hd k)) in
    if C02.Model.etag_matches etag (inm_value inm)
    then mkHs (set_buf k1 []) 304 (wcode s)
    else mkHs k1 (code s) (wcode s)
  else s.

Definition run_etag (c : codec) (e : env) (sha : bytes -> bytes) (inm : option bytes)
           (prog : list op) (fin : option bytes) : option (hs c) :=
  finish e None (etag_block sha inm (push_fin e fin (exec e prog (mkHs (init c e) 200 200)))).

(* observable: the phase-3 one plus the Etag values of the header block *)
Definition etag_of {c} (o : option (hs c)) : list bytes :=
  match o with
  | Some s => match w_hdrs (core s) with Some h => hlist K_ETAG h | None => [] end
  | None => []
  end.
Definition obs2 {c} (o : option (hs c)) : obs :=
  match obs_of (outcome_of o) with
  | OList l => OList (l ++ [OList (map OBytes (etag_of o))])
  | t => t
  end.

(* input: phase-3 input, If-None-Match request header, hex SHA-1 of the unflushed write buffer
   at finish (computed by the harness with hashlib over the bytes the handler wrote) *)
Definition input2 := (input * option bytes * bytes)%type.

Definition run_case2 (i2 : input2) : obs :=
  let '(i, inm, digest) := i2 in
  let '(toy_mode, head, comp, aes, prog, fin) := i in
  let e := {| is_head := head; accept_enc := ae_of aes; compress := comp |} in
  if toy_mode then obs2 (run_etag toy e (fun _ => digest) inm prog fin)
  else obs2 (run_etag sym e (fun _ => digest) inm prog fin).

(* ---------- the property on observables ---------- *)
(* finish() answers 304 by itself: nothing flushed, status 200, no Etag of the handler's, and
   If-None-Match matches the ETag of the bytes written *)
Definition etag_applies (prog : list op) : bool :=
  negb (has_flush prog) && (status_at prog =? 200) && negb (hmem K_ETAG (handler_hdrs prog)).
Definition expect_304 (inm : option bytes) (digest : bytes) (prog : list op) : bool :=
  etag_applies prog && C02.Model.etag_matches (quote digest) (inm_value inm).

Definition split_last (l : list obs) : option (list obs * obs) :=
  match rev l with x :: r => Some (rev r, x) | [] => None end.

Definition check_case2 (i2 : input2) (o : obs) : bool :=
  let '(i, inm, digest) := i2 in
  let '(toy_mode, head, comp, aes, prog, fin) := i in
  match o with
  | OList l =>
      match split_last l with
      | Some (base, OList et) =>
          match bytes_list et, resp_of_obs (OList base) with
          | Some et, Some r =>
              if expect_304 inm digest prog then
                (* a 304 that is never encoded and has no body; the ETag is that of the uncompressed bytes *)
                (r_status r =? 304) && list_beqb (r_ce r) [] && list_beqb (r_ct r) []
                && beqb (List.concat (r_sent r)) [] && list_beqb et [quote digest]
                && (if comp then vary_mentions_ae (r_vary r) else list_beqb (r_vary r) (hlist K_VARY (handler_hdrs prog)))
                && list_beqb (r_cl r) (hlist K_CL (handler_hdrs prog))
              else
                check_case i (OList base)
                && list_beqb et (if etag_applies prog then [quote digest] else hlist K_ETAG (handler_hdrs prog))
          | _, _ => false
          end
      | _ => false
      end
  | _ => check_case i o
  end.
