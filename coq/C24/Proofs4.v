(* C24 — the Cookie header: parse_cookie / _unquote_cookie / get_cookie. *)
From Coq Require Import List NArith ZArith Arith Bool Lia ZifyBool.
From TV Require Import Lib.Obs Lib.C21_Utf8 C18.Model C18.Proofs C24.Model C24.Run C24.Proofs C24.Proofs2 C24.Proofs3.
Import ListNotations.
Local Open Scope N_scope.

Lemma split_on_app_gen sep a b :
  split_on sep (a ++ sep :: b) =
  (fst (split_on sep a), snd (split_on sep a) ++ fst (split_on sep b) :: snd (split_on sep b)).
Proof.
  induction a as [|c a IH].
  - cbn [app split_on fst snd]. destruct (split_on sep b) as [p ps]. rewrite N.eqb_refl. reflexivity.
  - cbn [app split_on]. rewrite IH. destruct (split_on sep a) as [p ps]. cbn [fst snd].
    destruct (c =? sep); reflexivity.
Qed.

Lemma lookup_chunks_app name l1 l2 acc :
  lookup_chunks name (l1 ++ l2) acc = lookup_chunks name l2 (lookup_chunks name l1 acc).
Proof.
  revert acc. induction l1 as [|ch l1 IH]; intro acc; cbn [app lookup_chunks]; [reflexivity|].
  destruct (chunk_kv ch) as [k v]. apply IH.
Qed.

Lemma lookup_chunks_acc name l acc :
  lookup_chunks name l acc =
  match lookup_chunks name l None with Some v => Some v | None => acc end.
Proof.
  revert acc. induction l as [|ch l IH]; intro acc; cbn [lookup_chunks]; [reflexivity|].
  destruct (chunk_kv ch) as [k v].
  set (cnd := (negb (is_nil k) || negb (is_nil v)) && str_eqb k name).
  rewrite (IH (if cnd then Some (unquote_cookie v) else acc)), (IH (if cnd then Some (unquote_cookie v) else None)).
  destruct (lookup_chunks name l None); [reflexivity|]. destruct cnd; reflexivity.
Qed.

(* cookies later in the header win; others are transparent *)
Lemma cookie_of_header_app a b :
  cookie_of_header (a ++ 59 :: b) =
  match cookie_of_header b with Some v => Some v | None => cookie_of_header a end.
Proof.
  unfold cookie_of_header. rewrite split_on_app_gen.
  destruct (split_on 59 a) as [p ps]. destruct (split_on 59 b) as [q qs]. cbn [fst snd].
  change (p :: ps ++ q :: qs) with ((p :: ps) ++ (q :: qs)).
  rewrite lookup_chunks_app. apply lookup_chunks_acc.
Qed.

Lemma split_first_app sep a b : ~ In sep a -> split_first sep (a ++ sep :: b) = Some (a, b).
Proof.
  induction a as [|c a IH]; intro H; cbn [app split_first].
  - rewrite N.eqb_refl. reflexivity.
  - destruct (N.eqb_spec c sep) as [->|_]; [exfalso; apply H; left; reflexivity|].
    rewrite IH by (intro K; apply H; right; exact K). reflexivity.
Qed.

Lemma drop_while_lead p sp s :
  Forall (fun c => p c = true) sp -> drop_while p (sp ++ s) = drop_while p s.
Proof. induction 1 as [|c sp Hc _ IH]; cbn [app drop_while]; [reflexivity|]. rewrite Hc. exact IH. Qed.

Lemma strip_lead p sp s :
  Forall (fun c => p c = true) sp -> Forall (fun c => p c = false) s -> strip_with p (sp ++ s) = s.
Proof.
  intros Hsp Hs. unfold strip_with. rewrite (drop_while_lead p sp s Hsp), (drop_while_id p s Hs).
  rewrite drop_while_id by (apply Forall_rev, Hs). apply rev_involutive.
Qed.

Lemma unquote_tok tk : Forall tokc tk -> unquote_cookie tk = tk.
Proof.
  intro H. destruct tk as [|c [|d t]]; try reflexivity. cbn [unquote_cookie].
  inversion H as [|? ? Hc _]; subst.
  replace (c =? 34) with false; [reflexivity|]. unfold tokc, hexc in Hc. lia.
Qed.

Lemma name_nospace : Forall (fun c => str_space c = false) XSRF_NAME.
Proof. repeat constructor. Qed.

(* "_xsrf=<token>", possibly after white space, yields exactly the token *)
Lemma cookie_of_header_single sp tk :
  Forall (fun c => str_space c = true) sp -> Forall tokc tk ->
  cookie_of_header (sp ++ XSRF_NAME ++ 61 :: tk) = Some tk.
Proof.
  intros Hsp T. unfold cookie_of_header.
  assert (N59 : ~ In 59 (sp ++ XSRF_NAME ++ 61 :: tk)).
  { rewrite !in_app_iff. intros [K|[K|K]].
    - rewrite Forall_forall in Hsp. specialize (Hsp _ K). vm_compute in Hsp. discriminate.
    - cbn in K. lia.
    - destruct K as [K|K]; [lia|]. rewrite Forall_forall in T. specialize (T _ K). unfold tokc, hexc in T. lia. }
  rewrite (split_on_no 59 _ N59). cbn [lookup_chunks]. unfold chunk_kv.
  rewrite app_assoc. rewrite split_first_app.
  2:{ rewrite in_app_iff. intros [K|K].
      - rewrite Forall_forall in Hsp. specialize (Hsp _ K). vm_compute in Hsp. discriminate.
      - cbn in K. lia. }
  rewrite (strip_lead str_space sp XSRF_NAME Hsp name_nospace).
  rewrite strip_id by (eapply Forall_impl; [|exact T]; apply tokc_not_space).
  change (is_nil XSRF_NAME) with false. change (str_eqb XSRF_NAME XSRF_NAME) with true. cbn [negb orb andb].
  rewrite (unquote_tok tk T). reflexivity.
Qed.

(* whatever other cookies precede it *)
Theorem cookie_header_delivers_token pre sp tk :
  Forall (fun c => str_space c = true) sp -> Forall tokc tk ->
  cookie_of_header (pre ++ 59 :: sp ++ XSRF_NAME ++ 61 :: tk) = Some tk.
Proof.
  intros Hsp T. rewrite cookie_of_header_app, (cookie_of_header_single sp tk Hsp T). reflexivity.
Qed.

Lemma cookie_header_simple tk : Forall tokc tk -> cookie_of_header (XSRF_NAME ++ 61 :: tk) = Some tk.
Proof. intro T. apply (cookie_of_header_single [] tk); [constructor|exact T]. Qed.

Lemma cookie_header_delivers_token_both pre sp tk :
  Forall (fun c => str_space c = true) sp -> Forall tokc tk ->
  cookie_of_header (pre ++ 59 :: sp ++ XSRF_NAME ++ 61 :: tk) = Some tk
  /\ cookie_of_header (XSRF_NAME ++ 61 :: tk) = Some tk.
Proof.
  intros Hsp T. split; [exact (cookie_header_delivers_token pre sp tk Hsp T)|exact (cookie_header_simple tk T)].
Qed.

Lemma apply_header_fields h r :
  r_rnd (apply_header h r) = r_rnd r /\ r_mask (apply_header h r) = r_mask r /\
  r_method (apply_header h r) = r_method r /\ r_supported (apply_header h r) = r_supported r.
Proof. destruct h; cbn; auto. Qed.

(* end to end: the cookie the application sets comes back inside a Cookie header
   (after any other cookies, optional white space) and the issued token is accepted *)
Theorem issued_token_accepted_via_cookie_header r r0 pre sp c :
  bytes (r_rnd r) -> bytes (r_mask r) -> r_rnd r <> [] ->
  set_cookie (handle r) = Some c ->
  Forall (fun x => str_space x = true) sp ->
  declared r0 = true ->
  input_token r0 = Some c ->
  ran (handle (apply_header (Some (pre ++ 59 :: sp ++ XSRF_NAME ++ 61 :: c)) r0)) = true
  /\ status (handle (apply_header (Some (pre ++ 59 :: sp ++ XSRF_NAME ++ 61 :: c)) r0)) <> 403%Z.
Proof.
  intros Br Bm Hr Sc Hsp Dc Hin.
  destruct (set_cookie_carries_fresh_secret r c 0%Z Br Bm Sc) as [HT _].
  pose proof (token_is_issue r c HT) as HI.
  pose proof (secret_bytes r Br) as Bs.
  assert (T : Forall tokc c).
  { unfold secret in Bs. destruct (raw_token r) as [[v0 tok] ts]. cbn [fst snd] in *.
    exact (issue_tokc _ _ _ _ _ _ Bs Bm HI). }
  apply (issued_token_reaches_handler r _ c Br Bm HT Hr).
  - exact Dc.
  - exact Hin.
  - cbn [apply_header with_cookie r_cookie]. rewrite Sc. apply cookie_header_delivers_token; assumption.
Qed.

(* the checker applied to a case with a raw Cookie header *)
Theorem model_satisfies_check_case c :
  bytes (r_rnd (snd c)) -> bytes (r_mask (snd c)) -> r_rnd (snd c) <> [] ->
  check_case c (run_case c) = true.
Proof.
  intros Br Bm Hr. unfold check_case, run_case.
  destruct (apply_header_fields (fst c) (snd c)) as (E1 & E2 & _).
  apply model_satisfies_check; rewrite ?E1, ?E2; assumption.
Qed.

Example ex_cookie_header :
  cookie_of_header [97;61;49;59;32;95;120;115;114;102;61;34;97;92;48;55;51;98;34;59;32;122] = Some [97;59;98]
  /\ cookie_of_header [95;120;115;114;102;61;49;59;95;120;115;114;102;61;50] = Some [50]
  /\ cookie_of_header [95;88;83;82;70;61;49] = None.
Proof. repeat split; vm_compute; reflexivity. Qed.
