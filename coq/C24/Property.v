(* C24 — XSRF protection accepts exactly the tokens issued for the cookie.
   Property theorems only; proofs are in Proofs.v, Proofs2.v, Proofs3.v.
   [handle r] is the model of RequestHandler._execute for an application whose
   handler returns self.xsrf_token from every method; [r] holds the settings,
   the method, get_cookie("_xsrf"), the three token carriers, and the values
   os.urandom / time.time would return.  The method is an arbitrary string and
   [r_supported r] is the handler class's SUPPORTED_METHODS ([declared r]: the
   method is in it; otherwise 405).  [gate r] = xsrf_cookies is on and the method
   is not exactly GET/HEAD/OPTIONS. *)
From Coq Require Import List NArith ZArith Bool.
From TV Require Import C18.Model C18.Proofs C24.Model C24.Run C24.Proofs C24.Proofs2 C24.Proofs3 C24.Proofs4 C24.Args C24.ProofsP4.
Import ListNotations.
Local Open Scope N_scope.

(* 1. The request reaches the handler if and only if the gate is off or the
      chosen carrier (form field, else X-XSRFToken, else X-CSRFToken) holds a
      non-empty string that decodes to the same non-empty secret as the cookie
      (or as the fresh random secret when the cookie is absent/undecodable). *)
Theorem C24_reaches_handler_iff :
  forall r,
    ran (handle r) = true <->
    declared r = true /\
    (gate r = false \/
     exists s v t ts, input_token r = Some s /\ s <> [] /\
                      decode s (r_now r) = DTok v t ts /\ t <> [] /\ t = secret r).
Proof. exact reaches_handler_iff. Qed.
Print Assumptions C24_reaches_handler_iff.

(* 2. A refused request is answered 403 with nothing issued, and 403 is only
      ever the refusal. *)
Theorem C24_refusal_is_405_or_403 :
  forall r, ran (handle r) = false ->
    (declared r = false /\ handle r = mkresp 405 false None None)
    \/ (declared r = true /\ handle r = mkresp 403 false None None).
Proof. exact refusal_is_405_or_403. Qed.
Print Assumptions C24_refusal_is_405_or_403.

Theorem C24_status_403_iff_refused :
  forall r, status (handle r) = 403%Z <-> declared r = true /\ ran (handle r) = false.
Proof. exact status_403_iff. Qed.
Print Assumptions C24_status_403_iff_refused.

Theorem C24_status_405_iff_undeclared :
  forall r, status (handle r) = 405%Z <-> declared r = false.
Proof. exact status_405_iff. Qed.
Print Assumptions C24_status_405_iff_undeclared.

(* 2b. EVERY method string other than exactly GET / HEAD / OPTIONS is protected
       (standard verbs, verbs added through SUPPORTED_METHODS such as PROPFIND,
       other spellings such as "get"): it reaches the handler only with a valid
       token, and is otherwise refused with 403 (405 if the verb is undeclared);
       the exempt verbs and a disabled setting are never checked. *)
Theorem C24_non_exempt_method_requires_token :
  forall r,
    r_xsrf_on r = true ->
    r_method r <> M_GET -> r_method r <> M_HEAD -> r_method r <> M_OPTIONS ->
    ran (handle r) = true ->
    exists s v t ts, input_token r = Some s /\ s <> [] /\
                     decode s (r_now r) = DTok v t ts /\ t <> [] /\ t = secret r.
Proof. exact non_exempt_method_requires_token. Qed.
Print Assumptions C24_non_exempt_method_requires_token.

Theorem C24_non_exempt_method_without_token_refused :
  forall r,
    r_xsrf_on r = true ->
    r_method r <> M_GET -> r_method r <> M_HEAD -> r_method r <> M_OPTIONS ->
    ~ (exists s v t ts, input_token r = Some s /\ s <> [] /\
                        decode s (r_now r) = DTok v t ts /\ t <> [] /\ t = secret r) ->
    ran (handle r) = false /\ (status (handle r) = 403%Z \/ status (handle r) = 405%Z).
Proof. exact non_exempt_method_without_token_refused. Qed.
Print Assumptions C24_non_exempt_method_without_token_refused.

Theorem C24_exempt_or_disabled_reaches_handler :
  forall r,
    declared r = true ->
    (r_xsrf_on r = false \/ r_method r = M_GET \/ r_method r = M_HEAD \/ r_method r = M_OPTIONS) ->
    ran (handle r) = true.
Proof. exact exempt_or_disabled_reaches_handler. Qed.
Print Assumptions C24_exempt_or_disabled_reaches_handler.

(* 3. Malformed cookies and tokens never produce a server error: for every
      cookie, every carrier content, every method string, the status is 200, 403 or 405
      (given a supported xsrf_cookie_version, a 4-byte mask and a printable clock). *)
Theorem C24_never_a_server_error :
  forall r,
    (r_outver r = 1 \/ r_outver r = 2) /\ length (r_mask r) = 4%nat /\
    (exists t, render_int (r_now r) = Some t) ->
    status (handle r) = 200%Z \/ status (handle r) = 403%Z \/ status (handle r) = 405%Z.
Proof. exact never_a_server_error. Qed.
Print Assumptions C24_never_a_server_error.

(* 4. Decoding inverts issuing, for both format versions, every mask and
      every timestamp: the secret is recovered exactly. *)
Theorem C24_decode_inverts_issue :
  forall ov mask v0 tok ts tk now,
    bytes tok -> bytes mask ->
    issue ov mask (v0, tok, ts) = Some tk ->
    exists ts', decode tk now = DTok ov tok ts' /\ (ov = 2 -> ts' = ts).
Proof. exact decode_issue. Qed.
Print Assumptions C24_decode_inverts_issue.

(* 5. Every token the application issues (any version, any mask; the only premise
      beyond byte-ness is that os.urandom(16) is not empty) is accepted on
      any later request -- any declared method, settings, clock, new randomness, other
      carriers of lower precedence -- that presents it together with the cookie
      the client holds after the issuing response. *)
Theorem C24_issued_token_reaches_handler :
  forall r r' tk,
    bytes (r_rnd r) -> bytes (r_mask r) ->
    token (handle r) = Some tk -> r_rnd r <> [] ->
    declared r' = true -> input_token r' = Some tk ->
    r_cookie r' = match set_cookie (handle r) with Some c => Some c | None => r_cookie r end ->
    ran (handle r') = true /\ status (handle r') <> 403%Z.
Proof. exact issued_token_reaches_handler. Qed.
Print Assumptions C24_issued_token_reaches_handler.

(* ... through each of the three carriers (0 form field, 1 X-XSRFToken, 2 X-CSRFToken) *)
Theorem C24_issued_token_accepted_by_every_carrier :
  forall r tk k,
    bytes (r_rnd r) -> bytes (r_mask r) ->
    token (handle r) = Some tk -> r_rnd r <> [] -> (k <= 2)%nat ->
    ran (handle (follow_up r tk k)) = true /\ status (handle (follow_up r tk k)) <> 403%Z.
Proof. exact issued_token_accepted_by_every_carrier. Qed.
Print Assumptions C24_issued_token_accepted_by_every_carrier.

(* 6. A token issued for secret [tok] is accepted with a cookie exactly when
      [tok] is non-empty and equals the cookie's secret: tokens of other
      sessions are refused with 403. *)
Theorem C24_issued_token_accepted_iff_same_secret :
  forall r ov mask v0 tok ts tk,
    bytes tok -> bytes mask ->
    issue ov mask (v0, tok, ts) = Some tk ->
    input_token r = Some tk ->
    (xsrf_ok r = true <-> tok <> [] /\ tok = secret r).
Proof. exact issued_token_accepted_iff. Qed.
Print Assumptions C24_issued_token_accepted_iff_same_secret.

Theorem C24_other_sessions_token_refused :
  forall r ov mask v0 tok ts tk,
    bytes tok -> bytes mask ->
    issue ov mask (v0, tok, ts) = Some tk ->
    input_token r = Some tk -> declared r = true -> gate r = true -> tok <> secret r ->
    handle r = mkresp 403 false None None.
Proof. exact other_secret_refused. Qed.
Print Assumptions C24_other_sessions_token_refused.

(* 7. The cookie a fresh client is given carries exactly the 16 random bytes. *)
Theorem C24_set_cookie_carries_fresh_secret :
  forall r c now',
    bytes (r_rnd r) -> bytes (r_mask r) ->
    set_cookie (handle r) = Some c ->
    token (handle r) = Some c /\ exists ts, decode c now' = DTok (r_outver r) (r_rnd r) ts.
Proof. exact set_cookie_carries_fresh_secret. Qed.
Print Assumptions C24_set_cookie_carries_fresh_secret.

(* 8. The model satisfies the checker that the harness applies to the real
      implementation's observable on every case, with or without a raw Cookie
      header (os.urandom(16) is not empty). *)
Theorem C24_model_satisfies_check :
  forall c : option str * req,
    bytes (r_rnd (snd c)) -> bytes (r_mask (snd c)) -> r_rnd (snd c) <> [] ->
    check_case c (run_case c) = true.
Proof. exact model_satisfies_check_case. Qed.
Print Assumptions C24_model_satisfies_check.

(* 9. The secret a request works with is never empty, and a cookie that decodes
      to the empty secret (which no token can ever match) is replaced like a
      missing one (fix 44e6de9; before it such a client was locked out). *)
Theorem C24_secret_is_never_empty :
  forall r, r_rnd r <> [] -> secret r <> [].
Proof. exact secret_nonempty. Qed.
Print Assumptions C24_secret_is_never_empty.

Theorem C24_empty_secret_cookie_is_replaced :
  forall r c cs v ts,
    r_cookie r = Some (c :: cs) -> decode (c :: cs) (r_now r) = DTok v [] ts ->
    raw_token r = (None, r_rnd r, r_now r).
Proof. exact empty_secret_cookie_is_replaced. Qed.
Print Assumptions C24_empty_secret_cookie_is_replaced.

(* 10. Transport of the cookie (httputil.parse_cookie, _unquote_cookie,
       get_cookie): in a Cookie header later chunks win and chunks with other
       names are transparent; "_xsrf=<token>" delivers exactly the token; so the
       cookie the application sets, sent back after any other cookies, makes the
       issued token acceptable end to end. *)
Theorem C24_cookie_header_later_chunks_win :
  forall a b,
    cookie_of_header (a ++ 59 :: b) =
    match cookie_of_header b with Some v => Some v | None => cookie_of_header a end.
Proof. exact cookie_of_header_app. Qed.
Print Assumptions C24_cookie_header_later_chunks_win.

Theorem C24_cookie_header_delivers_token :
  forall pre sp tk,
    Forall (fun c => str_space c = true) sp -> Forall tokc tk ->
    cookie_of_header (pre ++ 59 :: sp ++ XSRF_NAME ++ 61 :: tk) = Some tk
    /\ cookie_of_header (XSRF_NAME ++ 61 :: tk) = Some tk.
Proof. exact cookie_header_delivers_token_both. Qed.
Print Assumptions C24_cookie_header_delivers_token.

Theorem C24_issued_token_accepted_via_cookie_header :
  forall r r0 pre sp c,
    bytes (r_rnd r) -> bytes (r_mask r) -> r_rnd r <> [] ->
    set_cookie (handle r) = Some c ->
    Forall (fun x => str_space x = true) sp ->
    declared r0 = true ->
    input_token r0 = Some c ->
    ran (handle (apply_header (Some (pre ++ 59 :: sp ++ XSRF_NAME ++ 61 :: c)) r0)) = true
    /\ status (handle (apply_header (Some (pre ++ 59 :: sp ++ XSRF_NAME ++ 61 :: c)) r0)) <> 403%Z.
Proof. exact issued_token_accepted_via_cookie_header. Qed.
Print Assumptions C24_issued_token_accepted_via_cookie_header.

(* 11. Transport of the token through request ARGUMENTS (query string and
       urlencoded body: & and = splitting, + and %XX decoding, query values then
       body values, last value wins, utf-8 decoding; then the two headers). *)
Theorem C24_input_token_precedence :
  forall r,
    (exists v, last_opt (r_fields r) = Some v /\ norm_field v <> [] /\ input_token r = Some (norm_field v))
    \/ ((last_opt (r_fields r) = None \/ exists v, last_opt (r_fields r) = Some v /\ norm_field v = [])
        /\ ((exists h, r_hx r = Some h /\ h <> [] /\ input_token r = Some h)
            \/ ((r_hx r = None \/ r_hx r = Some []) /\ input_token r = r_hc r))).
Proof. exact input_token_precedence. Qed.
Print Assumptions C24_input_token_precedence.

Theorem C24_urlencoded_spelling_decodes :
  forall e s, enc e s -> qs_unquote e = s.
Proof. exact qs_unquote_enc. Qed.
Print Assumptions C24_urlencoded_spelling_decodes.

Theorem C24_xsrf_argument_appended_last :
  forall pre en ev tk,
    enc en XSRF_NAME -> enc ev tk ->
    xsrf_values (pre ++ 38 :: en ++ 61 :: ev) = xsrf_values pre ++ [tk]
    /\ xsrf_values (en ++ 61 :: ev) = [tk].
Proof. exact xsrf_values_append. Qed.
Print Assumptions C24_xsrf_argument_appended_last.

Theorem C24_issued_token_accepted_through_arguments :
  forall r r0 tk q b pre en ev fs,
    bytes (r_rnd r) -> bytes (r_mask r) -> r_rnd r <> [] ->
    token (handle r) = Some tk ->
    enc en XSRF_NAME -> enc ev tk ->
    (b = pre ++ 38 :: en ++ 61 :: ev \/ b = en ++ 61 :: ev
     \/ (xsrf_values b = [] /\ (q = pre ++ 38 :: en ++ 61 :: ev \/ q = en ++ 61 :: ev))) ->
    fields_of_args q b = Some fs ->
    declared r0 = true ->
    r_cookie r0 = match set_cookie (handle r) with Some c => Some c | None => r_cookie r end ->
    ran (handle (with_fields r0 fs)) = true /\ status (handle (with_fields r0 fs)) <> 403%Z.
Proof. exact issued_token_accepted_through_arguments. Qed.
Print Assumptions C24_issued_token_accepted_through_arguments.

Theorem C24_issued_token_accepted_through_headers :
  forall r r0 tk,
    bytes (r_rnd r) -> bytes (r_mask r) -> r_rnd r <> [] ->
    token (handle r) = Some tk ->
    (last_opt (r_fields r0) = None \/ exists v, last_opt (r_fields r0) = Some v /\ norm_field v = []) ->
    (r_hx r0 = Some tk \/ ((r_hx r0 = None \/ r_hx r0 = Some []) /\ r_hc r0 = Some tk)) ->
    declared r0 = true ->
    r_cookie r0 = match set_cookie (handle r) with Some c => Some c | None => r_cookie r end ->
    ran (handle r0) = true /\ status (handle r0) <> 403%Z.
Proof. exact issued_token_accepted_through_headers. Qed.
Print Assumptions C24_issued_token_accepted_through_headers.

Theorem C24_model_satisfies_check_with_raw_arguments :
  forall c : case2,
    bytes (r_rnd (snd (snd c))) -> bytes (r_mask (snd (snd c))) -> r_rnd (snd (snd c)) <> [] ->
    check_case2 c (run_case2 c) = true.
Proof. exact model_satisfies_check_case2. Qed.
Print Assumptions C24_model_satisfies_check_with_raw_arguments.
