(* C24 — XSRF protection (tornado/web.py: RequestHandler.xsrf_token,
   _get_raw_xsrf_token, _decode_xsrf_token, check_xsrf_cookie, the method gate
   in _execute, and the argument normalisation of _get_arguments).
   Strings (Python str) are lists of code points, byte strings lists of bytes.
   Definitions only. *)
From Coq Require Import List NArith ZArith Arith Bool Decimal DecimalZ.
From TV Require Import Lib.Obs Lib.C21_Utf8 C18.Model.
Import ListNotations.
Local Open Scope N_scope.

Definition str := list N.

Definition inr (lo hi c : N) : bool := (lo <=? c) && (c <=? hi).

(* ---------- RequestHandler._get_arguments: control characters, strip ---------- *)
(* _remove_control_chars_regex = [\x00-\x08\x0e-\x1f]  ->  " " *)
Definition is_ctrl (c : N) : bool := inr 0 8 c || inr 14 31 c.
Definition ctrl_to_space (s : str) : str := map (fun c => if is_ctrl c then 32 else c) s.

(* white space skipped by int(str): Py_UNICODE_ISSPACE minus the ASCII
   separators 0x1c-0x1f (which int() leaves in place and then rejects) *)
Definition int_space (c : N) : bool :=
  inr 9 13 c || (c =? 32) || (c =? 133) || (c =? 160) || (c =? 5760) || inr 8192 8202 c
  || (c =? 8232) || (c =? 8233) || (c =? 8239) || (c =? 8287) || (c =? 12288).
(* str.isspace(), the set removed by str.strip() *)
Definition str_space (c : N) : bool := int_space c || inr 28 31 c.

Fixpoint drop_while (p : N -> bool) (s : str) : str :=
  match s with
  | [] => []
  | c :: r => if p c then drop_while p r else s
  end.
Definition strip_with (p : N -> bool) (s : str) : str :=
  List.rev (drop_while p (List.rev (drop_while p s))).

(* ---------- int(str) and str(int) (CPython 3.12, Unicode 15.0) ---------- *)
(* first code point of every run of ten Unicode decimal digits (category Nd) *)
Definition nd_starts : list N :=
  [48; 1632; 1776; 1984; 2406; 2534; 2662; 2790; 2918; 3046; 3174; 3302; 3430; 3558; 3664;
   3792; 3872; 4160; 4240; 6112; 6160; 6470; 6608; 6784; 6800; 6992; 7088; 7232; 7248;
   42528; 43216; 43264; 43472; 43504; 43600; 44016; 65296; 66720; 68912; 69734; 69872;
   69942; 70096; 70384; 70736; 70864; 71248; 71360; 71472; 71904; 72016; 72784; 73040;
   73120; 73552; 92768; 92864; 93008; 120782; 120792; 120802; 120812; 120822; 123200;
   123632; 124144; 125264; 130032].

Fixpoint digit_in (tbl : list N) (c : N) : option N :=
  match tbl with
  | [] => None
  | s :: t => if inr s (s + 9) c then Some (c - s) else digit_in t c
  end.
Definition digit_val (c : N) : option N := digit_in nd_starts c.

Definition cons_digit (d : N) (u : uint) : uint :=
  match d with
  | 0 => D0 u | 1 => D1 u | 2 => D2 u | 3 => D3 u | 4 => D4 u
  | 5 => D5 u | 6 => D6 u | 7 => D7 u | 8 => D8 u | _ => D9 u
  end.

(* digits with single underscores between digits only: d(_?d)* *)
Inductive pst := PStart | PDigit | PUnder.
Fixpoint parse_digits (st : pst) (s : str) : option uint :=
  match s with
  | [] => match st with PDigit => Some Nil | _ => None end
  | c :: r =>
      match digit_val c with
      | Some d => option_map (cons_digit d) (parse_digits PDigit r)
      | None =>
          if c =? 95 then match st with PDigit => parse_digits PUnder r | _ => None end
          else None
      end
  end.

Definition max_str_digits : nat := 4300.   (* sys.get_int_max_str_digits() *)

(* None = ValueError *)
Definition py_int (s : str) : option Z :=
  let t := strip_with int_space s in
  let '(neg, body) :=
    match t with
    | 43 :: r => (false, r)
    | 45 :: r => (true, r)
    | _ => (false, t)
    end in
  match parse_digits PStart body with
  | Some u =>
      if (nb_digits u <=? max_str_digits)%nat
      then Some (Z.of_int (if neg then Neg u else Pos u))
      else None
  | None => None
  end.

Fixpoint uint_chars (u : uint) : str :=
  match u with
  | Nil => []
  | D0 r => 48 :: uint_chars r | D1 r => 49 :: uint_chars r | D2 r => 50 :: uint_chars r
  | D3 r => 51 :: uint_chars r | D4 r => 52 :: uint_chars r | D5 r => 53 :: uint_chars r
  | D6 r => 54 :: uint_chars r | D7 r => 55 :: uint_chars r | D8 r => 56 :: uint_chars r
  | D9 r => 57 :: uint_chars r
  end.

(* str(z); None = ValueError (more than 4300 digits) *)
Definition render_int (z : Z) : option str :=
  match Z.to_int z with
  | Pos u => if (nb_digits u <=? max_str_digits)%nat then Some (uint_chars u) else None
  | Neg u => if (nb_digits u <=? max_str_digits)%nat then Some (45 :: uint_chars u) else None
  end.

(* ---------- binascii ---------- *)
Definition hexval (c : N) : option N :=
  if inr 48 57 c then Some (c - 48)
  else if inr 65 70 c then Some (c - 55)
  else if inr 97 102 c then Some (c - 87)
  else None.

(* None = binascii.Error (odd length / non-hex digit) *)
Fixpoint a2b_hex (b : list N) : option (list N) :=
  match b with
  | [] => Some []
  | [_] => None
  | h :: l :: r =>
      match hexval h, hexval l, a2b_hex r with
      | Some x, Some y, Some t => Some (16 * x + y :: t)
      | _, _, _ => None
      end
  end.

Definition hexdig (n : N) : N := if n <? 10 then 48 + n else 87 + n.
Fixpoint b2a_hex (b : list N) : str :=
  match b with
  | [] => []
  | x :: r => hexdig (x / 16) :: hexdig (x mod 16) :: b2a_hex r
  end.

(* ---------- _signed_value_version_re: one of 1-9, then 0-9 repeated, then a bar, then anything (DOTALL); on bytes ---------- *)
Fixpoint span_digits (b : list N) : list N * list N :=
  match b with
  | [] => ([], [])
  | c :: r => if inr 48 57 c then let '(d, t) := span_digits r in (c :: d, t) else ([], b)
  end.
(* Some group(1) when the regex matches *)
Definition version_prefix (b : list N) : option (list N) :=
  match b with
  | [] => None
  | c :: r =>
      if inr 49 57 c then
        let '(d, t) := span_digits r in
        match t with
        | 124 :: _ => Some (c :: d)
        | _ => None
        end
      else None
  end.

(* str.split(sep): first part and the remaining parts *)
Fixpoint split_on (sep : N) (s : str) : str * list str :=
  match s with
  | [] => ([], [])
  | c :: r =>
      let '(p, ps) := split_on sep r in
      if c =? sep then ([], p :: ps) else (c :: p, ps)
  end.

(* ---------- _decode_xsrf_token ---------- *)
Inductive dec := DNone | DTok (ver : N) (tok : list N) (ts : Z).

Definition decode_v2 (s : str) : dec :=
  match split_on 124 s with
  | (_, [mask_s; masked_s; ts_s]) =>
      match utf8_encode mask_s, utf8_encode masked_s with
      | Some mb, Some db =>
          match a2b_hex mb, a2b_hex db with
          | Some m, Some d =>
              match mask_py m d with          (* None: ValueError, mask is not 4 bytes *)
              | Some tok =>
                  match py_int ts_s with
                  | Some t => DTok 2 tok t
                  | None => DNone
                  end
              | None => DNone
              end
          | _, _ => DNone
          end
      | _, _ => DNone
      end
  | _ => DNone                                 (* ValueError: not exactly four fields *)
  end.

(* [now] = int(time.time()).  Every exception inside the real function is
   caught and turned into (None, None, None) = DNone. *)
Definition decode (s : str) (now : Z) : dec :=
  match utf8_encode s with
  | None => DNone                              (* UnicodeEncodeError (lone surrogate) *)
  | Some b =>
      match version_prefix b with
      | Some ds =>
          if list_eqb N.eqb ds [50] then decode_v2 s   (* int(group(1)) == 2 *)
          else DNone                                   (* unknown version / int() overflow *)
      | None =>
          DTok 1 (match a2b_hex b with Some t => t | None => b end) now
      end
  end.

(* ---------- the request ---------- *)
(* request methods are arbitrary strings: a handler may declare further verbs
   (PROPFIND, MKCOL, ...) through SUPPORTED_METHODS *)
Definition M_GET : str := [71;69;84].
Definition M_HEAD : str := [72;69;65;68].
Definition M_OPTIONS : str := [79;80;84;73;79;78;83].
Definition M_POST : str := [80;79;83;84].
(* RequestHandler.SUPPORTED_METHODS of the base class *)
Definition default_supported : list str :=
  [M_GET; M_HEAD; M_POST; [68;69;76;69;84;69]; [80;65;84;67;72]; [80;85;84]; M_OPTIONS].

Definition str_eqb (a b : str) : bool := list_eqb N.eqb a b.
Fixpoint mem_str (m : str) (l : list str) : bool :=
  match l with
  | [] => false
  | x :: t => str_eqb m x || mem_str m t
  end.

Record req := mkreq {
  r_xsrf_on : bool;            (* Application setting xsrf_cookies *)
  r_method : str;              (* request.method, exactly as sent (comparisons are case-sensitive) *)
  r_supported : list str;      (* the handler class's SUPPORTED_METHODS *)
  r_outver : N;                (* Application setting xsrf_cookie_version *)
  r_cookie : option str;       (* get_cookie("_xsrf") *)
  r_fields : list str;         (* request.arguments["_xsrf"], utf-8 decoded, in order *)
  r_hx : option str;           (* headers.get("X-Xsrftoken") *)
  r_hc : option str;           (* headers.get("X-Csrftoken") *)
  r_rnd : list N;              (* os.urandom(16), if drawn *)
  r_mask : list N;             (* os.urandom(4), if drawn *)
  r_now : Z                    (* time.time(), whole seconds *)
}.

(* method in ("GET", "HEAD", "OPTIONS") *)
Definition safe_method (m : str) : bool := mem_str m [M_GET; M_HEAD; M_OPTIONS].

Definition norm_field (v : str) : str := strip_with str_space (ctrl_to_space v).
(* get_argument("_xsrf", None): the last value, normalised *)
Definition field_arg (fs : list str) : option str :=
  match List.rev fs with
  | [] => None
  | v :: _ => Some (norm_field v)
  end.

Definition truthy (o : option str) : bool :=
  match o with Some (_ :: _) => true | _ => false end.

(* a or b or c *)
Definition input_token (r : req) : option str :=
  let f := field_arg (r_fields r) in
  if truthy f then f else if truthy (r_hx r) then r_hx r else r_hc r.

(* _get_raw_xsrf_token: (version, token, timestamp) *)
Definition raw_token (r : req) : option N * list N * Z :=
  match r_cookie r with
  | Some (c :: cs) =>
      match decode (c :: cs) (r_now r) with
      | DTok v (t0 :: t) ts => (Some v, t0 :: t, ts)
      | _ => (None, r_rnd r, r_now r)      (* `if not token:` -- undecodable, or an empty secret (fix 44e6de9) *)
      end
  | _ => (None, r_rnd r, r_now r)
  end.

Definition secret (r : req) : list N := snd (fst (raw_token r)).

(* check_xsrf_cookie does not raise *)
Definition xsrf_ok (r : req) : bool :=
  match input_token r with
  | Some (c :: cs) =>
      match decode (c :: cs) (r_now r) with
      | DTok _ (t :: ts) _ => list_eqb N.eqb (t :: ts) (secret r)
      | _ => false
      end
  | _ => false
  end.

(* xsrf_token: None = ValueError (unknown output version, mask length, str(int) limit) *)
Definition issue (outver : N) (mask : list N) (raw : option N * list N * Z) : option str :=
  let '(_, tok, ts) := raw in
  if outver =? 1 then Some (b2a_hex tok)
  else if outver =? 2 then
    match mask_py mask tok, render_int ts with
    | Some mt, Some tsc =>
        Some ([50; 124] ++ b2a_hex mask ++ [124] ++ b2a_hex mt ++ [124] ++ tsc)
    | _, _ => None
    end
  else None.

Record resp := mkresp {
  status : Z;
  ran : bool;                   (* the handler method was entered *)
  token : option str;           (* value of self.xsrf_token inside the handler *)
  set_cookie : option str       (* value of the _xsrf Set-Cookie, if any *)
}.

Definition gate (r : req) : bool := negb (safe_method (r_method r)) && r_xsrf_on r.

(* _execute with a handler whose every method returns self.xsrf_token *)
Definition handle (r : req) : resp :=
  if negb (mem_str (r_method r) (r_supported r)) then mkresp 405 false None None   (* HTTPError(405) *)
  else if gate r && negb (xsrf_ok r) then mkresp 403 false None None
  else
    match issue (r_outver r) (r_mask r) (raw_token r) with
    | Some t =>
        mkresp 200 true (Some t)
               (match fst (fst (raw_token r)) with None => Some t | Some _ => None end)
    | None => mkresp 500 true None None
    end.

(* ---------- the Cookie header: httputil.parse_cookie, _unquote_cookie,
   HTTPServerRequest.cookies, RequestHandler.get_cookie ---------- *)
Definition XSRF_NAME : str := [95;120;115;114;102].        (* "_xsrf" *)

(* chunk.split("=", 1) when "=" is in the chunk *)
Fixpoint split_first (sep : N) (s : str) : option (str * str) :=
  match s with
  | [] => None
  | c :: r =>
      if c =? sep then Some ([], r)
      else match split_first sep r with
           | Some (k, v) => Some (c :: k, v)
           | None => None
           end
  end.

Definition oct3 (a b c : N) : bool := inr 48 51 a && inr 48 55 b && inr 48 55 c.

(* _unquote_sub: backslash + three octal digits -> that character; backslash +
   any other character except newline -> that character *)
Fixpoint unq (s : str) : str :=
  match s with
  | [] => []
  | c0 :: t0 =>
      if c0 =? 92 then
        match t0 with
        | [] => [92]
        | a :: t1 =>
            if a =? 10 then 92 :: unq t0
            else
              match t1 with
              | b :: c :: r =>
                  if oct3 a b c then (64 * (a - 48) + 8 * (b - 48) + (c - 48)) :: unq r
                  else a :: unq t1
              | _ => a :: unq t1
              end
        end
      else c0 :: unq t0
  end.

(* _unquote_cookie: only a value of length >= 2 that starts and ends with a double quote is unquoted *)
Definition unquote_cookie (s : str) : str :=
  match s with
  | c :: ((_ :: _) as t) =>
      if c =? 34 then
        match List.rev t with
        | l :: m => if l =? 34 then unq (List.rev m) else s
        | [] => s
        end
      else s
  | _ => s
  end.

Definition is_nil (s : str) : bool := match s with [] => true | _ => false end.

Definition chunk_kv (ch : str) : str * str :=
  match split_first 61 ch with
  | Some (k, v) => (strip_with str_space k, strip_with str_space v)
  | None => ([], strip_with str_space ch)
  end.

(* the dict built by parse_cookie, looked up at [name]: the last chunk wins *)
Fixpoint lookup_chunks (name : str) (chs : list str) (acc : option str) : option str :=
  match chs with
  | [] => acc
  | ch :: t =>
      let '(k, v) := chunk_kv ch in
      lookup_chunks name t
        (if (negb (is_nil k) || negb (is_nil v)) && str_eqb k name then Some (unquote_cookie v) else acc)
  end.

(* get_cookie("_xsrf") for a request whose Cookie header has this value *)
Definition cookie_of_header (hdr : str) : option str :=
  let '(p, ps) := split_on 59 hdr in lookup_chunks XSRF_NAME (p :: ps) None.

Definition with_cookie (r : req) (c : option str) : req :=
  mkreq (r_xsrf_on r) (r_method r) (r_supported r) (r_outver r) c (r_fields r) (r_hx r) (r_hc r)
        (r_rnd r) (r_mask r) (r_now r).

(* a case is a request plus, optionally, the raw Cookie header it arrived with *)
Definition apply_header (h : option str) (r : req) : req :=
  match h with
  | Some hdr => with_cookie r (cookie_of_header hdr)
  | None => r
  end.
