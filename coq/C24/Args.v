(* C24 — transport of the token through request ARGUMENTS (definitions):
   HTTPServerRequest.__init__ (uri.partition("?"), parse_qs_bytes of the query),
   httputil.parse_body_arguments for application/x-www-form-urlencoded bodies,
   HTTPServerRequest._parse_body (query values first, then body values),
   urllib.parse.parse_qsl / unquote (keep_blank_values, "+" -> space, %XX),
   RequestHandler.decode_argument (utf-8, HTTPError(400) when invalid). *)
From Coq Require Import List NArith ZArith Arith Bool String.
From TV Require Import Lib.Obs Lib.C21_Utf8 C18.Model C24.Model C24.Run.
Import ListNotations.
Local Open Scope N_scope.

(* urllib.parse.unquote_to_bytes: %XX with two hex digits (either case); anything else is kept *)
Fixpoint pct_decode (s : list N) : list N :=
  match s with
  | [] => []
  | c :: t =>
      if c =? 37 then
        match t with
        | h :: ((l :: r) as t1) =>
            match hexval h, hexval l with
            | Some x, Some y => (16 * x + y) :: pct_decode r
            | _, _ => 37 :: pct_decode t
            end
        | _ => 37 :: pct_decode t
        end
      else c :: pct_decode t
  end.

Definition plus_space (s : list N) : list N := map (fun c => if c =? 43 then 32 else c) s.
Definition qs_unquote (s : list N) : list N := pct_decode (plus_space s).

(* parse_qsl(qs, keep_blank_values=True): (name, value) pairs in order *)
Definition qs_pair (chunk : list N) : list N * list N :=
  match split_first 61 chunk with
  | Some (k, v) => (qs_unquote k, qs_unquote v)
  | None => (qs_unquote chunk, [])
  end.

Fixpoint qs_values (name : list N) (chunks : list (list N)) : list (list N) :=
  match chunks with
  | [] => []
  | [] :: t => qs_values name t                       (* empty chunks are skipped *)
  | ch :: t =>
      let '(k, v) := qs_pair ch in
      if str_eqb k name then v :: qs_values name t else qs_values name t
  end.

(* request.arguments["_xsrf"] restricted to one source *)
Definition xsrf_values (qs : list N) : list (list N) :=
  let '(p, ps) := split_on 38 qs in qs_values XSRF_NAME (p :: ps).

(* all values, query first then body; None = some value is not valid utf-8 (HTTPError 400) *)
Definition fields_of_args (query body : list N) : option (list str) :=
  sequence (map utf8_decode (xsrf_values query ++ xsrf_values body)).

Definition with_fields (r : req) (fs : list str) : req :=
  mkreq (r_xsrf_on r) (r_method r) (r_supported r) (r_outver r) (r_cookie r) fs (r_hx r) (r_hc r)
        (r_rnd r) (r_mask r) (r_now r).

Definition bad_request : obs := OList [OInt 400; OBool false; ONone; ONone].

(* a case: optionally the raw query string and urlencoded body, then the case of Run.v *)
Definition case2 : Type := option (list N * list N) * (option str * req).

Definition req_of_case2 (c : case2) : req * bool :=      (* request, "an _xsrf value is not utf-8" *)
  let r0 := apply_header (fst (snd c)) (snd (snd c)) in
  match fst c with
  | None => (r0, false)
  | Some (q, b) =>
      match fields_of_args q b with
      | Some fs => (with_fields r0 fs, false)
      | None => (with_fields r0 [], true)
      end
  end.

(* get_argument is only evaluated by check_xsrf_cookie: declared verb, gate on *)
Definition raises_400 (r : req) (bad : bool) : bool :=
  bad && mem_str (r_method r) (r_supported r) && gate r.

Definition run_case2 (c : case2) : obs :=
  let '(r, bad) := req_of_case2 c in
  if raises_400 r bad then bad_request else run_req r.

Definition check_case2 (c : case2) (o : obs) : bool :=
  let '(r, bad) := req_of_case2 c in
  if raises_400 r bad then obs_eqb o bad_request else check_req r o.
