(* C24 — lemmas, part 1: characters, hex, decimal, split, strip. *)
From Coq Require Import List NArith ZArith Arith Bool Lia ZifyBool.
From Coq Require Decimal DecimalFacts DecimalPos DecimalZ.
From TV Require Import Lib.Obs Lib.C21_Utf8 C18.Model C18.Proofs C24.Model.
Import ListNotations.
Local Open Scope N_scope.

(* ---------- list equality test ---------- *)
Lemma list_eqb_refl x : list_eqb N.eqb x x = true.
Proof. induction x as [|a x IH]; cbn [list_eqb]; [reflexivity|]. rewrite N.eqb_refl, IH. reflexivity. Qed.

Lemma list_eqb_eq x y : list_eqb N.eqb x y = true <-> x = y.
Proof.
  split.
  - apply list_eqb_sound. intros a b H. apply N.eqb_eq. exact H.
  - intros ->. apply list_eqb_refl.
Qed.

(* ---------- character classes ---------- *)
Definition hexc (c : N) : Prop := (48 <= c /\ c <= 57) \/ (97 <= c /\ c <= 102).
Definition digc (c : N) : Prop := 48 <= c /\ c <= 57.
(* characters an issued token is made of *)
Definition tokc (c : N) : Prop := hexc c \/ c = 124 \/ c = 45.

Lemma hexc_tokc c : hexc c -> tokc c.  Proof. left; assumption. Qed.
Lemma digc_hexc c : digc c -> hexc c.  Proof. left; assumption. Qed.
Lemma hexc_not_bar c : hexc c -> c <> 124.  Proof. unfold hexc; lia. Qed.
Lemma tokc_ascii c : tokc c -> c < 128.  Proof. unfold tokc, hexc; lia. Qed.
Lemma tokc_not_ctrl c : tokc c -> is_ctrl c = false.
Proof. unfold tokc, hexc, is_ctrl, inr. intro H. lia. Qed.
Lemma tokc_not_space c : tokc c -> str_space c = false.
Proof. unfold tokc, hexc, str_space, int_space, inr. intro H. lia. Qed.
Lemma tokc_not_ispace c : tokc c -> int_space c = false.
Proof. unfold tokc, hexc, int_space, inr. intro H. lia. Qed.

(* ---------- hex ---------- *)
Lemma hexval_hexdig n : n < 16 -> hexval (hexdig n) = Some n.
Proof.
  intro H. unfold hexdig, hexval, inr. destruct (n <? 10) eqn:L.
  - replace ((48 <=? 48 + n) && (48 + n <=? 57)) with true by lia. f_equal. lia.
  - replace ((48 <=? 87 + n) && (87 + n <=? 57)) with false by lia.
    replace ((65 <=? 87 + n) && (87 + n <=? 70)) with false by lia.
    replace ((97 <=? 87 + n) && (87 + n <=? 102)) with true by lia. f_equal. lia.
Qed.

Lemma hexdig_hexc n : n < 16 -> hexc (hexdig n).
Proof. intro H. unfold hexdig, hexc. destruct (N.ltb_spec n 10); lia. Qed.

Lemma hexval_lt c v : hexval c = Some v -> v < 16.
Proof.
  unfold hexval.
  destruct (inr 48 57 c) eqn:E1. { intros [= E]. unfold inr in E1. lia. }
  destruct (inr 65 70 c) eqn:E2. { intros [= E]. unfold inr in E2. lia. }
  destruct (inr 97 102 c) eqn:E3. { intros [= E]. unfold inr in E3. lia. }
  discriminate.
Qed.

Lemma div16_lt x : x < 256 -> x / 16 < 16.
Proof. intro H. apply N.div_lt_upper_bound; lia. Qed.
Lemma mod16_lt x : x mod 16 < 16.
Proof. apply N.mod_lt. discriminate. Qed.

Lemma a2b_hex_cons2 h l r :
  a2b_hex (h :: l :: r) =
  match hexval h, hexval l, a2b_hex r with
  | Some x, Some y, Some t => Some (16 * x + y :: t)
  | _, _, _ => None
  end.
Proof. reflexivity. Qed.

Lemma a2b_b2a x : bytes x -> a2b_hex (b2a_hex x) = Some x.
Proof.
  induction 1 as [|b x Hb Hx IH]; [reflexivity|].
  cbn [b2a_hex]. rewrite a2b_hex_cons2.
  rewrite (hexval_hexdig _ (div16_lt b Hb)), (hexval_hexdig _ (mod16_lt b)), IH.
  f_equal. f_equal. symmetry. apply N.div_mod'.
Qed.

Lemma b2a_hexc x : bytes x -> Forall hexc (b2a_hex x).
Proof.
  induction 1 as [|b x Hb Hx IH]; cbn [b2a_hex]; [constructor|].
  constructor; [apply hexdig_hexc, div16_lt, Hb|]. constructor; [apply hexdig_hexc, mod16_lt|exact IH].
Qed.

Lemma b2a_nonempty x : x <> [] -> b2a_hex x <> [].
Proof. destruct x; [congruence|]. cbn [b2a_hex]. discriminate. Qed.

Lemma a2b_bytes_len n : forall b x, (length b <= n)%nat -> a2b_hex b = Some x -> bytes x.
Proof.
  induction n as [|n IH]; intros b x Hn E.
  - destruct b; [|cbn [length] in Hn; lia]. inversion E. constructor.
  - destruct b as [|h [|l r]]; [inversion E; constructor|discriminate|rewrite a2b_hex_cons2 in E].
    + destruct (hexval h) as [vh|] eqn:Eh; [|discriminate].
      destruct (hexval l) as [vl|] eqn:El; [|discriminate].
      destruct (a2b_hex r) as [t|] eqn:Er; [|discriminate].
      assert (X : x = 16 * vh + vl :: t) by congruence. subst x. constructor.
      * apply hexval_lt in Eh. apply hexval_lt in El. cbv beta. lia.
      * apply (IH r); [cbn [length] in Hn; lia|exact Er].
Qed.
Lemma a2b_bytes b x : a2b_hex b = Some x -> bytes x.
Proof. apply (a2b_bytes_len (length b)). lia. Qed.

(* ---------- xor keeps bytes ---------- *)
Lemma lxor_byte a b : a < 256 -> b < 256 -> N.lxor a b < 256.
Proof.
  intros Ha Hb. rewrite <- (N.mod_small a 256), <- (N.mod_small b 256) by assumption.
  rewrite <- lxor_mod256. apply N.mod_lt. discriminate.
Qed.

Lemma nth_byte m i : bytes m -> nth i m 0 < 256.
Proof.
  intro H. revert i. induction H as [|b m Hb Hm IH]; intros [|i]; cbn [nth]; try lia; auto.
Qed.

Lemma mask_from_bytes m i d : bytes m -> bytes d -> bytes (mask_from m i d).
Proof.
  intros Hm Hd. revert i. induction Hd as [|b d Hb Hd IH]; intro i; cbn [mask_from]; constructor.
  - apply lxor_byte; [exact Hb|apply nth_byte, Hm].
  - apply IH.
Qed.

Lemma mask_py_some m d t : mask_py m d = Some t -> length m = 4%nat /\ t = mask_ref m d.
Proof.
  unfold mask_py. destruct (Nat.eqb_spec (length m) 4) as [L|L]; cbn [negb]; intro E; inversion E. auto.
Qed.

Lemma mask_py_4 m d : length m = 4%nat -> mask_py m d = Some (mask_ref m d).
Proof. intro L. unfold mask_py. rewrite L. reflexivity. Qed.

(* ---------- utf-8 ---------- *)
Lemma utf8_encode_bytes s b : utf8_encode s = Some b -> bytes b.
Proof.
  revert b. induction s as [|c s IH]; intros b E; cbn [utf8_encode] in E.
  - inversion E. constructor.
  - destruct (utf8_enc1 c) as [a|] eqn:Ea; [|discriminate].
    destruct (utf8_encode s) as [t|] eqn:Et; [|discriminate].
    inversion E; subst. apply Forall_app. split; [eapply utf8_enc1_bytes; eauto|apply IH; reflexivity].
Qed.

Lemma tok_ascii s : Forall tokc s -> utf8_encode s = Some s.
Proof.
  intro H. apply utf8_encode_ascii. eapply Forall_impl; [|exact H]. intros c Hc. apply tokc_ascii, Hc.
Qed.

(* ---------- strip ---------- *)
Lemma drop_while_id p s : Forall (fun c => p c = false) s -> drop_while p s = s.
Proof. destruct 1 as [|c s Hc Hs]; cbn [drop_while]; [reflexivity|]. rewrite Hc. reflexivity. Qed.

Lemma strip_id p s : Forall (fun c => p c = false) s -> strip_with p s = s.
Proof.
  intro H. unfold strip_with. rewrite (drop_while_id p s H).
  rewrite drop_while_id by (apply Forall_rev, H). apply rev_involutive.
Qed.

Lemma norm_field_tok s : Forall tokc s -> norm_field s = s.
Proof.
  intro H. unfold norm_field.
  assert (E : ctrl_to_space s = s).
  { unfold ctrl_to_space. induction H as [|c s Hc Hs IH]; cbn [map]; [reflexivity|].
    rewrite (tokc_not_ctrl c Hc), IH. reflexivity. }
  rewrite E. apply strip_id. eapply Forall_impl; [|exact H]. intros c Hc. apply tokc_not_space, Hc.
Qed.

(* ---------- split ---------- *)
Lemma split_on_no sep a : ~ In sep a -> split_on sep a = (a, []).
Proof.
  induction a as [|c a IH]; intro H; cbn [split_on]; [reflexivity|].
  rewrite IH by (intro K; apply H; right; exact K).
  destruct (N.eqb_spec c sep) as [->|_]; [exfalso; apply H; left; reflexivity|reflexivity].
Qed.

Lemma split_on_app sep a r :
  ~ In sep a ->
  split_on sep (a ++ sep :: r) = (a, fst (split_on sep r) :: snd (split_on sep r)).
Proof.
  induction a as [|c a IH]; intro H.
  - cbn [app split_on]. destruct (split_on sep r) as [p ps]. rewrite N.eqb_refl. reflexivity.
  - cbn [app split_on]. rewrite IH by (intro K; apply H; right; exact K).
    destruct (N.eqb_spec c sep) as [->|_]; [exfalso; apply H; left; reflexivity|reflexivity].
Qed.

Lemma not_in_bar s : Forall (fun c => c <> 124) s -> ~ In 124 s.
Proof. intros H K. rewrite Forall_forall in H. exact (H _ K eq_refl). Qed.

(* ---------- decimal ---------- *)
Import Decimal.

Lemma uint_chars_digc u : Forall digc (uint_chars u).
Proof. induction u; cbn [uint_chars]; constructor; auto; unfold digc; lia. Qed.

Lemma parse_uint_chars st u :
  (u <> Nil \/ st = PDigit) -> parse_digits st (uint_chars u) = Some u.
Proof.
  revert st. induction u as [|u IH|u IH|u IH|u IH|u IH|u IH|u IH|u IH|u IH|u IH]; intros st H.
  - destruct H as [H | ->]; [congruence|reflexivity].
  - cbn [uint_chars parse_digits]. change (digit_val 48) with (Some 0). rewrite IH by (right; reflexivity). reflexivity.
  - cbn [uint_chars parse_digits]. change (digit_val 49) with (Some 1). rewrite IH by (right; reflexivity). reflexivity.
  - cbn [uint_chars parse_digits]. change (digit_val 50) with (Some 2). rewrite IH by (right; reflexivity). reflexivity.
  - cbn [uint_chars parse_digits]. change (digit_val 51) with (Some 3). rewrite IH by (right; reflexivity). reflexivity.
  - cbn [uint_chars parse_digits]. change (digit_val 52) with (Some 4). rewrite IH by (right; reflexivity). reflexivity.
  - cbn [uint_chars parse_digits]. change (digit_val 53) with (Some 5). rewrite IH by (right; reflexivity). reflexivity.
  - cbn [uint_chars parse_digits]. change (digit_val 54) with (Some 6). rewrite IH by (right; reflexivity). reflexivity.
  - cbn [uint_chars parse_digits]. change (digit_val 55) with (Some 7). rewrite IH by (right; reflexivity). reflexivity.
  - cbn [uint_chars parse_digits]. change (digit_val 56) with (Some 8). rewrite IH by (right; reflexivity). reflexivity.
  - cbn [uint_chars parse_digits]. change (digit_val 57) with (Some 9). rewrite IH by (right; reflexivity). reflexivity.
Qed.

Lemma digc_not_ispace c : digc c -> int_space c = false.
Proof. intro H. apply tokc_not_ispace, hexc_tokc, digc_hexc, H. Qed.

Lemma to_int_nonnil z : match Z.to_int z with Pos u | Neg u => u <> Nil end.
Proof.
  destruct z; cbn [Z.to_int]; try apply DecimalPos.Unsigned.to_uint_nonnil; try discriminate.
Qed.

Lemma head_digit_not_sign u : u <> Nil ->
  match uint_chars u with 43 :: _ => False | 45 :: _ => False | _ => True end.
Proof. destruct u; cbn [uint_chars]; intro H; exact I. Qed.

(* int(str(z)) == z *)
Lemma py_int_render z s : render_int z = Some s -> py_int s = Some z.
Proof.
  unfold render_int. pose proof (to_int_nonnil z) as NN. pose proof (DecimalZ.of_to z) as OT.
  destruct (Z.to_int z) as [u|u]; destruct (Nat.leb_spec (nb_digits u) max_str_digits) as [L|L];
    intro E; inversion E; subst s; clear E; unfold py_int.
  - rewrite strip_id by (eapply Forall_impl; [|apply uint_chars_digc]; apply digc_not_ispace).
    assert (B : (let '(neg, body) := match uint_chars u with
                                    | 43 :: r => (false, r) | 45 :: r => (true, r) | _ => (false, uint_chars u) end in
                 (neg, body)) = (false, uint_chars u)).
    { pose proof (head_digit_not_sign u NN) as Hd. destruct (uint_chars u) as [|c r]; [reflexivity|].
      destruct (N.eq_dec c 43) as [->|N1]; [contradiction|]. destruct (N.eq_dec c 45) as [->|N2]; [contradiction|].
      destruct c as [|p]; [reflexivity|]. do 6 (destruct p as [p|p|]; try reflexivity); congruence. }
    destruct (match uint_chars u with 43 :: r => (false, r) | 45 :: r => (true, r) | _ => (false, uint_chars u) end) as [ng bd].
    injection B as -> ->.
    rewrite parse_uint_chars by (left; exact NN).
    destruct (Nat.leb_spec (nb_digits u) max_str_digits); [|lia]. rewrite OT. reflexivity.
  - rewrite strip_id.
    2:{ constructor; [reflexivity|]. eapply Forall_impl; [|apply uint_chars_digc]. apply digc_not_ispace. }
    rewrite parse_uint_chars by (left; exact NN).
    destruct (Nat.leb_spec (nb_digits u) max_str_digits); [|lia]. rewrite OT. reflexivity.
Qed.

Lemma render_tokc z s : render_int z = Some s -> Forall tokc s /\ s <> [] /\ Forall (fun c => c <> 124) s.
Proof.
  unfold render_int. pose proof (to_int_nonnil z) as NN.
  assert (D : forall u, Forall tokc (uint_chars u) /\ Forall (fun c => c <> 124) (uint_chars u)).
  { intro u. split; (eapply Forall_impl; [|apply uint_chars_digc]); intros c Hc.
    - apply hexc_tokc, digc_hexc, Hc.
    - unfold digc in Hc. lia. }
  destruct (Z.to_int z) as [u|u]; destruct (nb_digits u <=? max_str_digits)%nat; intro E; inversion E; subst s.
  - destruct (D u) as [D1 D2]. repeat split; auto. destruct u; cbn [uint_chars]; congruence.
  - destruct (D u) as [D1 D2]. repeat split.
    + constructor; [right; right; reflexivity|exact D1].
    + discriminate.
    + constructor; [lia|exact D2].
Qed.

(* the value int() returns can always be printed again (the 4300-digit limit
   is met by the digits that were read) *)
Lemma parse_digits_nonnil st s u : parse_digits st s = Some u -> st <> PDigit -> u <> Nil.
Proof.
  destruct s as [|c r]; cbn [parse_digits].
  - destruct st; try discriminate. congruence.
  - intros E Hst. destruct (digit_val c) as [d|].
    + destruct (parse_digits PDigit r) as [v|]; [|discriminate E]. cbn [option_map] in E. injection E as <-.
      unfold cons_digit. destruct d as [|p]; [discriminate|]. do 4 (destruct p as [p|p|]; try discriminate).
    + destruct (c =? 95); [|discriminate E]. destruct st; try discriminate E. congruence.
Qed.

Lemma py_int_renders s z : py_int s = Some z -> exists t, render_int z = Some t.
Proof.
  unfold py_int.
  destruct (match strip_with int_space s with 43 :: r => (false, r) | 45 :: r => (true, r) | _ => (false, strip_with int_space s) end) as [ng bd].
  destruct (parse_digits PStart bd) as [u|] eqn:P; [|discriminate].
  pose proof (parse_digits_nonnil _ _ _ P ltac:(discriminate)) as NN.
  destruct (Nat.leb_spec (nb_digits u) max_str_digits) as [L|L]; [|discriminate].
  intro E. inversion E; subst z. unfold render_int. rewrite DecimalZ.to_of.
  destruct ng; cbn [norm].
  - pose proof (DecimalFacts.nb_digits_nzhead u) as Hn.
    destruct (nzhead u) eqn:Ez;
      match goal with |- context [(nb_digits ?v <=? max_str_digits)%nat] =>
        destruct (Nat.leb_spec (nb_digits v) max_str_digits) as [L2|L2]; [eexists; reflexivity|]
      end; try lia.
    exfalso. change (nb_digits zero) with 1%nat in L2. unfold max_str_digits in L2. lia.
  - pose proof (DecimalFacts.nb_digits_unorm u NN) as Hn.
    destruct (Nat.leb_spec (nb_digits (unorm u)) max_str_digits); [eexists; reflexivity|lia].
Qed.
