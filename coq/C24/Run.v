(* Executable entry points used by the correspondence check. *)
From Coq Require Import List NArith ZArith String Bool.
Import ListNotations.
From TV Require Import Lib.Obs C18.Model C24.Model.
Local Open Scope N_scope.

Definition ostr (o : option str) : obs :=
  match o with Some s => OBytes s | None => ONone end.

Definition out (p : resp) : obs :=
  OList [OInt (status p); OBool (ran p); ostr (token p); ostr (set_cookie p)].

(* one correspondence case: the request, and optionally the raw Cookie header it
   arrived with (then get_cookie is what the header parses to) *)
Definition run_req (r : req) : obs := out (handle r).
Definition run_case (c : option str * req) : obs := run_req (apply_header (fst c) (snd c)).

(* ---------- the property on observables ---------- *)

(* the configuration lets xsrf_token succeed (anything else is a programming /
   deployment error answered with 500 from inside the handler) *)
Definition cfg_ok (r : req) : bool :=
  (r_outver r =? 1)
  || ((r_outver r =? 2) && (List.length (r_mask r) =? 4)%nat
      && match render_int (snd (raw_token r)) with Some _ => true | None => false end).

(* the client's next unsafe request: it sends the issued token [tk] back through
   carrier [k] (0 form field, 1 X-XSRFToken, 2 X-CSRFToken), with the cookie it
   holds afterwards (the Set-Cookie value if one was sent, else the old cookie) *)
Definition follow_up (r : req) (tk : str) (k : nat) : req :=
  mkreq true M_POST [M_POST] (r_outver r)
        (match fst (fst (raw_token r)) with None => Some tk | Some _ => r_cookie r end)
        (match k with O => [tk] | _ => [] end)
        (match k with 1%nat => Some tk | _ => None end)
        (match k with 2%nat => Some tk | _ => None end)
        (r_rnd r) (r_mask r) (r_now r).

(* the token handed out decodes to the secret of the cookie, and the client's
   next unsafe request that carries it is let through, whichever carrier it uses *)
Definition issued_ok (r : req) (tk : str) : bool :=
  match decode tk (r_now r) with
  | DTok v t _ => (v =? r_outver r) && list_eqb N.eqb t (secret r)
  | DNone => false
  end
  && xsrf_ok (follow_up r tk 0) && xsrf_ok (follow_up r tk 1) && xsrf_ok (follow_up r tk 2).

Definition check_req (r : req) (o : obs) : bool :=
  match o with
  | OList [OInt st; OBool rn; t; sc] =>
    if negb (mem_str (r_method r) (r_supported r))
    then (st =? 405)%Z && negb rn && obs_eqb t ONone && obs_eqb sc ONone    (* verb not declared by the handler *)
    else
      (* reached the handler iff the gate is off or a carried token decodes to
         the non-empty secret of the cookie *)
      Bool.eqb rn (negb (gate r) || xsrf_ok r)
      && (if rn then
            match t with
            | OBytes tk =>
                (st =? 200)%Z && issued_ok r tk
                && obs_eqb sc (match fst (fst (raw_token r)) with None => OBytes tk | Some _ => ONone end)
            | ONone => (st =? 500)%Z && negb (cfg_ok r) && obs_eqb sc ONone
            | _ => false
            end
          else (st =? 403)%Z && obs_eqb t ONone && obs_eqb sc ONone)
  | _ => false
  end.

Definition check_case (c : option str * req) (o : obs) : bool :=
  check_req (apply_header (fst c) (snd c)) o.
