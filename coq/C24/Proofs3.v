(* C24 — the theorems about the request handler. *)
From Coq Require Import List NArith ZArith Arith Bool Lia ZifyBool.
From TV Require Import Lib.Obs Lib.C21_Utf8 C18.Model C18.Proofs C24.Model C24.Run C24.Proofs C24.Proofs2.
Import ListNotations.
Local Open Scope N_scope.

(* what "carries a token that decodes to the non-empty secret of the cookie" means *)
Definition carries_cookie_secret (r : req) : Prop :=
  exists s v t ts, input_token r = Some s /\ s <> [] /\
                   decode s (r_now r) = DTok v t ts /\ t <> [] /\ t = secret r.

(* the request's verb is one the handler class declares (SUPPORTED_METHODS) *)
Definition declared (r : req) : bool := mem_str (r_method r) (r_supported r).

(* what _execute does once the verb is known to be declared *)
Definition handle0 (r : req) : resp :=
  if gate r && negb (xsrf_ok r) then mkresp 403 false None None
  else
    match issue (r_outver r) (r_mask r) (raw_token r) with
    | Some t =>
        mkresp 200 true (Some t)
               (match fst (fst (raw_token r)) with None => Some t | Some _ => None end)
    | None => mkresp 500 true None None
    end.

Lemma handle_unfold r :
  handle r = if negb (declared r) then mkresp 405 false None None else handle0 r.
Proof. reflexivity. Qed.

Lemma handle_declared r : declared r = true -> handle r = handle0 r.
Proof. intro D. rewrite handle_unfold, D. reflexivity. Qed.

Lemma handle_undeclared r : declared r = false -> handle r = mkresp 405 false None None.
Proof. intro D. rewrite handle_unfold, D. reflexivity. Qed.

Lemma str_eqb_eq a b : str_eqb a b = true <-> a = b.
Proof. apply list_eqb_eq. Qed.

Lemma mem_str_In m l : mem_str m l = true <-> In m l.
Proof.
  induction l as [|x l IH]; cbn [mem_str In]; [split; [discriminate|tauto]|].
  rewrite orb_true_iff, IH, str_eqb_eq. split; intros [H|H]; auto.
Qed.

Lemma reaches0_iff r :
  ran (handle0 r) = true <-> gate r = false \/ carries_cookie_secret r.
Proof.
  unfold carries_cookie_secret. rewrite <- xsrf_ok_iff. unfold handle0.
  destruct (gate r); destruct (xsrf_ok r); cbn [andb negb];
    try (destruct (issue _ _ _)); cbn [ran]; split; auto; intros [H|H]; congruence.
Qed.

Theorem reaches_handler_iff r :
  ran (handle r) = true <-> declared r = true /\ (gate r = false \/ carries_cookie_secret r).
Proof.
  rewrite handle_unfold. destruct (declared r); cbn [negb].
  - rewrite reaches0_iff. tauto.
  - cbn [ran]. split; [discriminate|]. intros [H _]. discriminate.
Qed.

Lemma refusal0_is_403 r :
  ran (handle0 r) = false -> handle0 r = mkresp 403 false None None.
Proof.
  unfold handle0. destruct (gate r && negb (xsrf_ok r)); [reflexivity|].
  destruct (issue _ _ _); cbn [ran]; discriminate.
Qed.

(* a request that does not reach the handler is answered 405 (verb not declared)
   or 403 (declared verb, XSRF check failed), with nothing issued *)
Theorem refusal_is_405_or_403 r :
  ran (handle r) = false ->
  (declared r = false /\ handle r = mkresp 405 false None None)
  \/ (declared r = true /\ handle r = mkresp 403 false None None).
Proof.
  rewrite handle_unfold. destruct (declared r); cbn [negb]; intro H; [right|left]; split; auto.
  apply refusal0_is_403. exact H.
Qed.

Lemma status0_403_iff r : status (handle0 r) = 403%Z <-> ran (handle0 r) = false.
Proof.
  unfold handle0. destruct (gate r && negb (xsrf_ok r)); [cbn; tauto|].
  destruct (issue _ _ _); cbn [ran status]; split; discriminate.
Qed.

Theorem status_403_iff r : status (handle r) = 403%Z <-> declared r = true /\ ran (handle r) = false.
Proof.
  rewrite handle_unfold. destruct (declared r); cbn [negb].
  - rewrite status0_403_iff. tauto.
  - cbn [status ran]. split; [discriminate|]. intros [H _]. discriminate.
Qed.

Theorem status_405_iff r : status (handle r) = 405%Z <-> declared r = false.
Proof.
  rewrite handle_unfold. destruct (declared r); cbn [negb]; [|cbn; tauto].
  unfold handle0. destruct (gate r && negb (xsrf_ok r)); [cbn; split; discriminate|].
  destruct (issue _ _ _); cbn [status]; split; discriminate.
Qed.

Definition config_ok (r : req) : Prop :=
  (r_outver r = 1 \/ r_outver r = 2) /\ length (r_mask r) = 4%nat /\ exists t, render_int (r_now r) = Some t.

Lemma issue_some r : config_ok r -> exists tk, issue (r_outver r) (r_mask r) (raw_token r) = Some tk.
Proof.
  intros (Hv & L & Hn). pose proof (raw_ts_renders r Hn) as [tsc Hr].
  destruct (raw_token r) as [[v0 tok] ts]. cbn [snd] in Hr. unfold issue.
  destruct Hv as [-> | ->]; cbn [N.eqb Pos.eqb]; [eexists; reflexivity|].
  rewrite (mask_py_4 _ _ L), Hr. eexists; reflexivity.
Qed.

(* whatever the verb, the cookie and the carriers hold, the answer is 200, 403 or 405 *)
Theorem never_a_server_error r :
  config_ok r -> status (handle r) = 200%Z \/ status (handle r) = 403%Z \/ status (handle r) = 405%Z.
Proof.
  intro C. destruct (issue_some r C) as [tk E]. rewrite handle_unfold.
  destruct (declared r); cbn [negb]; [|right; right; reflexivity]. unfold handle0.
  destruct (gate r && negb (xsrf_ok r)); [right; left; reflexivity|]. rewrite E. left. reflexivity.
Qed.

Theorem handler_result r :
  config_ok r -> ran (handle r) = true ->
  exists tk, issue (r_outver r) (r_mask r) (raw_token r) = Some tk /\
    handle r = mkresp 200 true (Some tk)
                 (match fst (fst (raw_token r)) with None => Some tk | Some _ => None end).
Proof.
  intros C. destruct (issue_some r C) as [tk E]. rewrite handle_unfold.
  destruct (declared r); cbn [negb]; [|discriminate]. unfold handle0.
  destruct (gate r && negb (xsrf_ok r)); [discriminate|]. rewrite E. intros _. exists tk. auto.
Qed.

(* a token issued for secret [tok] against a request whose cookie holds [secret r] *)
Theorem issued_token_accepted_iff r ov mask v0 tok ts tk :
  bytes tok -> bytes mask ->
  issue ov mask (v0, tok, ts) = Some tk ->
  input_token r = Some tk ->
  (xsrf_ok r = true <-> tok <> [] /\ tok = secret r).
Proof.
  intros Bt Bm HI Hin.
  destruct (decode_issue _ _ _ _ _ _ (r_now r) Bt Bm HI) as (ts' & D & _).
  rewrite xsrf_ok_iff. split.
  - intros (s & v & t & ts0 & Hs & Ne & D' & Ht & E). rewrite Hin in Hs. injection Hs as <-.
    rewrite D in D'. injection D' as _ <- _. auto.
  - intros [Ht E]. exists tk, ov, tok, ts'. repeat split; auto.
    eapply issue_nonempty; eassumption.
Qed.

Theorem other_secret_refused r ov mask v0 tok ts tk :
  bytes tok -> bytes mask ->
  issue ov mask (v0, tok, ts) = Some tk ->
  input_token r = Some tk -> declared r = true -> gate r = true -> tok <> secret r ->
  handle r = mkresp 403 false None None.
Proof.
  intros Bt Bm HI Hin Dc G Hne. rewrite (handle_declared r Dc). apply refusal0_is_403.
  destruct (ran (handle0 r)) eqn:R; [|reflexivity].
  apply reaches0_iff in R as [R|R]; [congruence|].
  apply xsrf_ok_iff in R. apply (issued_token_accepted_iff r _ _ _ _ _ _ Bt Bm HI Hin) in R. tauto.
Qed.

(* ---------- the follow-up requests used by the checker ---------- *)
Lemma follow_up_input r tk k : Forall tokc tk -> tk <> [] -> (k <= 2)%nat -> input_token (follow_up r tk k) = Some tk.
Proof.
  intros T Ne Hk. unfold input_token, follow_up. cbv zeta. cbn [r_fields r_hx r_hc].
  destruct k as [|[|[|k]]]; [| | |lia].
  - unfold field_arg. cbn [rev app]. rewrite (norm_field_tok tk T).
    destruct tk; [congruence|reflexivity].
  - cbn [field_arg rev truthy]. destruct tk; [congruence|reflexivity].
  - cbn [field_arg rev truthy]. reflexivity.
Qed.

Lemma issue_none_cfg r : issue (r_outver r) (r_mask r) (raw_token r) = None -> cfg_ok r = false.
Proof.
  unfold cfg_ok, issue. destruct (raw_token r) as [[v0 tok] ts]. cbn [snd].
  destruct (N.eqb_spec (r_outver r) 1); [discriminate|].
  destruct (N.eqb_spec (r_outver r) 2); [|reflexivity]. cbn [orb andb].
  unfold mask_py. destruct (Nat.eqb_spec (length (r_mask r)) 4); cbn [negb andb]; [|reflexivity].
  destruct (render_int ts); [discriminate|reflexivity].
Qed.

Lemma obs_eqb_bytes s : obs_eqb (OBytes s) (OBytes s) = true.
Proof. cbn [obs_eqb]. apply list_eqb_refl. Qed.

(* the model satisfies the checker that is applied to the implementation *)
Theorem model_satisfies_check r :
  bytes (r_rnd r) -> bytes (r_mask r) -> r_rnd r <> [] ->
  check_req r (run_req r) = true.
Proof.
  intros Br Bm Hr. pose proof (secret_nonempty r Hr) as Hs.
  unfold run_req, out. rewrite handle_unfold. unfold declared.
  destruct (mem_str (r_method r) (r_supported r)) eqn:Dc; cbn [negb].
  2:{ cbn [status ran token set_cookie ostr check_req]. rewrite Dc. reflexivity. }
  unfold handle0.
  destruct (gate r) eqn:G; destruct (xsrf_ok r) eqn:K; cbn [andb negb orb] in *.
  2:{ cbn [status ran token set_cookie ostr check_req]. rewrite Dc, G, K. reflexivity. }
  all: destruct (issue (r_outver r) (r_mask r) (raw_token r)) as [tk|] eqn:HI;
    cbn [status ran token set_cookie ostr check_req]; rewrite Dc, G, K; cbn [negb orb Bool.eqb andb].
  all: try (rewrite (issue_none_cfg r HI); reflexivity).
  all: assert (OK : issued_ok r tk = true);
    [|rewrite OK; cbn [Z.eqb Pos.eqb andb]; destruct (fst (fst (raw_token r))); cbn [ostr]; auto using obs_eqb_bytes].
  all: unfold issued_ok;
    pose proof (secret_bytes r Br) as Bs;
    pose proof HI as HI2; unfold secret in *; destruct (raw_token r) as [[v0 tok] ts] eqn:ER; cbn [fst snd] in *;
    destruct (decode_issue _ _ _ _ _ _ (r_now r) Bs Bm HI2) as (ts' & D & _); rewrite D, N.eqb_refl, list_eqb_refl; cbn [andb];
    pose proof (issue_tokc _ _ _ _ _ _ Bs Bm HI2) as T;
    pose proof (issue_nonempty _ _ _ _ _ _ HI2 Hs) as Ne;
    rewrite <- ER in HI;
    rewrite !(issued_accepted r (follow_up r tk _) tk Br Bm HI Hr); try reflexivity;
    try (apply follow_up_input; auto; lia).
Qed.

Lemma token_is_issue r tk :
  token (handle r) = Some tk -> issue (r_outver r) (r_mask r) (raw_token r) = Some tk.
Proof.
  rewrite handle_unfold. destruct (declared r); cbn [negb]; [|discriminate].
  unfold handle0. destruct (gate r && negb (xsrf_ok r)); [discriminate|].
  destruct (issue _ _ _); cbn [token]; congruence.
Qed.

Lemma xsrf_ok_runs r :
  declared r = true -> xsrf_ok r = true -> ran (handle r) = true /\ status (handle r) <> 403%Z.
Proof.
  intros Dc K. assert (R : ran (handle r) = true).
  { apply reaches_handler_iff. split; [exact Dc|]. right. apply xsrf_ok_iff. exact K. }
  split; [exact R|]. intro S. apply status_403_iff in S as [_ S]. congruence.
Qed.

(* every token the application hands out (any output version, any mask) is
   accepted on ANY later request [r'] (any method, settings, clock, fresh
   randomness) that presents it as its input token together with the cookie the
   client holds after the issuing response: the Set-Cookie value if one was
   sent, otherwise the cookie it already had *)
Theorem issued_token_reaches_handler r r' tk :
  bytes (r_rnd r) -> bytes (r_mask r) ->
  token (handle r) = Some tk -> r_rnd r <> [] ->
  declared r' = true -> input_token r' = Some tk ->
  r_cookie r' = match set_cookie (handle r) with Some c => Some c | None => r_cookie r end ->
  ran (handle r') = true /\ status (handle r') <> 403%Z.
Proof.
  intros Br Bm HT Hs Dc' Hin Hc. pose proof (token_is_issue r tk HT) as HI.
  apply (xsrf_ok_runs r' Dc'). apply (issued_accepted r r' tk Br Bm HI Hs Hin).
  rewrite Hc. revert HT. rewrite handle_unfold. destruct (declared r); cbn [negb]; [|discriminate].
  unfold handle0. destruct (gate r && negb (xsrf_ok r)) eqn:G; intro HT.
  - discriminate.
  - rewrite HI. cbn [set_cookie]. destruct (fst (fst (raw_token r))); reflexivity.
Qed.

(* ... in particular through each of the three carriers *)
Theorem issued_token_accepted_by_every_carrier r tk k :
  bytes (r_rnd r) -> bytes (r_mask r) ->
  token (handle r) = Some tk -> r_rnd r <> [] -> (k <= 2)%nat ->
  ran (handle (follow_up r tk k)) = true /\ status (handle (follow_up r tk k)) <> 403%Z.
Proof.
  intros Br Bm HT Hr Hk. pose proof (token_is_issue r tk HT) as HI.
  pose proof (secret_bytes r Br) as Bs. pose proof (secret_nonempty r Hr) as Hs.
  assert (T : Forall tokc tk /\ tk <> []).
  { unfold secret in Bs, Hs. destruct (raw_token r) as [[v0 tok] ts]. cbn [fst snd] in *.
    split; [exact (issue_tokc _ _ _ _ _ _ Bs Bm HI)|exact (issue_nonempty _ _ _ _ _ _ HI Hs)]. }
  destruct T as [T Ne]. apply xsrf_ok_runs; [reflexivity|].
  apply (issued_accepted r _ tk Br Bm HI Hr); [apply follow_up_input; auto|reflexivity].
Qed.

(* the secret a fresh client receives is the 16 random bytes, whatever was sent *)
Theorem set_cookie_carries_fresh_secret r c now' :
  bytes (r_rnd r) -> bytes (r_mask r) ->
  set_cookie (handle r) = Some c ->
  token (handle r) = Some c /\ exists ts, decode c now' = DTok (r_outver r) (r_rnd r) ts.
Proof.
  intros Br Bm. rewrite handle_unfold. destruct (declared r); cbn [negb]; [|discriminate].
  unfold handle0. destruct (gate r && negb (xsrf_ok r)); [discriminate|].
  destruct (issue _ _ _) as [tk|] eqn:HI; [|discriminate]. cbn [set_cookie token].
  destruct (raw_cases r) as [(c0 & cs & v1 & t1 & ts1 & _ & _ & _ & E1)|E1]; rewrite E1 in *; cbn [fst snd]; [discriminate|].
  intros [= ->]. split; [reflexivity|].
  destruct (decode_issue _ _ _ _ _ _ now' Br Bm HI) as (ts' & D & _). eexists; exact D.
Qed.

(* ---------- non-vacuity ---------- *)
Definition ex_cookie : str := [97;98;48;99].                     (* "ab0c": version 1, secret ab 0c *)
Definition ex_req : req :=
  mkreq true M_POST default_supported 2 (Some ex_cookie) [[50;124;48;48;48;48;48;48;48;48;124;97;98;48;99;124;53]] None None
        [1;2;3;4;5;6;7;8;9;10;11;12;13;14;15;16] [17;34;51;68] 1700000000.

Example ex_config_ok : config_ok ex_req.
Proof. repeat split; auto. eexists. vm_compute. reflexivity. Qed.

Example ex_accepts :
  handle ex_req = mkresp 200 true (Some [50;124;49;49;50;50;51;51;52;52;124;98;97;50;101;124;49;55;48;48;48;48;48;48;48;48]) None
  /\ carries_cookie_secret ex_req /\ bytes (r_rnd ex_req) /\ bytes (r_mask ex_req) /\ r_rnd ex_req <> [].
Proof.
  split; [vm_compute; reflexivity|]. split.
  - exists [50;124;48;48;48;48;48;48;48;48;124;97;98;48;99;124;53], 2, [171;12], 5%Z.
    repeat split; try discriminate; vm_compute; reflexivity.
  - repeat split; try (vm_compute; discriminate); repeat constructor; reflexivity.
Qed.

(* a cookie that decodes to the EMPTY secret (which check_xsrf_cookie can never
   match) is treated like a missing cookie: fresh secret, new cookie *)
Theorem empty_secret_cookie_is_replaced r c cs v ts :
  r_cookie r = Some (c :: cs) -> decode (c :: cs) (r_now r) = DTok v [] ts ->
  raw_token r = (None, r_rnd r, r_now r).
Proof. intros Hc D. unfold raw_token. rewrite Hc, D. reflexivity. Qed.

Example empty_secret_cookie_gets_a_working_token :
  let r := mkreq true M_GET default_supported 2 (Some [50;124;48;48;48;48;48;48;48;48;124;124;53]) [] None None
                 [1;2;3;4;5;6;7;8;9;10;11;12;13;14;15;16] [17;34;51;68] 1700000000 in
  decode [50;124;48;48;48;48;48;48;48;48;124;124;53] 1700000000 = DTok 2 [] 5 /\
  match token (handle r) with
  | Some tk => set_cookie (handle r) = Some tk /\ ran (handle (follow_up r tk 0)) = true
  | None => False
  end.
Proof. split; vm_compute; [reflexivity|]. split; reflexivity. Qed.

(* the premises of issued_token_reaches_handler are met by a fresh client that
   GETs a form (no cookie) and then PUTs with the token in X-XSRFToken while the
   form field holds only white space, under other settings, clock and randomness *)
Example ex_session :
  let r := mkreq true M_GET default_supported 2 None [] None None [1;2;3;4;5;6;7;8;9;10;11;12;13;14;15;16] [17;34;51;68] 1700000000 in
  match token (handle r) with
  | Some tk =>
      let r' := mkreq true [80;85;84] default_supported 1 (Some tk) [[32]] (Some tk) (Some [120]) [] [9;9;9;9] 1800000000 in
      set_cookie (handle r) = Some tk /\ r_rnd r <> [] /\ declared r' = true /\ input_token r' = Some tk /\
      r_cookie r' = match set_cookie (handle r) with Some c => Some c | None => r_cookie r end /\
      ran (handle r') = true
  | None => False
  end.
Proof. vm_compute. repeat split; try reflexivity; discriminate. Qed.

(* ---------- every verb other than exactly GET / HEAD / OPTIONS is protected ---------- *)
Lemma safe_method_iff m : safe_method m = true <-> m = M_GET \/ m = M_HEAD \/ m = M_OPTIONS.
Proof.
  unfold safe_method. rewrite mem_str_In. cbn [In]. split; intros H; intuition auto.
Qed.

(* for EVERY method string (standard, custom verbs declared through
   SUPPORTED_METHODS, other spellings of the exempt names): with xsrf_cookies on,
   a request whose verb is not exactly GET, HEAD or OPTIONS reaches the handler
   only with a token that decodes to the non-empty secret of its cookie *)
Theorem non_exempt_method_requires_token r :
  r_xsrf_on r = true ->
  r_method r <> M_GET -> r_method r <> M_HEAD -> r_method r <> M_OPTIONS ->
  ran (handle r) = true -> carries_cookie_secret r.
Proof.
  intros On N1 N2 N3 R. apply reaches_handler_iff in R as [_ [G|C]]; [|exact C].
  exfalso. unfold gate in G. rewrite On, andb_true_r in G. apply negb_false_iff in G.
  apply safe_method_iff in G. tauto.
Qed.

(* ... and without one it is answered 403 (if the handler declares the verb) or 405 *)
Theorem non_exempt_method_without_token_refused r :
  r_xsrf_on r = true ->
  r_method r <> M_GET -> r_method r <> M_HEAD -> r_method r <> M_OPTIONS ->
  ~ carries_cookie_secret r ->
  ran (handle r) = false /\ (status (handle r) = 403%Z \/ status (handle r) = 405%Z).
Proof.
  intros On N1 N2 N3 NC.
  assert (R : ran (handle r) = false).
  { destruct (ran (handle r)) eqn:R; [|reflexivity]. exfalso. apply NC.
    apply non_exempt_method_requires_token; assumption. }
  split; [exact R|]. destruct (refusal_is_405_or_403 r R) as [[_ ->]|[_ ->]]; cbn [status]; auto.
Qed.

(* the exempt verbs, and everything when xsrf_cookies is off, are never checked *)
Theorem exempt_or_disabled_reaches_handler r :
  declared r = true ->
  (r_xsrf_on r = false \/ r_method r = M_GET \/ r_method r = M_HEAD \/ r_method r = M_OPTIONS) ->
  ran (handle r) = true.
Proof.
  intros Dc H. apply reaches_handler_iff. split; [exact Dc|]. left. unfold gate.
  destruct H as [-> | H]; [apply andb_false_r|].
  apply safe_method_iff in H. rewrite H. reflexivity.
Qed.

Example ex_propfind :
  let sup := default_supported ++ [[80;82;79;80;70;73;78;68]] in
  let r := mkreq true [80;82;79;80;70;73;78;68] sup 2 (Some ex_cookie) [] None None
                 [1;2;3;4;5;6;7;8;9;10;11;12;13;14;15;16] [17;34;51;68] 1700000000 in
  declared r = true /\ r_method r <> M_GET /\ r_method r <> M_HEAD /\ r_method r <> M_OPTIONS /\
  handle r = mkresp 403 false None None /\
  handle (mkreq true [103;101;116] (sup ++ [[103;101;116]]) 2 (Some ex_cookie) [] None None
                [1;2;3;4;5;6;7;8;9;10;11;12;13;14;15;16] [17;34;51;68] 1700000000) = mkresp 403 false None None.
Proof. repeat split; try discriminate; vm_compute; reflexivity. Qed.
