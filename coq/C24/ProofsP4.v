(* C24 — transport of the token through request arguments: proofs. *)
From Coq Require Import List NArith ZArith Arith Bool Lia ZifyBool.
From TV Require Import Lib.Obs Lib.C21_Utf8 C18.Model C18.Proofs C24.Model C24.Run C24.Args
     C24.Proofs C24.Proofs2 C24.Proofs3 C24.Proofs4.
Import ListNotations.
Local Open Scope N_scope.

(* ---------- which string is handed to _decode_xsrf_token ---------- *)
Theorem input_token_precedence r :
  (exists v, last_opt (r_fields r) = Some v /\ norm_field v <> [] /\ input_token r = Some (norm_field v))
  \/ ((last_opt (r_fields r) = None \/ exists v, last_opt (r_fields r) = Some v /\ norm_field v = [])
      /\ ((exists h, r_hx r = Some h /\ h <> [] /\ input_token r = Some h)
          \/ ((r_hx r = None \/ r_hx r = Some []) /\ input_token r = r_hc r))).
Proof.
  unfold input_token, field_arg, last_opt. destruct (rev (r_fields r)) as [|v l].
  - right. split; [left; reflexivity|]. cbn [truthy].
    destruct (r_hx r) as [[|c h]|]; cbn [truthy]; [right; auto|left; eexists; repeat split; discriminate|right; auto].
  - destruct (norm_field v) as [|c s] eqn:E.
    + right. split; [right; exists v; auto|]. cbn [truthy].
      destruct (r_hx r) as [[|c h]|]; cbn [truthy]; [right; auto|left; eexists; repeat split; discriminate|right; auto].
    + left. exists v. rewrite E. repeat split; discriminate.
Qed.

(* ---------- legal urlencoded spellings ---------- *)
(* [enc e s]: e spells the byte string s -- a byte literally (not % + & =),
   as %XX with hex digits of either case, or a space as + *)
Inductive enc : list N -> list N -> Prop :=
| enc_nil : enc [] []
| enc_lit c e s : c <> 37 -> c <> 43 -> c <> 38 -> c <> 61 -> enc e s -> enc (c :: e) (c :: s)
| enc_pct h l x y e s : hexval h = Some x -> hexval l = Some y -> enc e s -> enc (37 :: h :: l :: e) ((16 * x + y) :: s)
| enc_plus e s : enc e s -> enc (43 :: e) (32 :: s).

Lemma hexval_char h x : hexval h = Some x -> h <> 43 /\ h <> 38 /\ h <> 61 /\ h <> 37.
Proof.
  unfold hexval.
  destruct (inr 48 57 h) eqn:E1; [intros _; unfold inr in E1; lia|].
  destruct (inr 65 70 h) eqn:E2; [intros _; unfold inr in E2; lia|].
  destruct (inr 97 102 h) eqn:E3; [intros _; unfold inr in E3; lia|]. discriminate.
Qed.

Lemma qs_unquote_enc e s : enc e s -> qs_unquote e = s.
Proof.
  unfold qs_unquote. induction 1 as [|c e s N1 N2 N3 N4 _ IH|h l x y e s Hh Hl _ IH|e s _ IH].
  - reflexivity.
  - cbn [plus_space map]. replace (c =? 43) with false by lia. cbn [pct_decode].
    replace (c =? 37) with false by lia. fold (plus_space e). rewrite IH. reflexivity.
  - destruct (hexval_char h x Hh) as (A & _). destruct (hexval_char l y Hl) as (B & _).
    cbn [plus_space map]. replace (h =? 43) with false by lia. replace (l =? 43) with false by lia.
    fold (plus_space e). cbn [pct_decode N.eqb Pos.eqb]. rewrite Hh, Hl, IH. reflexivity.
  - cbn [plus_space map N.eqb Pos.eqb]. fold (plus_space e). cbn [pct_decode N.eqb Pos.eqb]. rewrite IH. reflexivity.
Qed.

Lemma enc_no_sep e s : enc e s -> ~ In 38 e /\ ~ In 61 e.
Proof.
  induction 1 as [|c e s N1 N2 N3 N4 _ IH|h l x y e s Hh Hl _ IH|e s _ IH]; cbn [In].
  - tauto.
  - destruct IH. split; intros [K|K]; auto.
  - destruct IH. destruct (hexval_char h x Hh) as (_ & A1 & A2 & _). destruct (hexval_char l y Hl) as (_ & B1 & B2 & _).
    split; intros [K|[K|[K|K]]]; auto; lia.
  - destruct IH. split; intros [K|K]; auto; lia.
Qed.

Lemma qs_values_app name l1 l2 : qs_values name (l1 ++ l2) = qs_values name l1 ++ qs_values name l2.
Proof.
  induction l1 as [|ch l1 IH]; [reflexivity|]. cbn [app qs_values]. destruct ch as [|c ch]; [exact IH|].
  destruct (qs_pair (c :: ch)) as [k v]. destruct (str_eqb k name); cbn [app]; rewrite IH; reflexivity.
Qed.

Lemma qs_values_one en ev tk :
  enc en XSRF_NAME -> enc ev tk -> qs_values XSRF_NAME [en ++ 61 :: ev] = [tk].
Proof.
  intros En Ev. destruct (enc_no_sep _ _ En) as [_ N61].
  assert (P : qs_pair (en ++ 61 :: ev) = (XSRF_NAME, tk)).
  { unfold qs_pair. rewrite (split_first_app 61 en ev N61), (qs_unquote_enc _ _ En), (qs_unquote_enc _ _ Ev). reflexivity. }
  cbn [qs_values]. destruct (en ++ 61 :: ev) as [|c x] eqn:E; [destruct en; discriminate|].
  rewrite P. change (str_eqb XSRF_NAME XSRF_NAME) with true. reflexivity.
Qed.

(* "name=value" in any legal spelling, alone or appended with & to anything, adds exactly the value, last *)
Theorem xsrf_values_append pre en ev tk :
  enc en XSRF_NAME -> enc ev tk ->
  xsrf_values (pre ++ 38 :: en ++ 61 :: ev) = xsrf_values pre ++ [tk]
  /\ xsrf_values (en ++ 61 :: ev) = [tk].
Proof.
  intros En Ev. destruct (enc_no_sep _ _ En) as [A1 _]. destruct (enc_no_sep _ _ Ev) as [B1 _].
  assert (N38 : ~ In 38 (en ++ 61 :: ev)).
  { rewrite in_app_iff. cbn [In]. intros [K|[K|K]]; auto; lia. }
  unfold xsrf_values. split.
  - rewrite split_on_app_gen, (split_on_no 38 _ N38). destruct (split_on 38 pre) as [p ps]. cbn [fst snd].
    change (p :: ps ++ [en ++ 61 :: ev]) with ((p :: ps) ++ [en ++ 61 :: ev]).
    rewrite qs_values_app, (qs_values_one en ev tk En Ev). reflexivity.
  - rewrite (split_on_no 38 _ N38). apply qs_values_one; assumption.
Qed.

Lemma sequence_snoc {A} (l : list (option A)) x fs :
  sequence (l ++ [Some x]) = Some fs -> last_opt fs = Some x.
Proof.
  revert fs. induction l as [|[a|] l IH]; intros fs E; cbn [app sequence] in E.
  - injection E as <-. reflexivity.
  - destruct (sequence (l ++ [Some x])) as [r|] eqn:S; [|discriminate]. injection E as <-.
    specialize (IH r eq_refl). unfold last_opt in *. cbn [rev]. destruct (rev r) as [|y t]; [discriminate|]. exact IH.
  - discriminate.
Qed.

Lemma utf8_decode_tok tk : Forall tokc tk -> utf8_decode tk = Some tk.
Proof. intro T. apply utf8_decode_encode. apply tok_ascii. exact T. Qed.

(* the last _xsrf argument wins: query values come first, then body values *)
Theorem args_deliver_last q b vs tk fs :
  xsrf_values q ++ xsrf_values b = vs ++ [tk] -> Forall tokc tk ->
  fields_of_args q b = Some fs ->
  last_opt fs = Some tk /\ norm_field tk = tk.
Proof.
  intros E T F. unfold fields_of_args in F. rewrite E, map_app in F. cbn [map] in F.
  rewrite (utf8_decode_tok tk T) in F. split; [eapply sequence_snoc; exact F|apply norm_field_tok, T].
Qed.

(* ---------- end to end ---------- *)
(* a token the application issued, submitted as the last _xsrf argument of the
   urlencoded body (after anything) or of the query string (when the body has no
   _xsrf argument), in any legal spelling of name and value, reaches the handler *)
Theorem issued_token_accepted_through_arguments r r0 tk q b pre en ev fs :
  bytes (r_rnd r) -> bytes (r_mask r) -> r_rnd r <> [] ->
  token (handle r) = Some tk ->
  enc en XSRF_NAME -> enc ev tk ->
  (b = pre ++ 38 :: en ++ 61 :: ev \/ b = en ++ 61 :: ev
   \/ (xsrf_values b = [] /\ (q = pre ++ 38 :: en ++ 61 :: ev \/ q = en ++ 61 :: ev))) ->
  fields_of_args q b = Some fs ->
  declared r0 = true ->
  r_cookie r0 = match set_cookie (handle r) with Some c => Some c | None => r_cookie r end ->
  ran (handle (with_fields r0 fs)) = true /\ status (handle (with_fields r0 fs)) <> 403%Z.
Proof.
  intros Br Bm Hr HT En Ev Hb F Dc Hc.
  pose proof (token_is_issue r tk HT) as HI. pose proof (secret_bytes r Br) as Bs.
  assert (T : Forall tokc tk /\ tk <> []).
  { pose proof (secret_nonempty r Hr) as Hs. unfold secret in Bs, Hs. destruct (raw_token r) as [[v0 tok] ts]. cbn [fst snd] in *.
    split; [exact (issue_tokc _ _ _ _ _ _ Bs Bm HI)|exact (issue_nonempty _ _ _ _ _ _ HI Hs)]. }
  destruct T as [T Ne].
  destruct (xsrf_values_append pre en ev tk En Ev) as [A1 A2].
  assert (E : exists vs, xsrf_values q ++ xsrf_values b = vs ++ [tk]).
  { destruct Hb as [-> |[-> |[Eb [-> | ->]]]].
    - exists (xsrf_values q ++ xsrf_values pre). rewrite A1, app_assoc. reflexivity.
    - exists (xsrf_values q). rewrite A2. reflexivity.
    - exists (xsrf_values pre). rewrite Eb, A1, app_nil_r. reflexivity.
    - exists []. rewrite Eb, A2. reflexivity. }
  destruct E as [vs E]. destruct (args_deliver_last q b vs tk fs E T F) as [L Nf].
  apply (issued_token_reaches_handler r (with_fields r0 fs) tk Br Bm HT Hr).
  - exact Dc.
  - rewrite <- Nf. apply input_token_field; cbn [with_fields r_fields]; [exact L|rewrite Nf; exact Ne].
  - exact Hc.
Qed.

(* the two header channels, in their order, when no argument supplies a token *)
Theorem issued_token_accepted_through_headers r r0 tk :
  bytes (r_rnd r) -> bytes (r_mask r) -> r_rnd r <> [] ->
  token (handle r) = Some tk ->
  (last_opt (r_fields r0) = None \/ exists v, last_opt (r_fields r0) = Some v /\ norm_field v = []) ->
  (r_hx r0 = Some tk \/ ((r_hx r0 = None \/ r_hx r0 = Some []) /\ r_hc r0 = Some tk)) ->
  declared r0 = true ->
  r_cookie r0 = match set_cookie (handle r) with Some c => Some c | None => r_cookie r end ->
  ran (handle r0) = true /\ status (handle r0) <> 403%Z.
Proof.
  intros Br Bm Hr HT Hf Hh Dc Hc.
  pose proof (token_is_issue r tk HT) as HI. pose proof (secret_bytes r Br) as Bs.
  assert (Ne : tk <> []).
  { pose proof (secret_nonempty r Hr) as Hs. unfold secret in Bs, Hs. destruct (raw_token r) as [[v0 tok] ts]. cbn [fst snd] in *.
    exact (issue_nonempty _ _ _ _ _ _ HI Hs). }
  apply (issued_token_reaches_handler r r0 tk Br Bm HT Hr Dc); [|exact Hc].
  destruct (input_token_precedence r0) as [(v & L & Nv & _)|(_ & [(h & Eh & Nh & Ei)|(Eh & Ei)])].
  - exfalso. destruct Hf as [K|(w & K & Nw)]; rewrite K in L; [discriminate|]. injection L as <-. contradiction.
  - destruct Hh as [K|([K|K] & _)]; rewrite K in Eh; [injection Eh as <-; exact Ei|discriminate|injection Eh as <-; congruence].
  - rewrite Ei. destruct Hh as [K|(_ & K)]; [|exact K]. exfalso. destruct Eh as [E|E]; rewrite E in K; [discriminate|]. injection K as <-. congruence.
Qed.

(* the 400 answer of the model's checker is consistent *)
Theorem model_satisfies_check_case2 c :
  bytes (r_rnd (snd (snd c))) -> bytes (r_mask (snd (snd c))) -> r_rnd (snd (snd c)) <> [] ->
  check_case2 c (run_case2 c) = true.
Proof.
  intros Br Bm Hr. unfold check_case2, run_case2.
  assert (F : r_rnd (fst (req_of_case2 c)) = r_rnd (snd (snd c)) /\ r_mask (fst (req_of_case2 c)) = r_mask (snd (snd c))).
  { unfold req_of_case2. destruct (apply_header_fields (fst (snd c)) (snd (snd c))) as (E1 & E2 & _).
    destruct (fst c) as [[q b]|]; [destruct (fields_of_args q b)|]; cbn [fst with_fields r_rnd r_mask]; auto. }
  destruct (req_of_case2 c) as [r bad]. cbn [fst] in F. destruct F as [F1 F2].
  destruct (raises_400 r bad); [reflexivity|].
  apply model_satisfies_check; rewrite ?F1, ?F2; assumption.
Qed.

Example ex_enc :
  enc [37;53;70;120;115;37;55;50;102] XSRF_NAME                         (* "%5Fxs%72f" *)
  /\ xsrf_values [97;61;49;38;37;53;70;120;115;37;55;50;102;61;50;37;55;99;43] = [[50;124;32]].   (* a=1&%5Fxs%72f=2%7c+ *)
Proof.
  split; [|vm_compute; reflexivity].
  apply (enc_pct 53 70 5 15); [reflexivity|reflexivity|].
  apply enc_lit; try lia. apply enc_lit; try lia.
  apply (enc_pct 55 50 7 2); [reflexivity|reflexivity|]. apply enc_lit; try lia. apply enc_nil.
Qed.
