(* C24 — lemmas, part 2: the decoder, issuance round trip, the check. *)
From Coq Require Import List NArith ZArith Arith Bool Lia ZifyBool.
From TV Require Import Lib.Obs Lib.C21_Utf8 C18.Model C18.Proofs C24.Model C24.Run C24.Proofs.
Import ListNotations.
Local Open Scope N_scope.

(* ---------- facts about _decode_xsrf_token ---------- *)
Lemma decode_v2_inv s t ts v :
  decode_v2 s = DTok v t ts ->
  v = 2 /\ bytes t /\ exists r, render_int ts = Some r.
Proof.
  unfold decode_v2. destruct (split_on 124 s) as [p ps].
  destruct ps as [|a [|b [|c [|x y]]]]; try discriminate.
  destruct (utf8_encode a) as [mb|]; [|discriminate].
  destruct (utf8_encode b) as [db|]; [|discriminate].
  destruct (a2b_hex mb) as [m|] eqn:Em; [|discriminate].
  destruct (a2b_hex db) as [d|] eqn:Ed; [|discriminate].
  destruct (mask_py m d) as [tok|] eqn:Ek; [|discriminate].
  destruct (py_int c) as [z|] eqn:Ez; [|discriminate].
  intros [= <- <- <-]. split; [reflexivity|]. split.
  - apply mask_py_some in Ek as [_ ->]. apply mask_from_bytes; eapply a2b_bytes; eassumption.
  - eapply py_int_renders. exact Ez.
Qed.

Lemma decode_inv s now v t ts :
  decode s now = DTok v t ts ->
  bytes t /\ ((v = 2 /\ exists r, render_int ts = Some r) \/ (v = 1 /\ ts = now)).
Proof.
  unfold decode. destruct (utf8_encode s) as [b|] eqn:Eb; [|discriminate].
  destruct (version_prefix b) as [ds|].
  - destruct (list_eqb N.eqb ds [50]); [|discriminate].
    intro H. apply decode_v2_inv in H as (-> & Hb & Hr). split; [exact Hb|left; auto].
  - intros [= <- <- <-]. split; [|right; auto].
    destruct (a2b_hex b) as [x|] eqn:Ex; [eapply a2b_bytes; exact Ex|eapply utf8_encode_bytes; exact Eb].
Qed.

Lemma decode_bytes s now v t ts : decode s now = DTok v t ts -> bytes t.
Proof. intro H. apply decode_inv in H. tauto. Qed.

(* the secret does not depend on the clock *)
Lemma decode_now_indep s now now' v t ts :
  decode s now = DTok v t ts -> exists ts', decode s now' = DTok v t ts'.
Proof.
  unfold decode. destruct (utf8_encode s) as [b|]; [|discriminate].
  destruct (version_prefix b) as [ds|].
  - destruct (list_eqb N.eqb ds [50]); [|discriminate]. intro H. eexists. exact H.
  - intros [= <- <- <-]. eexists. reflexivity.
Qed.

(* ---------- the raw token ---------- *)
Lemma raw_cases r :
  (exists c cs v t ts, r_cookie r = Some (c :: cs) /\ decode (c :: cs) (r_now r) = DTok v t ts
                       /\ t <> [] /\ raw_token r = (Some v, t, ts))
  \/ raw_token r = (None, r_rnd r, r_now r).
Proof.
  unfold raw_token. destruct (r_cookie r) as [[|c cs]|]; auto.
  destruct (decode (c :: cs) (r_now r)) as [|v [|t0 t] ts] eqn:E; auto.
  left. exists c, cs, v, (t0 :: t), ts. repeat split; auto. discriminate.
Qed.

(* the secret a request works with is never empty (os.urandom(16) is not) *)
Lemma secret_nonempty r : r_rnd r <> [] -> secret r <> [].
Proof.
  intro H. unfold secret. destruct (raw_cases r) as [(c & cs & v & t & ts & _ & _ & Ht & ->)| ->]; cbn [fst snd]; assumption.
Qed.

Lemma secret_bytes r : bytes (r_rnd r) -> bytes (secret r).
Proof.
  intro H. unfold secret. destruct (raw_cases r) as [(c & cs & v & t & ts & _ & D & _ & ->)| ->]; cbn [fst snd].
  - eapply decode_bytes. exact D.
  - exact H.
Qed.

Lemma raw_ts_renders r :
  (exists t, render_int (r_now r) = Some t) -> exists t, render_int (snd (raw_token r)) = Some t.
Proof.
  intro H. destruct (raw_cases r) as [(c & cs & v & t & ts & _ & D & _ & ->)| ->]; cbn [fst snd]; [|exact H].
  apply decode_inv in D as [_ [[_ Hr]|[_ ->]]]; assumption.
Qed.

(* ---------- issuing ---------- *)
Lemma issue_inv ov mask v0 tok ts tk :
  issue ov mask (v0, tok, ts) = Some tk ->
  (ov = 1 /\ tk = b2a_hex tok)
  \/ (ov = 2 /\ length mask = 4%nat /\ exists tsc, render_int ts = Some tsc /\
      tk = [50] ++ 124 :: b2a_hex mask ++ 124 :: b2a_hex (mask_ref mask tok) ++ 124 :: tsc).
Proof.
  unfold issue. destruct (N.eqb_spec ov 1) as [->|N1].
  - intros [= <-]. left. auto.
  - destruct (N.eqb_spec ov 2) as [->|N2]; [|discriminate].
    destruct (mask_py mask tok) as [mt|] eqn:Em; [|discriminate].
    destruct (render_int ts) as [tsc|] eqn:Er; [|discriminate].
    intros [= <-]. right. apply mask_py_some in Em as [L ->]. split; [reflexivity|]. split; [exact L|].
    exists tsc. split; reflexivity.
Qed.

Lemma Forall_hexc_tokc s : Forall hexc s -> Forall tokc s.
Proof. apply Forall_impl. exact hexc_tokc. Qed.
Lemma Forall_hexc_nobar s : Forall hexc s -> ~ In 124 s.
Proof. intro H. apply not_in_bar. eapply Forall_impl; [|exact H]. exact hexc_not_bar. Qed.

Lemma issue_tokc ov mask v0 tok ts tk :
  bytes tok -> bytes mask -> issue ov mask (v0, tok, ts) = Some tk -> Forall tokc tk.
Proof.
  intros Bt Bm H. apply issue_inv in H as [[_ ->]|(_ & L & tsc & Hr & ->)].
  - apply Forall_hexc_tokc, b2a_hexc, Bt.
  - apply render_tokc in Hr as (Ht & _ & _).
    assert (BAR : tokc 124) by (right; left; reflexivity).
    apply Forall_app. split; [constructor; [left; left; lia|constructor]|].
    constructor; [exact BAR|]. apply Forall_app. split; [apply Forall_hexc_tokc, b2a_hexc, Bm|].
    constructor; [exact BAR|]. apply Forall_app. split.
    + apply Forall_hexc_tokc, b2a_hexc, mask_from_bytes; assumption.
    + constructor; [exact BAR|exact Ht].
Qed.

Lemma version_prefix_none b : ~ In 124 b -> version_prefix b = None.
Proof.
  intro H. unfold version_prefix. destruct b as [|c r]; [reflexivity|].
  destruct (inr 49 57 c); [|reflexivity].
  assert (S : forall l, ~ In 124 l -> match snd (span_digits l) with 124 :: _ => False | _ => True end).
  { induction l as [|x l IH]; intro K; cbn [span_digits]; [exact I|].
    destruct (inr 48 57 x).
    - specialize (IH ltac:(intro J; apply K; right; exact J)).
      destruct (span_digits l) as [d t]. exact IH.
    - cbn [snd]. destruct (N.eq_dec x 124) as [->|Nx]; [exfalso; apply K; left; reflexivity|].
      destruct x as [|p]; [exact I|]. do 7 (destruct p as [p|p|]; try exact I). congruence. }
  specialize (S r ltac:(intro J; apply H; right; exact J)).
  destruct (span_digits r) as [d t]. cbn [snd] in S.
  destruct t as [|x t]; [reflexivity|].
  destruct (N.eq_dec x 124) as [->|Nx]; [contradiction|].
  destruct x as [|p]; [reflexivity|]. do 7 (destruct p as [p|p|]; try reflexivity). congruence.
Qed.

Lemma split4 a b c d :
  ~ In 124 a -> ~ In 124 b -> ~ In 124 c -> ~ In 124 d ->
  split_on 124 (a ++ 124 :: b ++ 124 :: c ++ 124 :: d) = (a, [b; c; d]).
Proof.
  intros Ha Hb Hc Hd.
  rewrite (split_on_app 124 a) by exact Ha.
  rewrite (split_on_app 124 b) by exact Hb. cbn [fst snd].
  rewrite (split_on_app 124 c) by exact Hc. cbn [fst snd].
  rewrite (split_on_no 124 d) by exact Hd. reflexivity.
Qed.

(* _decode_xsrf_token (xsrf_token for secret tok) = tok, for both versions and every mask *)
Lemma decode_issue ov mask v0 tok ts tk now :
  bytes tok -> bytes mask ->
  issue ov mask (v0, tok, ts) = Some tk ->
  exists ts', decode tk now = DTok ov tok ts' /\ (ov = 2 -> ts' = ts).
Proof.
  intros Bt Bm H. pose proof (issue_tokc _ _ _ _ _ _ Bt Bm H) as TK.
  unfold decode. rewrite (tok_ascii tk TK).
  apply issue_inv in H as [[-> ->]|(-> & L & tsc & Hr & ->)].
  - rewrite version_prefix_none by (apply Forall_hexc_nobar, b2a_hexc, Bt).
    rewrite (a2b_b2a tok Bt). exists now. split; [reflexivity|discriminate].
  - change (version_prefix ([50] ++ 124 :: b2a_hex mask ++ 124 :: b2a_hex (mask_ref mask tok) ++ 124 :: tsc))
      with (Some [50]).
    change (list_eqb N.eqb [50] [50]) with true. cbv iota.
    pose proof (mask_from_bytes mask 0 tok Bm Bt) as Bmt. fold (mask_ref mask tok) in Bmt.
    pose proof (render_tokc _ _ Hr) as (Tt & _ & Nt).
    unfold decode_v2. rewrite split4.
    + rewrite (tok_ascii (b2a_hex mask)) by (apply Forall_hexc_tokc, b2a_hexc, Bm).
      rewrite (tok_ascii (b2a_hex (mask_ref mask tok))) by (apply Forall_hexc_tokc, b2a_hexc, Bmt).
      rewrite (a2b_b2a mask Bm), (a2b_b2a _ Bmt).
      rewrite (mask_py_4 _ _ L), mask_ref_involutive.
      rewrite (py_int_render _ _ Hr). exists ts. split; reflexivity.
    + cbn [In]. lia.
    + apply Forall_hexc_nobar, b2a_hexc, Bm.
    + apply Forall_hexc_nobar, b2a_hexc, Bmt.
    + apply not_in_bar, Nt.
Qed.

Lemma issue_nonempty ov mask v0 tok ts tk :
  issue ov mask (v0, tok, ts) = Some tk -> tok <> [] -> tk <> [].
Proof.
  intros H Ht. apply issue_inv in H as [[_ ->]|(_ & _ & tsc & _ & ->)].
  - apply b2a_nonempty, Ht.
  - discriminate.
Qed.

(* ---------- check_xsrf_cookie ---------- *)
Lemma xsrf_ok_iff r :
  xsrf_ok r = true <->
  exists s v t ts, input_token r = Some s /\ s <> [] /\
                   decode s (r_now r) = DTok v t ts /\ t <> [] /\ t = secret r.
Proof.
  unfold xsrf_ok. split.
  - destruct (input_token r) as [[|c cs]|]; try discriminate.
    destruct (decode (c :: cs) (r_now r)) as [|v [|t0 t] ts] eqn:D; try discriminate.
    intro E. apply list_eqb_eq in E. exists (c :: cs), v, (t0 :: t), ts.
    repeat split; try discriminate; auto.
  - intros (s & v & t & ts & -> & Hs & D & Ht & E).
    destruct s as [|c cs]; [congruence|]. rewrite D.
    destruct t as [|t0 t]; [congruence|]. apply list_eqb_eq. exact E.
Qed.

Lemma truthy_some s : s <> [] -> truthy (Some s) = true.
Proof. destruct s; [congruence|reflexivity]. Qed.

(* the precedence of the three carriers *)
Definition last_opt {A} (l : list A) : option A := match rev l with [] => None | x :: _ => Some x end.
Lemma input_token_field r v :
  last_opt (r_fields r) = Some v -> norm_field v <> [] -> input_token r = Some (norm_field v).
Proof.
  unfold last_opt, input_token, field_arg. destruct (rev (r_fields r)) as [|x l]; [discriminate|].
  intros [= ->] H. rewrite truthy_some by exact H. reflexivity.
Qed.

(* every token issued for the secret of a request is accepted on any later
   request that still holds that secret in its cookie *)
Lemma issued_accepted r r' tk :
  bytes (r_rnd r) -> bytes (r_mask r) ->
  issue (r_outver r) (r_mask r) (raw_token r) = Some tk ->
  r_rnd r <> [] ->
  input_token r' = Some tk ->
  r_cookie r' = match fst (fst (raw_token r)) with None => Some tk | Some _ => r_cookie r end ->
  xsrf_ok r' = true.
Proof.
  intros Br Bm HI Hr Hin Hc.
  pose proof (secret_bytes r Br) as Bs. pose proof (secret_nonempty r Hr) as Hs.
  unfold secret in *. destruct (raw_token r) as [[v0 tok] ts] eqn:ER. cbn [fst snd] in *.
  pose proof (issue_nonempty _ _ _ _ _ _ HI Hs) as Ne.
  destruct (decode_issue _ _ _ _ _ _ (r_now r') Bs Bm HI) as (ts' & D & _).
  apply xsrf_ok_iff. exists tk, (r_outver r), tok, ts'. repeat split; auto.
  unfold secret, raw_token. rewrite Hc.
  destruct (raw_cases r) as [(c & cs & v & t & ts0 & Ck & D0 & Ht & E0)|E0]; rewrite E0 in ER; injection ER as <- <- <-.
  - rewrite Ck. destruct (decode_now_indep _ _ (r_now r') _ _ _ D0) as (ts2 & D2). rewrite D2.
    destruct t as [|t0 t]; [congruence|reflexivity].
  - destruct tk as [|c cs]; [congruence|]. rewrite D.
    destruct (r_rnd r) as [|b0 bs]; [congruence|reflexivity].
Qed.
