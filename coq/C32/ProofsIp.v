(* C32 — the textual recogniser: plain IPv4 / IPv6 strings are of numeric form, so the two
   answers of [recognise_ip] never contradict each other and the assumptions made about
   getaddrinfo are satisfiable. *)
From Coq Require Import List NArith Bool Arith Lia.
Import ListNotations.
From TV Require Import Lib.Obs C32.Model C32.Spec C32.Proofs.
Local Open Scope N_scope.

Lemma split_chars : forall (p : N -> bool) d s,
  forallb (forallb p) (split_all d s) = true ->
  forallb (fun c => p c || (c =? d)) s = true.
Proof.
  intros p d s. unfold split_all. induction s as [|c s IH]; simpl; auto.
  destruct (split_ne d s) as [f rest]. destruct (c =? d) eqn:E; simpl in *.
  - intros H. rewrite orb_true_r. simpl. apply IH. exact H.
  - intros H. apply andb_true_iff in H as [H1 H2]. apply andb_true_iff in H1 as [Hc Hf].
    rewrite Hc. simpl. apply IH. rewrite Hf, H2. reflexivity.
Qed.

Lemma forallb_impl : forall A (p q : A -> bool) l,
  (forall x, p x = true -> q x = true) -> forallb p l = true -> forallb q l = true.
Proof.
  intros A p q l H. induction l as [|a l IH]; simpl; auto.
  intros E. apply andb_true_iff in E as [E1 E2]. rewrite (H a E1), (IH E2). reflexivity.
Qed.

Lemma digit_numeric : forall c, is_digit c = true -> numeric_char c = true.
Proof. intros c H. unfold numeric_char, is_hex. rewrite H. reflexivity. Qed.

Lemma hex_numeric : forall c, is_hex c = true -> numeric_char c = true.
Proof. intros c H. unfold numeric_char. rewrite H. reflexivity. Qed.

Lemma numeric_not_pct : forall c, numeric_char c = true -> (c =? 37) = false.
Proof.
  intros c H. destruct (c =? 37) eqn:E; auto. apply N.eqb_eq in E. subst. discriminate.
Qed.

Lemma before_pct_id : forall s, forallb numeric_char s = true -> before_pct s = s.
Proof.
  induction s as [|c s IH]; simpl; auto. intros H. apply andb_true_iff in H as [H1 H2].
  rewrite (numeric_not_pct c H1), (IH H2). reflexivity.
Qed.

Lemma numeric_form_intro : forall s, s <> [] -> forallb numeric_char s = true ->
  numeric_form s = true.
Proof.
  intros s Hne H. unfold numeric_form. rewrite (before_pct_id s H). unfold all_ne.
  rewrite H. destruct s; [congruence|reflexivity].
Qed.

Lemma plain_octet_chars : forall p, plain_octet p = true -> forallb is_digit p = true.
Proof.
  intros p H. unfold plain_octet, all_ne in H.
  repeat (apply andb_true_iff in H as [H ?]). assumption.
Qed.

Lemma plain_ipv4_chars : forall s, plain_ipv4 s = true -> forallb numeric_char s = true.
Proof.
  intros s H. unfold plain_ipv4 in H. apply andb_true_iff in H as [_ H].
  apply (forallb_impl _ (fun c => is_digit c || (c =? 46)) numeric_char).
  - intros c Hc. apply orb_true_iff in Hc as [Hc|Hc]; [apply digit_numeric; exact Hc|].
    apply N.eqb_eq in Hc. subst. reflexivity.
  - apply split_chars. eapply forallb_impl; [|exact H]. apply plain_octet_chars.
Qed.

Lemma plain_ipv4_nonempty : forall s, plain_ipv4 s = true -> s <> [].
Proof. intros s H ->. discriminate. Qed.

Lemma groups_count_chars : forall parts a n, groups_count parts a = Some n ->
  forallb (forallb numeric_char) parts = true.
Proof.
  induction parts as [|p r IH]; intros a n H; simpl; auto.
  assert (Hp : hex_group p = true -> forallb numeric_char p = true).
  { intros E. unfold hex_group, all_ne in E. apply andb_true_iff in E as [E _].
    apply andb_true_iff in E as [_ E]. eapply forallb_impl; [|exact E]. apply hex_numeric. }
  simpl in H. destruct r as [|q r'].
  - destruct (hex_group p) eqn:E.
    + rewrite (Hp eq_refl). reflexivity.
    + destruct (a && plain_ipv4 p) eqn:E2; [|discriminate].
      apply andb_true_iff in E2 as [_ E2]. rewrite (plain_ipv4_chars p E2). reflexivity.
  - destruct (hex_group p) eqn:E; [|discriminate].
    destruct (groups_count (q :: r') a) as [m|] eqn:G; [|discriminate].
    rewrite (Hp eq_refl). rewrite (IH a m G). reflexivity.
Qed.

Lemma groups_of_chars : forall s a n, groups_of s a = Some n -> forallb numeric_char s = true.
Proof.
  intros s a n H. unfold groups_of in H. destruct s as [|c s']; [reflexivity|].
  cbn [is_nil] in H.
  apply (forallb_impl _ (fun c => numeric_char c || (c =? 58)) numeric_char).
  - intros x Hx. apply orb_true_iff in Hx as [Hx|Hx]; auto. apply N.eqb_eq in Hx. subst. reflexivity.
  - apply split_chars. eapply groups_count_chars. exact H.
Qed.

Lemma split_dcolon_app : forall s l r, split_dcolon s = Some (l, r) -> s = l ++ 58 :: 58 :: r.
Proof.
  induction s as [|c s IH]; intros l r H; [discriminate|].
  simpl in H. destruct s as [|c2 t]; [discriminate|].
  destruct ((c =? 58) && (c2 =? 58)) eqn:E.
  - inversion H; subst. apply andb_true_iff in E as [E1 E2].
    apply N.eqb_eq in E1, E2. subst. reflexivity.
  - destruct (split_dcolon (c2 :: t)) as [[a b]|] eqn:S; [|discriminate].
    inversion H; subst. rewrite (IH a r eq_refl). reflexivity.
Qed.

Lemma plain_ipv6_chars : forall s, plain_ipv6 s = true ->
  s <> [] /\ forallb numeric_char s = true.
Proof.
  intros s H. unfold plain_ipv6 in H.
  destruct (split_dcolon s) as [[l r]|] eqn:S.
  - destruct (groups_of l false) as [a|] eqn:Gl; [|discriminate].
    destruct (groups_of r true) as [b|] eqn:Gr; [|discriminate].
    rewrite (split_dcolon_app s l r S). split.
    + destruct l; discriminate.
    + rewrite forallb_app. rewrite (groups_of_chars l false a Gl). simpl.
      apply (groups_of_chars r true b Gr).
  - destruct (groups_of s true) as [n|] eqn:G; [|discriminate].
    apply andb_true_iff in H as [_ H]. split.
    + intros ->. discriminate.
    + apply (groups_of_chars s true n G).
Qed.

(* what the recogniser accepts is of numeric form *)
Theorem plain_numeric : forall s, plain_ipv4 s || plain_ipv6 s = true -> numeric_form s = true.
Proof.
  intros s H. apply orb_true_iff in H as [H|H].
  - apply numeric_form_intro; [apply plain_ipv4_nonempty|apply plain_ipv4_chars]; exact H.
  - destruct (plain_ipv6_chars s H) as [H1 H2]. apply numeric_form_intro; assumption.
Qed.

(* an instance of the assumptions on getaddrinfo: the recogniser itself *)
Definition gai_plain (s : str) : bool := plain_ipv4 s || plain_ipv6 s.

Lemma gai_plain_accepts : forall s,
  ip_guard s = true -> plain_ipv4 s || plain_ipv6 s = true -> gai_plain s = true.
Proof. intros s _ H. exact H. Qed.

Lemma gai_plain_numeric : forall s,
  ip_guard s = true -> gai_plain s = true -> numeric_form s = true.
Proof. intros s _ H. apply plain_numeric. exact H. Qed.
