(* C32 — the statement trees of Ast.v mean the model's functions. *)
From Coq Require Import List NArith Bool.
Import ListNotations.
From TV Require Import Lib.Obs C32.Model C32.Spec C32.Proofs C32.Ast.
Local Open Scope N_scope.

Lemma eval_get : forall hs s name d k dv,
  classify_name name = k -> k <> HOther -> eval hs s d = Some dv ->
  eval hs s (EGet name d) = Some (match hget k hs with Some v => v | None => dv end).
Proof.
  intros hs s name d k dv Hk Hn Hd. cbn [eval]. rewrite Hd, Hk.
  destruct k; try congruence; destruct (hget _ hs); reflexivity.
Qed.

Lemma is_http_s_mem : forall p, mem_str p [s_http; s_https] = is_http_s p.
Proof. intros p. unfold mem_str, is_http_s. cbn [existsb]. rewrite orb_false_r. reflexivity. Qed.

Lemma exec_cons : forall gai hs x r s,
  exec gai hs (x :: r) s =
  match exec_stmt gai hs x s with Some s' => exec gai hs r s' | None => None end.
Proof. reflexivity. Qed.

Theorem expected_apply_means : forall gai hs c,
  run_method gai hs expected_apply c = Some (apply_xheaders gai c hs).
Proof.
  intros gai hs c. unfold run_method, expected_apply.
  set (ip0 := match hget HXff hs with Some v => v | None => remote_ip c end).
  set (c1 := if valid_ip gai (ip_candidate c hs) then set_ip c (ip_candidate c hs) else c).
  set (ph := match hget HScheme hs with
             | Some v => v
             | None => match hget HProto hs with Some v => v | None => protocol c end
             end).
  assert (P1 : protocol c1 = protocol c).
  { unfold c1. destruct (valid_ip gai (ip_candidate c hs)); reflexivity. }
  (* ip = headers.get("X-Forwarded-For", self.remote_ip) *)
  assert (K1 : exec_stmt gai hs (SAssign VIp (EGet n_xff (EField FRemoteIp))) (mkSt c None None)
               = Some (mkSt c (Some ip0) None)).
  { cbn [exec_stmt].
    rewrite (eval_get hs _ n_xff (EField FRemoteIp) HXff (remote_ip c)) by (reflexivity || discriminate).
    reflexivity. }
  rewrite exec_cons, K1. clear K1.
  (* the for loop *)
  assert (K2 : exec_stmt gai hs (SSkipTrusted VIp (EVar VIp) comma) (mkSt c (Some ip0) None)
               = Some (mkSt c (Some (xff_candidate (trusted c) ip0)) None)).
  { cbn [exec_stmt eval get_var s_ip s_ctx]. unfold xff_candidate.
    destruct (rsplit comma ip0) as [l r]. reflexivity. }
  rewrite exec_cons, K2. clear K2.
  (* ip = headers.get("X-Real-Ip", ip) *)
  assert (K3 : exec_stmt gai hs (SAssign VIp (EGet n_real (EVar VIp)))
                 (mkSt c (Some (xff_candidate (trusted c) ip0)) None)
               = Some (mkSt c (Some (ip_candidate c hs)) None)).
  { cbn [exec_stmt].
    rewrite (eval_get hs _ n_real (EVar VIp) HReal (xff_candidate (trusted c) ip0))
      by (reflexivity || discriminate).
    reflexivity. }
  rewrite exec_cons, K3. clear K3.
  (* if netutil.is_valid_ip(ip): self.remote_ip = ip *)
  assert (K4 : exec_stmt gai hs (SIf (CValidIp (EVar VIp)) [SSetField FRemoteIp (EVar VIp)])
                 (mkSt c (Some (ip_candidate c hs)) None)
               = Some (mkSt c1 (Some (ip_candidate c hs)) None)).
  { cbn [exec_stmt eval_cond eval get_var s_ip option_map]. unfold c1.
    destruct (valid_ip gai (ip_candidate c hs)); reflexivity. }
  rewrite exec_cons, K4. clear K4.
  (* proto_header = headers.get("X-Scheme", headers.get("X-Forwarded-Proto", self.protocol)) *)
  assert (K5 : exec_stmt gai hs
                 (SAssign VProtoHeader (EGet n_scheme (EGet n_proto (EField FProtocol))))
                 (mkSt c1 (Some (ip_candidate c hs)) None)
               = Some (mkSt c1 (Some (ip_candidate c hs)) (Some ph))).
  { cbn [exec_stmt].
    rewrite (eval_get hs _ n_scheme (EGet n_proto (EField FProtocol)) HScheme
               (match hget HProto hs with Some v => v | None => protocol c end)).
    - reflexivity.
    - reflexivity.
    - discriminate.
    - rewrite (eval_get hs _ n_proto (EField FProtocol) HProto (protocol c1))
        by (reflexivity || discriminate). rewrite P1. reflexivity. }
  rewrite exec_cons, K5. clear K5.
  (* if proto_header: proto_header = proto_header.split(",")[-1].strip() *)
  assert (K6 : exec_stmt gai hs
                 (SIf (CTruthy (EVar VProtoHeader))
                      [SAssign VProtoHeader (ELastStrip (EVar VProtoHeader) comma)])
                 (mkSt c1 (Some (ip_candidate c hs)) (Some ph))
               = Some (mkSt c1 (Some (ip_candidate c hs)) (Some (proto_candidate c hs)))).
  { cbn [exec_stmt eval_cond eval get_var s_ph option_map]. unfold proto_candidate. fold ph.
    destruct (is_nil ph); reflexivity. }
  rewrite exec_cons, K6. clear K6.
  (* if proto_header in ("http", "https"): self.protocol = proto_header *)
  rewrite exec_cons.
  cbn [exec_stmt eval_cond eval get_var s_ph option_map]. rewrite is_http_s_mem.
  unfold apply_xheaders. fold c1.
  destruct (is_http_s (proto_candidate c hs)); reflexivity.
Qed.

Theorem expected_unapply_means : forall gai hs c,
  run_method gai hs expected_unapply c = Some (unapply_xheaders c).
Proof. intros gai hs c. reflexivity. Qed.

Theorem expected_guard_means : forall s, negb (guard_rejects expected_guard s) = ip_guard s.
Proof.
  intros s. unfold guard_rejects, expected_guard, ip_guard. cbn [existsb atom_holds].
  rewrite orb_false_r. destruct (is_nil s), (memN 0 s), (is_ascii s); reflexivity.
Qed.

(* _ProxyAdapter: headers_received applies the headers whether or not the application's
   headers_received raises; finish / on_connection_close restore the context unless the
   application's method raises *)
Theorem expected_pa_headers_received_means : forall gai hs raises c,
  run_steps gai hs raises expected_pa_headers_received c = apply_xheaders gai c hs.
Proof. intros gai hs [|] c; reflexivity. Qed.

Theorem expected_pa_finish_means : forall gai hs c1 ka,
  run_steps gai hs false expected_pa_finish c1 = fst (after c1 (Finish ka))
  /\ run_steps gai hs true expected_pa_finish c1 = fst (after c1 FinishRaises).
Proof. intros. split; reflexivity. Qed.

Theorem expected_pa_close_means : forall gai hs c1,
  run_steps gai hs false expected_pa_on_connection_close c1 = fst (after c1 Close)
  /\ run_steps gai hs true expected_pa_on_connection_close c1 = fst (after c1 CloseRaises).
Proof. intros. split; reflexivity. Qed.
