(* C32 — executable entry points used by the correspondence check. *)
From Coq Require Import List NArith Bool String.
Import ListNotations.
From TV Require Import Lib.Obs C32.Model C32.Spec.
Local Open Scope N_scope.

(* One case = one connection:
   (socket family, address[0] if address is not None, HTTPServer(protocol=...),
    trusted_downstream, HTTPServer(no_keep_alive=...), answers of the real
    getaddrinfo(AI_NUMERICHOST) on the strings that may be handed to is_valid_ip,
    the requests in order: header lines as sent + how the request goes) *)
Definition input : Type :=
  (family * option str * option str * list str * bool * list (str * bool) * list raw_request)%type.

Fixpoint lookup (t : list (str * bool)) (s : str) : option bool :=
  match t with
  | [] => None
  | (k, b) :: r => if str_eqb k s then Some b else lookup r s
  end.
Definition is_some {A} (o : option A) : bool := match o with Some _ => true | None => false end.
(* the OS function as recorded by the harness; strings outside the table are never asked
   (run_case checks this and answers OracleMissing otherwise) *)
Definition gai_of (t : list (str * bool)) (s : str) : bool :=
  match lookup t s with Some b => b | None => false end.

(* the strings handed to is_valid_ip while serving the connection *)
Fixpoint asked (gai : str -> bool) (c : ctx) (reqs : list request) : list str :=
  match reqs with
  | [] => []
  | (hs, h) :: rest =>
      match h with
      | BadHead => []
      | _ =>
          let c1 := apply_xheaders gai c hs in
          let '(c2, alive) := after c1 h in
          ip_candidate c hs :: (if alive then asked gai c2 rest else [])
      end
  end.

Definition view_obs (v : str * str) : obs := OList [OBytes (fst v); OBytes (snd v)].

Definition ctx_of (i : input) : ctx :=
  let '(fam, addr, proto, tr, _, _, _) := i in init_ctx fam addr proto false tr.
Definition table_of (i : input) : list (str * bool) := let '(_, _, _, _, _, tbl, _) := i in tbl.
(* header names classified by _normalize_header, keep-alive decided by _can_keep_alive *)
Definition reqs_of (i : input) : list request :=
  let '(_, _, _, _, nka, _, raws) := i in map (resolve nka) raws.

(* observable: [context at each start_request; (remote_ip, protocol) seen by each handler;
   context after the connection is done; is_valid_ip on every table key] *)
Definition run_case (i : input) : obs :=
  let tbl := table_of i in
  let reqs := reqs_of i in
  let c := ctx_of i in
  let gai := gai_of tbl in
  if forallb (fun s => is_some (lookup tbl s)) (asked gai c reqs) then
    let '(p, s, f) := serve gai c reqs in
    OList [OList (map view_obs p); OList (map view_obs s); view_obs (view f);
           OList (map (fun kb => OBool (valid_ip gai (fst kb))) tbl)]
  else OTag "OracleMissing".

(* ------------------------------------------------------------------ *)
(* The property as a checker of the IMPLEMENTATION's observable.  It does not call
   apply_xheaders / serve: the choice of the candidate is re-stated declaratively
   (rightmost entry not in trusted_downstream, X-Real-Ip first), validity is whatever the
   implementation's own is_valid_ip answered, and that answer is compared with the
   textual recogniser.                                                  *)
(* ------------------------------------------------------------------ *)
Definition view_eqb (a b : str * str) : bool :=
  str_eqb (fst a) (fst b) && str_eqb (snd a) (snd b).

Definition dec_view (o : obs) : option (str * str) :=
  match o with
  | OList [OBytes a; OBytes b] => Some (a, b)
  | _ => None
  end.
Fixpoint dec_views (l : list obs) : option (list (str * str)) :=
  match l with
  | [] => Some []
  | o :: r => match dec_view o, dec_views r with
              | Some v, Some vs => Some (v :: vs)
              | _, _ => None
              end
  end.
Fixpoint dec_bools (l : list obs) : option (list bool) :=
  match l with
  | [] => Some []
  | OBool b :: r => match dec_bools r with Some bs => Some (b :: bs) | None => None end
  | _ :: _ => None
  end.
Definition decode (o : obs)
  : option (list (str * str) * list (str * str) * (str * str) * list bool) :=
  match o with
  | OList [OList p; OList s; f; OList v] =>
      match dec_views p, dec_views s, dec_view f, dec_bools v with
      | Some p', Some s', Some f', Some v' => Some (p', s', f', v')
      | _, _, _, _ => None
      end
  | _ => None
  end.


(* X-Forwarded-For value -> the entry the property names (the leftmost entry when every
   entry is a trusted downstream host: that is what the code does, see NOTES.md) *)
Definition spec_xff (tr : list str) (v : str) : str :=
  let '(f, rest) := split_ne comma v in
  match rightmost_untrusted tr (map strip (f :: rest)) with
  | Some x => x
  | None => strip f
  end.
(* None: the proxy headers supply no address *)
Definition spec_ip_candidate (tr : list str) (hs : list header) : option str :=
  match hget HReal hs with
  | Some v => Some v
  | None => match hget HXff hs with
            | Some v => Some (spec_xff tr v)
            | None => None
            end
  end.
Definition spec_proto_candidate (hs : list header) : option str :=
  match proto_header hs with
  | Some v => let '(f, rest) := split_ne comma v in Some (strip (last_ne f rest))
  | None => None
  end.

Definition req_ok (orig : str * str) (tr : list str) (ask : str -> option bool)
           (hs : list header) (seen : str * str) : bool :=
  let '(ip, proto) := seen in
  (match spec_ip_candidate tr hs with
   | None => str_eqb ip (fst orig)
   | Some cand =>
       match ask cand with
       | Some true => str_eqb ip cand
       | Some false => str_eqb ip (fst orig)
       | None => false
       end
   end)
  && (str_eqb ip (fst orig) || (ip_guard ip && numeric_form ip))
  && (match spec_proto_candidate hs with
      | Some p => if is_http_s p then str_eqb proto p else str_eqb proto (snd orig)
      | None => str_eqb proto (snd orig)
      end)
  && (is_http_s proto || str_eqb proto (snd orig)).

Fixpoint check_conn (orig : str * str) (tr : list str) (ask : str -> option bool)
         (reqs : list request) (pres seen : list (str * str)) (fin : str * str) : bool :=
  match pres with
  | [] => false
  | p :: pres' =>
      view_eqb p orig                                   (* nothing leaked into this request *)
      && match reqs with
         | [] => is_nil pres' && is_nil seen && view_eqb fin orig
         | (hs, h) :: rest =>
             match h with
             | BadHead => is_nil pres' && is_nil seen && view_eqb fin orig
             | _ =>
                 match seen with
                 | [] => false
                 | s :: seen' =>
                     req_ok orig tr ask hs s
                     && match h with
                        | Finish true => check_conn orig tr ask rest pres' seen' fin
                        | Finish false | Close | BadHead =>
                            is_nil pres' && is_nil seen' && view_eqb fin orig
                        | FinishRaises | CloseRaises =>
                            is_nil pres' && is_nil seen' && view_eqb fin s
                        end
                 end
             end
         end
  end.

(* the implementation's is_valid_ip answers against the textual recogniser *)
Fixpoint check_ipv (keys : list str) (ipv : list bool) : bool :=
  match keys, ipv with
  | [], [] => true
  | k :: ks, b :: bs =>
      (match recognise_ip k with Some b' => Bool.eqb b b' | None => true end)
      && check_ipv ks bs
  | _, _ => false
  end.

(* header names, declaratively: HTTP field names are case-insensitive *)
Definition lc (s : str) : str := map lower_c s.
Definition spec_kind (name : str) : hkind :=
  let n := lc name in
  if str_eqb n (lc n_xff) then HXff
  else if str_eqb n (lc n_real) then HReal
  else if str_eqb n (lc n_scheme) then HScheme
  else if str_eqb n (lc n_proto) then HProto
  else if str_eqb n (lc n_conn) then HConn
  else HOther.
Definition spec_resolve (nka : bool) (r : raw_request) : request :=
  let hs := map (fun h => (spec_kind (fst h), snd h)) (fst r) in
  (hs, match snd r with
       | RBadHead => BadHead
       | RFinish v11 => Finish (can_keep_alive nka v11 hs)
       | RFinishRaises => FinishRaises
       | RClose => Close
       | RCloseRaises => CloseRaises
       end).
Definition spec_reqs (i : input) : list request :=
  let '(_, _, _, _, nka, _, raws) := i in map (spec_resolve nka) raws.

Definition check_case (i : input) (o : obs) : bool :=
  let '(_, _, _, tr, _, tbl, _) := i in
  let c := ctx_of i in
  (* the socket values handed to the server are plain (harness sanity) *)
  plain_str (orig_ip c) && plain_str (orig_proto c)
  && match decode o with
     | Some (p, s, f, v) =>
         let keys := map fst tbl in
         check_ipv keys v
         && check_conn (view c) tr (lookup (combine keys v)) (spec_reqs i) p s f
     | None => false
     end.

(* the inputs on which the model's observable passes the checker (ProofsCheck: exactly these):
   the table covers every string asked, the socket values are plain, and the recorded
   getaddrinfo answers agree with the textual recogniser on the table keys *)
Definition input_wf (i : input) : bool :=
  let tbl := table_of i in
  let c := ctx_of i in
  let gai := gai_of tbl in
  forallb (fun s => is_some (lookup tbl s)) (asked gai c (reqs_of i))
  && plain_str (orig_ip c) && plain_str (orig_proto c)
  && check_ipv (map fst tbl) (map (valid_ip gai) (map fst tbl)).
