(* C32 — Proxy headers yield a valid client IP and never leak between requests.
   Property theorems only; proofs are in Proofs.v, ProofsIp.v, ProofsCheck.v, ProofsMain.v.
   [gai] is socket.getaddrinfo(AI_NUMERICHOST) ("succeeds with a result"): every theorem holds
   for every such function.  Vocabulary (Spec.v): xff_choice, plain_str, handled, started,
   final_of, raises, clean. *)
From Coq Require Import List NArith Bool.
Import ListNotations.
From TV Require Import Lib.Obs C32.Model C32.Spec C32.Run C32.Proofs C32.ProofsIp C32.ProofsNames
  C32.ProofsCheck C32.ProofsMain C32.Ast C32.ProofsAst Gen.C32_src Gen.C32_equiv.
Local Open Scope N_scope.

(* 1. After _apply_xheaders, remote_ip is the examined candidate exactly when is_valid_ip
      accepts it, and is left alone otherwise (all headers, all trusted sets, any getaddrinfo). *)
Theorem C32_remote_ip_is_validated_candidate_or_unchanged :
  forall gai c hs,
  let c' := apply_xheaders gai c hs in
  let cand := ip_candidate c hs in
  (valid_ip gai cand = true /\ remote_ip c' = cand)
  \/ (valid_ip gai cand = false /\ remote_ip c' = remote_ip c).
Proof. exact remote_ip_rule. Qed.
Print Assumptions C32_remote_ip_is_validated_candidate_or_unchanged.

(* 2. Which candidate: X-Real-Ip (all its lines joined by ",") when present; otherwise the
      rightmost stripped X-Forwarded-For entry not in trusted_downstream (the leftmost entry when
      every entry is trusted); otherwise the current (socket) address itself. *)
Theorem C32_candidate_precedence :
  forall c hs, plain_str (remote_ip c) = true ->
  match hget HReal hs, hget HXff hs with
  | Some v, _ => ip_candidate c hs = v
  | None, Some v =>
      xff_choice (trusted c) (map strip (split_all comma v)) (ip_candidate c hs)
  | None, None => ip_candidate c hs = remote_ip c
  end.
Proof. exact candidate_rule. Qed.
Print Assumptions C32_candidate_precedence.

(* ... and that description determines the entry. *)
Theorem C32_xff_choice_is_unique :
  forall tr entries a b, xff_choice tr entries a -> xff_choice tr entries b -> a = b.
Proof. exact choice_unique. Qed.
Print Assumptions C32_xff_choice_is_unique.

(* 3. A rewritten remote_ip is non-empty, NUL-free, ASCII and accepted by getaddrinfo ... *)
Theorem C32_rewritten_ip_passed_the_guard :
  forall gai c hs,
  let c' := apply_xheaders gai c hs in
  remote_ip c' = remote_ip c
  \/ (remote_ip c' <> [] /\ ~ In 0 (remote_ip c') /\ Forall (fun ch => ch < 128) (remote_ip c')
      /\ gai (remote_ip c') = true).
Proof. exact remote_ip_guarded. Qed.
Print Assumptions C32_rewritten_ip_passed_the_guard.

(* ... hence numeric, given that getaddrinfo(AI_NUMERICHOST) accepts only numeric text among the
   guarded strings (hypothesis on the OS function; satisfiable: gai_plain below; checked against
   the real function on every generated string by check_case). *)
Theorem C32_remote_ip_numeric_or_socket_address :
  forall gai,
  (forall s, ip_guard s = true -> gai s = true -> numeric_form s = true) ->
  forall c hs,
  let c' := apply_xheaders gai c hs in
  remote_ip c' = remote_ip c
  \/ (ip_guard (remote_ip c') = true /\ numeric_form (remote_ip c') = true).
Proof. exact remote_ip_numeric. Qed.
Print Assumptions C32_remote_ip_numeric_or_socket_address.

Theorem C32_numeric_hypothesis_satisfiable :
  (forall s, ip_guard s = true -> gai_plain s = true -> numeric_form s = true)
  /\ (forall s, ip_guard s = true -> plain_ipv4 s || plain_ipv6 s = true -> gai_plain s = true).
Proof. split; [exact gai_plain_numeric|exact gai_plain_accepts]. Qed.
Print Assumptions C32_numeric_hypothesis_satisfiable.

(* the textual recogniser is coherent: what it accepts has numeric form *)
Theorem C32_recogniser_accepts_only_numeric_form :
  forall s, plain_ipv4 s || plain_ipv6 s = true -> numeric_form s = true.
Proof. exact plain_numeric. Qed.
Print Assumptions C32_recogniser_accepts_only_numeric_form.

(* 4. The protocol becomes the stripped last comma-separated entry of X-Scheme (else
      X-Forwarded-Proto) when that is exactly "http" or "https", and is unchanged otherwise. *)
Theorem C32_protocol_http_https_or_unchanged :
  forall gai c hs,
  let c' := apply_xheaders gai c hs in
  let p := proto_candidate c hs in
  protocol c' = (if is_http_s p then p else protocol c)
  /\ (protocol c' = s_http \/ protocol c' = s_https \/ protocol c' = protocol c).
Proof. exact protocol_rule. Qed.
Print Assumptions C32_protocol_http_https_or_unchanged.

Theorem C32_protocol_candidate :
  forall c hs,
  proto_candidate c hs =
  let v := match proto_header hs with Some v => v | None => protocol c end in
  strip (last_ne (fst (split_ne comma v)) (snd (split_ne comma v))).
Proof. exact proto_candidate_spec. Qed.
Print Assumptions C32_protocol_candidate.

(* 5. Histories.  For every connection (any socket, protocol option, trusted set) and every list
      of requests with any endings: the context at each start_request is the original socket
      pair; the k-th handler sees apply(original context, its own headers) — a function of that
      request alone; the context left behind is described by final_of. *)
Theorem C32_connection_history_noninterference :
  forall gai fam addr proto ssl tr reqs,
  let c := init_ctx fam addr proto ssl tr in
  serve gai c reqs =
  (repeat (view c) (started reqs),
   map (fun r => view (apply_xheaders gai c (fst r))) (handled reqs),
   final_of gai c reqs).
Proof. intros. apply serve_spec. apply init_clean. Qed.
Print Assumptions C32_connection_history_noninterference.

(* the same for any context whose current values equal its saved originals *)
Theorem C32_no_leak_from_any_clean_context :
  forall gai reqs c, clean c ->
  let '(pres, _, _) := serve gai c reqs in
  Forall (fun v => v = (orig_ip c, orig_proto c)) pres /\ length pres = started reqs.
Proof. exact no_leak. Qed.
Print Assumptions C32_no_leak_from_any_clean_context.

(* _unapply_xheaders is an exact inverse on such contexts *)
Theorem C32_unapply_inverts_apply :
  forall gai c hs, clean c -> unapply_xheaders (apply_xheaders gai c hs) = c.
Proof. exact unapply_apply. Qed.
Print Assumptions C32_unapply_inverts_apply.

(* the connection is left with the socket values unless the application raised out of
   finish()/on_connection_close() on the last request it handled (the connection is closed then) *)
Theorem C32_final_context :
  forall gai reqs c,
  final_of gai c reqs = c
  \/ exists hs h, In (hs, h) (handled reqs) /\ raises h = true
                  /\ final_of gai c reqs = apply_xheaders gai c hs.
Proof. exact final_of_cases. Qed.
Print Assumptions C32_final_context.

Theorem C32_final_context_restored :
  forall gai reqs c,
  (forall r, In r (handled reqs) -> raises (snd r) = false) -> final_of gai c reqs = c.
Proof. exact final_restored. Qed.
Print Assumptions C32_final_context_restored.

(* with the default protocol option every handler on the connection sees http or https *)
Theorem C32_all_protocols_http_or_https :
  forall gai fam addr ssl tr reqs,
  let '(_, seen, _) := serve gai (init_ctx fam addr None ssl tr) reqs in
  Forall (fun v => snd v = s_http \/ snd v = s_https) seen.
Proof.
  intros. apply seen_protocols; [apply init_clean|apply init_default_proto].
Qed.
Print Assumptions C32_all_protocols_http_or_https.

(* the original address is the socket's, "0.0.0.0" for non-IP sockets *)
Theorem C32_socket_address :
  forall fam addr proto ssl tr,
  orig_ip (init_ctx fam addr proto ssl tr) =
  match fam, addr with
  | FInet, Some a | FInet6, Some a => a
  | _, _ => s_any_addr
  end.
Proof. exact init_socket_ip. Qed.
Print Assumptions C32_socket_address.

(* 6. The model's observable passes the property checker that is applied to the implementation
      EXACTLY on the well-formed inputs (input_wf: the recorded getaddrinfo table covers every
      string asked, the socket values are plain, the recorded answers agree with the textual
      recogniser on the table keys).  Unconditional: for every input. *)
Theorem C32_model_satisfies_checker_iff_input_well_formed :
  forall i, check_case i (run_case i) = input_wf i.
Proof. exact check_case_model_iff. Qed.
Print Assumptions C32_model_satisfies_checker_iff_input_well_formed.

Theorem C32_model_satisfies_checker :
  forall i, input_wf i = true -> check_case i (run_case i) = true.
Proof. exact check_case_model. Qed.
Print Assumptions C32_model_satisfies_checker.

(* well-formedness follows from assumptions on the recorded getaddrinfo answers *)
Theorem C32_input_well_formed_from_getaddrinfo_assumptions :
  forall i,
  let tbl := table_of i in
  let c := ctx_of i in
  let gai := gai_of tbl in
  forallb (fun s => is_some (lookup tbl s)) (asked gai c (reqs_of i)) = true ->
  plain_str (orig_ip c) = true -> plain_str (orig_proto c) = true ->
  (forall s, In s (map fst tbl) ->
     ip_guard s = true -> plain_ipv4 s || plain_ipv6 s = true -> gai s = true) ->
  (forall s, In s (map fst tbl) -> ip_guard s = true -> gai s = true -> numeric_form s = true) ->
  input_wf i = true.
Proof. exact input_wf_intro. Qed.
Print Assumptions C32_input_well_formed_from_getaddrinfo_assumptions.

Theorem C32_model_satisfies_checker_example :
  input_wf ex_input = true /\ check_case ex_input (run_case ex_input) = true.
Proof. split; [exact ex_input_wf|exact ex_input_checks]. Qed.
Print Assumptions C32_model_satisfies_checker_example.

(* 8. Header names (httputil._normalize_header): a header line is read as one of the proxy
      headers / Connection exactly when its name equals that name up to ASCII case. *)
Theorem C32_header_names_are_case_insensitive :
  (forall n, classify_name n = spec_kind n)
  /\ (forall n m, lc n = lc m -> classify_name n = classify_name m).
Proof. split; [exact classify_is_case_insensitive_match|exact classify_case_insensitive]. Qed.
Print Assumptions C32_header_names_are_case_insensitive.

(* 9. Keep-alive (HTTP1Connection._can_keep_alive, GET requests): never with no_keep_alive;
      HTTP/1.1 unless Connection is "close" (any case); HTTP/1.0 only if it is "keep-alive". *)
Theorem C32_keep_alive_rule :
  forall nka v11 hs,
  can_keep_alive nka v11 hs = true <->
  nka = false /\
  (if v11 then ~ (exists v, hget HConn hs = Some v /\ lc v = s_close)
   else exists v, hget HConn hs = Some v /\ lc v = s_keep_alive).
Proof. exact keep_alive_rule. Qed.
Print Assumptions C32_keep_alive_rule.

(* a request reaches a handler only if every earlier request on the connection was read
   completely and kept the connection alive; whatever follows another kind of request is ignored *)
Theorem C32_handled_requests :
  forall reqs r, In r (handled reqs) ->
  exists pre post, reqs = pre ++ r :: post
                   /\ Forall (fun q => snd q = Finish true) pre /\ snd r <> BadHead.
Proof. exact handled_in. Qed.
Print Assumptions C32_handled_requests.

Theorem C32_requests_after_close_are_ignored :
  forall nka pre r post,
  snd (resolve nka r) <> Finish true ->
  handled (map (resolve nka) (pre ++ r :: post)) = handled (map (resolve nka) (pre ++ [r])).
Proof. exact requests_after_close_ignored. Qed.
Print Assumptions C32_requests_after_close_are_ignored.

Theorem C32_no_keep_alive_serves_one_request :
  forall raws, (length (handled (map (resolve true) raws)) <= 1)%nat.
Proof. exact no_keep_alive_serves_one. Qed.
Print Assumptions C32_no_keep_alive_serves_one_request.

(* 7. Regression of the fixed defect: text that is not ASCII is never adopted, whatever
      getaddrinfo (which IDNA-normalises it) says. *)
Theorem C32_non_ascii_never_valid :
  forall gai s, is_ascii s = false -> valid_ip gai s = false.
Proof.
  intros gai s H. unfold valid_ip, ip_guard. rewrite H. rewrite andb_false_r. reflexivity.
Qed.
Print Assumptions C32_non_ascii_never_valid.

(* 10. Source tie.  The statement trees read from tornado/httpserver.py and tornado/netutil.py on
       this run (Gen/C32_src.v, by translators/c32_src.py — fails closed on any other shape),
       interpreted by Ast.exec, ARE the model's functions: for every getaddrinfo, header list and
       context.  (The interpreter answers None where Python would raise on an unbound local or the
       construct is outside the language; the theorems show that never happens here.) *)
Theorem C32_source_apply_xheaders_is_the_model :
  forall gai hs c, run_method gai hs src_apply c = Some (apply_xheaders gai c hs).
Proof. exact src_apply_means. Qed.
Print Assumptions C32_source_apply_xheaders_is_the_model.

Theorem C32_source_unapply_xheaders_is_the_model :
  forall gai hs c, run_method gai hs src_unapply c = Some (unapply_xheaders c).
Proof. exact src_unapply_means. Qed.
Print Assumptions C32_source_unapply_xheaders_is_the_model.

Theorem C32_source_is_valid_ip_guard_is_the_model :
  forall s, negb (guard_rejects src_guard s) = ip_guard s.
Proof. exact src_guard_means. Qed.
Print Assumptions C32_source_is_valid_ip_guard_is_the_model.

(* the call sequences of _ProxyAdapter.headers_received / finish / on_connection_close give the
   per-request context transitions used by [serve] (Model.after), including the skipped
   _cleanup when the application's method raises *)
Theorem C32_source_proxy_adapter_is_the_model :
  forall gai hs c,
  (forall raises, run_steps gai hs raises src_pa_headers_received c = apply_xheaders gai c hs)
  /\ (forall ka, run_steps gai hs false src_pa_finish c = fst (after c (Finish ka)))
  /\ run_steps gai hs true src_pa_finish c = fst (after c FinishRaises)
  /\ run_steps gai hs false src_pa_on_connection_close c = fst (after c Close)
  /\ run_steps gai hs true src_pa_on_connection_close c = fst (after c CloseRaises).
Proof. exact src_pa_means. Qed.
Print Assumptions C32_source_proxy_adapter_is_the_model.
