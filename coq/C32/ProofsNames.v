(* C32 — header names (_normalize_header) and the keep-alive decision (_can_keep_alive). *)
From Coq Require Import List NArith Bool Arith Lia.
Import ListNotations.
From TV Require Import Lib.Obs C32.Model C32.Spec C32.Run C32.Proofs.
Local Open Scope N_scope.

Ltac case_ranges :=
  unfold upper_c, lower_c, in_range, hyphen in *;
  repeat match goal with
         | |- context [?a <=? ?b] => destruct (N.leb_spec a b)
         | H : context [?a <=? ?b] |- _ => destruct (N.leb_spec a b)
         end; cbn [andb] in *.

Lemma lower_upper : forall c, lower_c (upper_c c) = lower_c c.
Proof. intros c. case_ranges; lia. Qed.

Lemma lower_lower : forall c, lower_c (lower_c c) = lower_c c.
Proof. intros c. case_ranges; lia. Qed.

Lemma lower_hyphen : forall c, (c =? hyphen) = true -> lower_c c = hyphen.
Proof. intros c H. apply N.eqb_eq in H. subst. reflexivity. Qed.

(* characters equal up to ASCII case are treated alike by the normaliser *)
Lemma case_eq_chars : forall a b, lower_c a = lower_c b ->
  (a =? hyphen) = (b =? hyphen) /\ upper_c a = upper_c b.
Proof.
  intros a b H. split.
  - destruct (N.eqb_spec a hyphen); destruct (N.eqb_spec b hyphen); auto; subst;
      case_ranges; lia.
  - case_ranges; lia.
Qed.

Lemma lc_norm : forall n b, lc (norm_header b n) = lc n.
Proof.
  unfold lc. induction n as [|c n IH]; intros b; simpl; auto.
  destruct (c =? hyphen) eqn:E; simpl.
  - rewrite IH. rewrite (lower_hyphen c E). reflexivity.
  - rewrite IH. destruct b; [rewrite lower_upper|rewrite lower_lower]; reflexivity.
Qed.

Lemma norm_lc : forall n m b, lc n = lc m -> norm_header b n = norm_header b m.
Proof.
  unfold lc. induction n as [|c n IH]; intros [|d m] b H; simpl in *; try discriminate; auto.
  inversion H as [[Hc Hr]]. destruct (case_eq_chars c d Hc) as [Eh Eu].
  rewrite Eh. destruct (d =? hyphen).
  - f_equal. apply IH. exact Hr.
  - rewrite Eu, Hc. f_equal. apply IH. exact Hr.
Qed.

(* comparing the normalised name with a normalised constant = comparing case-insensitively *)
Lemma name_test : forall K n, norm_header true K = K ->
  str_eqb (norm_header true n) K = str_eqb (lc n) (lc K).
Proof.
  intros K n HK.
  destruct (str_eqb (norm_header true n) K) eqn:A; destruct (str_eqb (lc n) (lc K)) eqn:B; auto.
  - apply str_eqb_eq in A. rewrite <- A in B. rewrite lc_norm in B. rewrite str_eqb_refl in B.
    discriminate.
  - apply str_eqb_eq in B. apply (norm_lc n K true) in B. rewrite HK in B. rewrite B in A.
    rewrite str_eqb_refl in A. discriminate.
Qed.

Theorem classify_is_case_insensitive_match : forall n, classify_name n = spec_kind n.
Proof.
  intros n. unfold classify_name, spec_kind.
  rewrite !name_test by reflexivity. reflexivity.
Qed.

Theorem classify_case_insensitive : forall n m, lc n = lc m -> classify_name n = classify_name m.
Proof.
  intros n m H. rewrite !classify_is_case_insensitive_match. unfold spec_kind. rewrite H.
  reflexivity.
Qed.

Lemma resolve_spec : forall nka r, resolve nka r = spec_resolve nka r.
Proof.
  intros nka [hs h]. unfold resolve, spec_resolve, classify_headers. cbn [fst snd].
  assert (E : map (fun h0 : str * str => (classify_name (fst h0), snd h0)) hs
              = map (fun h0 : str * str => (spec_kind (fst h0), snd h0)) hs).
  { apply map_ext. intros a. rewrite classify_is_case_insensitive_match. reflexivity. }
  rewrite E. reflexivity.
Qed.

Lemma reqs_of_spec : forall i, reqs_of i = spec_reqs i.
Proof.
  intros [[[[[[fam addr] proto] tr] nka] tbl] raws]. unfold reqs_of, spec_reqs.
  apply map_ext. apply resolve_spec.
Qed.

(* ---------------- keep-alive ---------------- *)
Lemma opt_is_iff : forall o w, opt_is o w = true <-> exists v, o = Some v /\ lc v = w.
Proof.
  intros o w. unfold opt_is, lc. destruct o as [v|].
  - rewrite str_eqb_iff. split; [intros H; exists v; auto|intros (v' & E & H); inversion E; subst; auto].
  - split; [discriminate|intros (v & E & _); discriminate].
Qed.

Theorem keep_alive_rule : forall nka v11 hs,
  can_keep_alive nka v11 hs = true <->
  nka = false /\
  (if v11 then ~ (exists v, hget HConn hs = Some v /\ lc v = s_close)
   else exists v, hget HConn hs = Some v /\ lc v = s_keep_alive).
Proof.
  intros nka v11 hs. unfold can_keep_alive. destruct nka.
  - split; [discriminate|intros [H _]; discriminate].
  - destruct v11.
    + rewrite negb_true_iff. rewrite <- opt_is_iff.
      destruct (opt_is (hget HConn hs) s_close).
      * split; [discriminate|]. intros [_ H]. exfalso. apply H. reflexivity.
      * split; [|reflexivity]. intros _. split; [reflexivity|discriminate].
    + rewrite <- opt_is_iff. split; [auto|intros [_ H]; exact H].
Qed.

(* ---------------- which requests are handled ---------------- *)
Lemma handled_cut : forall pre hs h post, h <> Finish true ->
  handled (pre ++ (hs, h) :: post) = handled (pre ++ [(hs, h)]).
Proof.
  induction pre as [|[hs0 h0] pre IH]; intros hs h post Hh; simpl.
  - destruct h as [|[]| | |]; try reflexivity. congruence.
  - destruct h0 as [|[]| | |]; try reflexivity. rewrite (IH hs h post Hh). reflexivity.
Qed.

Lemma handled_in : forall reqs r, In r (handled reqs) ->
  exists pre post, reqs = pre ++ r :: post
                   /\ Forall (fun q => snd q = Finish true) pre /\ snd r <> BadHead.
Proof.
  induction reqs as [|[hs h] rest IH]; intros r H; [destruct H|].
  simpl in H.
  assert (Here : r = (hs, h) -> h <> BadHead ->
                 exists pre post, (hs, h) :: rest = pre ++ r :: post
                   /\ Forall (fun q => snd q = Finish true) pre /\ snd r <> BadHead).
  { intros -> Hn. exists [], rest. repeat split; auto. }
  destruct h as [|[]| | |]; try destruct H as [H|H]; try (destruct H; fail);
    try (apply Here; [symmetry; exact H|discriminate]).
  destruct (IH r H) as (pre & post & E & F & N).
  exists ((hs, Finish true) :: pre), post. rewrite E. repeat split; auto.
Qed.

Theorem no_keep_alive_serves_one : forall raws,
  (List.length (handled (map (resolve true) raws)) <= 1)%nat.
Proof.
  intros [|[hs h] rest]; simpl; [lia|].
  destruct h; simpl; lia.
Qed.

(* whatever follows a request that is not (complete and keep-alive) is never handled *)
Theorem requests_after_close_ignored : forall nka pre r post,
  snd (resolve nka r) <> Finish true ->
  handled (map (resolve nka) (pre ++ r :: post)) = handled (map (resolve nka) (pre ++ [r])).
Proof.
  intros nka pre r post H. rewrite !map_app. cbn [map].
  destruct (resolve nka r) as [hs h] eqn:E. cbn [snd] in H.
  apply handled_cut. exact H.
Qed.
