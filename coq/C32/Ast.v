(* C32 — a small statement language for the bodies of _HTTPRequestContext._apply_xheaders /
   _unapply_xheaders, the first `if` of netutil.is_valid_ip and the method bodies of
   _ProxyAdapter, with its meaning.  translators/c32_src.py reads those bodies from the working
   tree into terms of this language (Gen/C32_src.v); Gen/C32_equiv.v proves that they mean
   Model.apply_xheaders / unapply_xheaders / ip_guard / after.  Definitions only. *)
From Coq Require Import List NArith Bool.
Import ListNotations.
From TV Require Import Lib.Obs C32.Model.
Local Open Scope N_scope.

Inductive var := VIp | VProtoHeader.                       (* locals: ip, proto_header *)
Inductive field := FRemoteIp | FProtocol | FOrigIp | FOrigProto.   (* self.<...> *)

Inductive expr :=
| EVar (v : var)
| EField (f : field)
| EConst (s : str)
| EGet (name : str) (dflt : expr)          (* headers.get(name, dflt) *)
| ELastStrip (e : expr) (sep : N).         (* e.split(sep)[-1].strip() *)

Inductive cond :=
| CValidIp (e : expr)                      (* netutil.is_valid_ip(e) *)
| CTruthy (e : expr)                       (* if e: *)
| CIn (e : expr) (l : list str).           (* e in (c1, c2, ...) *)

Inductive stmt :=
| SAssign (v : var) (e : expr)
| SSetField (f : field) (e : expr)
(* for v in (cand.strip() for cand in reversed(e.split(sep))):
       if v not in self.trusted_downstream: break *)
| SSkipTrusted (v : var) (e : expr) (sep : N)
| SIf (c : cond) (body : list stmt).

Record st := mkSt { s_ctx : ctx; s_ip : option str; s_ph : option str }.

Definition get_var (s : st) (v : var) : option str :=
  match v with VIp => s_ip s | VProtoHeader => s_ph s end.
Definition set_var (s : st) (v : var) (x : str) : st :=
  match v with
  | VIp => mkSt (s_ctx s) (Some x) (s_ph s)
  | VProtoHeader => mkSt (s_ctx s) (s_ip s) (Some x)
  end.
Definition get_field (c : ctx) (f : field) : str :=
  match f with
  | FRemoteIp => remote_ip c | FProtocol => protocol c
  | FOrigIp => orig_ip c | FOrigProto => orig_proto c
  end.
(* only remote_ip and protocol are ever assigned; anything else is an error (None) *)
Definition set_field (c : ctx) (f : field) (x : str) : option ctx :=
  match f with
  | FRemoteIp => Some (set_ip c x)
  | FProtocol => Some (set_proto c x)
  | _ => None
  end.

(* None = the Python code would raise (unbound local) or the construct is outside the model *)
Fixpoint eval (hs : list header) (s : st) (e : expr) : option str :=
  match e with
  | EVar v => get_var s v
  | EField f => Some (get_field (s_ctx s) f)
  | EConst x => Some x
  | EGet name d =>
      match eval hs s d with            (* the default is evaluated first, as Python does *)
      | None => None
      | Some dv =>
          match classify_name name with
          | HOther => None               (* a header this model knows nothing about *)
          | k => match hget k hs with Some v => Some v | None => Some dv end
          end
      end
  | ELastStrip e' sep =>
      match eval hs s e' with
      | Some v => Some (strip (fst (rsplit sep v)))
      | None => None
      end
  end.

Definition eval_cond (gai : str -> bool) (hs : list header) (s : st) (c : cond) : option bool :=
  match c with
  | CValidIp e => option_map (valid_ip gai) (eval hs s e)
  | CTruthy e => option_map (fun v => negb (is_nil v)) (eval hs s e)
  | CIn e l => option_map (fun v => mem_str v l) (eval hs s e)
  end.

Fixpoint exec_stmt (gai : str -> bool) (hs : list header) (x : stmt) (s : st) : option st :=
  match x with
  | SAssign v e => option_map (set_var s v) (eval hs s e)
  | SSetField f e =>
      match eval hs s e with
      | Some val => match set_field (s_ctx s) f val with
                    | Some c' => Some (mkSt c' (s_ip s) (s_ph s))
                    | None => None
                    end
      | None => None
      end
  | SSkipTrusted v e sep =>
      match eval hs s e with
      | Some val => let '(l, r) := rsplit sep val in
                    Some (set_var s v (pick_from (trusted (s_ctx s)) (strip l) r))
      | None => None
      end
  | SIf c body =>
      match eval_cond gai hs s c with
      | Some true =>
          (fix go (l : list stmt) (s' : st) : option st :=
             match l with
             | [] => Some s'
             | y :: r => match exec_stmt gai hs y s' with Some s'' => go r s'' | None => None end
             end) body s
      | Some false => Some s
      | None => None
      end
  end.
Fixpoint exec (gai : str -> bool) (hs : list header) (l : list stmt) (s : st) : option st :=
  match l with
  | [] => Some s
  | y :: r => match exec_stmt gai hs y s with Some s' => exec gai hs r s' | None => None end
  end.

(* running a method body on a context with no locals bound *)
Definition run_method (gai : str -> bool) (hs : list header) (body : list stmt) (c : ctx)
  : option ctx := option_map s_ctx (exec gai hs body (mkSt c None None)).

(* ---- the guard of is_valid_ip: `if A or B or C: return False` ---- *)
Inductive guard_atom := GEmpty | GHasNul | GNotAscii.     (* not ip | "\x00" in ip | not ip.isascii() *)
Definition atom_holds (a : guard_atom) (s : str) : bool :=
  match a with
  | GEmpty => is_nil s
  | GHasNul => memN 0 s
  | GNotAscii => negb (is_ascii s)
  end.
Definition guard_rejects (atoms : list guard_atom) (s : str) : bool :=
  existsb (fun a => atom_holds a s) atoms.

(* ---- _ProxyAdapter method bodies as sequences of calls ---- *)
Inductive pa_step :=
| PApply        (* self.connection.context._apply_xheaders(headers) *)
| PDelegate     (* self.delegate.<same method>(...) — may raise *)
| PCleanup.     (* self._cleanup(), i.e. context._unapply_xheaders() *)
(* [raises]: the application's method raises; the rest of the body is then skipped *)
Fixpoint run_steps (gai : str -> bool) (hs : list header) (raises : bool)
         (steps : list pa_step) (c : ctx) : ctx :=
  match steps with
  | [] => c
  | PApply :: r => run_steps gai hs raises r (apply_xheaders gai c hs)
  | PDelegate :: r => if raises then c else run_steps gai hs raises r c
  | PCleanup :: r => run_steps gai hs raises r (unapply_xheaders c)
  end.

(* the trees the model was written from *)
Definition expected_apply : list stmt :=
  [ SAssign VIp (EGet n_xff (EField FRemoteIp));
    SSkipTrusted VIp (EVar VIp) comma;
    SAssign VIp (EGet n_real (EVar VIp));
    SIf (CValidIp (EVar VIp)) [SSetField FRemoteIp (EVar VIp)];
    SAssign VProtoHeader (EGet n_scheme (EGet n_proto (EField FProtocol)));
    SIf (CTruthy (EVar VProtoHeader))
        [SAssign VProtoHeader (ELastStrip (EVar VProtoHeader) comma)];
    SIf (CIn (EVar VProtoHeader) [s_http; s_https]) [SSetField FProtocol (EVar VProtoHeader)] ].
Definition expected_unapply : list stmt :=
  [ SSetField FRemoteIp (EField FOrigIp); SSetField FProtocol (EField FOrigProto) ].
Definition expected_guard : list guard_atom := [GEmpty; GHasNul; GNotAscii].
Definition expected_pa_headers_received : list pa_step := [PApply; PDelegate].
Definition expected_pa_finish : list pa_step := [PDelegate; PCleanup].
Definition expected_pa_on_connection_close : list pa_step := [PDelegate; PCleanup].
