(* C32 — vocabulary of the property statements (definitions only): the declarative choice of
   the X-Forwarded-For entry, plain socket values, and what a request history amounts to. *)
From Coq Require Import List NArith Bool.
Import ListNotations.
From TV Require Import Lib.Obs C32.Model.
Local Open Scope N_scope.

Fixpoint last_ne {A} (x : A) (l : list A) : A :=
  match l with [] => x | y :: r => last_ne y r end.

Definition all_trusted (tr : list str) (l : list str) : Prop :=
  Forall (fun x => mem_str x tr = true) l.

(* [xff_choice tr entries e]: e is the rightmost entry (entries are listed left to right) that
   is not a trusted downstream host; if every entry is trusted it is the leftmost entry *)
Inductive xff_choice (tr : list str) : list str -> str -> Prop :=
| xc_untrusted : forall l1 e l2,
    mem_str e tr = false -> all_trusted tr l2 -> xff_choice tr (l1 ++ e :: l2) e
| xc_all_trusted : forall e l2,
    all_trusted tr (e :: l2) -> xff_choice tr (e :: l2) e.

Fixpoint rightmost_untrusted (tr : list str) (l : list str) : option str :=
  match l with
  | [] => None
  | e :: r => match rightmost_untrusted tr r with
              | Some x => Some x
              | None => if mem_str e tr then None else Some e
              end
  end.

(* a socket address: no comma, no outer blanks — the XFF walk leaves it alone *)
Definition plain_str (a : str) : bool := negb (memN comma a) && str_eqb (strip a) a.

(* the header value that decides the protocol *)
Definition proto_header (hs : list header) : option str :=
  match hget HScheme hs with Some v => Some v | None => hget HProto hs end.

Definition clean (c : ctx) : Prop := remote_ip c = orig_ip c /\ protocol c = orig_proto c.

(* the requests that reach a handler: up to and including the first one that does not leave
   the connection open; a malformed head stops the connection before any handler runs *)
Fixpoint handled (reqs : list request) : list request :=
  match reqs with
  | [] => []
  | (hs, h) :: rest =>
      match h with
      | BadHead => []
      | Finish true => (hs, h) :: handled rest
      | _ => [(hs, h)]
      end
  end.

(* number of times the server loop starts reading a request *)
Fixpoint started (reqs : list request) : nat :=
  match reqs with
  | [] => 1
  | (_, h) :: rest =>
      match h with
      | Finish true => S (started rest)
      | _ => 1
      end
  end.

Definition raises (h : how) : bool :=
  match h with FinishRaises | CloseRaises => true | _ => false end.

(* the context the connection is left with *)
Fixpoint final_of (gai : str -> bool) (c : ctx) (reqs : list request) : ctx :=
  match reqs with
  | [] => c
  | (hs, h) :: rest =>
      match h with
      | BadHead => c
      | Finish true => final_of gai c rest
      | _ => if raises h then apply_xheaders gai c hs else c
      end
  end.
