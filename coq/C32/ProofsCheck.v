(* C32 — the model's observable passes the property checker (Run.check_case). *)
From Coq Require Import List NArith Bool Arith Lia String.
Import ListNotations.
From TV Require Import Lib.Obs C32.Model C32.Spec C32.Run C32.Proofs C32.ProofsIp C32.ProofsNames.
Local Open Scope N_scope.

Lemma view_eqb_refl : forall v, view_eqb v v = true.
Proof. intros [a b]. unfold view_eqb. simpl. rewrite !str_eqb_refl. reflexivity. Qed.

(* ---------------- decoding the model's own observable ---------------- *)
Lemma dec_views_map : forall l, dec_views (map view_obs l) = Some l.
Proof.
  induction l as [|[a b] l IH]; simpl; auto. rewrite IH. reflexivity.
Qed.

Lemma dec_bools_map : forall l, dec_bools (map OBool l) = Some l.
Proof. induction l as [|b l IH]; simpl; auto. rewrite IH. reflexivity. Qed.

(* ---------------- the table ---------------- *)
Definition has_key (keys : list str) (s : str) : bool := existsb (fun k => str_eqb k s) keys.

Lemma is_some_lookup : forall tbl s, is_some (lookup tbl s) = has_key (map fst tbl) s.
Proof.
  intros tbl s. induction tbl as [|[k b] t IH]; simpl; auto.
  destruct (str_eqb k s); simpl; auto.
Qed.

Lemma lookup_combine_map : forall (f : str -> bool) keys s,
  lookup (combine keys (map f keys)) s = if has_key keys s then Some (f s) else None.
Proof.
  intros f keys s. induction keys as [|k ks IH]; simpl; auto.
  destruct (str_eqb k s) eqn:E; simpl.
  - apply str_eqb_eq in E. subst. reflexivity.
  - exact IH.
Qed.

Lemma has_key_in : forall keys s, has_key keys s = true -> In s keys.
Proof.
  intros keys s H. unfold has_key in H. apply existsb_exists in H as (k & Hk & E).
  apply str_eqb_eq in E. subst. exact Hk.
Qed.

(* ---------------- is_valid_ip against the recogniser ---------------- *)
(* under assumptions on getaddrinfo the recogniser agrees with valid_ip on every key *)
Section Recogniser.
Variable gai : str -> bool.
Variable keys : list str.      (* the strings on which getaddrinfo's answer was recorded *)
Hypothesis gai_accepts_plain : forall s, In s keys ->
  ip_guard s = true -> plain_ipv4 s || plain_ipv6 s = true -> gai s = true.
Hypothesis gai_numeric : forall s, In s keys ->
  ip_guard s = true -> gai s = true -> numeric_form s = true.

Lemma recognise_agrees : forall k b, In k keys -> recognise_ip k = Some b -> valid_ip gai k = b.
Proof.
  intros k b Hin H. unfold recognise_ip in H. unfold valid_ip.
  destruct (ip_guard k) eqn:G; simpl in *.
  - destruct (plain_ipv4 k || plain_ipv6 k) eqn:P.
    + inversion H; subst. apply gai_accepts_plain; assumption.
    + destruct (numeric_form k) eqn:F; simpl in H; [discriminate|].
      inversion H; subst. destruct (gai k) eqn:Ga; auto.
      rewrite (gai_numeric k Hin G Ga) in F. discriminate.
  - inversion H; subst. reflexivity.
Qed.

Lemma check_ipv_model : forall ks, incl ks keys -> check_ipv ks (map (valid_ip gai) ks) = true.
Proof.
  induction ks as [|k ks IH]; intros Hincl; simpl; auto.
  rewrite IH by (intros x Hx; apply Hincl; right; exact Hx). rewrite andb_true_r.
  destruct (recognise_ip k) as [b|] eqn:R; auto.
  rewrite (recognise_agrees k b (Hincl k (or_introl eq_refl)) R). apply eqb_reflx.
Qed.
End Recogniser.

(* conversely, a passing check_ipv says the answers agree with the recogniser on the keys *)
Lemma check_ipv_in : forall (f : str -> bool) ks k b,
  check_ipv ks (map f ks) = true -> In k ks -> recognise_ip k = Some b -> f k = b.
Proof.
  intros f ks k b. induction ks as [|a ks IH]; intros H Hin R; [destruct Hin|].
  simpl in H. apply andb_true_iff in H as [H1 H2]. destruct Hin as [->|Hin]; [|auto].
  rewrite R in H1. apply eqb_prop in H1. exact H1.
Qed.

Lemma agreed_numeric : forall gai ks k,
  check_ipv ks (map (valid_ip gai) ks) = true -> In k ks ->
  valid_ip gai k = true -> numeric_form k = true.
Proof.
  intros gai ks k H Hin V.
  destruct (numeric_form k) eqn:F; auto.
  assert (G : ip_guard k = true).
  { unfold valid_ip in V. apply andb_true_iff in V as [G _]. exact G. }
  assert (P : plain_ipv4 k || plain_ipv6 k = false).
  { destruct (plain_ipv4 k || plain_ipv6 k) eqn:P; auto.
    rewrite (plain_numeric k P) in F. discriminate. }
  assert (R : recognise_ip k = Some false).
  { unfold recognise_ip. rewrite G, P, F. reflexivity. }
  rewrite (check_ipv_in (valid_ip gai) ks k false H Hin R) in V. discriminate.
Qed.

Section Checker.
Variable gai : str -> bool.

(* ---------------- one request ---------------- *)
Lemma spec_xff_eq : forall tr v, spec_xff tr v = xff_candidate tr v.
Proof.
  intros tr v. unfold spec_xff.
  pose proof (xff_candidate_choice tr v) as H. unfold split_all in H.
  destruct (split_ne comma v) as [f rest]. simpl in H.
  rewrite (choice_functional tr _ _ H (strip f) (map strip rest) eq_refl). reflexivity.
Qed.

Lemma spec_proto_eq : forall c hs v, proto_header hs = Some v ->
  spec_proto_candidate hs = Some (proto_candidate c hs).
Proof.
  intros c hs v H. unfold spec_proto_candidate. rewrite proto_candidate_spec. rewrite H.
  cbv zeta. destruct (split_ne comma v) as [f rest]. reflexivity.
Qed.

Lemma spec_proto_none : forall hs, proto_header hs = None -> spec_proto_candidate hs = None.
Proof. intros hs H. unfold spec_proto_candidate. rewrite H. reflexivity. Qed.

Lemma req_ok_model : forall c hs (ask : str -> option bool),
  clean c ->
  plain_str (orig_ip c) = true -> plain_str (orig_proto c) = true ->
  ask (ip_candidate c hs) = Some (valid_ip gai (ip_candidate c hs)) ->
  (valid_ip gai (ip_candidate c hs) = true -> numeric_form (ip_candidate c hs) = true) ->
  req_ok (view c) (trusted c) ask hs (view (apply_xheaders gai c hs)) = true.
Proof.
  intros c hs ask [Hi Hp] Pip Ppr Hask Hnum.
  pose proof (apply_fields gai c hs) as (Eip & Epr & _).
  unfold req_ok, view. cbn [fst snd].
  set (c' := apply_xheaders gai c hs) in *.
  (* the address clause *)
  assert (A : (match spec_ip_candidate (trusted c) hs with
               | None => str_eqb (remote_ip c') (remote_ip c)
               | Some cand =>
                   match ask cand with
                   | Some true => str_eqb (remote_ip c') cand
                   | Some false => str_eqb (remote_ip c') (remote_ip c)
                   | None => false
                   end
               end) = true).
  { unfold spec_ip_candidate. unfold ip_candidate in *.
    destruct (hget HReal hs) as [v|].
    - rewrite Hask. rewrite Eip. destruct (valid_ip gai v); apply str_eqb_refl.
    - destruct (hget HXff hs) as [v|].
      + rewrite spec_xff_eq. rewrite Hask. rewrite Eip.
        destruct (valid_ip gai (xff_candidate (trusted c) v)); apply str_eqb_refl.
      + rewrite Eip. rewrite Hi. rewrite (xff_candidate_plain _ _ Pip).
        destruct (valid_ip gai (orig_ip c)); apply str_eqb_refl. }
  rewrite A. clear A. cbn [andb].
  (* numeric or socket address *)
  assert (B : str_eqb (remote_ip c') (remote_ip c)
              || (ip_guard (remote_ip c') && numeric_form (remote_ip c')) = true).
  { rewrite Eip. destruct (valid_ip gai (ip_candidate c hs)) eqn:V.
    - rewrite (Hnum eq_refl). unfold valid_ip in V. apply andb_true_iff in V as [G Ga].
      rewrite G. apply orb_true_r.
    - rewrite str_eqb_refl. reflexivity. }
  rewrite B. clear B. cbn [andb].
  (* the protocol clauses *)
  assert (C : (match spec_proto_candidate hs with
               | Some p => if is_http_s p then str_eqb (protocol c') p
                           else str_eqb (protocol c') (protocol c)
               | None => str_eqb (protocol c') (protocol c)
               end) = true).
  { destruct (proto_header hs) as [v|] eqn:PH.
    - rewrite (spec_proto_eq c hs v PH). rewrite Epr.
      destruct (is_http_s (proto_candidate c hs)); apply str_eqb_refl.
    - rewrite (spec_proto_none hs PH). rewrite Epr.
      rewrite proto_candidate_spec. rewrite PH. cbv zeta. rewrite Hp.
      rewrite (plain_last_piece _ Ppr). rewrite <- Hp.
      destruct (is_http_s (protocol c)); apply str_eqb_refl. }
  rewrite C. clear C. cbn [andb].
  rewrite Epr. destruct (is_http_s (proto_candidate c hs)) eqn:E.
  - rewrite E. reflexivity.
  - rewrite str_eqb_refl. apply orb_true_r.
Qed.
(* ---------------- a whole connection ---------------- *)
Lemma asked_spec : forall reqs c, clean c ->
  asked gai c reqs = map (fun r => ip_candidate c (fst r)) (handled reqs).
Proof.
  induction reqs as [|[hs h] rest IH]; intros c Hc; [reflexivity|].
  cbn [asked handled].
  destruct h as [|ka| | |]; cbn [after]; try reflexivity.
  rewrite (unapply_apply gai c hs Hc). destruct ka; [|reflexivity].
  rewrite (IH c Hc). reflexivity.
Qed.

Lemma check_conn_model : forall c (ask : str -> option bool) reqs,
  (forall r, In r (handled reqs) ->
     req_ok (view c) (trusted c) ask (fst r) (view (apply_xheaders gai c (fst r))) = true) ->
  check_conn (view c) (trusted c) ask reqs
             (repeat (view c) (started reqs))
             (map (fun r => view (apply_xheaders gai c (fst r))) (handled reqs))
             (view (final_of gai c reqs)) = true.
Proof.
  intros c ask reqs. induction reqs as [|[hs h] rest IH]; intros H.
  - simpl. rewrite !view_eqb_refl. reflexivity.
  - cbn [started handled final_of].
    destruct h as [|ka| | |].
    + simpl. rewrite !view_eqb_refl. reflexivity.
    + destruct ka.
      * cbn [repeat map check_conn fst]. rewrite view_eqb_refl.
        pose proof (H (hs, Finish true) (or_introl eq_refl)) as H0; cbn [fst] in H0; rewrite H0. cbn [andb fst].
        apply IH. intros r Hr. apply H. right. exact Hr.
      * cbn [repeat map check_conn fst raises]. rewrite !view_eqb_refl.
        pose proof (H (hs, Finish false) (or_introl eq_refl)) as H0; cbn [fst] in H0; rewrite H0. reflexivity.
    + cbn [repeat map check_conn fst raises]. rewrite !view_eqb_refl.
      pose proof (H (hs, FinishRaises) (or_introl eq_refl)) as H0; cbn [fst] in H0; rewrite H0. reflexivity.
    + cbn [repeat map check_conn fst raises]. rewrite !view_eqb_refl.
      pose proof (H (hs, Close) (or_introl eq_refl)) as H0; cbn [fst] in H0; rewrite H0. reflexivity.
    + cbn [repeat map check_conn fst raises]. rewrite !view_eqb_refl.
      pose proof (H (hs, CloseRaises) (or_introl eq_refl)) as H0; cbn [fst] in H0; rewrite H0. reflexivity.
Qed.

End Checker.

(* The model's observable passes the checker EXACTLY on the well-formed inputs (Run.input_wf):
   no hypothesis is left — an ill-formed input (table not covering a string asked, socket
   values that are not plain, recorded getaddrinfo answers contradicting the recogniser) makes
   the checker fail, which is what the harness relies on. *)
Theorem check_case_model_iff : forall i, check_case i (run_case i) = input_wf i.
Proof.
  intros i. pose proof (reqs_of_spec i) as RS.
  destruct i as [[[[[[fam addr] proto] tr] nka] tbl] raws].
  unfold check_case, run_case, input_wf, table_of.
  rewrite <- RS.
  set (c := ctx_of _). set (gai := gai_of tbl). set (reqs := reqs_of _) in *.
  clearbody reqs. cbv beta iota zeta.
  assert (Hc : clean c) by apply init_clean.
  assert (Htr : trusted c = tr) by reflexivity.
  destruct (forallb (fun s => is_some (lookup tbl s)) (asked gai c reqs)) eqn:Hcomp.
  2:{ cbn [decode]. rewrite andb_false_r. reflexivity. }
  rewrite (serve_spec gai reqs c Hc).
  unfold decode.
  rewrite !dec_views_map.
  replace (map (fun kb : str * bool => OBool (valid_ip gai (fst kb))) tbl)
    with (map OBool (map (valid_ip gai) (map fst tbl))) by (rewrite !map_map; reflexivity).
  rewrite dec_bools_map.
  unfold view_obs at 1. cbn [dec_view fst snd andb].
  destruct (plain_str (orig_ip c)) eqn:Pip; [|reflexivity].
  destruct (plain_str (orig_proto c)) eqn:Ppr; [|reflexivity].
  cbn [andb].
  destruct (check_ipv (map fst tbl) (map (valid_ip gai) (map fst tbl))) eqn:Hipv; [|reflexivity].
  cbn [andb].
  rewrite <- Htr.
  apply (check_conn_model gai c).
  intros r Hr.
  rewrite (asked_spec gai reqs c Hc) in Hcomp.
  rewrite forallb_forall in Hcomp.
  specialize (Hcomp (ip_candidate c (fst r)) (in_map _ _ _ Hr)).
  rewrite is_some_lookup in Hcomp.
  apply (req_ok_model gai c (fst r) _ Hc Pip Ppr).
  - rewrite lookup_combine_map. rewrite Hcomp. reflexivity.
  - apply (agreed_numeric gai (map fst tbl)); [exact Hipv|apply has_key_in; exact Hcomp].
Qed.

Corollary check_case_model : forall i, input_wf i = true -> check_case i (run_case i) = true.
Proof. intros i H. rewrite check_case_model_iff. exact H. Qed.

(* well-formedness from assumptions on the recorded getaddrinfo answers *)
Lemma input_wf_intro : forall i,
  let tbl := table_of i in
  let c := ctx_of i in
  let gai := gai_of tbl in
  forallb (fun s => is_some (lookup tbl s)) (asked gai c (reqs_of i)) = true ->
  plain_str (orig_ip c) = true -> plain_str (orig_proto c) = true ->
  (forall s, In s (map fst tbl) ->
     ip_guard s = true -> plain_ipv4 s || plain_ipv6 s = true -> gai s = true) ->
  (forall s, In s (map fst tbl) -> ip_guard s = true -> gai s = true -> numeric_form s = true) ->
  input_wf i = true.
Proof.
  intros i tbl c gai H1 H2 H3 Hacc Hnum. unfold input_wf. fold tbl c gai.
  rewrite H1, H2, H3. cbn [andb].
  apply (check_ipv_model gai (map fst tbl) Hacc Hnum). apply incl_refl.
Qed.
