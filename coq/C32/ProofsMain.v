(* C32 — the statements of Property.v, proved from Proofs.v / ProofsIp.v / ProofsCheck.v. *)
From Coq Require Import List NArith Bool Arith Lia String.
Import ListNotations.
From TV Require Import Lib.Obs C32.Model C32.Spec C32.Run C32.Proofs C32.ProofsIp C32.ProofsNames C32.ProofsCheck.
Local Open Scope N_scope.

Section OneRequest.
Variable gai : str -> bool.

Lemma remote_ip_rule : forall c hs,
  let c' := apply_xheaders gai c hs in
  let cand := ip_candidate c hs in
  (valid_ip gai cand = true /\ remote_ip c' = cand)
  \/ (valid_ip gai cand = false /\ remote_ip c' = remote_ip c).
Proof.
  intros c hs. pose proof (apply_fields gai c hs) as (E & _). cbv zeta. rewrite E.
  destruct (valid_ip gai (ip_candidate c hs)); [left|right]; split; reflexivity.
Qed.

Lemma candidate_rule : forall c hs, plain_str (remote_ip c) = true ->
  match hget HReal hs, hget HXff hs with
  | Some v, _ => ip_candidate c hs = v
  | None, Some v =>
      xff_choice (trusted c) (map strip (split_all comma v)) (ip_candidate c hs)
  | None, None => ip_candidate c hs = remote_ip c
  end.
Proof.
  intros c hs P. pose proof (ip_candidate_spec c hs) as H.
  destruct (hget HReal hs); [exact H|]. destruct (hget HXff hs); [exact H|].
  rewrite H. apply xff_candidate_plain. exact P.
Qed.

Lemma remote_ip_guarded : forall c hs,
  let c' := apply_xheaders gai c hs in
  remote_ip c' = remote_ip c
  \/ (remote_ip c' <> [] /\ ~ In 0 (remote_ip c') /\ Forall (fun ch => ch < 128) (remote_ip c')
      /\ gai (remote_ip c') = true).
Proof.
  intros c hs. destruct (remote_ip_rule c hs) as [[V E]|[_ E]]; cbv zeta in *.
  - right. rewrite E. apply valid_ip_guard. exact V.
  - left. exact E.
Qed.

Lemma remote_ip_numeric :
  (forall s, ip_guard s = true -> gai s = true -> numeric_form s = true) ->
  forall c hs,
  let c' := apply_xheaders gai c hs in
  remote_ip c' = remote_ip c
  \/ (ip_guard (remote_ip c') = true /\ numeric_form (remote_ip c') = true).
Proof.
  intros Hnum c hs. destruct (remote_ip_rule c hs) as [[V E]|[_ E]]; cbv zeta in *.
  - right. rewrite E. unfold valid_ip in V. apply andb_true_iff in V as [G Ga].
    split; [exact G|apply Hnum; assumption].
  - left. exact E.
Qed.

Lemma protocol_rule : forall c hs,
  let c' := apply_xheaders gai c hs in
  let p := proto_candidate c hs in
  protocol c' = (if is_http_s p then p else protocol c)
  /\ (protocol c' = s_http \/ protocol c' = s_https \/ protocol c' = protocol c).
Proof.
  intros c hs. pose proof (apply_fields gai c hs) as (_ & E & _). cbv zeta. split; [exact E|].
  rewrite E. destruct (is_http_s (proto_candidate c hs)) eqn:P.
  - destruct (is_http_s_cases _ P) as [H|H]; rewrite H; auto.
  - auto.
Qed.

(* ---------------- histories ---------------- *)
Lemma final_of_cases : forall reqs c,
  final_of gai c reqs = c
  \/ exists hs h, In (hs, h) (handled reqs) /\ raises h = true
                  /\ final_of gai c reqs = apply_xheaders gai c hs.
Proof.
  induction reqs as [|[hs h] rest IH]; intros c; [left; reflexivity|].
  cbn [final_of handled].
  destruct h as [|ka| | |]; cbn [raises].
  - left; reflexivity.
  - destruct ka; [|left; reflexivity].
    destruct (IH c) as [E|(hs' & h' & Hin & Hr & E)]; [left; exact E|].
    right. exists hs', h'. split; [right; exact Hin|split; assumption].
  - right. exists hs, FinishRaises. split; [left; reflexivity|split; reflexivity].
  - left; reflexivity.
  - right. exists hs, CloseRaises. split; [left; reflexivity|split; reflexivity].
Qed.

Lemma final_restored : forall reqs c,
  (forall r, In r (handled reqs) -> raises (snd r) = false) -> final_of gai c reqs = c.
Proof.
  intros reqs c H. destruct (final_of_cases reqs c) as [E|(hs & h & Hin & Hr & _)]; [exact E|].
  specialize (H (hs, h) Hin). simpl in H. congruence.
Qed.

Lemma no_leak : forall reqs c, clean c ->
  let '(pres, _, _) := serve gai c reqs in
  Forall (fun v => v = (orig_ip c, orig_proto c)) pres /\ List.length pres = started reqs.
Proof.
  intros reqs c Hc. rewrite (serve_spec gai reqs c Hc). destruct Hc as [H1 H2]. split.
  - apply Forall_forall. intros v Hv. apply repeat_spec in Hv. subst. unfold view.
    rewrite H1, H2. reflexivity.
  - apply repeat_length.
Qed.

Lemma seen_protocols : forall reqs c, clean c -> is_http_s (orig_proto c) = true ->
  let '(_, seen, _) := serve gai c reqs in
  Forall (fun v => snd v = s_http \/ snd v = s_https) seen.
Proof.
  intros reqs c Hc Ho. rewrite (serve_spec gai reqs c Hc). apply Forall_forall.
  intros v Hv. apply in_map_iff in Hv as (r & <- & _). unfold view. cbn [snd].
  destruct (protocol_rule c (fst r)) as (_ & [H|[H|H]]); cbv zeta in *; auto.
  rewrite H. destruct Hc as [_ Hp]. rewrite Hp. apply is_http_s_cases. exact Ho.
Qed.

End OneRequest.

Lemma init_default_proto : forall fam addr ssl tr,
  is_http_s (orig_proto (init_ctx fam addr None ssl tr)) = true.
Proof. intros fam addr [|] tr; reflexivity. Qed.

Lemma init_socket_ip : forall fam addr proto ssl tr,
  orig_ip (init_ctx fam addr proto ssl tr) =
  match fam, addr with
  | FInet, Some a | FInet6, Some a => a
  | _, _ => s_any_addr
  end.
Proof. reflexivity. Qed.

(* ---------------- examples: the hypotheses are satisfiable ---------------- *)
(* "9.9.9.9" and "http" are plain *)
Example plain_example : plain_str [57;46;57;46;57;46;57] = true /\ plain_str s_http = true.
Proof. split; reflexivity. Qed.

(* X-Forwarded-For: "4.4.4.4, 10.0.0.1" with 10.0.0.1 trusted chooses 4.4.4.4 *)
Example choice_example :
  xff_choice [[49;48;46;48;46;48;46;49]]
             (map strip (split_all comma [52;46;52;46;52;46;52;44;32;49;48;46;48;46;48;46;49]))
             [52;46;52;46;52;46;52].
Proof.
  apply (xc_untrusted _ [] [52;46;52;46;52;46;52] [[49;48;46;48;46;48;46;49]]).
  - reflexivity.
  - constructor; [reflexivity|constructor].
Qed.

(* a concrete well-formed connection: socket 9.9.9.9, requests
   ["x-real-ip: 4.4.4.4"; "X-SCHEME: https"] (HTTP/1.1) then a bare one *)
Definition ex_input : input :=
  (FInet, Some [57;46;57;46;57;46;57], None, [], false,
   [([57;46;57;46;57;46;57], true); ([52;46;52;46;52;46;52], true)],
   [([([120;45;114;101;97;108;45;105;112], [52;46;52;46;52;46;52]);
      ([88;45;83;67;72;69;77;69], s_https)], RFinish true);
    ([], RFinish true)]).

Lemma lookup_in : forall tbl s b, lookup tbl s = Some b -> In s (map fst tbl).
Proof.
  induction tbl as [|[k v] t IH]; intros s b H; [discriminate|].
  simpl in H. destruct (str_eqb k s) eqn:E.
  - left. apply str_eqb_eq. exact E.
  - right. eapply IH. exact H.
Qed.

Example ex_input_wf : input_wf ex_input = true.
Proof.
  apply input_wf_intro; try reflexivity.
  - intros s Hin _ _. simpl in Hin. destruct Hin as [<-|[<-|[]]]; reflexivity.
  - intros s Hin _ _. simpl in Hin. destruct Hin as [<-|[<-|[]]]; reflexivity.
Qed.

Example ex_input_checks : check_case ex_input (run_case ex_input) = true.
Proof. apply check_case_model. exact ex_input_wf. Qed.

(* a connection whose table does not cover the string asked is rejected, not accepted *)
Example ex_input_ill_formed :
  let i : input := (FInet, Some [57;46;57;46;57;46;57], None, [], false, [],
                    [([], RFinish true)]) in
  input_wf i = false /\ check_case i (run_case i) = false.
Proof. split; reflexivity. Qed.

(* the second request of ex_input sees the socket values although the first was rewritten *)
Example ex_input_seen :
  run_case ex_input =
  OList [OList [view_obs ([57;46;57;46;57;46;57], s_http); view_obs ([57;46;57;46;57;46;57], s_http);
                view_obs ([57;46;57;46;57;46;57], s_http)];
         OList [view_obs ([52;46;52;46;52;46;52], s_https); view_obs ([57;46;57;46;57;46;57], s_http)];
         view_obs ([57;46;57;46;57;46;57], s_http);
         OList [OBool true; OBool true]].
Proof. vm_compute. reflexivity. Qed.

(* regression witnesses of the defect fixed in netutil.is_valid_ip (non-ASCII text that
   IDNA-normalises to a numeric host): even if getaddrinfo accepts it, it is not adopted *)
Example nonascii_rejected : forall gai, valid_ip gai [185;46;50;46;51;46;52] = false  (* "¹.2.3.4" *)
                                     /\ valid_ip gai [178;179] = false.               (* "²³" *)
Proof. intros gai. split; reflexivity. Qed.
