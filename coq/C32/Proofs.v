(* C32 — proofs about the model (Model.v): candidate choice, one application of the proxy
   headers, and request histories on one connection. *)
From Coq Require Import List NArith Bool Arith Lia.
Import ListNotations.
From TV Require Import Lib.Obs C32.Model C32.Spec.
Local Open Scope N_scope.

(* ---------------- strings ---------------- *)
Lemma str_eqb_refl : forall s, str_eqb s s = true.
Proof.
  unfold str_eqb. induction s as [|a s IH]; simpl; auto.
  rewrite N.eqb_refl, IH. reflexivity.
Qed.

Lemma str_eqb_eq : forall a b, str_eqb a b = true -> a = b.
Proof.
  unfold str_eqb. apply list_eqb_sound. intros a b H. apply N.eqb_eq. exact H.
Qed.

Lemma str_eqb_iff : forall a b, str_eqb a b = true <-> a = b.
Proof. intros a b. split; [apply str_eqb_eq|intros ->; apply str_eqb_refl]. Qed.

Lemma is_http_s_cases : forall p, is_http_s p = true -> p = s_http \/ p = s_https.
Proof.
  intros p H. unfold is_http_s in H. apply orb_true_iff in H as [H|H];
    apply str_eqb_eq in H; auto.
Qed.

(* ---------------- split / rsplit ---------------- *)
Lemma rsplit_acc_spec : forall d s cur done,
  let '(f, rest) := split_ne d s in
  let '(l, r) := rsplit_acc d s cur done in
  l :: r = rev ((rev cur ++ f) :: rest) ++ done.
Proof.
  intros d s. induction s as [|c s IH]; intros cur done; simpl.
  - rewrite app_nil_r. reflexivity.
  - specialize (IH (if c =? d then [] else c :: cur) (if c =? d then rev cur :: done else done)).
    destruct (split_ne d s) as [f rest].
    destruct (c =? d) eqn:E.
    + destruct (rsplit_acc d s [] (rev cur :: done)) as [l r].
      rewrite IH. simpl. rewrite app_nil_r. rewrite <- !app_assoc. reflexivity.
    + destruct (rsplit_acc d s (c :: cur) done) as [l r].
      rewrite IH. simpl. rewrite <- !app_assoc. reflexivity.
Qed.

(* rsplit yields the pieces of split in reverse order *)
Lemma rsplit_spec : forall d s,
  fst (rsplit d s) :: snd (rsplit d s) = rev (split_all d s).
Proof.
  intros d s. unfold rsplit, split_all.
  pose proof (rsplit_acc_spec d s [] []) as H.
  destruct (split_ne d s) as [f rest]. destruct (rsplit_acc d s [] []) as [l r].
  simpl in *. rewrite app_nil_r in H. exact H.
Qed.


Lemma last_ne_app : forall A (l : list A) x y, last_ne x (l ++ [y]) = y.
Proof. induction l as [|a l IH]; intros x y; simpl; auto. Qed.

Lemma rev_cons_last : forall A (rest : list A) f l r,
  l :: r = rev (f :: rest) -> l = last_ne f rest.
Proof.
  intros A rest f l r H.
  assert (E : f :: rest = rev (l :: r)) by (rewrite H, rev_involutive; reflexivity).
  simpl in E. destruct (rev r) as [|a t] eqn:R; simpl in E.
  - inversion E; subst. reflexivity.
  - inversion E; subst. symmetry. apply last_ne_app.
Qed.

(* `v.split(",")[-1]` *)
Lemma rsplit_fst_last : forall d s,
  fst (rsplit d s) = last_ne (fst (split_ne d s)) (snd (split_ne d s)).
Proof.
  intros d s. pose proof (rsplit_spec d s) as H. unfold split_all in H.
  destruct (split_ne d s) as [f rest]. simpl. eapply rev_cons_last. exact H.
Qed.

Lemma split_ne_no_delim : forall d s, memN d s = false -> split_ne d s = (s, []).
Proof.
  intros d s. induction s as [|c s IH]; intros H; simpl in *; auto.
  unfold memN in *. simpl in H. apply orb_false_iff in H as [H1 H2].
  rewrite (IH H2). rewrite N.eqb_sym in H1. rewrite H1. reflexivity.
Qed.

Lemma rsplit_no_delim : forall d s, memN d s = false -> rsplit d s = (s, []).
Proof.
  intros d s H. pose proof (rsplit_spec d s) as R. unfold split_all in R.
  rewrite (split_ne_no_delim d s H) in R. simpl in R.
  destruct (rsplit d s) as [l r]. simpl in R. inversion R; subst. reflexivity.
Qed.

(* ---------------- the X-Forwarded-For entry that is chosen ---------------- *)

Lemma pick_from_choice : forall tr rest cur l2,
  all_trusted tr l2 ->
  xff_choice tr (rev (map strip rest) ++ cur :: l2) (pick_from tr cur rest).
Proof.
  intros tr rest. induction rest as [|c r IH]; intros cur l2 H; simpl.
  - destruct (mem_str cur tr) eqn:E; simpl.
    + apply xc_all_trusted. constructor; assumption.
    + apply (xc_untrusted tr [] cur l2); assumption.
  - destruct (mem_str cur tr) eqn:E; simpl.
    + rewrite <- app_assoc. simpl. apply IH. constructor; assumption.
    + apply xc_untrusted; assumption.
Qed.

Lemma xff_candidate_choice : forall tr v,
  xff_choice tr (map strip (split_all comma v)) (xff_candidate tr v).
Proof.
  intros tr v. unfold xff_candidate.
  pose proof (rsplit_spec comma v) as R. destruct (rsplit comma v) as [l r]. simpl in R.
  assert (E : split_all comma v = rev (l :: r)) by (rewrite R, rev_involutive; reflexivity).
  rewrite E. rewrite map_rev. simpl.
  apply (pick_from_choice tr r (strip l) []). constructor.
Qed.


Lemma rightmost_all_trusted : forall tr l, all_trusted tr l -> rightmost_untrusted tr l = None.
Proof.
  intros tr l H. induction H as [|x l Hx Hl IH]; simpl; auto. rewrite IH, Hx. reflexivity.
Qed.

Lemma rightmost_app : forall tr l1 l,
  rightmost_untrusted tr (l1 ++ l) =
  match rightmost_untrusted tr l with
  | Some x => Some x
  | None => rightmost_untrusted tr l1
  end.
Proof.
  intros tr l1 l. induction l1 as [|a l1 IH]; simpl.
  - destruct (rightmost_untrusted tr l); reflexivity.
  - rewrite IH. destruct (rightmost_untrusted tr l); reflexivity.
Qed.

(* the relational description determines the entry: it is the functional "rightmost
   untrusted, else leftmost" *)
Lemma choice_functional : forall tr es x, xff_choice tr es x ->
  forall f rest, es = f :: rest ->
  x = match rightmost_untrusted tr es with Some y => y | None => f end.
Proof.
  intros tr es x H. destruct H as [l1 e l2 He Hl|e l2 Hall]; intros f rest E.
  - rewrite rightmost_app. simpl. rewrite (rightmost_all_trusted tr l2 Hl), He. reflexivity.
  - rewrite (rightmost_all_trusted tr _ Hall). inversion E; subst. reflexivity.
Qed.

Lemma choice_unique : forall tr es a b, xff_choice tr es a -> xff_choice tr es b -> a = b.
Proof.
  intros tr es a b Ha Hb.
  destruct es as [|f rest].
  - inversion Ha; subst. destruct l1; discriminate.
  - rewrite (choice_functional tr _ a Ha f rest eq_refl).
    rewrite (choice_functional tr _ b Hb f rest eq_refl). reflexivity.
Qed.


Lemma pick_from_nil : forall tr cur, pick_from tr cur [] = cur.
Proof. intros tr cur. simpl. destruct (mem_str cur tr); reflexivity. Qed.

Lemma xff_candidate_plain : forall tr a, plain_str a = true -> xff_candidate tr a = a.
Proof.
  intros tr a H. unfold plain_str in H. apply andb_true_iff in H as [H1 H2].
  apply negb_true_iff in H1. apply str_eqb_eq in H2.
  unfold xff_candidate. rewrite (rsplit_no_delim comma a H1). rewrite pick_from_nil. exact H2.
Qed.

(* ---------------- is_valid_ip: the concrete guard ---------------- *)
Lemma valid_ip_guard : forall gai s, valid_ip gai s = true ->
  s <> [] /\ ~ In 0 s /\ Forall (fun c => c < 128) s /\ gai s = true.
Proof.
  intros gai s H. unfold valid_ip, ip_guard in H.
  apply andb_true_iff in H as [H Hg]. apply andb_true_iff in H as [H Ha].
  apply andb_true_iff in H as [Hn H0].
  repeat split.
  - intros ->. discriminate.
  - intros Hin. apply negb_true_iff in H0. unfold memN in H0.
    assert (existsb (N.eqb 0) s = true) by (apply existsb_exists; exists 0; split; auto).
    congruence.
  - apply Forall_forall. intros c Hc. unfold is_ascii in Ha.
    rewrite forallb_forall in Ha. apply N.ltb_lt. apply Ha. exact Hc.
  - exact Hg.
Qed.

(* ---------------- one application of the proxy headers ---------------- *)
Lemma apply_fields : forall gai c hs,
  let c' := apply_xheaders gai c hs in
  remote_ip c' = (if valid_ip gai (ip_candidate c hs) then ip_candidate c hs else remote_ip c)
  /\ protocol c' = (if is_http_s (proto_candidate c hs) then proto_candidate c hs else protocol c)
  /\ orig_ip c' = orig_ip c /\ orig_proto c' = orig_proto c /\ trusted c' = trusted c.
Proof.
  intros gai c hs. unfold apply_xheaders.
  destruct (valid_ip gai (ip_candidate c hs)); destruct (is_http_s (proto_candidate c hs));
    simpl; repeat split; reflexivity.
Qed.

(* which string is examined *)
Lemma ip_candidate_spec : forall c hs,
  match hget HReal hs, hget HXff hs with
  | Some v, _ => ip_candidate c hs = v
  | None, Some v =>
      xff_choice (trusted c) (map strip (split_all comma v)) (ip_candidate c hs)
  | None, None => ip_candidate c hs = xff_candidate (trusted c) (remote_ip c)
  end.
Proof.
  intros c hs. unfold ip_candidate.
  destruct (hget HReal hs) as [v|]; [reflexivity|].
  destruct (hget HXff hs) as [v|]; [apply xff_candidate_choice|reflexivity].
Qed.


Lemma proto_candidate_spec : forall c hs,
  proto_candidate c hs =
  let v := match proto_header hs with Some v => v | None => protocol c end in
  strip (last_ne (fst (split_ne comma v)) (snd (split_ne comma v))).
Proof.
  intros c hs. unfold proto_candidate, proto_header.
  set (v := match hget HScheme hs with
            | Some v => v
            | None => match hget HProto hs with Some v => v | None => protocol c end
            end).
  assert (E : match match hget HScheme hs with Some v0 => Some v0 | None => hget HProto hs end with
              | Some v0 => v0 | None => protocol c end = v).
  { unfold v. destruct (hget HScheme hs); [reflexivity|]. destruct (hget HProto hs); reflexivity. }
  rewrite E. cbv zeta.
  destruct v as [|a v']; [reflexivity|]. cbn [is_nil].
  rewrite rsplit_fst_last. reflexivity.
Qed.

Lemma plain_last_piece : forall a, plain_str a = true ->
  strip (last_ne (fst (split_ne comma a)) (snd (split_ne comma a))) = a.
Proof.
  intros a H. unfold plain_str in H. apply andb_true_iff in H as [H1 H2].
  apply negb_true_iff in H1. apply str_eqb_eq in H2.
  rewrite (split_ne_no_delim comma a H1). simpl. exact H2.
Qed.

(* ---------------- request histories ---------------- *)

Lemma init_clean : forall fam addr proto ssl tr, clean (init_ctx fam addr proto ssl tr).
Proof. intros. unfold clean, init_ctx. simpl. split; reflexivity. Qed.

Lemma unapply_clean : forall c, clean (unapply_xheaders c).
Proof. intros c. unfold clean. simpl. split; reflexivity. Qed.

(* _unapply_xheaders undoes _apply_xheaders exactly *)
Lemma unapply_apply : forall gai c hs, clean c ->
  unapply_xheaders (apply_xheaders gai c hs) = c.
Proof.
  intros gai c hs [H1 H2].
  pose proof (apply_fields gai c hs) as (_ & _ & Ho & Hp & Ht).
  unfold unapply_xheaders. rewrite Ho, Hp, Ht.
  destruct c as [ip pr oi op tr]. simpl in *. subst. reflexivity.
Qed.





Theorem serve_spec : forall gai reqs c, clean c ->
  serve gai c reqs =
  (repeat (view c) (started reqs),
   map (fun r => view (apply_xheaders gai c (fst r))) (handled reqs),
   final_of gai c reqs).
Proof.
  intros gai reqs. induction reqs as [|[hs h] rest IH]; intros c Hc; [reflexivity|].
  cbn [serve handled started final_of].
  destruct h as [|ka| | |]; cbn [after raises]; try reflexivity.
  - (* Finish ka *)
    rewrite (unapply_apply gai c hs Hc).
    destruct ka; [|reflexivity].
    rewrite (IH c Hc). reflexivity.
  - rewrite (unapply_apply gai c hs Hc). reflexivity.
Qed.

Lemma started_pos : forall reqs, (1 <= started reqs)%nat.
Proof. intros [|[hs h] rest]; simpl; [lia|]. destruct h as [|[]| | |]; lia. Qed.
