(* C32 — proxy headers (xheaders): tornado/httpserver.py _HTTPRequestContext
   (__init__, _apply_xheaders, _unapply_xheaders), _ProxyAdapter, the request loop of
   HTTP1ServerConnection as far as it drives _ProxyAdapter, and the concrete guard of
   tornado/netutil.py is_valid_ip.  Definitions only: total, computable Gallina.

   Strings are lists of code points.  The OS function behind is_valid_ip
   (socket.getaddrinfo with AI_NUMERICHOST) is a parameter [gai] of every definition that
   needs it; Run.v instantiates it with a table recorded from the real function. *)
From Coq Require Import List NArith Bool Arith.
Import ListNotations.
From TV Require Import Lib.Obs.
Local Open Scope N_scope.

Definition str := list N.

Definition in_range (lo hi c : N) : bool := (lo <=? c) && (c <=? hi).
Definition memN (c : N) (l : list N) : bool := existsb (N.eqb c) l.
Definition is_nil {A} (l : list A) : bool := match l with [] => true | _ => false end.
Definition str_eqb (a b : str) : bool := list_eqb N.eqb a b.
(* `x in set_of_strings` *)
Definition mem_str (s : str) (l : list str) : bool := existsb (str_eqb s) l.

(* ------------------------------------------------------------------ *)
(* str.strip(): Py_UNICODE_ISSPACE (same table as C43.Model.is_space)  *)
(* ------------------------------------------------------------------ *)
Definition is_space (c : N) : bool :=
  in_range 9 13 c || in_range 28 32 c || in_range 8192 8202 c
  || memN c [133; 160; 5760; 8232; 8233; 8239; 8287; 12288].
Fixpoint lstrip (s : str) : str :=
  match s with
  | [] => []
  | c :: r => if is_space c then lstrip r else s
  end.
Definition rstrip (s : str) : str := rev (lstrip (rev s)).
Definition strip (s : str) : str := rstrip (lstrip s).

(* ------------------------------------------------------------------ *)
(* str.split(","): always at least one piece — (first piece, the others) *)
(* ------------------------------------------------------------------ *)
Fixpoint split_ne (d : N) (s : str) : str * list str :=
  match s with
  | [] => ([], [])
  | c :: r => let '(f, rest) := split_ne d r in
              if c =? d then ([], f :: rest) else (c :: f, rest)
  end.
Definition split_all (d : N) (s : str) : list str :=
  let '(f, rest) := split_ne d s in f :: rest.

(* reversed(s.split(d)) as (last piece, the earlier pieces from right to left); this is the
   order in which _apply_xheaders walks X-Forwarded-For, and [fst] is `split(",")[-1]` *)
Fixpoint rsplit_acc (d : N) (s : str) (cur : str) (done : list str) : str * list str :=
  match s with
  | [] => (rev cur, done)
  | c :: r => if c =? d then rsplit_acc d r [] (rev cur :: done)
              else rsplit_acc d r (c :: cur) done
  end.
Definition rsplit (d : N) (s : str) : str * list str := rsplit_acc d s [] [].

Definition comma : N := 44.

(* ",".join(values) *)
Fixpoint join_comma (vs : list str) : str :=
  match vs with
  | [] => []
  | [v] => v
  | v :: r => v ++ comma :: join_comma r
  end.

(* ------------------------------------------------------------------ *)
(* HTTPHeaders.get(name, default): header lines in arrival order; a repeated
   name yields its values joined by ","                                  *)
(* ------------------------------------------------------------------ *)
Inductive hkind := HXff | HReal | HScheme | HProto | HConn | HOther.
Definition hkind_eqb (a b : hkind) : bool :=
  match a, b with
  | HXff, HXff | HReal, HReal | HScheme, HScheme | HProto, HProto | HConn, HConn
  | HOther, HOther => true
  | _, _ => false
  end.
Definition header := (hkind * str)%type.
Definition hvalues (k : hkind) (hs : list header) : list str :=
  map snd (filter (fun h => hkind_eqb (fst h) k) hs).
Definition hget (k : hkind) (hs : list header) : option str :=
  match hvalues k hs with
  | [] => None
  | vs => Some (join_comma vs)
  end.

(* ------------------------------------------------------------------ *)
(* Header names as sent: httputil._normalize_header                      *)
(*   "-".join([w.capitalize() for w in name.split("-")])                 *)
(* written as one pass (first character of each "-"-separated word upper-cased, the others
   lower-cased, hyphens kept).  Exact on ASCII names (the only ones the wire grammar admits
   for field names); other code points are left alone.                                     *)
(* ------------------------------------------------------------------ *)
Definition upper_c (c : N) : N := if in_range 97 122 c then c - 32 else c.
Definition lower_c (c : N) : N := if in_range 65 90 c then c + 32 else c.
Definition hyphen : N := 45.
Fixpoint norm_header (start : bool) (s : str) : str :=
  match s with
  | [] => []
  | c :: r => if c =? hyphen then hyphen :: norm_header true r
              else (if start then upper_c c else lower_c c) :: norm_header false r
  end.
Definition n_xff : str :=      (* "X-Forwarded-For" *)
  [88;45;70;111;114;119;97;114;100;101;100;45;70;111;114].
Definition n_real : str := [88;45;82;101;97;108;45;73;112].                  (* "X-Real-Ip" *)
Definition n_scheme : str := [88;45;83;99;104;101;109;101].                  (* "X-Scheme" *)
Definition n_proto : str :=    (* "X-Forwarded-Proto" *)
  [88;45;70;111;114;119;97;114;100;101;100;45;80;114;111;116;111].
Definition n_conn : str := [67;111;110;110;101;99;116;105;111;110].          (* "Connection" *)
(* which of the headers read by _apply_xheaders / _can_keep_alive a line belongs to *)
Definition classify_name (name : str) : hkind :=
  let n := norm_header true name in
  if str_eqb n n_xff then HXff
  else if str_eqb n n_real then HReal
  else if str_eqb n n_scheme then HScheme
  else if str_eqb n n_proto then HProto
  else if str_eqb n n_conn then HConn
  else HOther.
Definition raw_header := (str * str)%type.       (* (name as sent, value) *)
Definition classify_headers (hs : list raw_header) : list header :=
  map (fun h => (classify_name (fst h), snd h)) hs.

(* ------------------------------------------------------------------ *)
(* http1connection.HTTP1Connection._can_keep_alive for a GET request:
     if params.no_keep_alive: False
     Connection value lower-cased; HTTP/1.1: != "close"; otherwise: == "keep-alive"
   (str.lower is modelled on ASCII letters, which decides equality with these two words
   for every Latin-1 value)                                              *)
(* ------------------------------------------------------------------ *)
Definition s_close : str := [99;108;111;115;101].
Definition s_keep_alive : str := [107;101;101;112;45;97;108;105;118;101].
Definition opt_is (o : option str) (w : str) : bool :=
  match o with Some v => str_eqb (map lower_c v) w | None => false end.
Definition can_keep_alive (no_keep_alive v11 : bool) (hs : list header) : bool :=
  if no_keep_alive then false
  else if v11 then negb (opt_is (hget HConn hs) s_close)
  else opt_is (hget HConn hs) s_keep_alive.

(* ------------------------------------------------------------------ *)
(* netutil.is_valid_ip:  `if not ip or "\x00" in ip or not ip.isascii(): return False`,
   then getaddrinfo(AI_NUMERICHOST) succeeded with a non-empty result
   (gaierror EAI_NONAME and UnicodeError -> False)                      *)
(* ------------------------------------------------------------------ *)
Definition is_ascii (s : str) : bool := forallb (fun c => c <? 128) s.
Definition ip_guard (s : str) : bool := negb (is_nil s) && negb (memN 0 s) && is_ascii s.
Definition valid_ip (gai : str -> bool) (s : str) : bool := ip_guard s && gai s.

(* ------------------------------------------------------------------ *)
(* _HTTPRequestContext                                                  *)
(* ------------------------------------------------------------------ *)
Record ctx := mkCtx {
  remote_ip : str;
  protocol : str;
  orig_ip : str;          (* _orig_remote_ip *)
  orig_proto : str;       (* _orig_protocol *)
  trusted : list str      (* set(trusted_downstream or []) *)
}.

Inductive family := FInet | FInet6 | FUnix | FNoSocket.
Definition s_http : str := [104;116;116;112].
Definition s_https : str := [104;116;116;112;115].
Definition s_any_addr : str := [48;46;48;46;48;46;48].     (* "0.0.0.0" *)

(* __init__(stream, address, protocol, trusted_downstream); [addr] is address[0] when
   address is not None; [ssl] is isinstance(stream, SSLIOStream) *)
Definition init_ctx (fam : family) (addr : option str) (proto : option str) (ssl : bool)
           (tr : list str) : ctx :=
  let ip := match fam, addr with
            | FInet, Some a | FInet6, Some a => a
            | _, _ => s_any_addr
            end in
  let dflt := if ssl then s_https else s_http in
  let p := match proto with
           | Some p => if is_nil p then dflt else p      (* `if protocol:` *)
           | None => dflt
           end in
  mkCtx ip p ip p tr.

(* the `for ip in (cand.strip() for cand in reversed(...)): if ip not in trusted: break`
   loop: [cur] is the entry just assigned to ip, [rest] the entries still to the left *)
Fixpoint pick_from (tr : list str) (cur : str) (rest : list str) : str :=
  if negb (mem_str cur tr) then cur
  else match rest with
       | [] => cur
       | c :: r => pick_from tr (strip c) r
       end.
Definition xff_candidate (tr : list str) (v : str) : str :=
  let '(l, r) := rsplit comma v in pick_from tr (strip l) r.

(* the string handed to is_valid_ip *)
Definition ip_candidate (c : ctx) (hs : list header) : str :=
  let ip0 := match hget HXff hs with Some v => v | None => remote_ip c end in
  let ip1 := xff_candidate (trusted c) ip0 in
  match hget HReal hs with Some v => v | None => ip1 end.

(* the string compared with ("http", "https") *)
Definition proto_candidate (c : ctx) (hs : list header) : str :=
  let ph := match hget HScheme hs with
            | Some v => v
            | None => match hget HProto hs with Some v => v | None => protocol c end
            end in
  if is_nil ph then ph else strip (fst (rsplit comma ph)).

Definition is_http_s (p : str) : bool := str_eqb p s_http || str_eqb p s_https.

Definition set_ip (c : ctx) (ip : str) : ctx :=
  mkCtx ip (protocol c) (orig_ip c) (orig_proto c) (trusted c).
Definition set_proto (c : ctx) (p : str) : ctx :=
  mkCtx (remote_ip c) p (orig_ip c) (orig_proto c) (trusted c).

Definition apply_xheaders (gai : str -> bool) (c : ctx) (hs : list header) : ctx :=
  let ip := ip_candidate c hs in
  let c1 := if valid_ip gai ip then set_ip c ip else c in
  (* proto_header is computed from self.protocol, which the ip step does not touch *)
  let p := proto_candidate c hs in
  if is_http_s p then set_proto c1 p else c1.

Definition unapply_xheaders (c : ctx) : ctx :=
  mkCtx (orig_ip c) (orig_proto c) (orig_ip c) (orig_proto c) (trusted c).

(* ------------------------------------------------------------------ *)
(* _ProxyAdapter around an application delegate, driven by
   HTTP1Connection._read_message / HTTP1ServerConnection._server_request_loop *)
(* ------------------------------------------------------------------ *)
(* how one request on the connection goes *)
Inductive how :=
| BadHead                (* malformed start line / header block: HTTPInputError before
                            headers_received; no delegate method runs; 400 and close *)
| Finish (ka : bool)     (* message read completely, delegate.finish() returns; the connection
                            stays open iff [ka] *)
| FinishRaises           (* the application's finish() raises: _ProxyAdapter.finish skips
                            _cleanup; the server closes the connection *)
| Close                  (* after headers_received the message fails (bad body, EOF, the
                            application's headers_received raises): on_connection_close *)
| CloseRaises.           (* as Close, and the application's on_connection_close raises:
                            _ProxyAdapter.on_connection_close skips _cleanup *)
Definition request := (list header * how)%type.

(* a request as the harness describes it: header lines as sent, and how it goes; for a request
   that is read completely the HTTP version is given and the model decides keep-alive *)
Inductive rhow :=
| RBadHead | RFinish (v11 : bool) | RFinishRaises | RClose | RCloseRaises.
Definition raw_request := (list raw_header * rhow)%type.
Definition resolve (no_keep_alive : bool) (r : raw_request) : request :=
  let hs := classify_headers (fst r) in
  (hs, match snd r with
       | RBadHead => BadHead
       | RFinish v11 => Finish (can_keep_alive no_keep_alive v11 hs)
       | RFinishRaises => FinishRaises
       | RClose => Close
       | RCloseRaises => CloseRaises
       end).

Definition view (c : ctx) : str * str := (remote_ip c, protocol c).

(* the context after the request's last delegate call, and whether the connection lives on *)
Definition after (c1 : ctx) (h : how) : ctx * bool :=
  match h with
  | BadHead => (c1, false)
  | Finish ka => (unapply_xheaders c1, ka)
  | FinishRaises => (c1, false)
  | Close => (unapply_xheaders c1, false)
  | CloseRaises => (c1, false)
  end.

(* (context values at each start_request, values seen by each handler, final context) *)
Fixpoint serve (gai : str -> bool) (c : ctx) (reqs : list request)
  : list (str * str) * list (str * str) * ctx :=
  match reqs with
  | [] => ([view c], [], c)                 (* the loop waits for a request; EOF *)
  | (hs, h) :: rest =>
      match h with
      | BadHead => ([view c], [], c)
      | _ =>
          let c1 := apply_xheaders gai c hs in
          let '(c2, alive) := after c1 h in
          if alive
          then let '(p, s, f) := serve gai c2 rest in (view c :: p, view c1 :: s, f)
          else ([view c], [view c1], c2)
      end
  end.

(* ------------------------------------------------------------------ *)
(* textual IPv4 / IPv6 recogniser (decisive classes only; adapted from
   C43.Model2) and the alphabet of numeric hosts                        *)
(* ------------------------------------------------------------------ *)
Definition is_digit c := in_range 48 57 c.
Definition is_hex c := is_digit c || in_range 65 70 c || in_range 97 102 c.
Definition all_ne (p : N -> bool) (s : str) : bool := negb (is_nil s) && forallb p s.
Definition first_is (c : N) (s : str) : bool := match s with x :: _ => x =? c | [] => false end.
Definition dec_value (ds : str) : N := fold_left (fun acc d => 10 * acc + (d - 48)) ds 0.

(* "0" | [1-9][0-9]{0,2} with value <= 255 *)
Definition plain_octet (p : str) : bool :=
  all_ne is_digit p && (length p <=? 3)%nat
  && (negb (first_is 48 p) || (length p =? 1)%nat) && (dec_value p <=? 255).
Definition plain_ipv4 (s : str) : bool :=
  let parts := split_all 46 s in
  (length parts =? 4)%nat && forallb plain_octet parts.

Definition hex_group (p : str) : bool := all_ne is_hex p && (length p <=? 4)%nat.
Fixpoint groups_count (parts : list str) (allow_v4 : bool) : option nat :=
  match parts with
  | [] => Some 0%nat
  | [p] => if hex_group p then Some 1%nat
           else if allow_v4 && plain_ipv4 p then Some 2%nat else None
  | p :: r => if hex_group p
              then match groups_count r allow_v4 with Some n => Some (S n) | None => None end
              else None
  end.
Definition groups_of (s : str) (allow_v4 : bool) : option nat :=
  if is_nil s then Some 0%nat else groups_count (split_all 58 s) allow_v4.
Fixpoint split_dcolon (s : str) : option (str * str) :=
  match s with
  | [] => None
  | c :: r =>
      match r with
      | c2 :: t =>
          if (c =? 58) && (c2 =? 58) then Some ([], t)
          else match split_dcolon r with Some (a, b) => Some (c :: a, b) | None => None end
      | [] => None
      end
  end.
Definition plain_ipv6 (s : str) : bool :=
  match split_dcolon s with
  | Some (l, r) =>
      match groups_of l false, groups_of r true with
      | Some a, Some b => (a + b <=? 7)%nat
      | _, _ => false
      end
  | None =>
      match groups_of s true with
      | Some n => (n =? 8)%nat && negb (is_nil s)
      | None => false
      end
  end.

(* characters of inet_aton / inet_pton forms: hex digits, x X . : *)
Definition numeric_char c := is_hex c || memN c [120; 88; 46; 58].
Fixpoint before_pct (s : str) : str :=
  match s with
  | [] => []
  | c :: r => if c =? 37 then [] else c :: before_pct r
  end.
(* necessary for being a numeric host: a non-empty run of numeric characters, optionally
   followed by "%scope" *)
Definition numeric_form (s : str) : bool := all_ne numeric_char (before_pct s).

(* Some true: certainly a numeric address; Some false: certainly not; None: not decided here *)
Definition recognise_ip (s : str) : option bool :=
  if negb (ip_guard s) then Some false
  else if plain_ipv4 s || plain_ipv6 s then Some true
  else if negb (numeric_form s) then Some false
  else None.
