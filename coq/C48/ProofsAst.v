(* C48: the meaning of the syntax trees read from tornado/auth.py is the model's esc / key_10 / key_10a. *)
From Coq Require Import List NArith Bool.
Import ListNotations.
From TV Require Import C48.Model C48.Spec C48.Ast C48.Proofs3.
Local Open Scope N_scope.

Lemma expected_escape_means_esc : forall v, escape_sem expected_escape v = Some (esc v).
Proof. intro v. unfold escape_sem, expected_escape. cbn [eval e_val option_map]. fold TILDE. rewrite py_quote_tilde. reflexivity. Qed.

Lemma expected_key10_means : forall cs tok,
  key_sem expected_escape expected_key10 expected_sep cs tok = Some (key_10 cs tok).
Proof.
  intros cs tok. unfold key_sem, expected_key10. cbn [map eval e_cs e_tok].
  rewrite expected_escape_means_esc. destruct tok as [t|]; cbn [eval e_tok].
  - rewrite expected_escape_means_esc. reflexivity.
  - reflexivity.
Qed.

Lemma expected_key10a_means : forall cs tok,
  key_sem expected_escape expected_key10a expected_sep cs tok = Some (key_10a cs tok).
Proof. intros cs [t|]; reflexivity. Qed.

(* a tree with the default safe set of quote() -- what dropping safe="~" produces -- means something else *)
Example default_safe_key_differs :
  key_sem expected_escape [EUtf8 (EQuote (ESecret Consumer) [47]); EUtf8 (EIfToken (EQuote (ESecret Token) [47]) EEmpty)]
          expected_sep [47] None <> Some (key_10a [47] None).
Proof. vm_compute. discriminate. Qed.
