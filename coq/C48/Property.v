(* C48 — OAuth request signatures match the OAuth 1.0 specification (RFC 5849). *)
From Coq Require Import List NArith Bool Permutation Sorted String.
Import ListNotations.
From TV Require Import Lib.Obs C48.Model C48.Spec C48.Proofs C48.Proofs2 C48.Proofs3 C48.Proofs4 C48.Proofs5 C48.Run C48.ModelP4 C48.ProofsP4.

(* Parameter normalisation: Tornado's string is an ascending arrangement of the
   percent-encoded (name, value) pairs, and it is the only one. *)
Theorem C48_parameters_are_rfc_normalized : forall ps, rfc_normalized ps (normalized_parameters ps).
Proof. exact normalized_parameters_is_rfc. Qed.
Print Assumptions C48_parameters_are_rfc_normalized.

Theorem C48_rfc_normalization_is_unique : forall ps s, rfc_normalized ps s -> s = normalized_parameters ps.
Proof. exact rfc_normalized_unique. Qed.
Print Assumptions C48_rfc_normalization_is_unique.

(* Base string URI: for any authority "[userinfo@]host[:port]" the result is the
   lower-cased host, plus ":port" unless it is the scheme's default port. *)
Theorem C48_base_uri_is_rfc : forall scheme ui host port,
  ~ In 64%N host -> (forall p, port = Some p -> ~ In 64%N p /\ ~ In 58%N p) -> (port = None -> ~ In 58%N host) ->
  normalized_netloc scheme (authority ui host port)
  = lower host ++ match port with
                  | Some p => if default_port scheme (lower p) then [] else 58%N :: lower p
                  | None => []
                  end.
Proof. exact normalized_netloc_rfc. Qed.
Print Assumptions C48_base_uri_is_rfc.

(* The whole base string and the key, hence the signature for ANY MAC function. *)
Theorem C48_base_string_is_rfc : forall method scheme ui host port path ps,
  ~ In 64%N host -> (forall p, port = Some p -> ~ In 64%N p /\ ~ In 58%N p) -> (port = None -> ~ In 58%N host) ->
  base_string method scheme (authority ui host port) path ps
  = rfc_base_string method (rfc_base_uri scheme host port path) (normalized_parameters ps).
Proof. exact base_string_is_rfc. Qed.
Print Assumptions C48_base_string_is_rfc.

Theorem C48_signature_matches_rfc :
  forall (mac : text -> text -> text) method scheme ui host port path ps cs ts params,
  ~ In 64%N host -> (forall p, port = Some p -> ~ In 64%N p /\ ~ In 58%N p) -> (port = None -> ~ In 58%N host) ->
  rfc_normalized ps params ->
  mac (signing_key cs ts) (base_string method scheme (authority ui host port) path ps)
  = mac (spec_key cs ts) (rfc_base_string method (rfc_base_uri scheme host port path) params).
Proof. exact signature_matches_rfc. Qed.
Print Assumptions C48_signature_matches_rfc.

(* Encoded components contain only unreserved bytes and '%', so the '&' and '='
   separators of the base string are unambiguous. *)
Theorem C48_encoding_is_inert : forall s, Forall (fun b => (b < 256)%N) s -> forallb inert (esc s) = true.
Proof. exact esc_inert. Qed.
Print Assumptions C48_encoding_is_inert.

(* ---------------------------------------------------------------------- *)
(* Phase 3                                                                *)
(* ---------------------------------------------------------------------- *)

(* _oauth_escape leaves exactly RFC 3986's unreserved characters alone and writes every other byte
   as '%' and two UPPER-CASE hex digits of its value (all 256 byte values). *)
Theorem C48_escape_is_rfc3986 : forall b, (b < 256)%N ->
  (In b rfc_unreserved -> esc_byte b = [b]) /\
  (~ In b rfc_unreserved ->
   exists h l x y, esc_byte b = [37%N; h; l] /\ In h HEXUP /\ In l HEXUP
                   /\ hexval_up h = Some x /\ hexval_up l = Some y /\ (x * 16 + y)%N = b).
Proof. exact esc_byte_rfc3986. Qed.
Print Assumptions C48_escape_is_rfc3986.

Theorem C48_unreserved_set_is_rfc3986 : forall b, is_unreserved b = mem b rfc_unreserved.
Proof. exact unreserved_is_rfc. Qed.
Print Assumptions C48_unreserved_set_is_rfc3986.

(* the strict decoder inverts the encoding, so the encoding is injective *)
Theorem C48_decoding_inverts_encoding : forall s, bytes s -> unesc (esc s) = Some s.
Proof. exact unesc_esc. Qed.
Print Assumptions C48_decoding_inverts_encoding.

Theorem C48_encoding_is_injective : forall a b, bytes a -> bytes b -> esc a = esc b -> a = b.
Proof. exact esc_injective. Qed.
Print Assumptions C48_encoding_is_injective.

Example C48_bytes_example : bytes [47; 126; 233; 38]%N.
Proof. repeat constructor. Qed.

(* both signature versions build the RFC 5849 3.4.2 key, with or without a token *)
Theorem C48_both_versions_use_the_rfc_key : forall v cs tok, key_of v cs tok = spec_key cs (token_secret tok).
Proof. exact key_of_is_rfc. Qed.
Print Assumptions C48_both_versions_use_the_rfc_key.

(* the key determines both secrets: split at the first '&', decode both halves *)
Theorem C48_key_determines_secrets : forall cs ts, bytes cs -> bytes ts ->
  key_secrets (signing_key cs ts) = Some (cs, ts).
Proof. exact key_secrets_signing_key. Qed.
Print Assumptions C48_key_determines_secrets.

Theorem C48_key_is_injective : forall cs ts cs' ts', bytes cs -> bytes ts -> bytes cs' -> bytes ts' ->
  signing_key cs ts = signing_key cs' ts' -> cs = cs' /\ ts = ts'.
Proof. exact signing_key_injective. Qed.
Print Assumptions C48_key_is_injective.

(* ... which the unencoded key of the old OAuth 1.0 code (before fix f833e02) did not *)
Theorem C48_unencoded_key_is_ambiguous : exists cs ts cs' ts',
  bytes cs /\ bytes ts /\ bytes cs' /\ bytes ts' /\ (cs, ts) <> (cs', ts') /\ raw_key cs ts = raw_key cs' ts'.
Proof. exact raw_key_ambiguous. Qed.
Print Assumptions C48_unencoded_key_is_ambiguous.

(* urllib.parse.quote's default safe set is not the RFC encoding (seeded change C48_2) *)
Theorem C48_default_safe_set_is_not_rfc : exists s, bytes s /\ py_quote [47%N] s <> esc s.
Proof. exact default_safe_is_not_rfc. Qed.
Print Assumptions C48_default_safe_set_is_not_rfc.

(* the normalised parameter string does not depend on the order (dict order) of the parameters *)
Theorem C48_normalization_ignores_order : forall a b, Permutation a b -> normalized_parameters a = normalized_parameters b.
Proof. exact normalized_parameters_perm. Qed.
Print Assumptions C48_normalization_ignores_order.

(* OAuthMixin._oauth_request_parameters: args.update(base_args); args.update(parameters) signs the
   request's own parameters plus every protocol parameter they do not name *)
Theorem C48_request_signs_the_rfc_parameter_set : forall ck tk t n user, NoDup (keys user) ->
  Permutation (signed_args ck tk t n user) (spec_signed (base_args ck tk t n) user).
Proof. exact signed_args_is_spec. Qed.
Print Assumptions C48_request_signs_the_rfc_parameter_set.

(* whatever the request's parameters are, the returned dict has exactly the seven protocol
   parameters, oauth_signature last: request parameters cannot add to or override it *)
Theorem C48_request_returns_only_protocol_parameters : forall sig ck tk t n,
  map fst (request_parameters sig ck tk t n) = protocol_names
  /\ last (request_parameters sig ck tk t n) ([], []) = (K_SIGNATURE, sig).
Proof. exact request_parameter_names. Qed.
Print Assumptions C48_request_returns_only_protocol_parameters.

(* the request signature for ANY MAC function and both versions *)
Theorem C48_request_signature_matches_rfc :
  forall (mac : text -> text -> text) v method scheme ui host port path ck cs tk tsec t n user params,
  ~ In 64%N host -> (forall p, port = Some p -> ~ In 64%N p /\ ~ In 58%N p) -> (port = None -> ~ In 58%N host) ->
  NoDup (keys user) ->
  rfc_normalized (spec_signed (base_args ck tk t n) user) params ->
  mac (request_key v cs tsec) (request_base method scheme (authority ui host port) path ck tk t n user)
  = mac (spec_key cs tsec) (rfc_base_string method (rfc_base_uri scheme host port path) params).
Proof. exact request_signature_is_rfc. Qed.
Print Assumptions C48_request_signature_matches_rfc.

(* a server that drops oauth_signature from what is sent (the request's parameters updated with the
   returned dict) normalises to the very string that was signed -- provided the request's own
   parameters do not use a protocol parameter name ... *)
Theorem C48_request_verifies_at_the_server : forall sig ck tk t n user,
  NoDup (keys user) -> (forall k, In k (keys user) -> ~ In k protocol_names) ->
  normalized_parameters (server_params (sent_parameters user (request_parameters sig ck tk t n)))
  = normalized_parameters (signed_args ck tk t n user).
Proof. exact request_verifies. Qed.
Print Assumptions C48_request_verifies_at_the_server.

Example C48_request_hypotheses_example :
  NoDup (keys [(txt "status", txt "a b"); (txt "page", txt "2")])
  /\ forall k, In k (keys [(txt "status", txt "a b"); (txt "page", txt "2")]) -> ~ In k protocol_names.
Proof.
  split.
  - repeat constructor; cbn [In keys map fst]; intro H; repeat (destruct H as [H|H]; [discriminate H|]); exact H.
  - intros k [<-|[<-|[]]]; vm_compute; intro H; repeat (destruct H as [H|H]; [discriminate H|]); exact H.
Qed.

(* ... and not otherwise: a request parameter named oauth_nonce is signed in place of the
   generated nonce, while the returned dict carries the generated one *)
Theorem C48_request_override_witness : exists sig ck tk t n user,
  NoDup (keys user) /\
  normalized_parameters (server_params (sent_parameters user (request_parameters sig ck tk t n)))
  <> normalized_parameters (signed_args ck tk t n user).
Proof. exact request_override_witness. Qed.
Print Assumptions C48_request_override_witness.

(* the timestamp and nonce texts are the canonical decimal / lower-case hex numerals *)
Theorem C48_timestamp_and_nonce_numerals : forall t n, bytes n ->
  is_decimal_of t (dec t) = true /\ is_hex_of n (hex_lower n) = true.
Proof. intros t n Hn. split; [apply dec_is_decimal|apply hex_lower_is_hex, Hn]. Qed.
Print Assumptions C48_timestamp_and_nonce_numerals.

(* ---------------------------------------------------------------------- *)
(* Phase 4: OAuthMixin._oauth_request_token_url / _oauth_access_token_url  *)
(* ---------------------------------------------------------------------- *)

(* which parameters the request-token URL signs: 1.0a = the five protocol parameters, the callback
   ("oob", or the urljoin result for a non-empty callback_uri), then extra_params; 1.0 = the five
   protocol parameters only (callback and extra_params are neither signed nor sent) *)
Theorem C48_request_token_parameters : forall ck t n cbu joined extra, NoDup (keys extra) ->
  Permutation (reqtok_args true ck t n cbu joined extra)
              (spec_signed (reqtok_base ck t n ++ cb_pairs cbu joined) extra)
  /\ reqtok_args false ck t n cbu joined extra = reqtok_base ck t n.
Proof. exact reqtok_args_spec. Qed.
Print Assumptions C48_request_token_parameters.

(* args["oauth_signature"] = signature appends the signature, and dropping it again gives the signed set *)
Theorem C48_signature_is_attached_last : forall sig d, ~ In K_SIGNATURE (keys d) ->
  dict_set K_SIGNATURE sig d = d ++ [(K_SIGNATURE, sig)] /\ server_params (dict_set K_SIGNATURE sig d) = d.
Proof. exact attach_signature. Qed.
Print Assumptions C48_signature_is_attached_last.

(* the oauth_signature in the produced URL is, for any MAC and both versions, the RFC 5849 signature
   (key: consumer secret & empty token secret) of exactly the other parameters in the URL's query *)
Theorem C48_request_token_url_signature_is_rfc :
  forall (mac : text -> text -> text) v scheme ui host port path ck cs t n cbu joined extra params,
  ~ In 64%N host -> (forall p, port = Some p -> ~ In 64%N p /\ ~ In 58%N p) -> (port = None -> ~ In 58%N host) ->
  ~ In K_SIGNATURE (keys extra) ->
  let sig := mac (reqtok_key v cs) (reqtok_msg v scheme ui host port path ck t n cbu joined extra) in
  let query := dict_set K_SIGNATURE sig (reqtok_args v ck t n cbu joined extra) in
  reqtok_url sig v scheme ui host port path ck t n cbu joined extra
    = url_text scheme ui host port path ++ 63%N :: urlencode_b query
  /\ (rfc_normalized (server_params query) params ->
      sig = mac (spec_key cs []) (rfc_base_string GET (rfc_base_uri scheme host port path) params)).
Proof. exact reqtok_signature_is_rfc. Qed.
Print Assumptions C48_request_token_url_signature_is_rfc.

(* the access-token URL: six protocol parameters (+ oauth_verifier when the request token has one),
   signature last, and it is the RFC signature (key: consumer secret & token secret) of the others *)
Theorem C48_access_token_url_signature_is_rfc :
  forall (mac : text -> text -> text) v scheme ui host port path ck cs tk tsec t n vf params,
  ~ In 64%N host -> (forall p, port = Some p -> ~ In 64%N p /\ ~ In 58%N p) -> (port = None -> ~ In 58%N host) ->
  let sig := mac (acctok_key v cs tsec) (acctok_msg scheme ui host port path ck tk t n vf) in
  let query := dict_set K_SIGNATURE sig (acctok_args ck tk t n vf) in
  acctok_url sig scheme ui host port path ck tk t n vf
    = url_text scheme ui host port path ++ 63%N :: urlencode_b query
  /\ query = (base_args ck tk t n ++ match vf with Some x => [(K_VERIFIER, x)] | None => [] end) ++ [(K_SIGNATURE, sig)]
  /\ (rfc_normalized (server_params query) params ->
      sig = mac (spec_key cs tsec) (rfc_base_string GET (rfc_base_uri scheme host port path) params)).
Proof. exact acctok_signature_is_rfc. Qed.
Print Assumptions C48_access_token_url_signature_is_rfc.

(* the model satisfies the checker on every kind of case *)
Theorem C48_model_satisfies_checker : forall i,
  match i with
  | ISign _ (m, sc, ui, host, port, path, _, _, _) => wf_url (m, sc, ui, host, port, path)
  | IReq _ u user _ _ n => wf_url u /\ NoDup (keys user) /\ bytes n
  | IEsc s => bytes s
  | IReqTok _ (sc, ui, host, port, path) _ _ extra _ _ _ _ => wf_url ([], sc, ui, host, port, path) /\ NoDup (keys extra)
  | IAccTok _ (sc, ui, host, port, path) _ _ _ _ => wf_url ([], sc, ui, host, port, path)
  end ->
  check_case i (run_case i) = true.
Proof.
  intros [v [[[[[[[[m sc] ui] host] port] path] ps] cs] tok]|v [[[[[m sc] ui] host] port] path] user [[[ck cs] tk] tsec] t n|s
         |v [[[[sc ui] host] port] path] cbu joined extra ck cs t n|v [[[[sc ui] host] port] path] [[[ck cs] tk] tsec] vf t n] H.
  - apply sign_satisfies_checker. exact H.
  - destruct H as (H1 & H2 & H3). apply req_satisfies_checker; assumption.
  - apply esc_satisfies_checker. exact H.
  - destruct H as (H1 & H2). apply reqtok_satisfies_checker; assumption.
  - apply acctok_satisfies_checker. exact H.
Qed.
Print Assumptions C48_model_satisfies_checker.

Example C48_wf_url_example : wf_url (txt "GET", txt "HTTP", Some (txt "u:p"), txt "Example.com", Some (txt "80"), txt "/p").
Proof.
  repeat split.
  - vm_compute. intro H; repeat (destruct H as [H|H]; [discriminate H|]); exact H.
  - injection H as <-. vm_compute. intro H; repeat (destruct H as [H|H]; [discriminate H|]); exact H.
  - injection H as <-. vm_compute. intro H; repeat (destruct H as [H|H]; [discriminate H|]); exact H.
  - discriminate.
Qed.
