(* C48 — OAuth request signatures match the OAuth 1.0 specification (RFC 5849). *)
From Coq Require Import List NArith Bool Permutation Sorted.
Import ListNotations.
From TV Require Import Lib.Obs C48.Model C48.Spec C48.Proofs C48.Proofs2 C48.Run.

(* Parameter normalisation: Tornado's string is an ascending arrangement of the
   percent-encoded (name, value) pairs, and it is the only one. *)
Theorem C48_parameters_are_rfc_normalized : forall ps, rfc_normalized ps (normalized_parameters ps).
Proof. exact normalized_parameters_is_rfc. Qed.
Print Assumptions C48_parameters_are_rfc_normalized.

Theorem C48_rfc_normalization_is_unique : forall ps s, rfc_normalized ps s -> s = normalized_parameters ps.
Proof. exact rfc_normalized_unique. Qed.
Print Assumptions C48_rfc_normalization_is_unique.

(* Base string URI: for any authority "[userinfo@]host[:port]" the result is the
   lower-cased host, plus ":port" unless it is the scheme's default port. *)
Theorem C48_base_uri_is_rfc : forall scheme ui host port,
  ~ In 64%N host -> (forall p, port = Some p -> ~ In 64%N p /\ ~ In 58%N p) -> (port = None -> ~ In 58%N host) ->
  normalized_netloc scheme (authority ui host port)
  = lower host ++ match port with
                  | Some p => if default_port scheme (lower p) then [] else 58%N :: lower p
                  | None => []
                  end.
Proof. exact normalized_netloc_rfc. Qed.
Print Assumptions C48_base_uri_is_rfc.

(* The whole base string and the key, hence the signature for ANY MAC function. *)
Theorem C48_base_string_is_rfc : forall method scheme ui host port path ps,
  ~ In 64%N host -> (forall p, port = Some p -> ~ In 64%N p /\ ~ In 58%N p) -> (port = None -> ~ In 58%N host) ->
  base_string method scheme (authority ui host port) path ps
  = rfc_base_string method (rfc_base_uri scheme host port path) (normalized_parameters ps).
Proof. exact base_string_is_rfc. Qed.
Print Assumptions C48_base_string_is_rfc.

Theorem C48_signature_matches_rfc :
  forall (mac : text -> text -> text) method scheme ui host port path ps cs ts params,
  ~ In 64%N host -> (forall p, port = Some p -> ~ In 64%N p /\ ~ In 58%N p) -> (port = None -> ~ In 58%N host) ->
  rfc_normalized ps params ->
  mac (signing_key cs ts) (base_string method scheme (authority ui host port) path ps)
  = mac (spec_key cs ts) (rfc_base_string method (rfc_base_uri scheme host port path) params).
Proof. exact signature_matches_rfc. Qed.
Print Assumptions C48_signature_matches_rfc.

(* Encoded components contain only unreserved bytes and '%', so the '&' and '='
   separators of the base string are unambiguous. *)
Theorem C48_encoding_is_inert : forall s, Forall (fun b => (b < 256)%N) s -> forallb inert (esc s) = true.
Proof. exact esc_inert. Qed.
Print Assumptions C48_encoding_is_inert.

Lemma list_eqb_N_refl : forall l, list_eqb N.eqb l l = true.
Proof. induction l as [|x l IH]; simpl; [reflexivity|]. rewrite N.eqb_refl. exact IH. Qed.

Theorem C48_model_satisfies_checker : forall m sc ui host port path ps cs ts,
  ~ In 64%N host -> (forall p, port = Some p -> ~ In 64%N p /\ ~ In 58%N p) -> (port = None -> ~ In 58%N host) ->
  check_case (m, sc, ui, host, port, path, ps, cs, ts) (run_case (m, sc, ui, host, port, path, ps, cs, ts)) = true.
Proof.
  intros. unfold check_case, run_case, spec_base. rewrite spec_params_eq.
  rewrite base_string_is_rfc by assumption. rewrite signing_key_is_rfc.
  cbn [obs_eqb]. rewrite !list_eqb_N_refl. reflexivity.
Qed.
Print Assumptions C48_model_satisfies_checker.
