(* RFC 5849 section 3.4.1, written independently of the model: the parameter
   normalisation is a RELATION (any ascending arrangement of the encoded pairs),
   the base string URI is built from host and port components. *)
From Coq Require Import List NArith Bool Arith Permutation Sorted Orders Mergesort.
Import ListNotations.
From TV Require Import C48.Model.
Local Open Scope N_scope.

(* 3.4.1.3.2 step 2: ascending byte value ordering by name, then by value *)
Definition pair_le (p q : text * text) : Prop := pair_cmp p q <> Gt.

Definition rfc_normalized (ps : list (text * text)) (s : text) : Prop :=
  exists L, Permutation L (map enc_pair ps) /\ StronglySorted pair_le L
            /\ s = join_with AMP (map kv L).

(* 3.4.1.2 *)
Definition default_port (scheme port : text) : bool :=
  (text_eqb (lower scheme) HTTP && text_eqb port P80) || (text_eqb (lower scheme) HTTPS && text_eqb port P443).
Definition rfc_base_uri (scheme host : text) (port : option text) (path : text) : text :=
  lower scheme ++ SCHEME_SEP ++ lower host
  ++ (match port with
      | Some p => if default_port scheme (lower p) then [] else 58 :: lower p
      | None => []
      end) ++ path.

(* 3.4.1.1 *)
Definition rfc_base_string (method uri params : text) : text :=
  esc (upper method) ++ AMP :: esc uri ++ AMP :: esc params.

(* an executable arrangement obtained with the standard library's merge sort,
   used by the checker that is applied to the implementation's output *)
Module PairOrder <: TotalLeBool.
  Definition t := (text * text)%type.
  Definition leb := pair_leb.
  Lemma lex_cmp_antisym : forall a b, lex_cmp b a = CompOpp (lex_cmp a b).
  Proof.
    induction a as [|x a IH]; destruct b as [|y b]; simpl; auto.
    rewrite (N.compare_antisym x y). destruct (N.compare x y); simpl; auto.
  Qed.
  Lemma pair_cmp_antisym : forall p q, pair_cmp q p = CompOpp (pair_cmp p q).
  Proof.
    intros [k1 v1] [k2 v2]. unfold pair_cmp; simpl.
    rewrite (lex_cmp_antisym k1 k2). destruct (lex_cmp k1 k2); simpl; auto. apply lex_cmp_antisym.
  Qed.
  Theorem leb_total : forall a1 a2, leb a1 a2 = true \/ leb a2 a1 = true.
  Proof.
    intros p q. unfold leb, pair_leb. rewrite (pair_cmp_antisym p q).
    destruct (pair_cmp p q); simpl; auto.
  Qed.
End PairOrder.
Module PairSort := Sort PairOrder.

Definition spec_params (ps : list (text * text)) : text :=
  join_with AMP (map kv (PairSort.sort (map enc_pair ps))).
Definition spec_base (method scheme host : text) (port : option text) (path : text)
                     (ps : list (text * text)) : text :=
  rfc_base_string method (rfc_base_uri scheme host port path) (spec_params ps).
Definition spec_key (cs ts : text) : text := esc cs ++ AMP :: esc ts.
