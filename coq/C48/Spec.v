(* RFC 5849 section 3.4.1, written independently of the model: the parameter
   normalisation is a RELATION (any ascending arrangement of the encoded pairs),
   the base string URI is built from host and port components. *)
From Coq Require Import List NArith Bool Arith Permutation Sorted Orders Mergesort.
Import ListNotations.
From TV Require Import C48.Model.
Local Open Scope N_scope.

(* 3.4.1.3.2 step 2: ascending byte value ordering by name, then by value *)
Definition pair_le (p q : text * text) : Prop := pair_cmp p q <> Gt.

Definition rfc_normalized (ps : list (text * text)) (s : text) : Prop :=
  exists L, Permutation L (map enc_pair ps) /\ StronglySorted pair_le L
            /\ s = join_with AMP (map kv L).

(* 3.4.1.2 *)
Definition default_port (scheme port : text) : bool :=
  (text_eqb (lower scheme) HTTP && text_eqb port P80) || (text_eqb (lower scheme) HTTPS && text_eqb port P443).
Definition rfc_base_uri (scheme host : text) (port : option text) (path : text) : text :=
  lower scheme ++ SCHEME_SEP ++ lower host
  ++ (match port with
      | Some p => if default_port scheme (lower p) then [] else 58 :: lower p
      | None => []
      end) ++ path.

(* 3.4.1.1 *)
Definition rfc_base_string (method uri params : text) : text :=
  esc (upper method) ++ AMP :: esc uri ++ AMP :: esc params.

(* an executable arrangement obtained with the standard library's merge sort,
   used by the checker that is applied to the implementation's output *)
Module PairOrder <: TotalLeBool.
  Definition t := (text * text)%type.
  Definition leb := pair_leb.
  Lemma lex_cmp_antisym : forall a b, lex_cmp b a = CompOpp (lex_cmp a b).
  Proof.
    induction a as [|x a IH]; destruct b as [|y b]; simpl; auto.
    rewrite (N.compare_antisym x y). destruct (N.compare x y); simpl; auto.
  Qed.
  Lemma pair_cmp_antisym : forall p q, pair_cmp q p = CompOpp (pair_cmp p q).
  Proof.
    intros [k1 v1] [k2 v2]. unfold pair_cmp; simpl.
    rewrite (lex_cmp_antisym k1 k2). destruct (lex_cmp k1 k2); simpl; auto. apply lex_cmp_antisym.
  Qed.
  Theorem leb_total : forall a1 a2, leb a1 a2 = true \/ leb a2 a1 = true.
  Proof.
    intros p q. unfold leb, pair_leb. rewrite (pair_cmp_antisym p q).
    destruct (pair_cmp p q); simpl; auto.
  Qed.
End PairOrder.
Module PairSort := Sort PairOrder.

Definition spec_params (ps : list (text * text)) : text :=
  join_with AMP (map kv (PairSort.sort (map enc_pair ps))).
Definition spec_base (method scheme host : text) (port : option text) (path : text)
                     (ps : list (text * text)) : text :=
  rfc_base_string method (rfc_base_uri scheme host port path) (spec_params ps).
Definition spec_key (cs ts : text) : text := esc cs ++ AMP :: esc ts.

(* ====================================================================== *)
(* Phase 3: percent-encoding, keys and the request parameter set,          *)
(* again written independently of the model.                               *)
(* ====================================================================== *)
From Coq Require Import String.
(* RFC 3986 2.3: unreserved = ALPHA / DIGIT / "-" / "." / "_" / "~" *)
Definition rfc_unreserved : text :=
  txt "ABCDEFGHIJKLMNOPQRSTUVWXYZabcdefghijklmnopqrstuvwxyz0123456789-._~".
Definition HEXUP : text := txt "0123456789ABCDEF".
Definition mem (c : N) (l : text) : bool := existsb (N.eqb c) l.
(* RFC 5849 3.6: hexadecimal characters in encodings MUST be upper case *)
Definition hexval_up (c : N) : option N :=
  if (48 <=? c) && (c <=? 57) then Some (c - 48)
  else if (65 <=? c) && (c <=? 70) then Some (c - 55) else None.

(* strict decoder of 3.6-encoded text: unreserved characters stand for themselves, '%' must be
   followed by two upper-case hex digits, anything else is rejected *)
Fixpoint unesc (s : text) : option text :=
  match s with
  | [] => Some []
  | c :: t =>
      if c =? 37 then
        match t with
        | h :: l :: t2 =>
            match hexval_up h, hexval_up l, unesc t2 with
            | Some a, Some b, Some r => Some ((a * 16 + b) :: r)
            | _, _, _ => None
            end
        | _ => None
        end
      else if mem c rfc_unreserved then
        match unesc t with Some r => Some (c :: r) | None => None end
      else None
  end.

(* splitting a key at its first '&' and decoding both halves (what a verifier that only knows
   the key could do) *)
Fixpoint split_amp (s : text) : option (text * text) :=
  match s with
  | [] => None
  | c :: t => if c =? AMP then Some ([], t)
              else match split_amp t with Some (a, b) => Some (c :: a, b) | None => None end
  end.
Definition key_secrets (k : text) : option (text * text) :=
  match split_amp k with
  | Some (a, b) => match unesc a, unesc b with Some x, Some y => Some (x, y) | _, _ => None end
  | None => None
  end.

(* the key Tornado's OAuth 1.0 code built before fix f833e02: the raw secrets joined with '&' *)
Definition raw_key (cs ts : text) : text := cs ++ AMP :: ts.

(* ---------- request parameters (RFC 5849 3.1, 3.4.1.3.1) ---------- *)
Definition has_key (k : text) (d : list (text * text)) : bool := existsb (fun kv => text_eqb k (fst kv)) d.
(* the parameter set that is signed: the request's own parameters plus every protocol
   parameter they do not already name *)
Definition spec_signed (protocol user : list (text * text)) : list (text * text) :=
  filter (fun kv => negb (has_key (fst kv) user)) protocol ++ user.
(* the protocol parameters, from an independent reading of 3.1 *)
Definition parse_dec_digit (c : N) : option Decimal.uint -> option Decimal.uint := fun r =>
  match r with
  | None => None
  | Some u =>
      if c =? 48 then Some (Decimal.D0 u) else if c =? 49 then Some (Decimal.D1 u)
      else if c =? 50 then Some (Decimal.D2 u) else if c =? 51 then Some (Decimal.D3 u)
      else if c =? 52 then Some (Decimal.D4 u) else if c =? 53 then Some (Decimal.D5 u)
      else if c =? 54 then Some (Decimal.D6 u) else if c =? 55 then Some (Decimal.D7 u)
      else if c =? 56 then Some (Decimal.D8 u) else if c =? 57 then Some (Decimal.D9 u)
      else None
  end.
Definition parse_uint (s : text) : option Decimal.uint := fold_right parse_dec_digit (Some Decimal.Nil) s.
(* s is the canonical decimal numeral of n: digits only, no leading zero, value n *)
Definition is_decimal_of (n : N) (s : text) : bool :=
  match parse_uint s with
  | Some u => (N.of_uint u =? n) && Decimal.uint_beq (Decimal.unorm u) u
  | None => false
  end.
Definition hexval_low (c : N) : option N :=
  if (48 <=? c) && (c <=? 57) then Some (c - 48)
  else if (97 <=? c) && (c <=? 102) then Some (c - 87) else None.
Fixpoint is_hex_of (bs s : text) : bool :=
  match bs, s with
  | [], [] => true
  | b :: bs', h :: l :: s' =>
      match hexval_low h, hexval_low l with
      | Some x, Some y => (x * 16 + y =? b) && is_hex_of bs' s'
      | _, _ => false
      end
  | _, _ => false
  end.

(* what the server verifies (3.4.1.3.1): every parameter of the request except oauth_signature *)
Definition server_params (sent : list (text * text)) : list (text * text) :=
  filter (fun kv => negb (text_eqb (fst kv) K_SIGNATURE)) sent.
Definition protocol_names : list text :=
  [K_CONSUMER_KEY; K_TOKEN; K_SIGNATURE_METHOD; K_TIMESTAMP; K_NONCE; K_VERSION; K_SIGNATURE].
