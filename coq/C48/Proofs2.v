From Coq Require Import List NArith Bool Arith Lia Permutation Sorted RelationClasses.
Import ListNotations.
From TV Require Import C48.Model C48.Spec C48.Proofs.
Local Open Scope N_scope.

(* ---------- parameter normalisation = the RFC relation, uniquely ---------- *)
Theorem normalized_parameters_is_rfc : forall ps, rfc_normalized ps (normalized_parameters ps).
Proof.
  intro ps. exists (isort (map enc_pair ps)). repeat split.
  - apply isort_perm.
  - apply isort_sorted.
Qed.

Theorem rfc_normalized_unique : forall ps s, rfc_normalized ps s -> s = normalized_parameters ps.
Proof.
  intros ps s (L & P & S & ->). unfold normalized_parameters. f_equal. f_equal.
  apply sorted_perm_unique; [exact S|apply isort_sorted|].
  eapply perm_trans; [exact P|apply Permutation_sym, isort_perm].
Qed.

Lemma msort_is_isort : forall l, PairSort.sort l = isort l.
Proof.
  intro l. apply sorted_perm_unique.
  - apply Sorted_StronglySorted.
    + intros p q r H1 H2. eapply pair_le_trans; eauto.
    + pose proof (PairSort.Sorted_sort l) as S.
      eapply Sorted_ind with (P := fun l => Sorted pair_le l); [| |exact S].
      * constructor.
      * intros a l0 _ IH H. constructor; [exact IH|].
        destruct H; constructor. apply pair_leb_le. exact H.
  - apply isort_sorted.
  - eapply perm_trans; [apply Permutation_sym, PairSort.Permuted_sort|apply Permutation_sym, isort_perm].
Qed.

Theorem spec_params_eq : forall ps, spec_params ps = normalized_parameters ps.
Proof. intro ps. unfold spec_params, normalized_parameters. rewrite msort_is_isort. reflexivity. Qed.

(* ---------- rpartition ---------- *)
Lemma rpart_aux_hit : forall c l r acc, ~ In c l ->
  rpart_aux c (l ++ c :: r) acc = Some (rev r, rev l ++ acc).
Proof.
  induction l as [|x l IH]; intros r acc H; simpl.
  - rewrite N.eqb_refl. reflexivity.
  - destruct (x =? c) eqn:E.
    + apply N.eqb_eq in E. subst. exfalso. apply H. left; reflexivity.
    + rewrite IH by (intro I; apply H; right; exact I). rewrite <- app_assoc. reflexivity.
Qed.
Lemma rpart_aux_miss : forall c l acc, ~ In c l -> rpart_aux c l acc = None.
Proof.
  induction l as [|x l IH]; intros acc H; simpl; auto.
  destruct (x =? c) eqn:E.
  - apply N.eqb_eq in E. subst. exfalso. apply H. left; reflexivity.
  - apply IH. intro I; apply H; right; exact I.
Qed.

Lemma rpartition_hit : forall c a b, ~ In c b -> rpartition c (a ++ c :: b) = Some (a, b).
Proof.
  intros c a b H. unfold rpartition. rewrite rev_app_distr. cbn [rev]. rewrite <- app_assoc. cbn [app].
  rewrite rpart_aux_hit by (rewrite <- in_rev; exact H).
  rewrite !rev_involutive, app_nil_r. reflexivity.
Qed.
Lemma rpartition_miss : forall c s, ~ In c s -> rpartition c s = None.
Proof. intros c s H. unfold rpartition. apply rpart_aux_miss. rewrite <- in_rev. exact H. Qed.

Lemma lower_app : forall a b, lower (a ++ b) = lower a ++ lower b.
Proof. intros. unfold lower. apply map_app. Qed.

Lemma lower_c_not : forall c x, (c = 58 \/ c = 64) -> x <> c -> lower_c x <> c.
Proof.
  intros c x Hc Hx. unfold lower_c.
  destruct ((65 <=? x) && (x <=? 90)) eqn:E; [|exact Hx].
  apply andb_true_iff in E as [E1 E2]. apply N.leb_le in E1. apply N.leb_le in E2.
  destruct Hc; subst c; lia.
Qed.
Lemma lower_no : forall c s, (c = 58 \/ c = 64) -> ~ In c s -> ~ In c (lower s).
Proof.
  intros c s Hc H I. unfold lower in I. apply in_map_iff in I as (x & E & Ix).
  destruct (N.eq_dec x c) as [->|N]; [contradiction|].
  apply (lower_c_not c x Hc N). exact E.
Qed.

(* [authority] (optional "userinfo@", host, optional ":port") is defined in Model.v *)

Theorem normalized_netloc_rfc : forall scheme ui host port,
  ~ In 64 host -> (forall p, port = Some p -> ~ In 64 p /\ ~ In 58 p) ->
  (port = None -> ~ In 58 host) ->
  normalized_netloc scheme (authority ui host port)
  = lower host ++ match port with
                  | Some p => if default_port scheme (lower p) then [] else 58 :: lower p
                  | None => []
                  end.
Proof.
  intros scheme ui host port Hh Hp Hn.
  assert (NI : ~ In 64 (host ++ match port with Some p => 58 :: p | None => [] end)).
  { intro I. apply in_app_or in I as [I|I]; [contradiction|].
    destruct port as [p|]; [|contradiction]. destruct I as [I|I]; [discriminate|].
    destruct (Hp p eq_refl) as [A _]. contradiction. }
  assert (E1 : strip_userinfo (authority ui host port)
               = host ++ match port with Some p => 58 :: p | None => [] end).
  { unfold strip_userinfo, authority. destruct ui as [u|].
    - rewrite <- app_assoc. cbn [app]. rewrite rpartition_hit by exact NI. reflexivity.
    - cbn [app]. rewrite rpartition_miss by exact NI. reflexivity. }
  unfold normalized_netloc. cbv zeta. rewrite E1. clear E1. rewrite lower_app.
  destruct port as [p|].
  - destruct (Hp p eq_refl) as [_ P58].
    change (lower (58 :: p)) with (58 :: lower p).
    rewrite rpartition_hit by (apply lower_no; auto).
    unfold default_port.
    destruct ((text_eqb (lower scheme) HTTP && text_eqb (lower p) P80)
              || (text_eqb (lower scheme) HTTPS && text_eqb (lower p) P443)); rewrite ?app_nil_r; reflexivity.
  - cbn [lower map]. rewrite ?app_nil_r.
    rewrite rpartition_miss by (apply lower_no; auto). rewrite ?app_nil_r. reflexivity.
Qed.

(* ---------- the escaped text is inert: only unreserved bytes and '%' ---------- *)
Definition inert (c : N) : bool := is_unreserved c || (c =? 37).
Lemma hexdigit_inert : forall n, n < 16 -> inert (hexdigit n) = true.
Proof.
  intros n H.
  assert (C : n = 0 \/ n = 1 \/ n = 2 \/ n = 3 \/ n = 4 \/ n = 5 \/ n = 6 \/ n = 7 \/ n = 8 \/ n = 9
              \/ n = 10 \/ n = 11 \/ n = 12 \/ n = 13 \/ n = 14 \/ n = 15) by lia.
  repeat (destruct C as [->|C]; [reflexivity|]). subst; reflexivity.
Qed.
Theorem esc_inert : forall s, Forall (fun b => b < 256) s -> forallb inert (esc s) = true.
Proof.
  induction 1 as [|b s Hb _ IH]; [reflexivity|].
  unfold esc in *. cbn [flat_map]. rewrite forallb_app, IH, andb_true_r.
  unfold esc_byte. destruct (is_unreserved b) eqn:U.
  - cbn. unfold inert. rewrite U. reflexivity.
  - cbn [forallb]. rewrite !hexdigit_inert; [reflexivity| |].
    + apply N.mod_lt. discriminate.
    + apply N.div_lt_upper_bound; [discriminate|exact Hb].
Qed.

(* ---------- the base string and key ---------- *)
Theorem base_string_is_rfc : forall method scheme ui host port path ps,
  ~ In 64 host -> (forall p, port = Some p -> ~ In 64 p /\ ~ In 58 p) -> (port = None -> ~ In 58 host) ->
  base_string method scheme (authority ui host port) path ps
  = rfc_base_string method (rfc_base_uri scheme host port path) (normalized_parameters ps).
Proof.
  intros. unfold base_string, rfc_base_string, normalized_url, rfc_base_uri.
  cbn [map join_with]. rewrite normalized_netloc_rfc by assumption.
  rewrite <- !app_assoc. reflexivity.
Qed.

Theorem signing_key_is_rfc : forall cs ts, signing_key cs ts = spec_key cs ts.
Proof. reflexivity. Qed.

(* whatever the MAC function, equal key and equal text give equal signatures *)
Theorem signature_matches_rfc :
  forall (mac : text -> text -> text) method scheme ui host port path ps cs ts params,
  ~ In 64 host -> (forall p, port = Some p -> ~ In 64 p /\ ~ In 58 p) -> (port = None -> ~ In 58 host) ->
  rfc_normalized ps params ->
  mac (signing_key cs ts) (base_string method scheme (authority ui host port) path ps)
  = mac (spec_key cs ts) (rfc_base_string method (rfc_base_uri scheme host port path) params).
Proof.
  intros mac method scheme ui host port path ps cs ts params H1 H2 H3 R.
  rewrite (rfc_normalized_unique ps params R). rewrite base_string_is_rfc by assumption. reflexivity.
Qed.

Example rfc5849_section_3_4_1_example :
  (* parameters from RFC 5849 3.4.1.3.1 (a subset with distinct names) *)
  normalized_parameters [([98;53],[61;37;51;68]); ([97;51],[97]); ([99;64],[]); ([97;50],[114;32;98])]
  = [97;50;61;114;37;50;48;98;38;97;51;61;97;38;98;53;61;37;51;68;37;50;53;51;68;38;99;37;52;48;61]
  /\ normalized_netloc HTTP [85;58;80;64;69;88;46;99;111;109;58;56;48] = [101;120;46;99;111;109].
Proof. split; vm_compute; reflexivity. Qed.
