From Coq Require Import List NArith Bool Arith Lia Permutation Sorted.
Import ListNotations.
From TV Require Import C48.Model C48.Spec.
Local Open Scope N_scope.

(* ---------- the order ---------- *)
Lemma lex_cmp_refl : forall a, lex_cmp a a = Eq.
Proof. induction a as [|x a IH]; simpl; auto. rewrite N.compare_refl. exact IH. Qed.

Lemma lex_cmp_eq : forall a b, lex_cmp a b = Eq -> a = b.
Proof.
  induction a as [|x a IH]; destruct b as [|y b]; simpl; intro H; try discriminate; auto.
  destruct (N.compare x y) eqn:E; try discriminate.
  apply N.compare_eq in E. subst. f_equal. auto.
Qed.

Lemma lex_cmp_trans_lt : forall a b c, lex_cmp a b = Lt -> lex_cmp b c = Lt -> lex_cmp a c = Lt.
Proof.
  induction a as [|x a IH]; destruct b as [|y b]; destruct c as [|z c]; simpl; intros H1 H2; try discriminate; auto.
  destruct (N.compare x y) eqn:E1; try discriminate.
  - apply N.compare_eq in E1; subst y. destruct (N.compare x z); try discriminate; auto. eapply IH; eauto.
  - destruct (N.compare y z) eqn:E2; try discriminate.
    + apply N.compare_eq in E2; subst z. rewrite E1. reflexivity.
    + assert (E3 : N.compare x z = Lt).
      { apply N.compare_lt_iff. apply N.compare_lt_iff in E1. apply N.compare_lt_iff in E2.
        eapply N.lt_trans; eauto. }
      rewrite E3. reflexivity.
Qed.

Lemma pair_cmp_eq : forall p q, pair_cmp p q = Eq -> p = q.
Proof.
  intros [k1 v1] [k2 v2]. unfold pair_cmp; simpl. intro H.
  destruct (lex_cmp k1 k2) eqn:E; try discriminate.
  apply lex_cmp_eq in E. apply lex_cmp_eq in H. subst. reflexivity.
Qed.

Lemma pair_cmp_refl_iff : forall p, True <-> pair_cmp p p = Eq.
Proof. intros [k v]. unfold pair_cmp; simpl. rewrite !lex_cmp_refl. tauto. Qed.

Lemma pair_cmp_trans_lt : forall p q r, pair_cmp p q = Lt -> pair_cmp q r = Lt -> pair_cmp p r = Lt.
Proof.
  intros [k1 v1] [k2 v2] [k3 v3]. unfold pair_cmp; simpl. intros H1 H2.
  destruct (lex_cmp k1 k2) eqn:E1; try discriminate.
  - apply lex_cmp_eq in E1; subst k2. destruct (lex_cmp k1 k3) eqn:E2; try discriminate; auto.
    eapply lex_cmp_trans_lt; eauto.
  - destruct (lex_cmp k2 k3) eqn:E2; try discriminate.
    + apply lex_cmp_eq in E2; subst k3. rewrite E1. reflexivity.
    + rewrite (lex_cmp_trans_lt _ _ _ E1 E2). reflexivity.
Qed.

Lemma pair_le_trans : forall p q r, pair_le p q -> pair_le q r -> pair_le p r.
Proof.
  unfold pair_le. intros p q r H1 H2.
  destruct (pair_cmp p q) eqn:E1; try congruence.
  - apply pair_cmp_eq in E1; subst q. exact H2.
  - destruct (pair_cmp q r) eqn:E2; try congruence.
    + apply pair_cmp_eq in E2; subst r. rewrite E1. discriminate.
    + rewrite (pair_cmp_trans_lt _ _ _ E1 E2). discriminate.
Qed.

Lemma pair_le_antisym : forall p q, pair_le p q -> pair_le q p -> p = q.
Proof.
  unfold pair_le. intros p q H1 H2. rewrite (PairOrder.pair_cmp_antisym p q) in H2.
  destruct (pair_cmp p q) eqn:E; simpl in H2; try congruence.
  apply pair_cmp_eq; exact E.
Qed.

Lemma pair_leb_le : forall p q, pair_leb p q = true <-> pair_le p q.
Proof. intros p q. unfold pair_leb, pair_le. destruct (pair_cmp p q); split; intro H; congruence. Qed.

Lemma pair_leb_false_le : forall p q, pair_leb p q = false -> pair_le q p.
Proof.
  intros p q H. destruct (PairOrder.leb_total p q) as [T|T]; [unfold PairOrder.leb in T; congruence|].
  apply pair_leb_le. exact T.
Qed.

(* ---------- insertion sort yields a sorted permutation ---------- *)
Lemma insert_perm : forall p l, Permutation (insert p l) (p :: l).
Proof.
  induction l as [|q l IH]; simpl; auto.
  destruct (pair_leb p q); auto.
  eapply perm_trans; [apply perm_skip; exact IH|apply perm_swap].
Qed.

Lemma isort_perm : forall l, Permutation (isort l) l.
Proof.
  induction l as [|p l IH]; simpl; auto.
  eapply perm_trans; [apply insert_perm|apply perm_skip; exact IH].
Qed.

Lemma insert_sorted : forall p l, StronglySorted pair_le l -> StronglySorted pair_le (insert p l).
Proof.
  induction l as [|q l IH]; intro S; simpl.
  - constructor; constructor.
  - inversion S as [|? ? S' F]; subst.
    destruct (pair_leb p q) eqn:E.
    + constructor; [exact S|]. apply pair_leb_le in E. constructor; [exact E|].
      eapply Forall_impl; [|exact F]. intros a Ha. eapply pair_le_trans; eauto.
    + constructor; [apply IH; exact S'|].
      apply pair_leb_false_le in E.
      eapply Permutation_Forall; [apply Permutation_sym; apply insert_perm|].
      constructor; assumption.
Qed.

Lemma isort_sorted : forall l, StronglySorted pair_le (isort l).
Proof. induction l as [|p l IH]; simpl; [constructor|apply insert_sorted; exact IH]. Qed.

(* ---------- a sorted arrangement is unique ---------- *)
Lemma sorted_perm_unique : forall l1 l2,
  StronglySorted pair_le l1 -> StronglySorted pair_le l2 -> Permutation l1 l2 -> l1 = l2.
Proof.
  induction l1 as [|a l1 IH]; intros l2 S1 S2 P.
  - apply Permutation_nil in P. auto.
  - destruct l2 as [|b l2]; [apply Permutation_sym, Permutation_nil in P; discriminate|].
    inversion S1 as [|? ? S1' F1]; inversion S2 as [|? ? S2' F2]; subst.
    assert (Hab : a = b).
    { apply pair_le_antisym.
      - assert (I : In b (a :: l1)) by (eapply Permutation_in; [apply Permutation_sym; exact P|left; reflexivity]).
        destruct I as [->|I]; [unfold pair_le; rewrite (proj1 (pair_cmp_refl_iff b) Logic.I); discriminate|].
        eapply Forall_forall in F1; eauto.
      - assert (I : In a (b :: l2)) by (eapply Permutation_in; [exact P|left; reflexivity]).
        destruct I as [->|I]; [unfold pair_le; rewrite (proj1 (pair_cmp_refl_iff a) Logic.I); discriminate|].
        eapply Forall_forall in F2; eauto. }
    subst b. f_equal. apply IH; auto. eapply Permutation_cons_inv; exact P.
Qed.
