(* C48 phase 3: percent-encoding = RFC 3986 unreserved set exactly, decoding inverts it,
   the signing key determines both secrets; both versions build the same key. *)
From Coq Require Import List NArith Bool Arith Lia.
Import ListNotations.
From TV Require Import C48.Model C48.Spec C48.Proofs C48.Proofs2.
Local Open Scope N_scope.

Definition bytes (s : text) : Prop := Forall (fun b => b < 256) s.

(* ---------- sweeping all 256 byte values ---------- *)
Definition all_bytes : list N := map N.of_nat (seq 0 256).
Lemma in_all_bytes : forall b, b < 256 -> In b all_bytes.
Proof.
  intros b H. unfold all_bytes. apply in_map_iff. exists (N.to_nat b).
  split; [apply N2Nat.id|apply in_seq; lia].
Qed.
Lemma byte_sweep : forall P : N -> bool, forallb P all_bytes = true -> forall b, b < 256 -> P b = true.
Proof. intros P H b Hb. rewrite forallb_forall in H. apply H, in_all_bytes, Hb. Qed.

Lemma mem_In : forall c l, mem c l = true <-> In c l.
Proof.
  intros c l. unfold mem. rewrite existsb_exists. split.
  - intros (x & I & E). apply N.eqb_eq in E. subst. exact I.
  - intro I. exists c. split; [exact I|apply N.eqb_refl].
Qed.

Lemma text_eqb_eq : forall a b, text_eqb a b = true <-> a = b.
Proof.
  induction a as [|x a IH]; destruct b as [|y b]; cbn [text_eqb]; split; intro H; try discriminate; auto.
  - apply andb_true_iff in H as [E H]. apply N.eqb_eq in E. apply IH in H. subst. reflexivity.
  - injection H as -> ->. rewrite N.eqb_refl. apply IH. reflexivity.
Qed.

(* ---------- the set of bytes left alone is RFC 3986's unreserved set ---------- *)
Lemma rfc_unreserved_bytes : Forall (fun c => c < 256) rfc_unreserved.
Proof. vm_compute. repeat constructor. Qed.

Lemma is_unreserved_byte : forall b, is_unreserved b = true -> b < 256.
Proof.
  intros b H. unfold is_unreserved in H.
  repeat (apply orb_true_iff in H; destruct H as [H|H]);
    try (apply andb_true_iff in H; destruct H as [_ H]; apply N.leb_le in H; lia);
    apply N.eqb_eq in H; lia.
Qed.

Theorem unreserved_is_rfc : forall b, is_unreserved b = mem b rfc_unreserved.
Proof.
  intro b. destruct (N.ltb_spec b 256) as [L|G].
  - apply eqb_prop.
    apply (byte_sweep (fun b => Bool.eqb (is_unreserved b) (mem b rfc_unreserved))); [vm_compute; reflexivity|exact L].
  - destruct (is_unreserved b) eqn:U; [apply is_unreserved_byte in U; lia|].
    destruct (mem b rfc_unreserved) eqn:M; [|reflexivity].
    apply mem_In in M. pose proof rfc_unreserved_bytes as F. rewrite Forall_forall in F. apply F in M. lia.
Qed.

(* the shape of one encoded byte, as a boolean so that it can be swept *)
Definition esc_byte_ok (b : N) : bool :=
  if mem b rfc_unreserved then text_eqb (esc_byte b) [b]
  else match esc_byte b with
       | [p; h; l] =>
           (p =? 37) && mem h HEXUP && mem l HEXUP &&
           match hexval_up h, hexval_up l with Some x, Some y => x * 16 + y =? b | _, _ => false end
       | _ => false
       end.
Lemma esc_byte_ok_all : forall b, b < 256 -> esc_byte_ok b = true.
Proof. apply byte_sweep. vm_compute. reflexivity. Qed.

Theorem esc_byte_rfc3986 : forall b, b < 256 ->
  (In b rfc_unreserved -> esc_byte b = [b]) /\
  (~ In b rfc_unreserved ->
   exists h l x y, esc_byte b = [37; h; l] /\ In h HEXUP /\ In l HEXUP
                   /\ hexval_up h = Some x /\ hexval_up l = Some y /\ x * 16 + y = b).
Proof.
  intros b Hb. pose proof (esc_byte_ok_all b Hb) as K. unfold esc_byte_ok in K. split; intro I.
  - apply mem_In in I. rewrite I in K. apply text_eqb_eq. exact K.
  - destruct (mem b rfc_unreserved) eqn:M; [apply mem_In in M; contradiction|].
    destruct (esc_byte b) as [|p [|h [|l [|? ?]]]]; try discriminate.
    apply andb_true_iff in K as [K K4]. apply andb_true_iff in K as [K K3]. apply andb_true_iff in K as [K1 K2].
    apply N.eqb_eq in K1. subst p. apply mem_In in K2. apply mem_In in K3.
    destruct (hexval_up h) as [x|] eqn:Eh; [|discriminate]. destruct (hexval_up l) as [y|] eqn:El; [|discriminate].
    apply N.eqb_eq in K4. exists h, l, x, y. split; [reflexivity|]. split; [exact K2|]. split; [exact K3|]. split; [exact Eh|]. split; [exact El|exact K4].
Qed.

(* ---------- decoding inverts encoding ---------- *)
Lemma hexval_up_hexdigit : forall n, n < 16 -> hexval_up (hexdigit n) = Some n.
Proof.
  intros n H.
  assert (C : n = 0 \/ n = 1 \/ n = 2 \/ n = 3 \/ n = 4 \/ n = 5 \/ n = 6 \/ n = 7 \/ n = 8 \/ n = 9
              \/ n = 10 \/ n = 11 \/ n = 12 \/ n = 13 \/ n = 14 \/ n = 15) by lia.
  repeat (destruct C as [->|C]; [reflexivity|]). subst; reflexivity.
Qed.

Lemma unesc_esc_byte : forall b r, b < 256 ->
  unesc (esc_byte b ++ r) = match unesc r with Some r' => Some (b :: r') | None => None end.
Proof.
  intros b r Hb. unfold esc_byte. destruct (is_unreserved b) eqn:U.
  - cbn [app unesc].
    assert (N37 : (b =? 37) = false).
    { destruct (b =? 37) eqn:E; [|reflexivity]. apply N.eqb_eq in E. subst. discriminate U. }
    rewrite N37. rewrite <- unreserved_is_rfc, U. reflexivity.
  - cbn [app]. cbn [unesc]. rewrite N.eqb_refl.
    rewrite !hexval_up_hexdigit.
    + destruct (unesc r); [|reflexivity]. f_equal. f_equal.
      rewrite N.mul_comm. symmetry. apply N.div_mod. discriminate.
    + apply N.mod_lt. discriminate.
    + apply N.div_lt_upper_bound; [discriminate|exact Hb].
Qed.

Theorem unesc_esc : forall s, bytes s -> unesc (esc s) = Some s.
Proof.
  induction 1 as [|b s Hb _ IH]; [reflexivity|].
  unfold esc in *. cbn [flat_map]. rewrite unesc_esc_byte by exact Hb. rewrite IH. reflexivity.
Qed.

Theorem esc_injective : forall a b, bytes a -> bytes b -> esc a = esc b -> a = b.
Proof.
  intros a b Ha Hb E. apply (f_equal unesc) in E. rewrite !unesc_esc in E by assumption.
  injection E; auto.
Qed.

(* ---------- the key determines both secrets ---------- *)
Lemma esc_no_amp : forall s, bytes s -> ~ In AMP (esc s).
Proof.
  intros s Hs I. pose proof (esc_inert s Hs) as F. rewrite forallb_forall in F.
  apply F in I. discriminate I.
Qed.

Lemma split_amp_app : forall a b, ~ In AMP a -> split_amp (a ++ AMP :: b) = Some (a, b).
Proof.
  induction a as [|x a IH]; intros b H; cbn [app split_amp].
  - rewrite N.eqb_refl. reflexivity.
  - destruct (x =? AMP) eqn:E.
    + apply N.eqb_eq in E. exfalso. apply H. left. exact E.
    + rewrite IH by (intro I; apply H; right; exact I). reflexivity.
Qed.

Theorem key_secrets_signing_key : forall cs ts, bytes cs -> bytes ts ->
  key_secrets (signing_key cs ts) = Some (cs, ts).
Proof.
  intros cs ts Hc Ht. unfold key_secrets, signing_key.
  rewrite split_amp_app by (apply esc_no_amp; exact Hc).
  rewrite !unesc_esc by assumption. reflexivity.
Qed.

Theorem signing_key_injective : forall cs ts cs' ts', bytes cs -> bytes ts -> bytes cs' -> bytes ts' ->
  signing_key cs ts = signing_key cs' ts' -> cs = cs' /\ ts = ts'.
Proof.
  intros cs ts cs' ts' H1 H2 H3 H4 E. apply (f_equal key_secrets) in E.
  rewrite !key_secrets_signing_key in E by assumption. injection E; auto.
Qed.

(* the unencoded key of the old OAuth 1.0 code did not have this property *)
Theorem raw_key_ambiguous : exists cs ts cs' ts',
  bytes cs /\ bytes ts /\ bytes cs' /\ bytes ts' /\ (cs, ts) <> (cs', ts') /\ raw_key cs ts = raw_key cs' ts'.
Proof.
  exists [97; 38; 98], [99], [97], [98; 38; 99].
  repeat split; try (repeat constructor; reflexivity); discriminate.
Qed.

(* ---------- both versions build the RFC key ---------- *)
Lemma quote_byte_tilde : forall b, quote_byte TILDE b = esc_byte b.
Proof.
  intro b. unfold quote_byte, esc_byte, TILDE. cbn [existsb].
  destruct (b =? 126) eqn:E; [|rewrite !orb_false_r; reflexivity].
  apply N.eqb_eq in E. subst. reflexivity.
Qed.
Lemma py_quote_tilde : forall s, py_quote TILDE s = esc s.
Proof.
  intro s. unfold py_quote, esc. induction s as [|b s IH]; [reflexivity|].
  cbn [flat_map]. rewrite quote_byte_tilde, IH. reflexivity.
Qed.

Definition token_secret (tok : option text) : text := match tok with Some t => t | None => [] end.

Theorem key_10_is_rfc : forall cs tok, key_10 cs tok = spec_key cs (token_secret tok).
Proof. intros cs [t|]; reflexivity. Qed.
Theorem key_10a_is_rfc : forall cs tok, key_10a cs tok = spec_key cs (token_secret tok).
Proof. intros cs [t|]; unfold key_10a, opt_text; rewrite ?py_quote_tilde; reflexivity. Qed.
Theorem key_of_is_rfc : forall v cs tok, key_of v cs tok = spec_key cs (token_secret tok).
Proof. intros [|] cs tok; [apply key_10a_is_rfc|apply key_10_is_rfc]. Qed.

(* a safe set that is too large is not the RFC encoding: quote()'s default safe="/" *)
Theorem default_safe_is_not_rfc : exists s, bytes s /\ py_quote [47] s <> esc s.
Proof. exists [47]. split; [repeat constructor; reflexivity|discriminate]. Qed.
