(* C48 — a small expression language for the pieces of tornado/auth.py that
   translators/c48_src.py reads from the working tree: the body of _oauth_escape and the
   key_elems / b"&".join(key_elems) statements of _oauth_signature and _oauth10a_signature.
   Definitions only: syntax, meaning, and the trees / source texts the model was written from. *)
From Coq Require Import List NArith Bool String.
Import ListNotations.
From TV Require Import C48.Model.
Local Open Scope N_scope.

Inductive party := Consumer | Token.

Inductive sexp :=
| EVal                               (* the parameter `val` of _oauth_escape *)
| ESecret (p : party)                (* consumer_token["secret"] / token["secret"] *)
| EEmpty                             (* "" *)
| EQuote (e : sexp) (safe : text)    (* urllib.parse.quote(e, safe=...) *)
| EEscape (e : sexp)                 (* _oauth_escape(e) *)
| EUtf8 (e : sexp)                   (* escape.utf8(e) / e.encode("utf-8"): identity on the byte-level model *)
| EIfToken (a b : sexp).             (* a if token else b *)

Record env := mkEnv { e_val : option text; e_cs : text; e_tok : option text }.

(* None = the Python expression raises (token["secret"] with token None, a name that is not bound,
   _oauth_escape calling itself) *)
Fixpoint eval (escape : text -> option text) (r : env) (e : sexp) : option text :=
  match e with
  | EVal => e_val r
  | ESecret Consumer => Some (e_cs r)
  | ESecret Token => e_tok r
  | EEmpty => Some []
  | EQuote e' safe => option_map (py_quote safe) (eval escape r e')
  | EEscape e' => match eval escape r e' with Some v => escape v | None => None end
  | EUtf8 e' => eval escape r e'
  | EIfToken a b => match e_tok r with Some _ => eval escape r a | None => eval escape r b end
  end.

Definition escape_sem (body : sexp) (v : text) : option text :=
  eval (fun _ => None) (mkEnv (Some v) [] None) body.

Fixpoint sequence_opt (l : list (option text)) : option (list text) :=
  match l with
  | [] => Some []
  | Some x :: l' => option_map (cons x) (sequence_opt l')
  | None :: _ => None
  end.

Definition key_sem (escape_body : sexp) (elems : list sexp) (sep : N) (cs : text) (tok : option text)
  : option text :=
  option_map (join_with sep)
             (sequence_opt (map (eval (escape_sem escape_body) (mkEnv None cs tok)) elems)).

(* the trees the model (esc, key_10, key_10a) was written from *)
Definition expected_escape : sexp := EQuote (EUtf8 EVal) [126].
Definition expected_key10 : list sexp :=
  [EUtf8 (EEscape (ESecret Consumer)); EUtf8 (EIfToken (EEscape (ESecret Token)) EEmpty)].
Definition expected_key10a : list sexp :=
  [EUtf8 (EQuote (ESecret Consumer) [126]); EUtf8 (EIfToken (EQuote (ESecret Token) [126]) EEmpty)].
Definition expected_sep : N := 38.
