(* C48 phase 4: OAuthMixin._oauth_request_token_url and _oauth_access_token_url
   (tornado/auth.py).  Definitions only. *)
From Coq Require Import List NArith Bool String.
Import ListNotations.
From TV Require Import C48.Model.
Local Open Scope N_scope.

Definition K_CALLBACK := txt "oauth_callback".
Definition K_VERIFIER := txt "oauth_verifier".
Definition OOB := txt "oob".
Definition GET := txt "GET".

(* urllib.parse.quote_plus(s) (safe='') on bytes, and urllib.parse.urlencode(dict) *)
Definition qp_byte (b : N) : text :=
  if is_unreserved b then [b] else if b =? 32 then [43]
  else [37; hexdigit (b / 16); hexdigit (b mod 16)].
Definition qp (s : text) : text := flat_map qp_byte s.
Definition urlencode_b (d : pdict) : text :=
  join_with AMP (map (fun kv => qp (fst kv) ++ EQS :: qp (snd kv)) d).

(* the URL text the class attribute holds: scheme://[userinfo@]host[:port]path *)
Definition url_text (scheme : text) (ui : option text) (host : text) (port : option text) (path : text) : text :=
  scheme ++ SCHEME_SEP ++ authority ui host port ++ path.

(* args = dict(oauth_consumer_key=..., oauth_signature_method=..., oauth_timestamp=..., oauth_nonce=..., oauth_version=...) *)
Definition reqtok_base (ck : text) (time : N) (nonce : text) : pdict :=
  [(K_CONSUMER_KEY, ck); (K_SIGNATURE_METHOD, txt "HMAC-SHA1"); (K_TIMESTAMP, dec time);
   (K_NONCE, hex_lower nonce); (K_VERSION, txt "1.0")].

(* if callback_uri == "oob": ... elif callback_uri: args["oauth_callback"] = urljoin(full_url, callback_uri).
   [joined] is that urljoin result (urljoin is not modelled). *)
Definition with_callback (cbu : option text) (joined : text) (d : pdict) : pdict :=
  match cbu with
  | None => d
  | Some u => if text_eqb u OOB then dict_set K_CALLBACK OOB d
              else match u with [] => d | _ :: _ => dict_set K_CALLBACK joined d end
  end.

(* the parameters that are signed: for 1.0 neither the callback nor extra_params take part *)
Definition reqtok_args (v10a : bool) (ck : text) (time : N) (nonce : text)
                       (cbu : option text) (joined : text) (extra : pdict) : pdict :=
  if v10a then dict_update (with_callback cbu joined (reqtok_base ck time nonce)) extra
  else reqtok_base ck time nonce.

(* no token takes part in the request-token signature *)
Definition reqtok_key (v10a : bool) (cs : text) : text := key_of v10a cs None.
Definition reqtok_msg (v10a : bool) (scheme : text) ui host port (path ck : text) (time : N) (nonce : text)
                      cbu joined extra : text :=
  base_string GET scheme (authority ui host port) path (reqtok_args v10a ck time nonce cbu joined extra).
(* args["oauth_signature"] = signature; return url + "?" + urlencode(args) *)
Definition reqtok_url (sig : text) (v10a : bool) (scheme : text) ui host port (path ck : text) (time : N) (nonce : text)
                      cbu joined extra : text :=
  url_text scheme ui host port path
  ++ 63 :: urlencode_b (dict_set K_SIGNATURE sig (reqtok_args v10a ck time nonce cbu joined extra)).

(* _oauth_access_token_url: the six base_args, plus oauth_verifier when the request token has one *)
Definition acctok_args (ck tk : text) (time : N) (nonce : text) (verifier : option text) : pdict :=
  match verifier with
  | Some vf => dict_set K_VERIFIER vf (base_args ck tk time nonce)
  | None => base_args ck tk time nonce
  end.
Definition acctok_key (v10a : bool) (cs tsec : text) : text := key_of v10a cs (Some tsec).
Definition acctok_msg (scheme : text) ui host port (path ck tk : text) (time : N) (nonce : text) verifier : text :=
  base_string GET scheme (authority ui host port) path (acctok_args ck tk time nonce verifier).
Definition acctok_url (sig : text) (scheme : text) ui host port (path ck tk : text) (time : N) (nonce : text) verifier : text :=
  url_text scheme ui host port path
  ++ 63 :: urlencode_b (dict_set K_SIGNATURE sig (acctok_args ck tk time nonce verifier)).
