(* C48 phase 3: the model satisfies the checker on all three kinds of case. *)
From Coq Require Import List NArith Bool Arith Lia Permutation String.
Import ListNotations.
From TV Require Import Lib.Obs C48.Model C48.Spec C48.Proofs C48.Proofs2 C48.Proofs3 C48.Proofs4 C48.Run.
Local Open Scope N_scope.

Lemma list_eqb_N_refl : forall l, list_eqb N.eqb l l = true.
Proof. induction l as [|x l IH]; simpl; [reflexivity|]. rewrite N.eqb_refl. exact IH. Qed.

Definition wf_url (u : url_in) : Prop :=
  let '(_, _, _, host, port, _) := u in
  ~ In 64 host /\ (forall p, port = Some p -> ~ In 64 p /\ ~ In 58 p) /\ (port = None -> ~ In 58 host).

Theorem sign_satisfies_checker : forall v m sc ui host port path ps cs tok,
  wf_url (m, sc, ui, host, port, path) ->
  check_case (ISign v (m, sc, ui, host, port, path, ps, cs, tok))
             (run_case (ISign v (m, sc, ui, host, port, path, ps, cs, tok))) = true.
Proof.
  intros v m sc ui host port path ps cs tok (H1 & H2 & H3).
  unfold check_case, run_case, spec_base. rewrite spec_params_eq.
  rewrite base_string_is_rfc by assumption. rewrite key_of_is_rfc.
  change (spec_tok tok) with (token_secret tok).
  cbn [obs_eqb]. rewrite !list_eqb_N_refl. reflexivity.
Qed.

Lemma encoded_length_esc : forall s, List.length (esc s) = encoded_length s.
Proof.
  induction s as [|b s IH]; [reflexivity|].
  unfold esc in *. cbn [flat_map encoded_length fold_right]. rewrite app_length, IH.
  unfold esc_byte. rewrite <- unreserved_is_rfc. destruct (is_unreserved b); reflexivity.
Qed.

Theorem esc_satisfies_checker : forall s, bytes s -> check_case (IEsc s) (run_case (IEsc s)) = true.
Proof.
  intros s Hs. unfold check_case, run_case. rewrite unesc_esc by exact Hs.
  rewrite text_eqb_refl, encoded_length_esc, Nat.eqb_refl. reflexivity.
Qed.

Lemma run_req_returned : forall ck tk t n,
  map pair_obs (request_parameters [] ck tk t n)
  = [OList [OBytes K_CONSUMER_KEY; OBytes ck]; OList [OBytes K_TOKEN; OBytes tk];
     OList [OBytes K_SIGNATURE_METHOD; OBytes (txt "HMAC-SHA1")]; OList [OBytes K_TIMESTAMP; OBytes (dec t)];
     OList [OBytes K_NONCE; OBytes (hex_lower n)]; OList [OBytes K_VERSION; OBytes (txt "1.0")];
     OList [OBytes K_SIGNATURE; OTag SIG_TAG]].
Proof. intros. rewrite request_parameters_shape. reflexivity. Qed.

Theorem req_satisfies_checker : forall v m sc ui host port path user ck cs tk tsec t n,
  wf_url (m, sc, ui, host, port, path) -> NoDup (keys user) -> bytes n ->
  check_case (IReq v (m, sc, ui, host, port, path) user (ck, cs, tk, tsec) t n)
             (run_case (IReq v (m, sc, ui, host, port, path) user (ck, cs, tk, tsec) t n)) = true.
Proof.
  intros v m sc ui host port path user ck cs tk tsec t n (H1 & H2 & H3) ND Hn.
  unfold check_case, run_case. rewrite run_req_returned.
  cbv beta iota delta [check_req].
  rewrite dec_is_decimal, (hex_lower_is_hex n Hn), !text_eqb_refl.
  unfold request_key. rewrite key_of_is_rfc. cbn [token_secret]. rewrite text_eqb_refl.
  replace (list_eqb text_eqb [K_CONSUMER_KEY; K_TOKEN; K_SIGNATURE_METHOD; K_TIMESTAMP; K_NONCE; K_VERSION; K_SIGNATURE]
                    protocol_names) with true by (vm_compute; reflexivity).
  replace (String.eqb SIG_TAG SIG_TAG) with true by (vm_compute; reflexivity).
  cbn [andb]. apply text_eqb_eq.
  unfold request_base, spec_base. rewrite base_string_is_rfc by assumption. f_equal.
  rewrite spec_params_eq. apply normalized_parameters_perm.
  change [(K_CONSUMER_KEY, ck); (K_TOKEN, tk); (K_SIGNATURE_METHOD, txt "HMAC-SHA1"); (K_TIMESTAMP, dec t);
          (K_NONCE, hex_lower n); (K_VERSION, txt "1.0")] with (base_args ck tk t n).
  apply signed_args_is_spec. exact ND.
Qed.
