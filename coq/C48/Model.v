(* C48 — OAuth 1.0 / 1.0a signature base string and key (tornado/auth.py
   _oauth_signature, _oauth10a_signature, _oauth_normalized_netloc,
   _oauth_normalized_parameters, _oauth_escape).  Byte strings = list N.
   Definitions only. *)
From Coq Require Import List NArith Bool Arith.
Import ListNotations.
Local Open Scope N_scope.

Definition text := list N.

(* urllib.parse.quote(val, safe="~") on bytes *)
Definition is_unreserved (b : N) : bool :=
  ((48 <=? b) && (b <=? 57)) || ((65 <=? b) && (b <=? 90)) || ((97 <=? b) && (b <=? 122))
  || (b =? 95) || (b =? 46) || (b =? 45) || (b =? 126).
Definition hexdigit (n : N) : N := if n <? 10 then 48 + n else 55 + n.
Definition esc_byte (b : N) : text :=
  if is_unreserved b then [b] else [37; hexdigit (b / 16); hexdigit (b mod 16)].
Definition esc (s : text) : text := flat_map esc_byte s.

Definition lower_c (c : N) : N := if (65 <=? c) && (c <=? 90) then c + 32 else c.
Definition upper_c (c : N) : N := if (97 <=? c) && (c <=? 122) then c - 32 else c.
Definition lower (s : text) : text := map lower_c s.
Definition upper (s : text) : text := map upper_c s.

Fixpoint text_eqb (a b : text) : bool :=
  match a, b with
  | [], [] => true
  | x :: a', y :: b' => (x =? y) && text_eqb a' b'
  | _, _ => false
  end.

(* s.rpartition(c): (head, found?, tail) *)
Fixpoint rpart_aux (c : N) (s : text) (acc_rev : text) : option (text * text) :=
  (* scanning the REVERSED string: acc_rev collects the tail (reversed back) *)
  match s with
  | [] => None
  | x :: s' => if x =? c then Some (rev s', acc_rev) else rpart_aux c s' (x :: acc_rev)
  end.
Definition rpartition (c : N) (s : text) : option (text * text) := rpart_aux c (rev s) [].

Definition HTTP : text := [104;116;116;112].
Definition HTTPS : text := [104;116;116;112;115].
Definition P80 : text := [56;48].
Definition P443 : text := [52;52;51].

(* netloc.rpartition("@")[2] *)
Definition strip_userinfo (netloc : text) : text :=
  match rpartition 64 netloc with Some (_, t) => t | None => netloc end.

(* _oauth_normalized_netloc *)
Definition normalized_netloc (scheme netloc : text) : text :=
  let nl := lower (strip_userinfo netloc) in
  match rpartition 58 nl with
  | Some (host, port) =>
      let sc := lower scheme in
      if (text_eqb sc HTTP && text_eqb port P80) || (text_eqb sc HTTPS && text_eqb port P443)
      then host else nl
  | None => nl
  end.

(* Python's ordering of str / tuples of str restricted to these byte strings *)
Fixpoint lex_cmp (a b : text) : comparison :=
  match a, b with
  | [], [] => Eq
  | [], _ :: _ => Lt
  | _ :: _, [] => Gt
  | x :: a', y :: b' => match N.compare x y with Eq => lex_cmp a' b' | c => c end
  end.
Definition pair_cmp (p q : text * text) : comparison :=
  match lex_cmp (fst p) (fst q) with Eq => lex_cmp (snd p) (snd q) | c => c end.
Definition pair_leb (p q : text * text) : bool :=
  match pair_cmp p q with Gt => false | _ => true end.

Fixpoint insert (p : text * text) (l : list (text * text)) : list (text * text) :=
  match l with
  | [] => [p]
  | q :: l' => if pair_leb p q then p :: l else q :: insert p l'
  end.
Fixpoint isort (l : list (text * text)) : list (text * text) :=
  match l with [] => [] | p :: l' => insert p (isort l') end.

Definition AMP : N := 38.
Definition EQS : N := 61.
Fixpoint join_with (sep : N) (parts : list text) : text :=
  match parts with
  | [] => []
  | [p] => p
  | p :: ps => p ++ sep :: join_with sep ps
  end.
Definition kv (p : text * text) : text := fst p ++ EQS :: snd p.
Definition enc_pair (p : text * text) : text * text := (esc (fst p), esc (snd p)).

(* _oauth_normalized_parameters *)
Definition normalized_parameters (ps : list (text * text)) : text :=
  join_with AMP (map kv (isort (map enc_pair ps))).

Definition SCHEME_SEP : text := [58;47;47].
Definition normalized_url (scheme netloc path : text) : text :=
  lower scheme ++ SCHEME_SEP ++ normalized_netloc scheme netloc ++ path.

Definition base_string (method scheme netloc path : text) (ps : list (text * text)) : text :=
  join_with AMP (map esc [upper method; normalized_url scheme netloc path; normalized_parameters ps]).

(* both versions now encode both secrets (fix f833e02) *)
Definition signing_key (consumer_secret token_secret : text) : text :=
  esc consumer_secret ++ AMP :: esc token_secret.

(* ====================================================================== *)
(* Phase 3: the glue around the base string.                               *)
(* ====================================================================== *)
From Coq Require Import String Ascii Decimal.

(* the authority as Tornado sees it: optional "userinfo@", host, optional ":port" *)
Definition authority (ui : option text) (host : text) (port : option text) : text :=
  (match ui with Some u => u ++ [64] | None => [] end) ++ host
  ++ (match port with Some p => 58 :: p | None => [] end).

(* ASCII literal -> bytes *)
Definition txt (s : string) : text := map N_of_ascii (list_ascii_of_string s).

(* urllib.parse.quote(s, safe=<safe>) on bytes: _ALWAYS_SAFE (= is_unreserved since
   Python 3.7) plus the bytes of [safe]; everything else '%XX' (upper-case hex) *)
Definition quote_byte (safe : text) (b : N) : text :=
  if is_unreserved b || existsb (N.eqb b) safe then [b]
  else [37; hexdigit (b / 16); hexdigit (b mod 16)].
Definition py_quote (safe s : text) : text := flat_map (quote_byte safe) s.
Definition TILDE : text := [126].

Definition opt_text (f : text -> text) (o : option text) : text :=
  match o with Some t => f t | None => [] end.

(* key_elems / b"&".join(key_elems) of _oauth_signature: _oauth_escape of both secrets,
   "" when there is no token *)
Definition key_10 (cs : text) (tok : option text) : text :=
  join_with AMP [esc cs; opt_text esc tok].
(* ... and of _oauth10a_signature: urllib.parse.quote(secret, safe="~") *)
Definition key_10a (cs : text) (tok : option text) : text :=
  join_with AMP [py_quote TILDE cs; opt_text (py_quote TILDE) tok].
Definition key_of (v10a : bool) : text -> option text -> text := if v10a then key_10a else key_10.

(* ---------- OAuthMixin._oauth_request_parameters ---------- *)
(* binascii.b2a_hex *)
Definition hexl (n : N) : N := if n <? 10 then 48 + n else 87 + n.
Definition hex_lower (s : text) : text := flat_map (fun b => [hexl (b / 16); hexl (b mod 16)]) s.

(* str(int) for a non-negative int *)
Fixpoint uint_text (u : Decimal.uint) : text :=
  match u with
  | Nil => []
  | D0 u => 48 :: uint_text u | D1 u => 49 :: uint_text u | D2 u => 50 :: uint_text u
  | D3 u => 51 :: uint_text u | D4 u => 52 :: uint_text u | D5 u => 53 :: uint_text u
  | D6 u => 54 :: uint_text u | D7 u => 55 :: uint_text u | D8 u => 56 :: uint_text u
  | D9 u => 57 :: uint_text u
  end.
Definition dec (n : N) : text := uint_text (N.to_uint n).

(* a dict as an association list in insertion order; d[k] = v and d.update(u) *)
Definition pdict := list (text * text).
Fixpoint dict_set (k v : text) (d : pdict) : pdict :=
  match d with
  | [] => [(k, v)]
  | (k', v') :: d' => if text_eqb k k' then (k, v) :: d' else (k', v') :: dict_set k v d'
  end.
Definition dict_update (d u : pdict) : pdict :=
  fold_left (fun d kv => dict_set (fst kv) (snd kv) d) u d.

Definition K_CONSUMER_KEY := txt "oauth_consumer_key".
Definition K_TOKEN := txt "oauth_token".
Definition K_SIGNATURE_METHOD := txt "oauth_signature_method".
Definition K_TIMESTAMP := txt "oauth_timestamp".
Definition K_NONCE := txt "oauth_nonce".
Definition K_VERSION := txt "oauth_version".
Definition K_SIGNATURE := txt "oauth_signature".

(* base_args; [time] = int(time.time()), [nonce] = uuid.uuid4().bytes *)
Definition base_args (ck tk : text) (time : N) (nonce : text) : pdict :=
  [(K_CONSUMER_KEY, ck); (K_TOKEN, tk); (K_SIGNATURE_METHOD, txt "HMAC-SHA1");
   (K_TIMESTAMP, dec time); (K_NONCE, hex_lower nonce); (K_VERSION, txt "1.0")].

(* args = {}; args.update(base_args); args.update(parameters) *)
Definition signed_args (ck tk : text) (time : N) (nonce : text) (user : pdict) : pdict :=
  dict_update (dict_update [] (base_args ck tk time nonce)) user.

(* the (key, text) handed to HMAC-SHA1 by _oauth_request_parameters *)
Definition request_key (v10a : bool) (cs tsec : text) : text := key_of v10a cs (Some tsec).
Definition request_base (method scheme netloc path ck tk : text) (time : N) (nonce : text) (user : pdict) : text :=
  base_string method scheme netloc path (signed_args ck tk time nonce user).

(* base_args["oauth_signature"] = signature; return base_args *)
Definition request_parameters (sig ck tk : text) (time : N) (nonce : text) : pdict :=
  dict_set K_SIGNATURE sig (base_args ck tk time nonce).
