(* C48 — OAuth 1.0 / 1.0a signature base string and key (tornado/auth.py
   _oauth_signature, _oauth10a_signature, _oauth_normalized_netloc,
   _oauth_normalized_parameters, _oauth_escape).  Byte strings = list N.
   Definitions only. *)
From Coq Require Import List NArith Bool Arith.
Import ListNotations.
Local Open Scope N_scope.

Definition text := list N.

(* urllib.parse.quote(val, safe="~") on bytes *)
Definition is_unreserved (b : N) : bool :=
  ((48 <=? b) && (b <=? 57)) || ((65 <=? b) && (b <=? 90)) || ((97 <=? b) && (b <=? 122))
  || (b =? 95) || (b =? 46) || (b =? 45) || (b =? 126).
Definition hexdigit (n : N) : N := if n <? 10 then 48 + n else 55 + n.
Definition esc_byte (b : N) : text :=
  if is_unreserved b then [b] else [37; hexdigit (b / 16); hexdigit (b mod 16)].
Definition esc (s : text) : text := flat_map esc_byte s.

Definition lower_c (c : N) : N := if (65 <=? c) && (c <=? 90) then c + 32 else c.
Definition upper_c (c : N) : N := if (97 <=? c) && (c <=? 122) then c - 32 else c.
Definition lower (s : text) : text := map lower_c s.
Definition upper (s : text) : text := map upper_c s.

Fixpoint text_eqb (a b : text) : bool :=
  match a, b with
  | [], [] => true
  | x :: a', y :: b' => (x =? y) && text_eqb a' b'
  | _, _ => false
  end.

(* s.rpartition(c): (head, found?, tail) *)
Fixpoint rpart_aux (c : N) (s : text) (acc_rev : text) : option (text * text) :=
  (* scanning the REVERSED string: acc_rev collects the tail (reversed back) *)
  match s with
  | [] => None
  | x :: s' => if x =? c then Some (rev s', acc_rev) else rpart_aux c s' (x :: acc_rev)
  end.
Definition rpartition (c : N) (s : text) : option (text * text) := rpart_aux c (rev s) [].

Definition HTTP : text := [104;116;116;112].
Definition HTTPS : text := [104;116;116;112;115].
Definition P80 : text := [56;48].
Definition P443 : text := [52;52;51].

(* netloc.rpartition("@")[2] *)
Definition strip_userinfo (netloc : text) : text :=
  match rpartition 64 netloc with Some (_, t) => t | None => netloc end.

(* _oauth_normalized_netloc *)
Definition normalized_netloc (scheme netloc : text) : text :=
  let nl := lower (strip_userinfo netloc) in
  match rpartition 58 nl with
  | Some (host, port) =>
      let sc := lower scheme in
      if (text_eqb sc HTTP && text_eqb port P80) || (text_eqb sc HTTPS && text_eqb port P443)
      then host else nl
  | None => nl
  end.

(* Python's ordering of str / tuples of str restricted to these byte strings *)
Fixpoint lex_cmp (a b : text) : comparison :=
  match a, b with
  | [], [] => Eq
  | [], _ :: _ => Lt
  | _ :: _, [] => Gt
  | x :: a', y :: b' => match N.compare x y with Eq => lex_cmp a' b' | c => c end
  end.
Definition pair_cmp (p q : text * text) : comparison :=
  match lex_cmp (fst p) (fst q) with Eq => lex_cmp (snd p) (snd q) | c => c end.
Definition pair_leb (p q : text * text) : bool :=
  match pair_cmp p q with Gt => false | _ => true end.

Fixpoint insert (p : text * text) (l : list (text * text)) : list (text * text) :=
  match l with
  | [] => [p]
  | q :: l' => if pair_leb p q then p :: l else q :: insert p l'
  end.
Fixpoint isort (l : list (text * text)) : list (text * text) :=
  match l with [] => [] | p :: l' => insert p (isort l') end.

Definition AMP : N := 38.
Definition EQS : N := 61.
Fixpoint join_with (sep : N) (parts : list text) : text :=
  match parts with
  | [] => []
  | [p] => p
  | p :: ps => p ++ sep :: join_with sep ps
  end.
Definition kv (p : text * text) : text := fst p ++ EQS :: snd p.
Definition enc_pair (p : text * text) : text * text := (esc (fst p), esc (snd p)).

(* _oauth_normalized_parameters *)
Definition normalized_parameters (ps : list (text * text)) : text :=
  join_with AMP (map kv (isort (map enc_pair ps))).

Definition SCHEME_SEP : text := [58;47;47].
Definition normalized_url (scheme netloc path : text) : text :=
  lower scheme ++ SCHEME_SEP ++ normalized_netloc scheme netloc ++ path.

Definition base_string (method scheme netloc path : text) (ps : list (text * text)) : text :=
  join_with AMP (map esc [upper method; normalized_url scheme netloc path; normalized_parameters ps]).

(* both versions now encode both secrets (fix f833e02) *)
Definition signing_key (consumer_secret token_secret : text) : text :=
  esc consumer_secret ++ AMP :: esc token_secret.
