(* C48 -- the source texts (normalised by ast.unparse) of the parts of tornado/auth.py that the model of
   C48/Model.v was written from and that are NOT translated structurally: the two signature functions
   without their key statements, _oauth_normalized_netloc, _oauth_normalized_parameters and
   OAuthMixin._oauth_request_parameters.  Gen/C48_equiv.v proves the regenerated texts equal to these,
   so any edit of those functions is a broken obligation until the model is revisited.  Definitions only. *)
From Coq Require Import String.
Definition expected_rest_signature : string :=
"def _oauth_signature(consumer_token: dict[str, Any], method: str, url: str, parameters: dict[str, Any]={}, token: dict[str, Any] | None=None) -> bytes:
    parts = urllib.parse.urlsplit(url)
    scheme, netloc, path = parts[:3]
    normalized_url = scheme.lower() + '://' + _oauth_normalized_netloc(scheme, netloc) + path
    base_elems = []
    base_elems.append(method.upper())
    base_elems.append(normalized_url)
    base_elems.append(_oauth_normalized_parameters(parameters))
    base_string = '&'.join((_oauth_escape(e) for e in base_elems))
    hash = hmac.new(key, escape.utf8(base_string), hashlib.sha1)
    return binascii.b2a_base64(hash.digest())[:-1]"%string.
Definition expected_rest_signature10a : string :=
"def _oauth10a_signature(consumer_token: dict[str, Any], method: str, url: str, parameters: dict[str, Any]={}, token: dict[str, Any] | None=None) -> bytes:
    parts = urllib.parse.urlsplit(url)
    scheme, netloc, path = parts[:3]
    normalized_url = scheme.lower() + '://' + _oauth_normalized_netloc(scheme, netloc) + path
    base_elems = []
    base_elems.append(method.upper())
    base_elems.append(normalized_url)
    base_elems.append(_oauth_normalized_parameters(parameters))
    base_string = '&'.join((_oauth_escape(e) for e in base_elems))
    hash = hmac.new(key, escape.utf8(base_string), hashlib.sha1)
    return binascii.b2a_base64(hash.digest())[:-1]"%string.
Definition expected_normalized_netloc : string :=
"def _oauth_normalized_netloc(scheme: str, netloc: str) -> str:
    netloc = netloc.rpartition('@')[2].lower()
    host, sep, port = netloc.rpartition(':')
    if sep and (scheme.lower(), port) in (('http', '80'), ('https', '443')):
        netloc = host
    return netloc"%string.
Definition expected_normalized_parameters : string :=
"def _oauth_normalized_parameters(parameters: dict[str, Any]) -> str:
    pairs = sorted(((_oauth_escape(str(k)), _oauth_escape(str(v))) for k, v in parameters.items()))
    return '&'.join((f'{k}={v}' for k, v in pairs))"%string.
Definition expected_request_parameters : string :=
"def _oauth_request_parameters(self, url: str, access_token: dict[str, Any], parameters: dict[str, Any]={}, method: str='GET') -> dict[str, Any]:
    consumer_token = self._oauth_consumer_token()
    base_args = dict(oauth_consumer_key=escape.to_basestring(consumer_token['key']), oauth_token=escape.to_basestring(access_token['key']), oauth_signature_method='HMAC-SHA1', oauth_timestamp=str(int(time.time())), oauth_nonce=escape.to_basestring(binascii.b2a_hex(uuid.uuid4().bytes)), oauth_version='1.0')
    args = {}
    args.update(base_args)
    args.update(parameters)
    if getattr(self, '_OAUTH_VERSION', '1.0a') == '1.0a':
        signature = _oauth10a_signature(consumer_token, method, url, args, access_token)
    else:
        signature = _oauth_signature(consumer_token, method, url, args, access_token)
    base_args['oauth_signature'] = escape.to_basestring(signature)
    return base_args"%string.
