From Coq Require Import List NArith String Bool.
Import ListNotations.
From TV Require Import Lib.Obs C48.Model C48.Spec C48.ModelP4.

(* one signature: (method, scheme, userinfo, host, port, path, params, consumer secret, token secret or no token) *)
Definition sign_in := (list N * list N * option (list N) * list N * option (list N) * list N
                       * list (list N * list N) * list N * option (list N))%type.
(* (method, scheme, userinfo, host, port, path) *)
Definition url_in := (list N * list N * option (list N) * list N * option (list N) * list N)%type.
(* (consumer key, consumer secret, access token key, access token secret) *)
Definition cred_in := (list N * list N * list N * list N)%type.

(* (scheme, userinfo, host, port, path) of the class's token URL *)
Definition loc_in := (list N * option (list N) * list N * option (list N) * list N)%type.

Inductive input :=
| ISign (v10a : bool) (i : sign_in)                       (* _oauth_signature / _oauth10a_signature *)
| IReq (v10a : bool) (u : url_in) (user : list (list N * list N)) (c : cred_in)
       (time : N) (nonce : list N)                         (* OAuthMixin._oauth_request_parameters *)
| IEsc (s : list N)                                        (* _oauth_escape *)
| IReqTok (v10a : bool) (l : loc_in) (cbu : option (list N)) (joined : list N)
          (extra : list (list N * list N)) (ck cs : list N) (time : N) (nonce : list N)
                                                           (* OAuthMixin._oauth_request_token_url *)
| IAccTok (v10a : bool) (l : loc_in) (c : cred_in) (verifier : option (list N)) (time : N) (nonce : list N).
                                                           (* OAuthMixin._oauth_access_token_url *)

Definition SIG_TAG : string := "HmacSha1Base64".
Definition pair_obs (kv : text * text) : obs :=
  if text_eqb (fst kv) K_SIGNATURE then OList [OBytes (fst kv); OTag SIG_TAG]
  else OList [OBytes (fst kv); OBytes (snd kv)].

(* the harness replaces the (verified) signature value in the produced URL by "@" *)
Definition SIG_PLACEHOLDER : text := [64%N].

Definition run_case (i : input) : obs :=
  match i with
  | ISign v (m, sc, ui, host, port, path, ps, cs, tok) =>
      OList [OBytes (key_of v cs tok); OBytes (base_string m sc (authority ui host port) path ps)]
  | IReq v (m, sc, ui, host, port, path) user (ck, cs, tk, tsec) t n =>
      OList [OBytes (request_key v cs tsec);
             OBytes (request_base m sc (authority ui host port) path ck tk t n user);
             OList (map pair_obs (request_parameters [] ck tk t n))]
  | IEsc s => OBytes (esc s)
  | IReqTok v (sc, ui, host, port, path) cbu joined extra ck cs t n =>
      OList [OBytes (reqtok_key v cs);
             OBytes (reqtok_msg v sc ui host port path ck t n cbu joined extra);
             OBytes (reqtok_url SIG_PLACEHOLDER v sc ui host port path ck t n cbu joined extra)]
  | IAccTok v (sc, ui, host, port, path) (ck, cs, tk, tsec) vf t n =>
      OList [OBytes (acctok_key v cs tsec);
             OBytes (acctok_msg sc ui host port path ck tk t n vf);
             OBytes (acctok_url SIG_PLACEHOLDER sc ui host port path ck tk t n vf)]
  end.

(* the property: the (key, text) handed to HMAC-SHA1 are the ones RFC 5849 defines; for a request
   the signed parameter set is the request's parameters plus the returned protocol parameters, whose
   timestamp and nonce are the numerals of the clock and the UUID; the encoding decodes back *)
Definition spec_tok (tok : option text) : text := match tok with Some t => t | None => [] end.

Definition encoded_length (s : text) : nat :=
  fold_right (fun b acc => ((if mem b rfc_unreserved then 1 else 3) + acc)%nat) 0%nat s.

Definition check_req (u : url_in) (user : list (text * text)) (c : cred_in) (t : N) (n : text) (o : obs) : bool :=
  let '(m, sc, ui, host, port, path) := u in
  let '(ck, cs, tk, tsec) := c in
  match o with
  | OList [OBytes k; OBytes b;
           OList [OList [OBytes n1; OBytes v1]; OList [OBytes n2; OBytes v2]; OList [OBytes n3; OBytes v3];
                  OList [OBytes n4; OBytes v4]; OList [OBytes n5; OBytes v5]; OList [OBytes n6; OBytes v6];
                  OList [OBytes n7; OTag tg]]] =>
      text_eqb k (spec_key cs tsec)
      && list_eqb text_eqb [n1; n2; n3; n4; n5; n6; n7] protocol_names
      && text_eqb v1 ck && text_eqb v2 tk && text_eqb v3 (txt "HMAC-SHA1")
      && is_decimal_of t v4 && is_hex_of n v5 && text_eqb v6 (txt "1.0") && String.eqb tg SIG_TAG
      && text_eqb b (spec_base m sc host port path
                               (spec_signed [(n1, v1); (n2, v2); (n3, v3); (n4, v4); (n5, v5); (n6, v6)] user))
  | _ => false
  end.

Definition check_case (i : input) (o : obs) : bool :=
  match i with
  | ISign v (m, sc, ui, host, port, path, ps, cs, tok) =>
      obs_eqb o (OList [OBytes (spec_key cs (spec_tok tok)); OBytes (spec_base m sc host port path ps)])
  | IReq v u user c t n => check_req u user c t n o
  | IEsc s =>
      match o with
      | OBytes r => match unesc r with Some s' => text_eqb s' s | None => false end
                    && Nat.eqb (List.length r) (encoded_length s)
      | _ => false
      end
  | IReqTok v (sc, ui, host, port, path) cbu joined extra ck cs t n =>
      (* signed: the five protocol parameters, and for 1.0a the callback and extra_params (which may
         replace them); key: consumer secret and an empty token secret *)
      let cb := match cbu with
                | None => []
                | Some u => if text_eqb u OOB then [(K_CALLBACK, OOB)]
                            else if Nat.eqb (List.length u) 0 then [] else [(K_CALLBACK, joined)]
                end in
      let signed := if v then spec_signed (reqtok_base ck t n ++ cb) extra else reqtok_base ck t n in
      obs_eqb o (OList [OBytes (spec_key cs []); OBytes (spec_base GET sc host port path signed);
                        OBytes (reqtok_url SIG_PLACEHOLDER v sc ui host port path ck t n cbu joined extra)])
  | IAccTok v (sc, ui, host, port, path) (ck, cs, tk, tsec) vf t n =>
      let signed := base_args ck tk t n ++ match vf with Some x => [(K_VERIFIER, x)] | None => [] end in
      obs_eqb o (OList [OBytes (spec_key cs tsec); OBytes (spec_base GET sc host port path signed);
                        OBytes (acctok_url SIG_PLACEHOLDER sc ui host port path ck tk t n vf)])
  end.
