From Coq Require Import List NArith String Bool.
Import ListNotations.
From TV Require Import Lib.Obs C48.Model C48.Spec C48.Proofs2.

(* input: (method, scheme, userinfo, host, port, path, params, consumer secret, token secret) *)
Definition input := (list N * list N * option (list N) * list N * option (list N) * list N
                     * list (list N * list N) * list N * list N)%type.

Definition run_case (i : input) : obs :=
  let '(m, sc, ui, host, port, path, ps, cs, ts) := i in
  OList [OBytes (signing_key cs ts); OBytes (base_string m sc (authority ui host port) path ps)].

(* the property: the (key, text) handed to HMAC-SHA1 are the ones RFC 5849 defines *)
Definition check_case (i : input) (o : obs) : bool :=
  let '(m, sc, ui, host, port, path, ps, cs, ts) := i in
  obs_eqb o (OList [OBytes (spec_key cs ts); OBytes (spec_base m sc host port path ps)]).
