(* C48 phase 3: OAuthMixin._oauth_request_parameters -- which parameter set is signed, what is
   returned, and that a verifying server recomputes the same normalised parameters. *)
From Coq Require Import List NArith Bool Arith Lia Permutation Sorted DecimalN Decimal.
Import ListNotations.
From TV Require Import C48.Model C48.Spec C48.Proofs C48.Proofs2 C48.Proofs3.
Local Open Scope N_scope.

Definition keys (d : pdict) : list text := map fst d.

Lemma text_eqb_refl : forall a, text_eqb a a = true.
Proof. intro a. apply text_eqb_eq. reflexivity. Qed.
Lemma text_eqb_neq : forall a b, a <> b -> text_eqb a b = false.
Proof. intros a b H. destruct (text_eqb a b) eqn:E; [apply text_eqb_eq in E; contradiction|reflexivity]. Qed.
Lemma text_eqb_sym : forall a b, text_eqb a b = text_eqb b a.
Proof.
  intros a b. destruct (text_eqb a b) eqn:E.
  - apply text_eqb_eq in E. subst. symmetry. apply text_eqb_refl.
  - symmetry. apply text_eqb_neq. intro H. subst. rewrite text_eqb_refl in E. discriminate.
Qed.

Lemma has_key_In : forall k d, has_key k d = true <-> In k (keys d).
Proof.
  intros k d. unfold has_key, keys. rewrite existsb_exists, in_map_iff. split.
  - intros (kv & I & E). apply text_eqb_eq in E. exists kv. auto.
  - intros (kv & E & I). exists kv. split; [exact I|]. apply text_eqb_eq. auto.
Qed.
Lemma has_key_false : forall k d, ~ In k (keys d) -> has_key k d = false.
Proof. intros k d H. destruct (has_key k d) eqn:E; [apply has_key_In in E; contradiction|reflexivity]. Qed.

(* ---------- d[k] = v ---------- *)
Definition other (k : text) (kv : text * text) : bool := negb (text_eqb (fst kv) k).

Lemma filter_other_cons : forall k k' v' d,
  filter (other k) ((k', v') :: d)
  = if negb (text_eqb k' k) then (k', v') :: filter (other k) d else filter (other k) d.
Proof. reflexivity. Qed.

Lemma filter_other_notin : forall k d, ~ In k (keys d) -> filter (other k) d = d.
Proof.
  induction d as [|[k' v'] d IH]; intro H; [reflexivity|]. rewrite filter_other_cons.
  rewrite text_eqb_neq by (intro E; apply H; left; exact E). cbn [negb]. f_equal.
  apply IH. intro I. apply H. right. exact I.
Qed.

Lemma dict_set_perm : forall k v d, NoDup (keys d) ->
  Permutation (dict_set k v d) ((k, v) :: filter (other k) d).
Proof.
  induction d as [|[k' v'] d IH]; intro ND; cbn [dict_set].
  - apply Permutation_refl.
  - inversion ND as [|? ? NI ND']; subst. rewrite filter_other_cons.
    destruct (text_eqb k k') eqn:E.
    + apply text_eqb_eq in E. subst k'. rewrite text_eqb_refl. cbn [negb].
      rewrite filter_other_notin by exact NI. apply Permutation_refl.
    + rewrite text_eqb_sym, E. cbn [negb].
      eapply perm_trans; [apply perm_skip, IH, ND'|apply perm_swap].
Qed.

Lemma keys_dict_set : forall k v d k', In k' (keys (dict_set k v d)) <-> k' = k \/ In k' (keys d).
Proof.
  induction d as [|[k0 v0] d IH]; intro k'; cbn [dict_set].
  - cbn. intuition.
  - destruct (text_eqb k k0) eqn:E.
    + apply text_eqb_eq in E. subst k0. cbn. intuition.
    + cbn [keys map fst In]. unfold keys in IH. rewrite IH. intuition.
Qed.

Lemma dict_set_nodup : forall k v d, NoDup (keys d) -> NoDup (keys (dict_set k v d)).
Proof.
  induction d as [|[k0 v0] d IH]; intro ND; cbn [dict_set].
  - cbn. constructor; [intros []|constructor].
  - inversion ND as [|? ? NI ND']; subst. destruct (text_eqb k k0) eqn:E.
    + apply text_eqb_eq in E. subst k0. cbn. constructor; assumption.
    + cbn [keys map fst]. constructor; [|apply IH, ND'].
      intro I. apply keys_dict_set in I as [I|I]; [|contradiction].
      subst k0. rewrite text_eqb_refl in E. discriminate.
Qed.

Lemma filter_perm : forall (f : text * text -> bool) l l', Permutation l l' -> Permutation (filter f l) (filter f l').
Proof.
  intros f l l' P. induction P as [|x l l' P IH|x y l|l l' l'' P1 IH1 P2 IH2]; cbn [filter].
  - constructor.
  - destruct (f x); [apply perm_skip|]; exact IH.
  - destruct (f x), (f y); try apply Permutation_refl. apply perm_swap.
  - eapply perm_trans; eauto.
Qed.

Lemma filter_filter : forall (f g : text * text -> bool) l,
  filter f (filter g l) = filter (fun x => g x && f x) l.
Proof.
  induction l as [|x l IH]; [reflexivity|]. cbn [filter].
  destruct (g x); cbn [andb filter]; [destruct (f x)|]; rewrite IH; reflexivity.
Qed.

Lemma filter_all : forall (f : text * text -> bool) l, (forall x, In x l -> f x = true) -> filter f l = l.
Proof.
  induction l as [|x l IH]; intro H; [reflexivity|]. cbn [filter].
  rewrite (H x) by (left; reflexivity). f_equal. apply IH. intros y I. apply H. right. exact I.
Qed.

(* ---------- d.update(u) is the RFC parameter set ---------- *)
Theorem dict_update_is_spec : forall u d, NoDup (keys u) -> NoDup (keys d) ->
  Permutation (dict_update d u) (spec_signed d u).
Proof.
  induction u as [|[k v] u IH]; intros d NU ND; unfold dict_update, spec_signed in *; cbn [fold_left fst snd].
  - rewrite app_nil_r. rewrite filter_all; [apply Permutation_refl|]. intros x _. reflexivity.
  - inversion NU as [|? ? NI NU']; subst.
    eapply perm_trans; [apply IH; [exact NU'|apply dict_set_nodup, ND]|].
    eapply perm_trans; [apply Permutation_app_tail, filter_perm, dict_set_perm, ND|].
    cbn [filter fst]. rewrite (has_key_false k u NI). cbn [negb].
    rewrite filter_filter.
    rewrite (filter_ext (fun x => other k x && negb (has_key (fst x) u))
                        (fun kv => negb (has_key (fst kv) ((k, v) :: u)))).
    + change ((k, v) :: filter (fun kv => negb (has_key (fst kv) ((k, v) :: u))) d ++ u)
        with (((k, v) :: filter (fun kv => negb (has_key (fst kv) ((k, v) :: u))) d) ++ u).
      apply Permutation_sym. eapply perm_trans; [apply Permutation_sym, Permutation_middle|].
      apply Permutation_refl.
    + intros [k0 v0]. unfold other, has_key. cbn [existsb fst]. rewrite negb_orb. reflexivity.
Qed.

(* ---------- normalisation does not depend on the order of the parameters ---------- *)
Lemma rfc_normalized_perm : forall a b s, Permutation a b -> rfc_normalized a s -> rfc_normalized b s.
Proof.
  intros a b s P (L & PL & S & E). exists L. repeat split; auto.
  eapply perm_trans; [exact PL|apply Permutation_map, P].
Qed.
Theorem normalized_parameters_perm : forall a b, Permutation a b -> normalized_parameters a = normalized_parameters b.
Proof.
  intros a b P. apply rfc_normalized_unique. eapply rfc_normalized_perm; [exact P|apply normalized_parameters_is_rfc].
Qed.

(* ---------- the protocol parameters ---------- *)
Lemma base_dict : forall ck tk t n, dict_update [] (base_args ck tk t n) = base_args ck tk t n.
Proof. intros. vm_compute. reflexivity. Qed.

Lemma request_parameters_shape : forall sig ck tk t n,
  request_parameters sig ck tk t n = base_args ck tk t n ++ [(K_SIGNATURE, sig)].
Proof. intros. vm_compute. reflexivity. Qed.

Lemma protocol_names_nodup : NoDup protocol_names.
Proof.
  vm_compute. repeat constructor; cbn [In]; intro H;
    repeat (destruct H as [H|H]; [discriminate H|]); exact H.
Qed.

Lemma keys_request_parameters : forall sig ck tk t n, keys (request_parameters sig ck tk t n) = protocol_names.
Proof. intros. vm_compute. reflexivity. Qed.

Lemma keys_base_args : forall ck tk t n, keys (base_args ck tk t n) ++ [K_SIGNATURE] = protocol_names.
Proof. intros. vm_compute. reflexivity. Qed.

Lemma base_args_nodup : forall ck tk t n, NoDup (keys (base_args ck tk t n)).
Proof.
  intros. pose proof protocol_names_nodup as H. rewrite <- (keys_base_args ck tk t n) in H.
  rewrite <- (app_nil_r (keys (base_args ck tk t n))). apply NoDup_remove_1 with (a := K_SIGNATURE). exact H.
Qed.

Theorem signed_args_is_spec : forall ck tk t n user, NoDup (keys user) ->
  Permutation (signed_args ck tk t n user) (spec_signed (base_args ck tk t n) user).
Proof.
  intros. unfold signed_args. rewrite base_dict. apply dict_update_is_spec; [assumption|apply base_args_nodup].
Qed.

(* the returned dict never contains anything but the seven protocol parameters, whatever the
   request's own parameters are; the signature is the last of them *)
Theorem request_parameter_names : forall sig ck tk t n,
  map fst (request_parameters sig ck tk t n) = protocol_names
  /\ last (request_parameters sig ck tk t n) ([], []) = (K_SIGNATURE, sig).
Proof. intros. split; vm_compute; reflexivity. Qed.

(* the signature over the request, for any MAC *)
Theorem request_signature_is_rfc :
  forall (mac : text -> text -> text) v method scheme ui host port path ck cs tk tsec t n user params,
  ~ In 64 host -> (forall p, port = Some p -> ~ In 64 p /\ ~ In 58 p) -> (port = None -> ~ In 58 host) ->
  NoDup (keys user) ->
  rfc_normalized (spec_signed (base_args ck tk t n) user) params ->
  mac (request_key v cs tsec) (request_base method scheme (authority ui host port) path ck tk t n user)
  = mac (spec_key cs tsec) (rfc_base_string method (rfc_base_uri scheme host port path) params).
Proof.
  intros mac v method scheme ui host port path ck cs tk tsec t n user params H1 H2 H3 ND R.
  unfold request_key, request_base. rewrite key_of_is_rfc. cbn [token_secret].
  rewrite base_string_is_rfc by assumption.
  rewrite (rfc_normalized_unique (signed_args ck tk t n user) params); [reflexivity|].
  eapply rfc_normalized_perm; [apply Permutation_sym, signed_args_is_spec, ND|exact R].
Qed.

(* what is sent: the request's parameters updated with the returned dict (twitter_request:
   args.update(oauth)); the server drops oauth_signature and normalises the rest *)
Definition sent_parameters (user ret : pdict) : pdict := dict_update user ret.

Theorem request_verifies : forall sig ck tk t n user,
  NoDup (keys user) -> (forall k, In k (keys user) -> ~ In k protocol_names) ->
  normalized_parameters (server_params (sent_parameters user (request_parameters sig ck tk t n)))
  = normalized_parameters (signed_args ck tk t n user).
Proof.
  intros sig ck tk t n user ND DJ. apply normalized_parameters_perm.
  assert (NR : NoDup (keys (request_parameters sig ck tk t n)))
    by (rewrite keys_request_parameters; apply protocol_names_nodup).
  eapply perm_trans.
  { unfold server_params. apply filter_perm. unfold sent_parameters. apply dict_update_is_spec; [exact NR|exact ND]. }
  eapply perm_trans; [|apply Permutation_sym, signed_args_is_spec, ND].
  unfold spec_signed.
  rewrite (filter_all _ user).
  2:{ intros [k v] I. cbn [fst]. rewrite has_key_false; [reflexivity|].
      rewrite keys_request_parameters. apply DJ. unfold keys. apply in_map_iff. exists (k, v). auto. }
  rewrite (filter_all _ (base_args ck tk t n)).
  2:{ intros [k v] I. cbn [fst]. rewrite has_key_false; [reflexivity|]. intro J. apply (DJ k J).
      rewrite <- (keys_base_args ck tk t n). apply in_or_app. left. unfold keys. apply in_map_iff. exists (k, v). auto. }
  unfold server_params. rewrite filter_app.
  rewrite (filter_all _ user).
  2:{ intros [k v] I. cbn [fst]. rewrite text_eqb_neq; [reflexivity|]. intro E. subst k.
      apply (DJ K_SIGNATURE); [unfold keys; apply in_map_iff; exists (K_SIGNATURE, v); auto|].
      vm_compute. tauto. }
  replace (filter (fun kv => negb (text_eqb (fst kv) K_SIGNATURE)) (request_parameters sig ck tk t n))
    with (base_args ck tk t n) by (vm_compute; reflexivity).
  apply Permutation_app_comm.
Qed.

(* without the disjointness the signed and the sent parameter sets differ: a request parameter
   named oauth_nonce is signed in place of the generated nonce but the generated nonce is what
   the returned dict carries *)
Theorem request_override_witness : exists sig ck tk t n user,
  NoDup (keys user) /\
  normalized_parameters (server_params (sent_parameters user (request_parameters sig ck tk t n)))
  <> normalized_parameters (signed_args ck tk t n user).
Proof.
  exists [], [99], [116], 1, [0], [(K_NONCE, [120])]. split.
  - repeat constructor. intros [].
  - vm_compute. discriminate.
Qed.

(* ---------- printing the timestamp and the nonce ---------- *)
Lemma parse_uint_text : forall u, parse_uint (uint_text u) = Some u.
Proof.
  unfold parse_uint. induction u; cbn [uint_text fold_right]; try reflexivity; rewrite IHu; reflexivity.
Qed.

Lemma uint_beq_refl : forall u, uint_beq u u = true.
Proof. induction u; cbn; auto. Qed.

Theorem dec_is_decimal : forall n, is_decimal_of n (dec n) = true.
Proof.
  intro n. unfold is_decimal_of, dec. rewrite parse_uint_text.
  rewrite DecimalN.Unsigned.of_to, N.eqb_refl. cbn [andb].
  assert (E : unorm (N.to_uint n) = N.to_uint n).
  { rewrite <- DecimalN.Unsigned.to_of, DecimalN.Unsigned.of_to. reflexivity. }
  rewrite E. apply uint_beq_refl.
Qed.

Lemma hexval_low_hexl : forall n, n < 16 -> hexval_low (hexl n) = Some n.
Proof.
  intros n H.
  assert (C : n = 0 \/ n = 1 \/ n = 2 \/ n = 3 \/ n = 4 \/ n = 5 \/ n = 6 \/ n = 7 \/ n = 8 \/ n = 9
              \/ n = 10 \/ n = 11 \/ n = 12 \/ n = 13 \/ n = 14 \/ n = 15) by lia.
  repeat (destruct C as [->|C]; [reflexivity|]). subst; reflexivity.
Qed.

Theorem hex_lower_is_hex : forall s, bytes s -> is_hex_of s (hex_lower s) = true.
Proof.
  induction 1 as [|b s Hb _ IH]; [reflexivity|].
  unfold hex_lower in *. cbn [flat_map]. change ([hexl (b / 16); hexl (b mod 16)] ++ ?x) with (hexl (b / 16) :: hexl (b mod 16) :: x). cbn [is_hex_of].
  rewrite !hexval_low_hexl.
  - rewrite IH, andb_true_r. apply N.eqb_eq. rewrite N.mul_comm. symmetry. apply N.div_mod. discriminate.
  - apply N.mod_lt. discriminate.
  - apply N.div_lt_upper_bound; [discriminate|exact Hb].
Qed.
