(* C48 phase 4: the token URLs of OAuthMixin (_oauth_request_token_url, _oauth_access_token_url). *)
From Coq Require Import List NArith Bool Arith Lia Permutation String.
Import ListNotations.
From TV Require Import Lib.Obs C48.Model C48.Spec C48.ModelP4 C48.Proofs C48.Proofs2 C48.Proofs3 C48.Proofs4 C48.Run C48.Proofs5.
Local Open Scope N_scope.

(* ---------- attaching the signature ---------- *)
Lemma dict_set_notin : forall k v d, ~ In k (keys d) -> dict_set k v d = d ++ [(k, v)].
Proof.
  induction d as [|[k0 v0] d IH]; intro H; cbn [dict_set]; [reflexivity|].
  rewrite text_eqb_neq by (intro E; apply H; left; symmetry; exact E).
  cbn [app]. f_equal. apply IH. intro I. apply H. right. exact I.
Qed.

Lemma server_params_notin : forall d, ~ In K_SIGNATURE (keys d) -> server_params d = d.
Proof.
  intros d H. unfold server_params. apply filter_all. intros [k v] I. cbn [fst].
  rewrite text_eqb_neq; [reflexivity|]. intro E. subst k. apply H. unfold keys. apply in_map_iff. exists (K_SIGNATURE, v). auto.
Qed.

(* the query carries the signed parameters and, last, the signature; dropping oauth_signature
   (RFC 5849 3.4.1.3.1) gives back exactly the signed parameters *)
Theorem attach_signature : forall sig d, ~ In K_SIGNATURE (keys d) ->
  dict_set K_SIGNATURE sig d = d ++ [(K_SIGNATURE, sig)] /\ server_params (dict_set K_SIGNATURE sig d) = d.
Proof.
  intros sig d H. rewrite dict_set_notin by exact H. split; [reflexivity|].
  unfold server_params. rewrite filter_app. fold (server_params d). rewrite server_params_notin by exact H.
  cbn [filter fst]. rewrite text_eqb_refl. cbn [negb]. apply app_nil_r.
Qed.

(* ---------- which parameters the request-token URL signs ---------- *)
Definition cb_pairs (cbu : option text) (joined : text) : pdict :=
  match cbu with
  | None => []
  | Some u => if text_eqb u OOB then [(K_CALLBACK, OOB)]
              else if Nat.eqb (List.length u) 0 then [] else [(K_CALLBACK, joined)]
  end.

Lemma with_callback_shape : forall cbu joined ck t n,
  with_callback cbu joined (reqtok_base ck t n) = reqtok_base ck t n ++ cb_pairs cbu joined.
Proof.
  intros [u|] joined ck t n; unfold with_callback, cb_pairs; [|symmetry; apply app_nil_r].
  destruct (text_eqb u OOB); [vm_compute; reflexivity|].
  destruct u as [|c u]; [symmetry; apply app_nil_r|]. cbn [List.length Nat.eqb]. vm_compute. reflexivity.
Qed.

Lemma reqtok_base_cb_nodup : forall cbu joined ck t n, NoDup (keys (reqtok_base ck t n ++ cb_pairs cbu joined)).
Proof.
  intros cbu joined ck t n.
  assert (A : NoDup (keys (reqtok_base ck t n) ++ [K_CALLBACK])).
  { vm_compute. repeat constructor; cbn [In]; intro H; repeat (destruct H as [H|H]; [discriminate H|]); exact H. }
  assert (B : NoDup (keys (reqtok_base ck t n))).
  { rewrite <- (app_nil_r (keys (reqtok_base ck t n))). apply NoDup_remove_1 with (a := K_CALLBACK). exact A. }
  unfold keys. rewrite map_app. unfold cb_pairs. destruct cbu as [u|]; [|rewrite app_nil_r; exact B].
  destruct (text_eqb u OOB); [exact A|]. destruct (Nat.eqb (List.length u) 0); [rewrite app_nil_r; exact B|exact A].
Qed.

(* 1.0a: the protocol parameters, the callback, then extra_params (which may replace them);
   1.0: neither the callback nor extra_params are signed or sent *)
Theorem reqtok_args_spec : forall ck t n cbu joined extra, NoDup (keys extra) ->
  Permutation (reqtok_args true ck t n cbu joined extra)
              (spec_signed (reqtok_base ck t n ++ cb_pairs cbu joined) extra)
  /\ reqtok_args false ck t n cbu joined extra = reqtok_base ck t n.
Proof.
  intros ck t n cbu joined extra ND. split; [|reflexivity].
  unfold reqtok_args. rewrite with_callback_shape. apply dict_update_is_spec; [exact ND|apply reqtok_base_cb_nodup].
Qed.

Lemma acctok_args_shape : forall ck tk t n vf,
  acctok_args ck tk t n vf = base_args ck tk t n ++ match vf with Some x => [(K_VERIFIER, x)] | None => [] end.
Proof. intros ck tk t n [x|]; [vm_compute; reflexivity|symmetry; apply app_nil_r]. Qed.

Lemma acctok_no_signature : forall ck tk t n vf, ~ In K_SIGNATURE (keys (acctok_args ck tk t n vf)).
Proof.
  intros ck tk t n vf. rewrite acctok_args_shape. destruct vf; vm_compute;
    intro H; repeat (destruct H as [H|H]; [discriminate H|]); exact H.
Qed.

Lemma keys_dict_update : forall u d k, In k (keys (dict_update d u)) -> In k (keys d) \/ In k (keys u).
Proof.
  induction u as [|[k0 v0] u IH]; intros d k H; unfold dict_update in *; cbn [fold_left fst snd] in H; [left; exact H|].
  apply IH in H as [H|H]; [|right; right; exact H].
  apply keys_dict_set in H as [->|H]; [right; left; reflexivity|left; exact H].
Qed.

Lemma reqtok_no_signature : forall v ck t n cbu joined extra, ~ In K_SIGNATURE (keys extra) ->
  ~ In K_SIGNATURE (keys (reqtok_args v ck t n cbu joined extra)).
Proof.
  intros v ck t n cbu joined extra HE.
  assert (B : forall cb, ~ In K_SIGNATURE (keys (reqtok_base ck t n ++ cb_pairs cb joined))).
  { intro cb. unfold keys. rewrite map_app. intro I. apply in_app_or in I as [I|I].
    - revert I. vm_compute. intro H; repeat (destruct H as [H|H]; [discriminate H|]); exact H.
    - unfold cb_pairs in I. destruct cb as [u|]; [|exact I].
      destruct (text_eqb u OOB); [|destruct (Nat.eqb (List.length u) 0); [exact I|]];
        cbn [map fst In] in I; destruct I as [I|[]]; revert I; vm_compute; discriminate. }
  destruct v; unfold reqtok_args.
  - rewrite with_callback_shape. intro I. apply keys_dict_update in I as [I|I]; [exact (B cbu I)|exact (HE I)].
  - intro I. apply (B None). rewrite app_nil_r. exact I.
Qed.

(* ---------- the attached signature is the RFC signature of the other parameters in the URL ---------- *)
Theorem reqtok_signature_is_rfc :
  forall (mac : text -> text -> text) v scheme ui host port path ck cs t n cbu joined extra params,
  ~ In 64 host -> (forall p, port = Some p -> ~ In 64 p /\ ~ In 58 p) -> (port = None -> ~ In 58 host) ->
  ~ In K_SIGNATURE (keys extra) ->
  let sig := mac (reqtok_key v cs) (reqtok_msg v scheme ui host port path ck t n cbu joined extra) in
  let query := dict_set K_SIGNATURE sig (reqtok_args v ck t n cbu joined extra) in
  reqtok_url sig v scheme ui host port path ck t n cbu joined extra
    = url_text scheme ui host port path ++ 63 :: urlencode_b query
  /\ (rfc_normalized (server_params query) params ->
      sig = mac (spec_key cs []) (rfc_base_string GET (rfc_base_uri scheme host port path) params)).
Proof.
  intros mac v scheme ui host port path ck cs t n cbu joined extra params H1 H2 H3 HE sig query.
  split; [reflexivity|]. intro R. unfold query in R.
  rewrite (proj2 (attach_signature sig _ (reqtok_no_signature v ck t n cbu joined extra HE))) in R.
  unfold sig, reqtok_key, reqtok_msg. rewrite key_of_is_rfc. cbn [token_secret].
  rewrite base_string_is_rfc by assumption.
  rewrite (rfc_normalized_unique _ params R). reflexivity.
Qed.

Theorem acctok_signature_is_rfc :
  forall (mac : text -> text -> text) v scheme ui host port path ck cs tk tsec t n vf params,
  ~ In 64 host -> (forall p, port = Some p -> ~ In 64 p /\ ~ In 58 p) -> (port = None -> ~ In 58 host) ->
  let sig := mac (acctok_key v cs tsec) (acctok_msg scheme ui host port path ck tk t n vf) in
  let query := dict_set K_SIGNATURE sig (acctok_args ck tk t n vf) in
  acctok_url sig scheme ui host port path ck tk t n vf
    = url_text scheme ui host port path ++ 63 :: urlencode_b query
  /\ query = (base_args ck tk t n ++ match vf with Some x => [(K_VERIFIER, x)] | None => [] end) ++ [(K_SIGNATURE, sig)]
  /\ (rfc_normalized (server_params query) params ->
      sig = mac (spec_key cs tsec) (rfc_base_string GET (rfc_base_uri scheme host port path) params)).
Proof.
  intros mac v scheme ui host port path ck cs tk tsec t n vf params H1 H2 H3 sig query.
  pose proof (attach_signature sig _ (acctok_no_signature ck tk t n vf)) as [A1 A2].
  split; [reflexivity|]. split; [unfold query; rewrite A1, acctok_args_shape; reflexivity|].
  intro R. unfold query in R. rewrite A2 in R.
  unfold sig, acctok_key, acctok_msg. rewrite key_of_is_rfc. cbn [token_secret].
  rewrite base_string_is_rfc by assumption.
  rewrite (rfc_normalized_unique _ params R). reflexivity.
Qed.

(* ---------- the model satisfies the checker on the two new kinds of case ---------- *)
Theorem reqtok_satisfies_checker : forall v sc ui host port path cbu joined extra ck cs t n,
  wf_url ([], sc, ui, host, port, path) -> NoDup (keys extra) ->
  check_case (IReqTok v (sc, ui, host, port, path) cbu joined extra ck cs t n)
             (run_case (IReqTok v (sc, ui, host, port, path) cbu joined extra ck cs t n)) = true.
Proof.
  intros v sc ui host port path cbu joined extra ck cs t n (H1 & H2 & H3) ND.
  unfold check_case, run_case. fold (cb_pairs cbu joined).
  unfold reqtok_key, reqtok_msg, spec_base. rewrite key_of_is_rfc. cbn [token_secret].
  rewrite base_string_is_rfc by assumption. rewrite spec_params_eq.
  assert (E : normalized_parameters (reqtok_args v ck t n cbu joined extra)
              = normalized_parameters (if v then spec_signed (reqtok_base ck t n ++ cb_pairs cbu joined) extra
                                       else reqtok_base ck t n)).
  { destruct v; [|reflexivity]. apply normalized_parameters_perm. apply reqtok_args_spec. exact ND. }
  rewrite E. cbn [obs_eqb]. rewrite !list_eqb_N_refl. reflexivity.
Qed.

Theorem acctok_satisfies_checker : forall v sc ui host port path ck cs tk tsec vf t n,
  wf_url ([], sc, ui, host, port, path) ->
  check_case (IAccTok v (sc, ui, host, port, path) (ck, cs, tk, tsec) vf t n)
             (run_case (IAccTok v (sc, ui, host, port, path) (ck, cs, tk, tsec) vf t n)) = true.
Proof.
  intros v sc ui host port path ck cs tk tsec vf t n (H1 & H2 & H3).
  unfold check_case, run_case.
  unfold acctok_key, acctok_msg, spec_base. rewrite key_of_is_rfc. cbn [token_secret].
  rewrite base_string_is_rfc by assumption. rewrite spec_params_eq, acctok_args_shape.
  cbn [obs_eqb]. rewrite !list_eqb_N_refl. reflexivity.
Qed.
