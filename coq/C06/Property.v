(* C06 — HTTP header maps behave as a case-insensitive insertion-ordered multimap.
   Property theorems only; proofs are in Proofs*.v.
     model  : C06.Model  (HTTPHeaders with _as_list, _combined_cache, _last_key)
     spec   : C06.Spec   (cache-free multimap keyed by the normalised name)
     abs h  = the list store and last key of h (the cache is forgotten)
     inv h  = cache coherence + distinct normalised keys with non-empty value lists *)
From Coq Require Import List NArith Bool.
Import ListNotations.
From TV Require Import Lib.Obs C06.Model C06.Spec C06.Run C06.ProofsBase C06.ProofsRefine C06.ProofsProg
  C06.ProofsLaws C06.ProofsValid C06.ProofsTop Gen.C06_src Gen.C06_equiv.

(* REF — for every program (any sequence of add / set / delete / get / get_list / membership /
   iteration / get_all / parse_line incl. continuation / str / copy / parse / parse(str) / the MutableMapping
   mixins get, pop, popitem, clear, setdefault, items, values, len, update / the dict-style and keyword
   constructor / ==) over any
   number of objects, started in any store satisfying the invariant, every command returns what
   the cache-free multimap returns, the stores stay related, and the invariant is kept. *)
Theorem C06_refines_multimap : forall cs st, Forall inv st ->
  s_run_cmds cs (map abs st) = (fst (run_cmds cs st), map abs (snd (run_cmds cs st))) /\
  Forall inv (snd (run_cmds cs st)).
Proof. exact run_cmds_refines. Qed.
Print Assumptions C06_refines_multimap.

Theorem C06_refines_multimap_from_new_object : forall cs,
  s_run_cmds cs [empty_s] = (fst (run_cmds cs [empty_h]), map abs (snd (run_cmds cs [empty_h]))) /\
  Forall inv (snd (run_cmds cs [empty_h])).
Proof. exact from_empty_refines. Qed.
Print Assumptions C06_refines_multimap_from_new_object.

(* INV — after any program, every memoised combined value is the comma-join of the stored list *)
Theorem C06_cache_coherent : forall cs h, In h (snd (run_cmds cs [empty_h])) ->
  forall k v, d_get k (cache h) = Some v ->
    exists vs, d_get k (as_list h) = Some vs /\ v = join [c_comma] vs.
Proof. exact from_empty_cache_coherent. Qed.
Print Assumptions C06_cache_coherent.

(* the boolean checker applied to the implementation's observables accepts the model on every program *)
Theorem C06_checker_accepts_model : forall cs, check_case cs (run_case cs) = true.
Proof. exact check_case_run_case. Qed.
Print Assumptions C06_checker_accepts_model.

(* keyed by case-insensitive name: two names share a key iff they are equal up to ASCII case;
   normalisation is idempotent; case variants are indistinguishable by any operation *)
Theorem C06_same_key_iff_equal_ignoring_case : forall a b,
  normalize a = normalize b <-> map lower a = map lower b.
Proof. exact normalize_eq_iff_ci. Qed.
Print Assumptions C06_same_key_iff_equal_ignoring_case.

Theorem C06_normalize_idempotent : forall n, normalize (normalize n) = normalize n.
Proof. exact normalize_idem. Qed.
Print Assumptions C06_normalize_idempotent.

Theorem C06_case_variants_behave_identically : forall a b, map lower a = map lower b ->
  forall h v, step (Add a v) h = step (Add b v) h /\ step (SetItem a v) h = step (SetItem b v) h /\
    step (DelItem a) h = step (DelItem b) h /\ step (GetItem a) h = step (GetItem b) h /\
    step (GetList a) h = step (GetList b) h /\ step (Contains a) h = step (Contains b) h.
Proof. exact ci_same_behaviour. Qed.
Print Assumptions C06_case_variants_behave_identically.

(* reading a name returns its values joined by commas (KeyError iff absent) and changes nothing visible *)
Theorem C06_read_is_comma_join : forall n h, inv h ->
  fst (step (GetItem n) h) =
    (if contains n h then RText (join [c_comma] (get_list n h)) else RErr EKey) /\
  abs (snd (step (GetItem n) h)) = abs h /\ inv (snd (step (GetItem n) h)).
Proof. exact get_reads_join. Qed.
Print Assumptions C06_read_is_comma_join.

(* the MutableMapping view: items() lists one (name, comma-joined values) pair per key in insertion order,
   and (like every mapping-style read) changes nothing visible *)
Theorem C06_items_are_comma_joined : forall h, inv h ->
  fst (items h) = RPairs (map (fun kv => (fst kv, join [c_comma] (snd kv))) (as_list h)) /\
  abs (snd (items h)) = abs h /\ inv (snd (items h)).
Proof. exact items_combined. Qed.
Print Assumptions C06_items_are_comma_joined.

(* popitem() removes and returns the FIRST key (insertion order) with its comma-joined value; clear() always
   terminates normally with an empty map (the fuel of the model's loop, len(h), is never exhausted) *)
Theorem C06_popitem_takes_first_key : forall h k vs al, inv h -> as_list h = (k, vs) :: al ->
  exists h', step PopItem h = (RPairs [(k, join [c_comma] vs)], h') /\
             as_list h' = al /\ last_key h' = last_key h /\ inv h'.
Proof. exact popitem_spec. Qed.
Print Assumptions C06_popitem_takes_first_key.

Theorem C06_clear_empties_the_map : forall h, inv h ->
  exists h', step Clear h = (RUnit, h') /\ as_list h' = [] /\ last_key h' = last_key h /\ inv h'.
Proof. exact clear_spec. Qed.
Print Assumptions C06_clear_empties_the_map.

(* == is reflexive on the combined view, so objects with the same list store compare equal *)
Theorem C06_same_store_compares_equal : forall h h', inv h -> inv h' -> as_list h' = as_list h ->
  exists a, fst (items h) = RPairs a /\ fst (items h') = RPairs a /\ dict_eqb a a = true.
Proof. exact same_store_compare_equal. Qed.
Print Assumptions C06_same_store_compares_equal.

(* any name reported present can be deleted (this is `delete_total`, refuted before fix 8cd6af7):
   the delete succeeds, every case variant is then absent, other names and the key order are untouched *)
Theorem C06_present_name_can_be_deleted : forall n h, contains n h = true ->
  exists h', step (DelItem n) h = (RUnit, h') /\
    (forall n', normalize n' = normalize n -> contains n' h' = false) /\
    (forall n', normalize n' <> normalize n ->
       get_list n' h' = get_list n' h /\ contains n' h' = contains n' h) /\
    keys h' = filter (fun k => negb (text_eqb (normalize n) k)) (keys h).
Proof. exact present_can_be_deleted. Qed.
Print Assumptions C06_present_name_can_be_deleted.

Theorem C06_iterated_key_is_present : forall k h, inv h -> In k (keys h) -> contains k h = true.
Proof. exact listed_key_present. Qed.
Print Assumptions C06_iterated_key_is_present.

(* add appends one value under the case-insensitive key, keeps insertion order; set replaces *)
Theorem C06_add_appends : forall n v h, is_token n = true -> is_field_value v = true ->
  exists h', step (Add n v) h = (RUnit, h') /\
    get_list n h' = get_list n h ++ [v] /\
    (forall n', normalize n' <> normalize n ->
       get_list n' h' = get_list n' h /\ contains n' h' = contains n' h) /\
    keys h' = (if contains n h then keys h else keys h ++ [normalize n]) /\
    last_key h' = Some (normalize n).
Proof. exact add_appends. Qed.
Print Assumptions C06_add_appends.

Theorem C06_set_replaces : forall n v h,
  exists h', step (SetItem n v) h = (RUnit, h') /\
    get_list n h' = [v] /\
    (forall n', normalize n' <> normalize n ->
       get_list n' h' = get_list n' h /\ contains n' h' = contains n' h) /\
    keys h' = (if contains n h then keys h else keys h ++ [normalize n]) /\
    last_key h' = last_key h.
Proof. exact set_replaces. Qed.
Print Assumptions C06_set_replaces.

(* copies: equal map ... *)
Theorem C06_copy_is_equal_map : forall h, inv h -> forallb pair_valid (get_all h) = true ->
  exists h', copy h = (RUnit, h') /\ as_list h' = as_list h /\ inv h'.
Proof. exact copy_equal. Qed.
Print Assumptions C06_copy_is_equal_map.

(* ... and independent: commands that do not target object i (including every copy / parse / dict-style
   construction, and any operation on or comparison of other objects, e.g. a copy of i) leave object i
   exactly as it was, cache included *)
Theorem C06_objects_are_independent : forall cs st i,
  Forall (fun c => ~ touches c i) cs -> (i < length st)%nat ->
  nth_error (snd (run_cmds cs st)) i = nth_error st i.
Proof. exact run_cmds_other. Qed.
Print Assumptions C06_objects_are_independent.

(* RT — serialising and parsing back yields an equal map, when every stored line is a token name
   with a field-value ... *)
Theorem C06_roundtrip_is_equal_map : forall h, inv h -> forallb pair_valid (get_all h) = true ->
  exists h', parse (to_string h) = (RUnit, h') /\ as_list h' = as_list h /\ inv h'.
Proof. exact roundtrip_equal. Qed.
Print Assumptions C06_roundtrip_is_equal_map.

(* ... which is the case for EVERY object reachable from HTTPHeaders() by any program whose raw
   writes h[n]=v use a token name and a field-value (add / parse_line / parse validate by themselves;
   continuation lines keep values field-value shaped since fix 3fd7028) *)
Theorem C06_reachable_maps_copy_and_roundtrip : forall cs h,
  forallb valid_cmd cs = true -> In h (snd (run_cmds cs [empty_h])) ->
  (exists h', copy h = (RUnit, h') /\ as_list h' = as_list h) /\
  (exists h', parse (to_string h) = (RUnit, h') /\ as_list h' = as_list h).
Proof. exact reachable_copy_roundtrip. Qed.
Print Assumptions C06_reachable_maps_copy_and_roundtrip.

(* ... and every such object compares equal -- with the class's own == (Mapping.__eq__, dict(items())) -- to
   its copy and to its serialise/parse round trip *)
Theorem C06_reachable_maps_equal_copy_and_roundtrip : forall cs h,
  forallb valid_cmd cs = true -> In h (snd (run_cmds cs [empty_h])) ->
  exists hc hp a, copy h = (RUnit, hc) /\ parse (to_string h) = (RUnit, hp) /\
    fst (items h) = RPairs a /\ fst (items hc) = RPairs a /\ fst (items hp) = RPairs a /\
    dict_eqb a a = true.
Proof. exact reachable_equal_to_copy_and_roundtrip. Qed.
Print Assumptions C06_reachable_maps_equal_copy_and_roundtrip.

(* the precondition is needed: a map holding a line that add() would reject cannot be copied *)
Theorem C06_invalid_line_blocks_copy : forall h,
  forallb pair_valid (get_all h) = false -> fst (copy h) = RErr EInput.
Proof. exact copy_rejects. Qed.
Print Assumptions C06_invalid_line_blocks_copy.

(* SRC — the pieces regenerated from tornado/httputil.py on every run (translators/c06_src.py -> Gen/C06_src.v)
   are the model's: _normalize_header translated expression by expression; HTTP_WHITESPACE; the character
   classes of _ABNF.tchar, VCHAR | obs_text, and the characters allowed inside a field value (all c : N) *)
Theorem C06_source_normalize_is_model : forall n, src_normalize n = normalize n.
Proof. exact src_normalize_is_model. Qed.
Print Assumptions C06_source_normalize_is_model.

Theorem C06_source_character_classes_are_model : forall c,
  in_ranges src_tchar_ranges c = is_tchar c /\
  in_ranges (src_vchar_ranges ++ src_obs_ranges) c = is_vchar c /\
  in_ranges (src_vchar_ranges ++ src_obs_ranges) c || existsb (N.eqb c) src_fv_extra = is_fv_char c /\
  existsb (N.eqb c) src_ws = is_ws c.
Proof.
  intro c. repeat split; [apply src_tchar_is_model|apply src_vchar_is_model|apply src_fv_char_is_model|apply src_ws_is_model].
Qed.
Print Assumptions C06_source_character_classes_are_model.
