(* C06 — every value stored by validated operations is field-value shaped (also after
   unfolding continuation lines, fix 3fd7028); hence every reachable map can be
   copied and survives str()/parse(). *)
From Coq Require Import List NArith Bool Lia.
Import ListNotations.
From TV Require Import Lib.Obs C06.Model C06.Spec C06.Run C06.ProofsBase C06.ProofsRefine C06.ProofsProg C06.ProofsLaws.
Local Open Scope N_scope.

Definition entry_valid (kv : text * list text) : Prop :=
  is_token (fst kv) = true /\ Forall (fun v => is_field_value v = true) (snd kv).
Definition map_valid (m : mmap) : Prop := Forall entry_valid m.
Definition good (h : hstate) : Prop := inv h /\ map_valid (as_list h).


Lemma map_valid_pairs : forall m, map_valid m -> forallb pair_valid (pairs_of m) = true.
Proof.
  intros m H. induction H as [|[k vs] m [Hk Hvs] H IH]; [reflexivity|].
  unfold pairs_of in *. cbn [flat_map fst snd]. rewrite forallb_app, IH, andb_true_r.
  simpl in *. induction Hvs as [|v vs Hv Hvs IHv]; [reflexivity|].
  simpl. unfold pair_valid at 1. simpl. rewrite Hk, Hv, IHv. reflexivity.
Qed.

(* ---------- strip of field-value characters is a field value ---------- *)
Lemma lstrip_suffix : forall l, exists p, l = p ++ lstrip l.
Proof.
  induction l as [|c l [p IH]]; [exists []; reflexivity|]. simpl.
  destruct (is_ws c); [exists (c :: p); simpl; rewrite <- IH; reflexivity | exists []; reflexivity].
Qed.
Lemma lstrip_chars : forall l, forallb is_fv_char l = true -> forallb is_fv_char (lstrip l) = true.
Proof.
  induction l as [|c l IH]; intro H; [reflexivity|]. simpl in *.
  apply andb_true_iff in H as [H1 H2]. destruct (is_ws c); [auto|]. simpl. rewrite H1, H2. reflexivity.
Qed.
Lemma lstrip_head : forall l, forallb is_fv_char l = true -> head_ok (lstrip l) = true.
Proof.
  induction l as [|c l IH]; intro H; [reflexivity|]. simpl in *.
  apply andb_true_iff in H as [H1 H2]. destruct (is_ws c) eqn:E; [auto|]. simpl.
  unfold is_fv_char in H1. rewrite E, orb_false_r in H1. exact H1.
Qed.
Lemma forallb_rev {A} (f : A -> bool) : forall l, forallb f l = true -> forallb f (rev l) = true.
Proof.
  intros l H. rewrite forallb_forall in *. intros x Hx. apply H. apply in_rev. exact Hx.
Qed.
Lemma strip_field_value : forall l, forallb is_fv_char l = true -> is_field_value (strip l) = true.
Proof.
  intros l H. unfold strip, is_field_value.
  pose proof (lstrip_chars l H) as Ha. pose proof (lstrip_head l H) as Hha.
  set (a := lstrip l) in *.
  pose proof (forallb_rev _ _ Ha) as Hra.
  pose proof (lstrip_chars _ Hra) as Hb. pose proof (lstrip_head _ Hra) as Hhb.
  destruct (lstrip_suffix (rev a)) as [p Hp]. set (b := lstrip (rev a)) in *.
  rewrite (forallb_rev _ _ Hb), rev_involutive, Hhb. simpl.
  assert (Ea : a = rev b ++ rev p).
  { rewrite <- (rev_involutive a), Hp, rev_app_distr. reflexivity. }
  destruct (rev b) as [|c r]; [reflexivity|]. rewrite Ea in Hha. simpl in Hha. simpl. rewrite Hha. reflexivity.
Qed.
Lemma field_value_chars : forall v, is_field_value v = true -> forallb is_fv_char v = true.
Proof.
  intros v H. unfold is_field_value in H. apply andb_true_iff in H as [H _].
  apply andb_true_iff in H as [H _]. exact H.
Qed.
Lemma unfold_value_valid : forall part v, is_field_value part = true -> is_field_value v = true ->
  is_field_value (unfold_value part v) = true.
Proof.
  intros part v Hp Hv. unfold unfold_value. apply strip_field_value.
  rewrite forallb_app. rewrite (field_value_chars v Hv). simpl.
  rewrite (field_value_chars part Hp). reflexivity.
Qed.

(* ---------- preservation ---------- *)
Lemma d_get_Forall {V} (P : text * V -> Prop) : forall k d v, Forall P d -> d_get k d = Some v -> P (k, v).
Proof.
  intros k d v H. induction H as [|[k1 v1] d H1 H IH]; simpl; intro E; [discriminate|].
  destruct (text_eqb k k1) eqn:Ek; [|auto]. apply text_eqb_eq in Ek. subst k1. inversion E; subst. exact H1.
Qed.

Lemma add_valid : forall n v h, map_valid (as_list h) -> map_valid (as_list (snd (add n v h))).
Proof.
  intros n v h Hm. unfold add.
  destruct (is_token n) eqn:Et; simpl; [|exact Hm].
  destruct (is_field_value v) eqn:Ev; simpl; [|exact Hm].
  rewrite normalize_idem. unfold d_mem.
  destruct (d_get (normalize n) (as_list h)) as [vs|] eqn:Eg; simpl.
  - apply d_set_Forall; [exact Hm|]. destruct (d_get_Forall _ _ _ _ Hm Eg) as [H1 H2].
    split; [exact H1|]. simpl in *. apply Forall_app. split; [exact H2|constructor; [exact Ev|constructor]].
  - rewrite normalize_idem. apply d_set_Forall; [exact Hm|]. split; simpl.
    + apply normalize_token. exact Et.
    + constructor; [exact Ev|constructor].
Qed.

Lemma parse_line_valid : forall l h, map_valid (as_list h) -> map_valid (as_list (snd (parse_line l h))).
Proof.
  intros l h Hm. unfold parse_line.
  destruct (strip_eol l) as [|c line]; [exact Hm|].
  destruct (is_ws c).
  - destruct (last_key h) as [k|]; [|exact Hm].
    destruct (is_field_value (strip (c :: line))) eqn:Ev; simpl; [|exact Hm].
    destruct (d_get k (as_list h)) as [vs|] eqn:Eg; [|exact Hm].
    destruct (rev vs) as [|v vs'] eqn:Er; [exact Hm|]. simpl.
    apply d_set_Forall; [exact Hm|]. destruct (d_get_Forall _ _ _ _ Hm Eg) as [H1 H2].
    split; [exact H1|]. simpl in *.
    assert (Hr : Forall (fun v => is_field_value v = true) (v :: vs')).
    { rewrite <- Er. apply Forall_rev. exact H2. }
    inversion Hr as [|? ? Hv Hvs']; subst.
    apply Forall_app. split; [apply Forall_rev; exact Hvs'|].
    constructor; [|constructor]. apply (unfold_value_valid _ _ Ev Hv).
  - destruct (split_colon (c :: line)) as [[n v]|]; [|exact Hm]. apply add_valid. exact Hm.
Qed.

Lemma set_item_valid : forall n v h, is_token n = true -> is_field_value v = true ->
  map_valid (as_list h) -> map_valid (as_list (set_item n v h)).
Proof.
  intros n v h Ht Hv Hm. apply d_set_Forall; [exact Hm|].
  split; simpl; [apply normalize_token; exact Ht|constructor; [exact Hv|constructor]].
Qed.
Lemma get_item_store : forall n h, as_list (snd (get_item n h)) = as_list h.
Proof.
  intros n h. unfold get_item. destruct (d_get (normalize n) (cache h)); [reflexivity|].
  destruct (d_get (normalize n) (as_list h)); reflexivity.
Qed.
Lemma items_go_store : forall ks acc h, as_list (snd (items_go ks acc h)) = as_list h.
Proof.
  induction ks as [|k ks IH]; intros acc h; [reflexivity|]. cbn [items_go].
  pose proof (get_item_store k h) as E. destruct (get_item k h) as [r h1]. simpl in E.
  destruct r; try exact E. rewrite IH. exact E.
Qed.
Lemma update_all_valid : forall l h, forallb pair_valid l = true -> map_valid (as_list h) ->
  map_valid (as_list (update_all l h)).
Proof.
  induction l as [|[k v] l IH]; intros h Hl Hm; [exact Hm|].
  simpl in Hl. apply andb_true_iff in Hl as [H1 H2]. unfold pair_valid in H1. simpl in H1.
  apply andb_true_iff in H1 as [Ht Hv]. unfold update_all in *. cbn [fold_left fst snd].
  apply IH; [exact H2|]. apply set_item_valid; assumption.
Qed.

Lemma pop_first_valid : forall h, map_valid (as_list h) -> map_valid (as_list (snd (pop_first h))).
Proof.
  intros h Hm. unfold pop_first. destruct (keys h) as [|k ks]; [exact Hm|].
  pose proof (get_item_store k h) as E. destruct (get_item k h) as [r h1]. simpl in E.
  destruct r; simpl; try (rewrite E; exact Hm).
  unfold del_item. destruct (d_mem (normalize k) (as_list h1)); simpl; rewrite E; [|exact Hm].
  apply d_del_Forall. exact Hm.
Qed.
Lemma clear_loop_valid : forall fuel h, map_valid (as_list h) -> map_valid (as_list (snd (clear_loop fuel h))).
Proof.
  induction fuel as [|f IH]; intros h Hm; cbn [clear_loop].
  - destruct (as_list h) eqn:Ea; simpl; rewrite Ea; exact Hm.
  - pose proof (pop_first_valid h Hm) as H1. destruct (pop_first h) as [r h1]. simpl in H1.
    destruct r as [|e| | | | | | |]; try exact H1; [destruct e; exact H1|apply IH; exact H1].
Qed.

Lemma step_valid : forall o h, valid_op o = true -> map_valid (as_list h) ->
  map_valid (as_list (snd (step o h))).
Proof.
  intros o h Ho Hm. destruct o as [n v|n v|n|n|n|n| | |l| |n|n|n v| | |l| | | ]; simpl; try exact Hm.
  - apply add_valid. exact Hm.
  - simpl in Ho. apply andb_true_iff in Ho as [Ht Hv]. apply d_set_Forall; [exact Hm|].
    split; simpl; [apply normalize_token; exact Ht|constructor; [exact Hv|constructor]].
  - unfold del_item. destruct (d_mem (normalize n) (as_list h)); simpl; [|exact Hm].
    apply d_del_Forall. exact Hm.
  - unfold get_item. destruct (d_get (normalize n) (cache h)); [exact Hm|].
    destruct (d_get (normalize n) (as_list h)); exact Hm.
  - apply parse_line_valid. exact Hm.
  - unfold get_default. pose proof (get_item_store n h) as E. destruct (get_item n h) as [r h1].
    simpl in *. rewrite E. exact Hm.
  - unfold pop_item. pose proof (get_item_store n h) as E. destruct (get_item n h) as [r h1]. simpl in E.
    destruct r; simpl; try (rewrite E; exact Hm).
    unfold del_item. destruct (d_mem (normalize n) (as_list h1)); simpl; rewrite E; [|exact Hm].
    apply d_del_Forall. exact Hm.
  - simpl in Ho. apply andb_true_iff in Ho as [Ht Hv].
    unfold set_default. pose proof (get_item_store n h) as E. destruct (get_item n h) as [r h1]. simpl in E.
    assert (Hm1 : map_valid (as_list h1)) by (rewrite E; exact Hm).
    destruct r as [|e| | | | | | |]; simpl; try exact Hm1. destruct e; simpl; try exact Hm1.
    apply set_item_valid; assumption.
  - unfold items. rewrite items_go_store. exact Hm.
  - simpl in Ho. apply update_all_valid; assumption.
  - apply pop_first_valid. exact Hm.
  - unfold clear. apply clear_loop_valid. exact Hm.
  - unfold values. pose proof (items_go_store (keys h) [] h) as E. fold (items h) in E.
    destruct (items h) as [r h1]. simpl in *. rewrite E. exact Hm.
Qed.

Lemma parse_lines_valid : forall ls h, map_valid (as_list h) -> map_valid (as_list (snd (parse_lines ls h))).
Proof.
  induction ls as [|l ls IH]; intros h Hm; simpl; [exact Hm|].
  pose proof (parse_line_valid l h Hm) as H1. destruct (parse_line l h) as [r h']. simpl in H1.
  destruct r; try exact H1. apply IH. exact H1.
Qed.

Lemma good_empty : good empty_h.
Proof. split; [exact inv_empty|constructor]. Qed.

Lemma new_obj_good : forall st r h', Forall good st -> (r = RUnit -> good h') ->
  Forall good (snd (new_obj st (r, h'))).
Proof.
  intros st r h' Hst H. destruct r; simpl; try exact Hst.
  apply Forall_app. split; [exact Hst|constructor; [auto|constructor]].
Qed.

Lemma run_cmd_good : forall c st, valid_cmd c = true -> Forall good st -> Forall good (snd (run_cmd c st)).
Proof.
  intros c st Hc Hst. destruct c as [i o|i|t|i|l|i j]; simpl.
  - destruct (nth_error st i) as [h|] eqn:E; simpl; [|exact Hst].
    destruct (Forall_nth_error _ _ _ _ Hst E) as [Hi Hm].
    pose proof (proj2 (step_refines o h Hi)) as H1. pose proof (step_valid o h Hc Hm) as H2.
    destruct (step o h) as [r h']. simpl in *. apply upd_Forall; [exact Hst|split; assumption].
  - destruct (nth_error st i) as [h|] eqn:E; simpl; [|exact Hst].
    destruct (Forall_nth_error _ _ _ _ Hst E) as [Hi Hm].
    destruct (copy_equal h Hi (map_valid_pairs _ Hm)) as [h' [E1 [E2 E3]]]. rewrite E1.
    apply new_obj_good; [exact Hst|]. intros _. split; [exact E3|rewrite E2; exact Hm].
  - unfold parse. pose proof (proj2 (parse_lines_refines (split_lines t) empty_h inv_empty)) as H1.
    pose proof (parse_lines_valid (split_lines t) empty_h (proj2 good_empty)) as H2.
    destruct (parse_lines (split_lines t) empty_h) as [r h']. simpl in *.
    apply new_obj_good; [exact Hst|]. intros _. split; assumption.
  - destruct (nth_error st i) as [h|] eqn:E; simpl; [|exact Hst].
    unfold parse. pose proof (proj2 (parse_lines_refines (split_lines (to_string h)) empty_h inv_empty)) as H1.
    pose proof (parse_lines_valid (split_lines (to_string h)) empty_h (proj2 good_empty)) as H2.
    destruct (parse_lines (split_lines (to_string h)) empty_h) as [r h']. simpl in *.
    apply new_obj_good; [exact Hst|]. intros _. split; assumption.
  - simpl in Hc. apply Forall_app. split; [exact Hst|]. constructor; [|constructor]. split.
    + apply (update_all_refines l empty_h inv_empty).
    + apply update_all_valid; [exact Hc|constructor].
  - destruct (nth_error st i) as [hi|] eqn:Ei; [|exact Hst]. destruct (nth_error st j) as [hj|] eqn:Ej; [|exact Hst].
    destruct (Forall_nth_error _ _ _ _ Hst Ei) as [Hi Hm].
    assert (Hg : forall h, good h -> good (snd (items h))).
    { intros h [Hih Hmh]. split; [apply (items_combined h Hih)|]. unfold items. rewrite items_go_store. exact Hmh. }
    pose proof (Hg hi (conj Hi Hm)) as Gi. destruct (items hi) as [ri hi']. simpl in Gi.
    assert (F1 : Forall good (upd i hi' st)) by (apply upd_Forall; assumption).
    destruct ri; simpl; try exact F1.
    destruct (nth_error (upd i hi' st) j) as [hj1|] eqn:Ej1; simpl; [|exact F1].
    pose proof (Hg hj1 (Forall_nth_error _ _ _ _ F1 Ej1)) as Gj. destruct (items hj1) as [rj hj']. simpl in Gj.
    assert (F2 : Forall good (upd j hj' (upd i hi' st))) by (apply upd_Forall; assumption).
    destruct rj; simpl; exact F2.
Qed.

Lemma run_cmds_good : forall cs st, forallb valid_cmd cs = true -> Forall good st ->
  Forall good (snd (run_cmds cs st)).
Proof.
  induction cs as [|c cs IH]; intros st Hc Hst; simpl; [exact Hst|].
  simpl in Hc. apply andb_true_iff in Hc as [Hc1 Hc2].
  pose proof (run_cmd_good c st Hc1 Hst) as H1. destruct (run_cmd c st) as [r st1]. simpl in H1.
  specialize (IH st1 Hc2 H1). destruct (run_cmds cs st1) as [rs st2]. exact IH.
Qed.

(* every object reachable by validated operations can be copied and round-trips *)
Theorem reachable_copy_roundtrip : forall cs h,
  forallb valid_cmd cs = true -> In h (snd (run_cmds cs [empty_h])) ->
  (exists h', copy h = (RUnit, h') /\ as_list h' = as_list h) /\
  (exists h', parse (to_string h) = (RUnit, h') /\ as_list h' = as_list h).
Proof.
  intros cs h Hc Hin.
  assert (Hg : Forall good (snd (run_cmds cs [empty_h]))).
  { apply run_cmds_good; [exact Hc|constructor; [exact good_empty|constructor]]. }
  rewrite Forall_forall in Hg. destruct (Hg h Hin) as [Hi Hm].
  pose proof (map_valid_pairs _ Hm) as Hv. split.
  - destruct (copy_equal h Hi Hv) as [h' [E1 [E2 _]]]. eauto.
  - destruct (roundtrip_equal h Hi Hv) as [h' [E1 [E2 _]]]. eauto.
Qed.

(* ... and compares equal (the class's own ==, i.e. dict(items()) equality) to its copy and to its round trip *)
Theorem reachable_equal_to_copy_and_roundtrip : forall cs h,
  forallb valid_cmd cs = true -> In h (snd (run_cmds cs [empty_h])) ->
  exists hc hp a, copy h = (RUnit, hc) /\ parse (to_string h) = (RUnit, hp) /\
    fst (items h) = RPairs a /\ fst (items hc) = RPairs a /\ fst (items hp) = RPairs a /\
    dict_eqb a a = true.
Proof.
  intros cs h Hc Hin.
  assert (Hg : Forall good (snd (run_cmds cs [empty_h]))).
  { apply run_cmds_good; [exact Hc|constructor; [exact good_empty|constructor]]. }
  rewrite Forall_forall in Hg. destruct (Hg h Hin) as [Hi Hm].
  pose proof (map_valid_pairs _ Hm) as Hv.
  destruct (copy_equal h Hi Hv) as [hc [C1 [C2 C3]]].
  destruct (roundtrip_equal h Hi Hv) as [hp [P1 [P2 P3]]].
  destruct (same_store_compare_equal h hc Hi C3 C2) as [a [A1 [A2 A3]]].
  destruct (same_store_compare_equal h hp Hi P3 P2) as [a' [B1 [B2 _]]].
  rewrite A1 in B1. inversion B1; subst a'.
  exists hc, hp, a. auto 10.
Qed.

(* ---------- the checker accepts the model on every program ---------- *)
Lemma copies_ok_model : forall cs st, forallb valid_cmd cs = true -> Forall good st ->
  copies_ok cs (map obs_res (fst (run_cmds cs st))) = true.
Proof.
  induction cs as [|c cs IH]; intros st Hc Hst; [reflexivity|].
  simpl in Hc. apply andb_true_iff in Hc as [Hc1 Hc2].
  pose proof (run_cmd_good c st Hc1 Hst) as Hg. cbn [run_cmds].
  assert (Hr : match c with Copy _ | Reparse _ => fst (run_cmd c st) = RUnit \/ fst (run_cmd c st) = RBadTarget | _ => True end).
  { destruct c as [i o|i|t|i|l|i j]; auto; simpl.
    - destruct (nth_error st i) as [h|] eqn:E; simpl; auto.
      destruct (Forall_nth_error _ _ _ _ Hst E) as [Hi Hm].
      destruct (copy_equal h Hi (map_valid_pairs _ Hm)) as [h' [E1 _]]. rewrite E1. simpl. auto.
    - destruct (nth_error st i) as [h|] eqn:E; simpl; auto.
      destruct (Forall_nth_error _ _ _ _ Hst E) as [Hi Hm].
      destruct (roundtrip_equal h Hi (map_valid_pairs _ Hm)) as [h' [E1 _]]. rewrite E1. simpl. auto. }
  destruct (run_cmd c st) as [r st1]. simpl in Hg, Hr.
  specialize (IH st1 Hc2 Hg). destruct (run_cmds cs st1) as [rs st2]. simpl in *.
  rewrite IH, andb_true_r. destruct c; auto; destruct Hr as [-> | ->]; reflexivity.
Qed.

Theorem check_case_run_case : forall cs, check_case cs (run_case cs) = true.
Proof.
  intro cs. unfold check_case. rewrite spec_case_eq_run_case, obs_eqb_refl. simpl.
  destruct (forallb valid_cmd cs) eqn:Ev; [|reflexivity].
  unfold run_case.
  pose proof (copies_ok_model cs [empty_h] Ev (Forall_cons _ good_empty (Forall_nil _))) as H.
  destruct (run_cmds cs [empty_h]) as [rs st]. simpl in *. exact H.
Qed.

(* the corner cases that used to break this (before fix 3fd7028) *)
Example fold_onto_empty_value :
  let h := snd (run_cmds [On 0 (Add [97] []); On 0 (ParseLine [32; 120])] [empty_h]) in
  map get_all h = [[([65], [120])]].
Proof. vm_compute. reflexivity. Qed.
Example fold_empty_continuation :
  let h := snd (run_cmds [On 0 (Add [97] [118]); On 0 (ParseLine [32; 9])] [empty_h]) in
  map get_all h = [[([65], [118])]].
Proof. vm_compute. reflexivity. Qed.
