(* C06 — basic lemmas: text equality, dictionary algebra, character classes,
   header-name normalisation. *)
From Coq Require Import List NArith Bool Lia.
Import ListNotations.
From TV Require Import C06.Model C06.Spec.
Local Open Scope N_scope.

(* ---------- text equality ---------- *)
Lemma text_eqb_eq : forall a b, text_eqb a b = true <-> a = b.
Proof.
  induction a as [|x a IH]; intros [|y b]; simpl; split; intro H; try discriminate; auto.
  - apply andb_true_iff in H as [H1 H2]. apply N.eqb_eq in H1. apply IH in H2. congruence.
  - inversion H; subst. apply andb_true_iff; split; [apply N.eqb_refl | apply IH; reflexivity].
Qed.
Lemma text_eqb_refl : forall a, text_eqb a a = true.
Proof. intro a. apply text_eqb_eq. reflexivity. Qed.
Lemma text_eqb_neq : forall a b, text_eqb a b = false <-> a <> b.
Proof.
  intros a b. split.
  - intros H E. apply text_eqb_eq in E. congruence.
  - intro H. destruct (text_eqb a b) eqn:E; auto. apply text_eqb_eq in E. contradiction.
Qed.
Lemma text_eqb_sym : forall a b, text_eqb a b = text_eqb b a.
Proof.
  intros a b. destruct (text_eqb a b) eqn:E.
  - apply text_eqb_eq in E. subst. symmetry. apply text_eqb_refl.
  - apply text_eqb_neq in E. symmetry. apply text_eqb_neq. congruence.
Qed.

Ltac teq k k' E := destruct (text_eqb k k') eqn:E;
  [apply text_eqb_eq in E; try subst | pose proof (proj1 (text_eqb_neq _ _) E)].

(* ---------- dictionary algebra ---------- *)
Section DictLemmas.
  Context {V : Type}.
  Implicit Types (d : list (text * V)).

  Lemma d_get_set_same : forall k v d, d_get k (d_set k v d) = Some v.
  Proof.
    intros k v d. induction d as [|[k' v'] d IH]; simpl.
    - rewrite text_eqb_refl. reflexivity.
    - destruct (text_eqb k k') eqn:E; simpl; rewrite E; auto.
  Qed.
  Lemma d_get_set_other : forall k k' v d, k <> k' -> d_get k' (d_set k v d) = d_get k' d.
  Proof.
    intros k k' v d Hne. induction d as [|[k1 v1] d IH]; simpl.
    - apply text_eqb_neq in Hne. rewrite text_eqb_sym, Hne. reflexivity.
    - destruct (text_eqb k k1) eqn:E; simpl.
      + apply text_eqb_eq in E. subst k1.
        assert (text_eqb k' k = false) as -> by (apply text_eqb_neq; congruence). reflexivity.
      + rewrite IH. reflexivity.
  Qed.
  Lemma d_get_del_same : forall k d, d_get k (d_del k d) = None.
  Proof.
    intros k d. induction d as [|[k1 v1] d IH]; simpl; auto.
    destruct (text_eqb k k1) eqn:E; simpl; auto. rewrite E. exact IH.
  Qed.
  Lemma d_get_del_other : forall k k' d, k <> k' -> d_get k' (d_del k d) = d_get k' d.
  Proof.
    intros k k' d Hne. induction d as [|[k1 v1] d IH]; simpl; auto.
    destruct (text_eqb k k1) eqn:E; simpl.
    - apply text_eqb_eq in E. subst k1.
      assert (text_eqb k' k = false) as -> by (apply text_eqb_neq; congruence). exact IH.
    - rewrite IH. reflexivity.
  Qed.
  Lemma d_get_in_keys : forall k d v, d_get k d = Some v -> In k (map fst d).
  Proof.
    intros k d. induction d as [|[k1 v1] d IH]; simpl; intros v H; [discriminate|].
    destruct (text_eqb k k1) eqn:E.
    - apply text_eqb_eq in E. auto.
    - right. eapply IH; eauto.
  Qed.
  Lemma d_get_none_not_in : forall k d, d_get k d = None <-> ~ In k (map fst d).
  Proof.
    intros k d. induction d as [|[k1 v1] d IH]; simpl.
    - split; auto.
    - destruct (text_eqb k k1) eqn:E.
      + apply text_eqb_eq in E. split; [discriminate | intro H; exfalso; apply H; auto].
      + apply text_eqb_neq in E. rewrite IH. split; [intros H [H1|H1]; [congruence|auto] | intros H H1; apply H; auto].
  Qed.
  Lemma d_mem_in_keys : forall k d, d_mem k d = true <-> In k (map fst d).
  Proof.
    intros k d. unfold d_mem. destruct (d_get k d) eqn:E.
    - split; auto. intros _. eapply d_get_in_keys; eauto.
    - split; [discriminate|]. intro H. apply d_get_none_not_in in E. contradiction.
  Qed.
  Lemma d_set_keys_present : forall k v d, In k (map fst d) -> map fst (d_set k v d) = map fst d.
  Proof.
    intros k v d. induction d as [|[k1 v1] d IH]; simpl; intro H; [contradiction|].
    destruct (text_eqb k k1) eqn:E; simpl; auto.
    apply text_eqb_neq in E. destruct H as [H|H]; [congruence|]. rewrite IH; auto.
  Qed.
  Lemma d_set_absent : forall k v d, ~ In k (map fst d) -> d_set k v d = d ++ [(k, v)].
  Proof.
    intros k v d. induction d as [|[k1 v1] d IH]; simpl; intro H; auto.
    destruct (text_eqb k k1) eqn:E.
    - apply text_eqb_eq in E. exfalso. apply H. auto.
    - rewrite IH; auto.
  Qed.
  Lemma d_del_keys : forall k d, map fst (d_del k d) = filter (fun x => negb (text_eqb k x)) (map fst d).
  Proof.
    intros k d. induction d as [|[k1 v1] d IH]; simpl; auto.
    destruct (text_eqb k k1); simpl; rewrite IH; reflexivity.
  Qed.
  Lemma d_set_app_last : forall k v v0 d, ~ In k (map fst d) -> d_set k v (d ++ [(k, v0)]) = d ++ [(k, v)].
  Proof.
    intros k v v0 d. induction d as [|[k1 v1] d IH]; simpl; intro H.
    - rewrite text_eqb_refl. reflexivity.
    - destruct (text_eqb k k1) eqn:E.
      + apply text_eqb_eq in E. exfalso. apply H. auto.
      + rewrite IH; auto.
  Qed.
  Lemma d_get_app_last : forall k v0 d, ~ In k (map fst d) -> d_get k (d ++ [(k, v0)]) = Some v0.
  Proof.
    intros k v0 d. induction d as [|[k1 v1] d IH]; simpl; intro H.
    - rewrite text_eqb_refl. reflexivity.
    - destruct (text_eqb k k1) eqn:E.
      + apply text_eqb_eq in E. exfalso. apply H. auto.
      + apply IH. auto.
  Qed.
End DictLemmas.

(* ---------- characters ---------- *)
Lemma upper_upper c : upper (upper c) = upper c.
Proof. unfold upper, in_range. destruct ((97 <=? c) && (c <=? 122)) eqn:E; [|rewrite E; reflexivity].
  apply andb_true_iff in E as [E1 E2]. apply N.leb_le in E1, E2.
  destruct (97 <=? c - 32) eqn:F; simpl; auto. apply N.leb_le in F. lia. Qed.
Lemma lower_lower c : lower (lower c) = lower c.
Proof. unfold lower, in_range. destruct ((65 <=? c) && (c <=? 90)) eqn:E; [|rewrite E; reflexivity].
  apply andb_true_iff in E as [E1 E2]. apply N.leb_le in E1, E2.
  destruct (c + 32 <=? 90) eqn:F; [apply N.leb_le in F; lia|]. rewrite andb_false_r. reflexivity. Qed.
Lemma lower_upper c : lower (upper c) = lower c.
Proof. unfold lower, upper, in_range.
  destruct ((97 <=? c) && (c <=? 122)) eqn:E; auto.
  apply andb_true_iff in E as [E1 E2]. apply N.leb_le in E1, E2.
  assert (65 <=? c - 32 = true) as -> by (apply N.leb_le; lia).
  assert (c - 32 <=? 90 = true) as -> by (apply N.leb_le; lia).
  assert (c <=? 90 = false) as -> by (apply N.leb_gt; lia). rewrite andb_false_r. simpl. lia. Qed.
Lemma upper_lower c : upper (lower c) = upper c.
Proof. unfold lower, upper, in_range.
  destruct ((65 <=? c) && (c <=? 90)) eqn:E; auto.
  apply andb_true_iff in E as [E1 E2]. apply N.leb_le in E1, E2.
  assert (97 <=? c + 32 = true) as -> by (apply N.leb_le; lia).
  assert (c + 32 <=? 122 = true) as -> by (apply N.leb_le; lia).
  assert (97 <=? c = false) as -> by (apply N.leb_gt; lia). simpl. lia. Qed.
Lemma upper_dash c : (upper c =? c_dash) = (c =? c_dash).
Proof. unfold upper, in_range, c_dash. destruct ((97 <=? c) && (c <=? 122)) eqn:E; auto.
  apply andb_true_iff in E as [E1 E2]. apply N.leb_le in E1, E2.
  assert (c - 32 =? 45 = false) as -> by (apply N.eqb_neq; lia).
  symmetry. apply N.eqb_neq. lia. Qed.
Lemma lower_dash c : (lower c =? c_dash) = (c =? c_dash).
Proof. unfold lower, in_range, c_dash. destruct ((65 <=? c) && (c <=? 90)) eqn:E; auto.
  apply andb_true_iff in E as [E1 E2]. apply N.leb_le in E1, E2.
  assert (c + 32 =? 45 = false) as -> by (apply N.eqb_neq; lia).
  symmetry. apply N.eqb_neq. lia. Qed.

(* ---------- normalisation as a one-pass transducer ---------- *)
Fixpoint norm_go (start : bool) (l : text) : text :=
  match l with
  | [] => []
  | c :: r => if c =? c_dash then c_dash :: norm_go true r
              else (if start then upper c else lower c) :: norm_go false r
  end.

Lemma join_cons_char : forall sep c w ws, join sep ((c :: w) :: ws) = c :: join sep (w :: ws).
Proof. intros sep c w ws. simpl. destruct ws; reflexivity. Qed.

Lemma join_cons2 : forall sep w w2 ws, join sep (w :: w2 :: ws) = w ++ sep ++ join sep (w2 :: ws).
Proof. reflexivity. Qed.

Lemma normalize_go_aux : forall l,
  let '(w, ws) := split1 c_dash l in
  join [c_dash] (capitalize w :: map capitalize ws) = norm_go true l /\
  join [c_dash] (map lower w :: map capitalize ws) = norm_go false l.
Proof.
  induction l as [|c r IH]; cbn [split1 norm_go].
  - split; reflexivity.
  - destruct (split1 c_dash r) as [w ws]. destruct IH as [IH1 IH2].
    destruct (c =? c_dash) eqn:E.
    + cbn [map]. rewrite !join_cons2. cbn [map capitalize app]. rewrite IH1. split; reflexivity.
    + split.
      * cbn [capitalize]. rewrite join_cons_char. rewrite IH2. reflexivity.
      * cbn [map]. rewrite join_cons_char. rewrite IH2. reflexivity.
Qed.
Lemma normalize_go : forall n, normalize n = norm_go true n.
Proof.
  intro n. unfold normalize, split_on. pose proof (normalize_go_aux n) as H.
  destruct (split1 c_dash n) as [w ws]. destruct H as [H _]. exact H.
Qed.

Lemma norm_go_idem : forall l s, norm_go s (norm_go s l) = norm_go s l.
Proof.
  induction l as [|c r IH]; intro s; simpl; auto.
  destruct (c =? c_dash) eqn:E; simpl.
  - rewrite IH. reflexivity.
  - destruct s.
    + rewrite upper_dash, E, upper_upper, IH. reflexivity.
    + rewrite lower_dash, E, lower_lower, IH. reflexivity.
Qed.
Lemma normalize_idem : forall n, normalize (normalize n) = normalize n.
Proof. intro n. rewrite !normalize_go. apply norm_go_idem. Qed.

Lemma norm_go_lower : forall l s, map lower (norm_go s l) = map lower l.
Proof.
  induction l as [|c r IH]; intro s; simpl; auto.
  destruct (c =? c_dash) eqn:E; simpl; rewrite IH.
  - apply N.eqb_eq in E. subst c. reflexivity.
  - destruct s; [rewrite lower_upper | rewrite lower_lower]; reflexivity.
Qed.
Lemma norm_go_of_lower : forall l s, norm_go s (map lower l) = norm_go s l.
Proof.
  induction l as [|c r IH]; intro s; simpl; auto.
  rewrite lower_dash. destruct (c =? c_dash) eqn:E; rewrite IH; auto.
  destruct s; [rewrite upper_lower | rewrite lower_lower]; reflexivity.
Qed.
(* two names have the same normal form iff they are equal up to ASCII case *)
Lemma normalize_eq_iff_ci : forall a b, normalize a = normalize b <-> map lower a = map lower b.
Proof.
  intros a b. rewrite !normalize_go. split; intro H.
  - rewrite <- (norm_go_lower a true), <- (norm_go_lower b true), H. reflexivity.
  - rewrite <- (norm_go_of_lower a), <- (norm_go_of_lower b), H. reflexivity.
Qed.

(* tokens stay tokens *)
Lemma is_tchar_upper c : is_tchar c = true -> is_tchar (upper c) = true.
Proof.
  unfold upper, in_range. destruct ((97 <=? c) && (c <=? 122)) eqn:E; auto.
  intros _. apply andb_true_iff in E as [E1 E2]. apply N.leb_le in E1, E2.
  unfold is_tchar, in_range.
  assert (65 <=? c - 32 = true) as -> by (apply N.leb_le; lia).
  assert (c - 32 <=? 90 = true) as -> by (apply N.leb_le; lia).
  rewrite orb_true_r. reflexivity.
Qed.
Lemma is_tchar_lower c : is_tchar c = true -> is_tchar (lower c) = true.
Proof.
  unfold lower, in_range. destruct ((65 <=? c) && (c <=? 90)) eqn:E; auto.
  intros _. apply andb_true_iff in E as [E1 E2]. apply N.leb_le in E1, E2.
  unfold is_tchar, in_range.
  assert (97 <=? c + 32 = true) as -> by (apply N.leb_le; lia).
  assert (c + 32 <=? 122 = true) as -> by (apply N.leb_le; lia).
  rewrite orb_true_r. reflexivity.
Qed.
Lemma norm_go_tchars : forall l s, forallb is_tchar l = true -> forallb is_tchar (norm_go s l) = true.
Proof.
  induction l as [|c r IH]; intros s H; simpl in *; auto.
  apply andb_true_iff in H as [H1 H2].
  destruct (c =? c_dash) eqn:E; simpl.
  - rewrite IH; auto.
  - rewrite IH; auto. destruct s; [rewrite is_tchar_upper | rewrite is_tchar_lower]; auto.
Qed.
Lemma normalize_token : forall n, is_token n = true -> is_token (normalize n) = true.
Proof.
  intros n H. rewrite normalize_go. destruct n as [|c r]; [discriminate|].
  unfold is_token in *. pose proof (norm_go_tchars (c :: r) true H) as H1.
  destruct (norm_go true (c :: r)) eqn:E; auto.
  simpl in E. destruct (c =? c_dash); discriminate.
Qed.
