(* C06 — the specification: an insertion-ordered multimap keyed by the normalised
   (case-insensitive) field name.  There is NO cache here: reading a name joins
   its values with commas each time; `add` is one structural pass; continuation
   unfolds onto the last value of the last-added key.  Definitions only. *)
From Coq Require Import List NArith Bool.
Import ListNotations.
From TV Require Import C06.Model.
Local Open Scope N_scope.

Definition mmap := list (text * list text).
Record sstate := mkS { s_map : mmap; s_last : option text }.
Definition empty_s : sstate := mkS [] None.

(* append a value to an existing key, or append a new key at the end *)
Fixpoint ms_add (k v : text) (m : mmap) : mmap :=
  match m with
  | [] => [(k, [v])]
  | (k', vs) :: m' => if text_eqb k k' then (k', vs ++ [v]) :: m' else (k', vs) :: ms_add k v m'
  end.
Fixpoint ms_mem (k : text) (m : mmap) : bool :=
  match m with [] => false | (k', _) :: m' => text_eqb k k' || ms_mem k m' end.
Fixpoint ms_find (k : text) (m : mmap) : option (list text) :=
  match m with [] => None | (k', vs) :: m' => if text_eqb k k' then Some vs else ms_find k m' end.
Definition ms_remove (k : text) (m : mmap) : mmap :=
  filter (fun kv => negb (text_eqb k (fst kv))) m.
Fixpoint ms_replace (k : text) (vs : list text) (m : mmap) : mmap :=
  match m with
  | [] => [(k, vs)]
  | (k', vs') :: m' => if text_eqb k k' then (k', vs) :: m' else (k', vs') :: ms_replace k vs m'
  end.
(* rewrite the last element of a non-empty list *)
Fixpoint extend_last (f : text -> text) (vs : list text) : option (list text) :=
  match vs with
  | [] => None
  | v :: vs' => match vs' with
                | [] => Some [f v]
                | _ => match extend_last f vs' with Some r => Some (v :: r) | None => None end
                end
  end.
(* unfolding a continuation line: old value, one space, the stripped continuation; stripped again *)
Definition unfold_value (part v : text) : text := strip (v ++ c_sp :: part).

Definition s_add (n v : text) (s : sstate) : res * sstate :=
  if is_token n && is_field_value v
  then (RUnit, mkS (ms_add (normalize n) v (s_map s)) (Some (normalize n)))
  else (RErr EInput, s).

Definition s_parse_line (line0 : text) (s : sstate) : res * sstate :=
  let line := strip_eol line0 in
  match line with
  | [] => (RUnit, s)
  | c :: _ =>
      if is_ws c then
        match s_last s with
        | None => (RErr EInput, s)
        | Some k =>
            if is_field_value (strip line) then
              match ms_find k (s_map s) with
              | None => (RErr EKey, s)
              | Some vs => match extend_last (unfold_value (strip line)) vs with
                           | None => (RErr EIndex, s)
                           | Some vs' => (RUnit, mkS (ms_replace k vs' (s_map s)) (s_last s))
                           end
              end
            else (RErr EInput, s)
        end
      else match split_colon line with
           | None => (RErr EInput, s)
           | Some (n, v) => s_add n (strip v) s
           end
  end.

Definition s_pairs (s : sstate) : list (text * text) := pairs_of (s_map s).
Definition s_string (s : sstate) : text := flat_map line_of (s_pairs s).

(* the combined view: one (name, comma-joined values) pair per key, in key order *)
Definition s_items (s : sstate) : list (text * text) :=
  map (fun kv => (fst kv, join [c_comma] (snd kv))) (s_map s).
Definition s_update (l : list (text * text)) (s : sstate) : sstate :=
  fold_left (fun s kv => mkS (ms_replace (normalize (fst kv)) [snd kv] (s_map s)) (s_last s)) l s.

Definition s_step (o : op) (s : sstate) : res * sstate :=
  match o with
  | Add n v => s_add n v s
  | SetItem n v => (RUnit, mkS (ms_replace (normalize n) [v] (s_map s)) (s_last s))
  | DelItem n => if ms_mem (normalize n) (s_map s)
                 then (RUnit, mkS (ms_remove (normalize n) (s_map s)) (s_last s))
                 else (RErr EKey, s)
  | GetItem n => match ms_find (normalize n) (s_map s) with
                 | Some vs => (RText (join [c_comma] vs), s)
                 | None => (RErr EKey, s)
                 end
  | GetList n => (RList (match ms_find (normalize n) (s_map s) with Some vs => vs | None => [] end), s)
  | Contains n => (RBool (ms_mem (normalize n) (s_map s)), s)
  | Keys => (RList (map fst (s_map s)), s)
  | GetAll => (RPairs (s_pairs s), s)
  | ParseLine l => s_parse_line l s
  | ToString => (RText (s_string s), s)
  | GetD n => (match ms_find (normalize n) (s_map s) with Some vs => RText (join [c_comma] vs) | None => RUnit end, s)
  | Pop n => match ms_find (normalize n) (s_map s) with
             | Some vs => (RText (join [c_comma] vs), mkS (ms_remove (normalize n) (s_map s)) (s_last s))
             | None => (RErr EKey, s)
             end
  | SetDefault n v => match ms_find (normalize n) (s_map s) with
                      | Some vs => (RText (join [c_comma] vs), s)
                      | None => (RText v, mkS (ms_replace (normalize n) [v] (s_map s)) (s_last s))
                      end
  | Items => (RPairs (s_items s), s)
  | Len => (RNat (length (s_map s)), s)
  | Update l => (RUnit, s_update l s)
  | PopItem => match s_map s with
               | [] => (RErr EKey, s)
               | (k, vs) :: m' => (RPairs [(k, join [c_comma] vs)], mkS m' (s_last s))
               end
  | Clear => (RUnit, mkS [] (s_last s))
  | Values => (RList (map snd (s_items s)), s)
  end.

Fixpoint s_fold (f : text -> sstate -> res * sstate) (ls : list text) (s : sstate) : res * sstate :=
  match ls with
  | [] => (RUnit, s)
  | l :: ls' => match f l s with
                | (RUnit, s') => s_fold f ls' s'
                | (r, s') => (r, s')
                end
  end.
Definition s_parse (t : text) : res * sstate := s_fold s_parse_line (split_lines t) empty_s.
Fixpoint last_opt {A} (l : list A) : option A :=
  match l with [] => None | x :: l' => match l' with [] => Some x | _ => last_opt l' end end.
Definition pair_valid (kv : text * text) : bool := is_token (fst kv) && is_field_value (snd kv).
(* copy(): the same multimap (every stored line must pass add's validation);
   the continuation target of the copy is its last key *)
Definition s_copy (s : sstate) : res * sstate :=
  if forallb pair_valid (s_pairs s)
  then (RUnit, mkS (s_map s) (last_opt (map fst (s_pairs s))))
  else (RErr EInput, s).

(* h[n] = v is the one write that validates nothing; a program is "validated" when
   every such write uses a token name and a field-value *)
Definition valid_op (o : op) : bool :=
  match o with
  | SetItem n v | SetDefault n v => is_token n && is_field_value v
  | Update l => forallb pair_valid l
  | _ => true
  end.
Definition valid_cmd (c : cmd) : bool :=
  match c with On _ o => valid_op o | FromPairs l => forallb pair_valid l | _ => true end.

(* ---------- programs ---------- *)
Definition s_new (st : list sstate) (r : res * sstate) : res * list sstate :=
  match r with
  | (RUnit, s') => (RUnit, st ++ [s'])
  | (e, _) => (e, st)
  end.
Definition s_run_cmd (c : cmd) (st : list sstate) : res * list sstate :=
  match c with
  | On i o => match nth_error st i with
              | None => (RBadTarget, st)
              | Some s => let '(r, s') := s_step o s in (r, upd i s' st)
              end
  | Copy i => match nth_error st i with
              | None => (RBadTarget, st)
              | Some s => s_new st (s_copy s)
              end
  | Parse t => s_new st (s_parse t)
  | Reparse i => match nth_error st i with
                 | None => (RBadTarget, st)
                 | Some s => s_new st (s_parse (s_string s))
                 end
  | FromPairs l => s_new st (RUnit, s_update l empty_s)
  | Eq i j => match nth_error st i, nth_error st j with
              | Some a, Some b => (RBool (dict_eqb (s_items a) (s_items b)), st)
              | _, _ => (RBadTarget, st)
              end
  end.
Fixpoint s_run_cmds (cs : list cmd) (st : list sstate) : list res * list sstate :=
  match cs with
  | [] => ([], st)
  | c :: cs' => let '(r, st1) := s_run_cmd c st in
                let '(rs, st2) := s_run_cmds cs' st1 in (r :: rs, st2)
  end.
