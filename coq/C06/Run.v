(* Executable entry points used by the correspondence check. *)
From Coq Require Import List NArith ZArith String Bool.
Import ListNotations.
From TV Require Import Lib.Obs C06.Model C06.Spec.

Definition obs_err (e : err) : obs :=
  match e with
  | EInput => OTag "HTTPInputError"
  | EKey => OTag "KeyError"
  | EIndex => OTag "IndexError"
  end.
Definition obs_pair (kv : text * text) : obs := OList [OBytes (fst kv); OBytes (snd kv)].
Definition obs_res (r : res) : obs :=
  match r with
  | RUnit => ONone
  | RErr e => obs_err e
  | RText t => OBytes t
  | RBool b => OBool b
  | RList l => OList (map OBytes l)
  | RPairs l => OList (map obs_pair l)
  | RBadTarget => OTag "BadTarget"
  | RNat n => OInt (Z.of_nat n)
  | ROutOfFuel => OTag "OutOfFuel"
  end.
(* what is read back from every object at the end: list(h), list(h.get_all()) *)
Definition dump (ks : list text) (ps : list (text * text)) : obs :=
  OList [OList (map OBytes ks); OList (map obs_pair ps)].
Definition mk_obs (rs : list res) (ds : list obs) : obs := OList [OList (map obs_res rs); OList ds].

(* a case is a program run from a single fresh HTTPHeaders() *)
Definition run_case (cs : list cmd) : obs :=
  let '(rs, st) := run_cmds cs [empty_h] in
  mk_obs rs (map (fun h => dump (keys h) (get_all h)) st).

(* the property: the observable is what the cache-free multimap specification gives *)
Definition spec_case (cs : list cmd) : obs :=
  let '(rs, st) := s_run_cmds cs [empty_s] in
  mk_obs rs (map (fun s => dump (map fst (s_map s)) (s_pairs s)) st).

(* ... and, in a validated program, copy() and parse(str()) never fail (their results
   being equal maps is part of the comparison above: the specification's copy IS the same map) *)
Fixpoint copies_ok (cs : list cmd) (rs : list obs) : bool :=
  match cs, rs with
  | c :: cs', r :: rs' =>
      (match c with
       | Copy _ | Reparse _ => obs_eqb r ONone || obs_eqb r (OTag "BadTarget")
       | _ => true
       end) && copies_ok cs' rs'
  | _, _ => true
  end.
Definition results_of (o : obs) : option (list obs) :=
  match o with OList (OList rs :: _) => Some rs | _ => None end.
Definition check_case (cs : list cmd) (o : obs) : bool :=
  obs_eqb o (spec_case cs) &&
  (if forallb valid_cmd cs
   then match results_of o with Some rs => copies_ok cs rs | None => false end
   else true).
