(* C06 — multimap laws of the modelled class, copy / round-trip, independence. *)
From Coq Require Import List NArith Bool Lia PeanoNat.
Import ListNotations.
From TV Require Import C06.Model C06.Spec C06.ProofsBase C06.ProofsRefine C06.ProofsProg.
Local Open Scope N_scope.

(* ---------- reading ---------- *)
Lemma get_reads_join : forall n h, inv h ->
  fst (step (GetItem n) h) =
    (if contains n h then RText (join [c_comma] (get_list n h)) else RErr EKey) /\
  abs (snd (step (GetItem n) h)) = abs h /\ inv (snd (step (GetItem n) h)).
Proof.
  intros n h Hi. destruct (step_refines (GetItem n) h Hi) as [H1 H2].
  split; [|split; [|exact H2]].
  - apply (f_equal fst) in H1. cbn [fst] in H1. rewrite <- H1. simpl s_step.
    change (s_map (abs h)) with (as_list h). rewrite ms_find_get.
    unfold contains, get_list, d_mem. destruct (d_get (normalize n) (as_list h)); reflexivity.
  - apply (f_equal snd) in H1. cbn [snd] in H1. rewrite <- H1. simpl s_step.
    destruct (ms_find _ _); reflexivity.
Qed.

(* ---------- deleting ---------- *)
Lemma present_can_be_deleted : forall n h, contains n h = true ->
  exists h', step (DelItem n) h = (RUnit, h') /\
    (forall n', normalize n' = normalize n -> contains n' h' = false) /\
    (forall n', normalize n' <> normalize n ->
       get_list n' h' = get_list n' h /\ contains n' h' = contains n' h) /\
    keys h' = filter (fun k => negb (text_eqb (normalize n) k)) (keys h).
Proof.
  intros n h H. unfold contains in H. simpl. unfold del_item. rewrite H.
  eexists. split; [reflexivity|]. unfold contains, get_list, keys, d_mem. simpl. repeat split.
  - intros n' E. rewrite E, d_get_del_same. reflexivity.
  - rewrite d_get_del_other by congruence. reflexivity.
  - rewrite d_get_del_other by congruence. reflexivity.
  - apply d_del_keys.
Qed.
Lemma absent_delete_raises : forall n h, contains n h = false -> step (DelItem n) h = (RErr EKey, h).
Proof. intros n h H. unfold contains in H. simpl. unfold del_item. rewrite H. reflexivity. Qed.
Lemma listed_key_present : forall k h, inv h -> In k (keys h) -> contains k h = true.
Proof.
  intros k h [_ [_ Hf]] Hin. unfold contains. apply d_mem_in_keys.
  unfold keys in Hin. pose proof Hin as Hin2. apply in_map_iff in Hin2 as [[k1 vs] [E Hin2]]. simpl in E. subst k1.
  rewrite Forall_forall in Hf. destruct (Hf _ Hin2) as [Hn _]. simpl in Hn. rewrite Hn. exact Hin.
Qed.

(* ---------- adding / setting ---------- *)
Lemma add_appends : forall n v h, is_token n = true -> is_field_value v = true ->
  exists h', step (Add n v) h = (RUnit, h') /\
    get_list n h' = get_list n h ++ [v] /\
    (forall n', normalize n' <> normalize n ->
       get_list n' h' = get_list n' h /\ contains n' h' = contains n' h) /\
    keys h' = (if contains n h then keys h else keys h ++ [normalize n]) /\
    last_key h' = Some (normalize n).
Proof.
  intros n v h Ht Hv. simpl. unfold add. rewrite Ht, Hv. simpl. rewrite normalize_idem.
  unfold contains, get_list, keys, d_mem.
  destruct (d_get (normalize n) (as_list h)) as [vs|] eqn:Eg; simpl.
  - eexists. split; [reflexivity|]. simpl. repeat split.
    + rewrite d_get_set_same. reflexivity.
    + rewrite d_get_set_other by congruence. reflexivity.
    + rewrite d_get_set_other by congruence. reflexivity.
    + apply d_set_keys_present. eapply d_get_in_keys; eauto.
  - eexists. split; [reflexivity|]. unfold set_item. simpl. rewrite normalize_idem. repeat split.
    + rewrite d_get_set_same. reflexivity.
    + rewrite d_get_set_other by congruence. reflexivity.
    + rewrite d_get_set_other by congruence. reflexivity.
    + rewrite d_set_absent by (apply d_get_none_not_in; exact Eg). rewrite map_app. reflexivity.
Qed.
Lemma add_rejects : forall n v h, is_token n && is_field_value v = false -> step (Add n v) h = (RErr EInput, h).
Proof.
  intros n v h H. simpl. unfold add. destruct (is_token n); simpl in *; [|reflexivity]. rewrite H. reflexivity.
Qed.
Lemma set_replaces : forall n v h,
  exists h', step (SetItem n v) h = (RUnit, h') /\
    get_list n h' = [v] /\
    (forall n', normalize n' <> normalize n ->
       get_list n' h' = get_list n' h /\ contains n' h' = contains n' h) /\
    keys h' = (if contains n h then keys h else keys h ++ [normalize n]) /\
    last_key h' = last_key h.
Proof.
  intros n v h. simpl. eexists. split; [reflexivity|].
  unfold set_item, contains, get_list, keys, d_mem. simpl. repeat split.
  - rewrite d_get_set_same. reflexivity.
  - rewrite d_get_set_other by congruence. reflexivity.
  - rewrite d_get_set_other by congruence. reflexivity.
  - destruct (d_get (normalize n) (as_list h)) eqn:Eg.
    + apply d_set_keys_present. eapply d_get_in_keys; eauto.
    + rewrite d_set_absent by (apply d_get_none_not_in; exact Eg). rewrite map_app. reflexivity.
Qed.

(* ---------- names are compared up to ASCII case ---------- *)
Lemma is_tchar_lower_eq c : is_tchar (lower c) = is_tchar c.
Proof.
  unfold lower. destruct (in_range 65 90 c) eqn:E; [|reflexivity].
  unfold in_range in E. apply andb_true_iff in E as [E1 E2]. apply N.leb_le in E1, E2.
  unfold is_tchar, in_range.
  assert (97 <=? c + 32 = true) as -> by (apply N.leb_le; lia).
  assert (c + 32 <=? 122 = true) as -> by (apply N.leb_le; lia).
  assert (65 <=? c = true) as -> by (apply N.leb_le; lia).
  assert (c <=? 90 = true) as -> by (apply N.leb_le; lia).
  simpl. rewrite !orb_true_r. reflexivity.
Qed.
Lemma is_token_lower : forall n, is_token (map lower n) = is_token n.
Proof.
  intros [|c n]; [reflexivity|]. unfold is_token. cbn [map].
  change (forallb is_tchar (map lower (c :: n)) = forallb is_tchar (c :: n)).
  induction (c :: n) as [|x l IH]; simpl; auto. rewrite is_tchar_lower_eq, IH. reflexivity.
Qed.
Lemma ci_same_behaviour : forall a b, map lower a = map lower b ->
  forall h v, step (Add a v) h = step (Add b v) h /\ step (SetItem a v) h = step (SetItem b v) h /\
    step (DelItem a) h = step (DelItem b) h /\ step (GetItem a) h = step (GetItem b) h /\
    step (GetList a) h = step (GetList b) h /\ step (Contains a) h = step (Contains b) h.
Proof.
  intros a b H h v. pose proof (proj2 (normalize_eq_iff_ci a b) H) as Hn.
  assert (Ht : is_token a = is_token b) by (rewrite <- (is_token_lower a), <- (is_token_lower b), H; reflexivity).
  simpl. unfold add, set_item, del_item, get_item, get_list, contains. rewrite Hn, Ht. repeat split; reflexivity.
Qed.

(* ---------- copy() and parse(str()) of a map whose lines are all valid ---------- *)
Lemma copy_equal : forall h, inv h -> forallb pair_valid (get_all h) = true ->
  exists h', copy h = (RUnit, h') /\ as_list h' = as_list h /\ inv h'.
Proof.
  intros h [Hc Hs] Hv. unfold copy.
  destruct (add_all_refines (get_all h) empty_h inv_empty) as [H1 H2].
  destruct (s_add_all_rebuild (as_list h) [] None Hs Hv) as [lk E]. simpl in E.
  change (abs empty_h) with (mkS [] None) in H1. unfold get_all in *. rewrite E in H1.
  destruct (add_all (pairs_of (as_list h)) empty_h) as [r h']. simpl in *.
  inversion H1 as [[E1 E2 E3]]. exists h'. auto.
Qed.
Lemma copy_rejects : forall h, forallb pair_valid (get_all h) = false -> fst (copy h) = RErr EInput.
Proof.
  intros h Hv. unfold copy. destruct (add_all_refines (get_all h) empty_h inv_empty) as [H1 _].
  pose proof (s_add_all_invalid (get_all h) (abs empty_h) Hv) as H. rewrite H1 in H. exact H.
Qed.
Lemma roundtrip_equal : forall h, inv h -> forallb pair_valid (get_all h) = true ->
  exists h', parse (to_string h) = (RUnit, h') /\ as_list h' = as_list h /\ inv h'.
Proof.
  intros h [Hc Hs] Hv. unfold parse, to_string.
  destruct (parse_lines_refines (split_lines (flat_map line_of (get_all h))) empty_h inv_empty) as [H1 H2].
  rewrite (s_parse_lines_of _ _ Hv) in H1.
  destruct (s_add_all_rebuild (as_list h) [] None Hs Hv) as [lk E]. simpl in E.
  change (abs empty_h) with (mkS [] None) in H1. unfold get_all in *. rewrite E in H1.
  destruct (parse_lines (split_lines (flat_map line_of (pairs_of (as_list h)))) empty_h) as [r h']. simpl in *.
  inversion H1 as [[E1 E2 E3]]. exists h'. auto.
Qed.

(* ---------- objects are independent ---------- *)
Lemma upd_other {A} : forall (l : list A) i j x, i <> j -> nth_error (upd j x l) i = nth_error l i.
Proof.
  induction l as [|y l IH]; intros [|i] [|j] x H; simpl; auto; try congruence.
Qed.
Lemma nth_error_app_old {A} : forall (l l' : list A) i, (i < length l)%nat -> nth_error (l ++ l') i = nth_error l i.
Proof. intros. apply nth_error_app1. assumption. Qed.
Lemma upd_length {A} : forall (l : list A) i x, length (upd i x l) = length l.
Proof. induction l as [|y l IH]; intros [|i] x; simpl; auto. Qed.
Lemma new_obj_old : forall st r i, (i < length st)%nat ->
  nth_error (snd (new_obj st r)) i = nth_error st i /\ (length st <= length (snd (new_obj st r)))%nat.
Proof.
  intros st [r h'] i H. destruct r; simpl; auto. rewrite app_length. simpl.
  split; [apply nth_error_app1; exact H|lia].
Qed.
(* the commands that may write to object i (== fills the caches of both operands) *)
Definition touches (c : cmd) (i : nat) : Prop :=
  match c with On j _ => j = i | Eq a b => a = i \/ b = i | _ => False end.

Lemma run_cmd_other : forall c st i, ~ touches c i -> (i < length st)%nat ->
  nth_error (snd (run_cmd c st)) i = nth_error st i /\ (length st <= length (snd (run_cmd c st)))%nat.
Proof.
  intros c st i Hc Hi. destruct c as [j o|j|t|j|l|a b]; simpl in *.
  - destruct (nth_error st j) as [h|]; simpl; auto. destruct (step o h) as [r h']. simpl.
    rewrite upd_length. split; auto. apply upd_other. intro E. subst j. apply Hc. reflexivity.
  - destruct (nth_error st j); simpl; auto. apply new_obj_old. exact Hi.
  - apply new_obj_old. exact Hi.
  - destruct (nth_error st j); simpl; auto. apply new_obj_old. exact Hi.
  - rewrite app_length. simpl. split; [apply nth_error_app1; exact Hi|lia].
  - assert (Ha : i <> a) by (intro; subst; apply Hc; auto).
    assert (Hb : i <> b) by (intro; subst; apply Hc; auto).
    destruct (nth_error st a) as [ha|]; [|simpl; auto]. destruct (nth_error st b) as [hb|]; [|simpl; auto].
    destruct (items ha) as [ra ha']. 
    assert (G : forall x, nth_error (upd a x st) i = nth_error st i /\
                          (length st <= length (upd a x st))%nat).
    { intros x. rewrite upd_length. split; [apply upd_other; exact Ha|lia]. }
    destruct ra; try (simpl; apply G).
    destruct (nth_error (upd a ha' st) b) as [hb1|]; [|simpl; apply G].
    destruct (items hb1) as [rb hb'].
    assert (G2 : nth_error (upd b hb' (upd a ha' st)) i = nth_error st i /\
                 (length st <= length (upd b hb' (upd a ha' st)))%nat).
    { rewrite !upd_length. split; [rewrite !upd_other by assumption; reflexivity|lia]. }
    destruct rb; simpl; apply G2.
Qed.
Lemma run_cmds_other : forall cs st i, Forall (fun c => ~ touches c i) cs -> (i < length st)%nat ->
  nth_error (snd (run_cmds cs st)) i = nth_error st i.
Proof.
  induction cs as [|c cs IH]; intros st i H Hi; simpl; auto.
  inversion H as [|? ? Hc Hcs]; subst.
  destruct (run_cmd_other c st i Hc Hi) as [H1 H2].
  destruct (run_cmd c st) as [r st1]. simpl in *.
  specialize (IH st1 i Hcs). destruct (run_cmds cs st1) as [rs st2]. simpl in *.
  rewrite IH by lia. exact H1.
Qed.

(* ---------- the combined view and == ---------- *)
Lemma items_combined : forall h, inv h ->
  fst (items h) = RPairs (map (fun kv => (fst kv, join [c_comma] (snd kv))) (as_list h)) /\
  abs (snd (items h)) = abs h /\ inv (snd (items h)).
Proof.
  intros h Hi. destruct (items_refines h Hi) as [h' [E1 [E2 E3]]]. rewrite E1. simpl. auto.
Qed.
Lemma dict_of_NoDup_from : forall (l d : list (text * text)), NoDup (map fst d) ->
  NoDup (map fst (fold_left (fun (d : list (text * text)) (kv : text * text) => d_set (fst kv) (snd kv) d) l d)).
Proof.
  induction l as [|[k v] l IH]; intros d H; simpl; auto. apply IH. apply d_set_NoDup. exact H.
Qed.
Lemma dict_eqb_refl : forall a, dict_eqb a a = true.
Proof.
  intro a. unfold dict_eqb. rewrite Nat.eqb_refl. simpl. unfold dict_sub.
  assert (Hn : NoDup (map fst (dict_of a))) by (apply dict_of_NoDup_from; constructor).
  apply forallb_forall. intros [k v] Hin. simpl.
  rewrite (nodup_lookup _ _ _ Hn Hin). apply text_eqb_refl.
Qed.
(* two objects with the same list store compare equal with the class's own == *)
Lemma same_store_compare_equal : forall h h', inv h -> inv h' -> as_list h' = as_list h ->
  exists a, fst (items h) = RPairs a /\ fst (items h') = RPairs a /\ dict_eqb a a = true.
Proof.
  intros h h' Hi Hi' E. destruct (items_combined h Hi) as [E1 _]. destruct (items_combined h' Hi') as [E2 _].
  rewrite E in E2. eexists. split; [exact E1|split; [exact E2|apply dict_eqb_refl]].
Qed.
