(* C06 — tornado.httputil.HTTPHeaders as it is in /repo (after fixes 8cd6af7, 3fd7028).
   Executable model of: _normalize_header, the _ABNF.field_name / field_value
   checks, HTTPHeaders.add / __setitem__ / __delitem__ / __getitem__ /
   __contains__ / get_list / get_all / __iter__ / parse_line / parse / copy /
   __str__, with the three pieces of state (_as_list, _combined_cache,
   _last_key).  Text is a list of code points.  Definitions only. *)
From Coq Require Import List NArith Bool.
Import ListNotations.
Local Open Scope N_scope.

Definition text := list N.

Fixpoint text_eqb (a b : text) : bool :=
  match a, b with
  | [], [] => true
  | x :: a', y :: b' => (x =? y) && text_eqb a' b'
  | _, _ => false
  end.

(* ---------- Python dict (insertion ordered) as an association list ---------- *)
Section Dict.
  Context {V : Type}.
  Fixpoint d_get (k : text) (d : list (text * V)) : option V :=
    match d with
    | [] => None
    | (k', v) :: d' => if text_eqb k k' then Some v else d_get k d'
    end.
  Definition d_mem (k : text) (d : list (text * V)) : bool :=
    match d_get k d with Some _ => true | None => false end.
  (* d[k] = v : an existing key keeps its position, a new key goes last *)
  Fixpoint d_set (k : text) (v : V) (d : list (text * V)) : list (text * V) :=
    match d with
    | [] => [(k, v)]
    | (k', v') :: d' => if text_eqb k k' then (k', v) :: d' else (k', v') :: d_set k v d'
    end.
  (* del d[k] / d.pop(k, None) *)
  Fixpoint d_del (k : text) (d : list (text * V)) : list (text * V) :=
    match d with
    | [] => []
    | (k', v') :: d' => if text_eqb k k' then d_del k d' else (k', v') :: d_del k d'
    end.
End Dict.

(* ---------- characters ---------- *)
Definition c_lf := 10.  Definition c_cr := 13.  Definition c_sp := 32.  Definition c_tab := 9.
Definition c_dash := 45. Definition c_colon := 58. Definition c_comma := 44.

Definition in_range (lo hi c : N) : bool := (lo <=? c) && (c <=? hi).
Definition upper (c : N) : N := if in_range 97 122 c then c - 32 else c.
Definition lower (c : N) : N := if in_range 65 90 c then c + 32 else c.
Definition is_ws (c : N) : bool := (c =? c_sp) || (c =? c_tab).     (* HTTP_WHITESPACE *)

(* _ABNF.tchar  [!#$%&'*+\-.^_`|~0-9A-Za-z] *)
Definition is_tchar (c : N) : bool :=
  in_range 48 57 c || in_range 65 90 c || in_range 97 122 c ||
  existsb (N.eqb c) [33; 35; 36; 37; 38; 39; 42; 43; 45; 46; 94; 95; 96; 124; 126].
(* _ABNF.field_name.fullmatch *)
Definition is_token (n : text) : bool :=
  match n with [] => false | _ => forallb is_tchar n end.
(* _ABNF.field_vchar = VCHAR | obs-text *)
Definition is_vchar (c : N) : bool := in_range 33 126 c || in_range 128 255 c.
Definition is_fv_char (c : N) : bool := is_vchar c || is_ws c.
Definition head_ok (l : text) : bool := match l with [] => true | c :: _ => is_vchar c end.
(* _ABNF.field_value.fullmatch:  "" | vchar | vchar (vchar|SP|HTAB)* vchar *)
Definition is_field_value (v : text) : bool :=
  forallb is_fv_char v && head_ok v && head_ok (rev v).

(* ---------- _normalize_header: "-".join(w.capitalize() for w in name.split("-")) ---------- *)
(* str.split(sep): first piece and the remaining pieces (always at least one piece) *)
Fixpoint split1 (sep : N) (l : text) : text * list text :=
  match l with
  | [] => ([], [])
  | c :: r => let '(w, ws) := split1 sep r in
              if c =? sep then ([], w :: ws) else (c :: w, ws)
  end.
Definition split_on (sep : N) (l : text) : list text := let '(w, ws) := split1 sep l in w :: ws.
(* str.capitalize on ASCII text *)
Definition capitalize (w : text) : text :=
  match w with [] => [] | c :: r => upper c :: map lower r end.
Fixpoint join (sep : text) (ws : list text) : text :=
  match ws with
  | [] => []
  | w :: ws' => match ws' with [] => w | _ => w ++ sep ++ join sep ws' end
  end.
Definition normalize (n : text) : text := join [c_dash] (map capitalize (split_on c_dash n)).

(* ---------- str.strip(" \t") ---------- *)
Fixpoint lstrip (l : text) : text :=
  match l with [] => [] | c :: r => if is_ws c then lstrip r else l end.
Definition strip (l : text) : text := rev (lstrip (rev (lstrip l))).

(* ---------- the object ---------- *)
Record hstate := mkH {
  as_list : list (text * list text);     (* _as_list *)
  cache : list (text * text);            (* _combined_cache *)
  last_key : option text                 (* _last_key *)
}.
Definition empty_h : hstate := mkH [] [] None.

Inductive err := EInput (* HTTPInputError *) | EKey (* KeyError *) | EIndex (* IndexError *).
Inductive res :=
| RUnit | RErr (e : err) | RText (t : text) | RBool (b : bool)
| RList (l : list text) | RPairs (l : list (text * text)) | RBadTarget | RNat (n : nat) | ROutOfFuel.

(* __setitem__ : no validation, does not touch _last_key *)
Definition set_item (n v : text) (h : hstate) : hstate :=
  let k := normalize n in
  mkH (d_set k [v] (as_list h)) (d_set k v (cache h)) (last_key h).

(* add (with _chars_are_bytes=True) *)
Definition add (n v : text) (h : hstate) : res * hstate :=
  if negb (is_token n) then (RErr EInput, h) else
  if negb (is_field_value v) then (RErr EInput, h) else
  let k := normalize n in
  let h1 := mkH (as_list h) (cache h) (Some k) in
  if d_mem (normalize k) (as_list h1)           (* `norm_name in self` normalises again *)
  then
    let h2 := mkH (as_list h1) (d_del k (cache h1)) (Some k) in
    match d_get k (as_list h2) with
    | Some vs => (RUnit, mkH (d_set k (vs ++ [v]) (as_list h2)) (cache h2) (Some k))
    | None => (RErr EKey, h2)
    end
  else (RUnit, set_item k v h1).

(* __getitem__ : fills the cache *)
Definition get_item (n : text) (h : hstate) : res * hstate :=
  let k := normalize n in
  match d_get k (cache h) with
  | Some v => (RText v, h)
  | None =>
      match d_get k (as_list h) with
      | None => (RErr EKey, h)
      | Some vs => let v := join [c_comma] vs in
                   (RText v, mkH (as_list h) (d_set k v (cache h)) (last_key h))
      end
  end.

(* __delitem__ (fixed: list first, then cache.pop(name, None)) *)
Definition del_item (n : text) (h : hstate) : res * hstate :=
  let k := normalize n in
  if d_mem k (as_list h)
  then (RUnit, mkH (d_del k (as_list h)) (d_del k (cache h)) (last_key h))
  else (RErr EKey, h).

Definition get_list (n : text) (h : hstate) : list text :=
  match d_get (normalize n) (as_list h) with Some vs => vs | None => [] end.
Definition contains (n : text) (h : hstate) : bool := d_mem (normalize n) (as_list h).
Definition keys (h : hstate) : list text := map fst (as_list h).
Definition pairs_of (al : list (text * list text)) : list (text * text) :=
  flat_map (fun kv => map (pair (fst kv)) (snd kv)) al.
Definition get_all (h : hstate) : list (text * text) := pairs_of (as_list h).
Definition line_of (kv : text * text) : text := fst kv ++ [c_colon; c_sp] ++ snd kv ++ [c_lf].
Definition to_string (h : hstate) : text := flat_map line_of (get_all h).

(* re.search(r"\r?\n$", line); line[:m.start()]   ($ also matches before a final \n) *)
Definition strip_eol (line : text) : text :=
  match rev line with
  | [] => line
  | a :: r1 =>
      if a =? c_lf then
        match r1 with
        | [] => rev r1
        | b :: r2 =>
            if b =? c_lf then
              match r2 with
              | [] => rev r2
              | c :: r3 => if c =? c_cr then rev r3 else rev r2
              end
            else if b =? c_cr then rev r2 else rev r1
        end
      else line
  end.

(* line.split(":", 1) *)
Fixpoint split_colon (l : text) : option (text * text) :=
  match l with
  | [] => None
  | c :: r => if c =? c_colon then Some ([], r)
              else match split_colon r with
                   | Some (a, b) => Some (c :: a, b)
                   | None => None
                   end
  end.

Definition parse_line (line0 : text) (h : hstate) : res * hstate :=
  let line := strip_eol line0 in
  match line with
  | [] => (RUnit, h)
  | c :: _ =>
      if is_ws c then
        match last_key h with
        | None => (RErr EInput, h)
        | Some k =>
            let part := strip line in
            if negb (is_field_value part) then (RErr EInput, h) else
            match d_get k (as_list h) with
            | None => (RErr EKey, h)          (* _last_key was deleted meanwhile *)
            | Some vs =>
                match rev vs with
                | [] => (RErr EIndex, h)
                | v :: vs' =>
                    (* [-1] = ([-1] + " " + part).strip(" \t")   (fix 3fd7028) *)
                    (RUnit, mkH (d_set k (rev (strip (v ++ c_sp :: part) :: vs')) (as_list h))
                                (d_del k (cache h)) (last_key h))
                end
            end
        end
      else
        match split_colon line with
        | None => (RErr EInput, h)
        | Some (n, v) => add n (strip v) h
        end
  end.

(* the pieces parse() feeds to parse_line: each keeps its "\n"; the text after the
   last "\n" (possibly empty) is always fed too *)
Fixpoint lines1 (l : text) : text * list text :=
  match l with
  | [] => ([], [])
  | c :: r => let '(w, ws) := lines1 r in
              if c =? c_lf then ([c_lf], w :: ws) else (c :: w, ws)
  end.
Definition split_lines (l : text) : list text := let '(w, ws) := lines1 l in w :: ws.

Fixpoint parse_lines (ls : list text) (h : hstate) : res * hstate :=
  match ls with
  | [] => (RUnit, h)
  | l :: ls' => match parse_line l h with
                | (RUnit, h') => parse_lines ls' h'
                | (r, h') => (r, h')
                end
  end.
(* HTTPHeaders.parse(text) *)
Definition parse (t : text) : res * hstate := parse_lines (split_lines t) empty_h.

Fixpoint add_all (ps : list (text * text)) (h : hstate) : res * hstate :=
  match ps with
  | [] => (RUnit, h)
  | (k, v) :: ps' => match add k v h with
                     | (RUnit, h') => add_all ps' h'
                     | (r, h') => (r, h')
                     end
  end.
(* HTTPHeaders(other) / copy() *)
Definition copy (h : hstate) : res * hstate := add_all (get_all h) empty_h.

(* ---------- collections.abc.MutableMapping mixins (they reach the class only through
   __getitem__ / __setitem__ / __delitem__ / __iter__ / __len__) ---------- *)
(* Mapping.get(key): try: return self[key]  except KeyError: return None *)
Definition get_default (n : text) (h : hstate) : res * hstate :=
  let '(r, h') := get_item n h in
  (match r with RErr EKey => RUnit | _ => r end, h').
(* MutableMapping.pop(key): value = self[key]; del self[key]; return value *)
Definition pop_item (n : text) (h : hstate) : res * hstate :=
  let '(r, h1) := get_item n h in
  match r with
  | RText v => match del_item n h1 with
               | (RUnit, h2) => (RText v, h2)
               | (e, h2) => (e, h2)
               end
  | _ => (r, h1)
  end.
(* MutableMapping.setdefault(key, default): try: return self[key]  except KeyError: self[key] = default *)
Definition set_default (n v : text) (h : hstate) : res * hstate :=
  let '(r, h1) := get_item n h in
  match r with
  | RErr EKey => (RText v, set_item n v h1)
  | _ => (r, h1)
  end.
(* list(h.items()): for key in iter(self): yield (key, self[key])   -- every read fills the cache *)
Fixpoint items_go (ks : list text) (acc : list (text * text)) (h : hstate) : res * hstate :=
  match ks with
  | [] => (RPairs (rev acc), h)
  | k :: ks' => match get_item k h with
                | (RText v, h') => items_go ks' ((k, v) :: acc) h'
                | (r, h') => (r, h')
                end
  end.
Definition items (h : hstate) : res * hstate := items_go (keys h) [] h.
(* MutableMapping.popitem(): key = next(iter(self)) (StopIteration -> KeyError); value = self[key];
   del self[key]; return (key, value) *)
Definition pop_first (h : hstate) : res * hstate :=
  match keys h with
  | [] => (RErr EKey, h)
  | k :: _ =>
      let '(r, h1) := get_item k h in
      match r with
      | RText v => match del_item k h1 with
                   | (RUnit, h2) => (RPairs [(k, v)], h2)
                   | (e, h2) => (e, h2)
                   end
      | _ => (r, h1)
      end
  end.
(* MutableMapping.clear(): try: while True: self.popitem()  except KeyError: pass *)
Fixpoint clear_loop (fuel : nat) (h : hstate) : res * hstate :=
  match fuel with
  | O => match as_list h with [] => (RUnit, h) | _ => (ROutOfFuel, h) end
  | S f => match pop_first h with
           | (RErr EKey, h') => (RUnit, h')
           | (RPairs _, h') => clear_loop f h'
           | (r, h') => (r, h')
           end
  end.
Definition clear (h : hstate) : res * hstate := clear_loop (length (as_list h)) h.
(* list(h.values()): [self[k] for k in iter(self)] *)
Definition values (h : hstate) : res * hstate :=
  let '(r, h') := items h in
  (match r with RPairs l => RList (map snd l) | _ => r end, h').
(* MutableMapping.update(pairs) / the dict-style constructor: self[k] = v for each pair *)
Definition update_all (l : list (text * text)) (h : hstate) : hstate :=
  fold_left (fun h kv => set_item (fst kv) (snd kv) h) l h.
(* dict(a) == dict(b) for lists of (key, value) pairs: later duplicates win, order is irrelevant *)
Definition dict_of (l : list (text * text)) : list (text * text) :=
  fold_left (fun d kv => d_set (fst kv) (snd kv) d) l [].
Definition dict_sub (a b : list (text * text)) : bool :=
  forallb (fun kv => match d_get (fst kv) b with Some v => text_eqb v (snd kv) | None => false end) a.
Definition dict_eqb (a b : list (text * text)) : bool :=
  let da := dict_of a in let db := dict_of b in
  Nat.eqb (length da) (length db) && dict_sub da db.

(* ---------- operations on one object ---------- *)
Inductive op :=
| Add (n v : text) | SetItem (n v : text) | DelItem (n : text) | GetItem (n : text)
| GetList (n : text) | Contains (n : text) | Keys | GetAll | ParseLine (l : text) | ToString
| GetD (n : text) | Pop (n : text) | SetDefault (n v : text) | Items | Len | Update (l : list (text * text))
| PopItem | Clear | Values.

Definition step (o : op) (h : hstate) : res * hstate :=
  match o with
  | Add n v => add n v h
  | SetItem n v => (RUnit, set_item n v h)
  | DelItem n => del_item n h
  | GetItem n => get_item n h
  | GetList n => (RList (get_list n h), h)
  | Contains n => (RBool (contains n h), h)
  | Keys => (RList (keys h), h)
  | GetAll => (RPairs (get_all h), h)
  | ParseLine l => parse_line l h
  | ToString => (RText (to_string h), h)
  | GetD n => get_default n h
  | Pop n => pop_item n h
  | SetDefault n v => set_default n v h
  | Items => items h
  | Len => (RNat (length (as_list h)), h)
  | Update l => (RUnit, update_all l h)
  | PopItem => pop_first h
  | Clear => clear h
  | Values => values h
  end.

(* ---------- programs over several objects (object 0 = HTTPHeaders()) ---------- *)
Inductive cmd :=
| On (i : nat) (o : op)        (* operation on object i *)
| Copy (i : nat)               (* objs.append(objs[i].copy()) *)
| Parse (t : text)             (* objs.append(HTTPHeaders.parse(t)) *)
| Reparse (i : nat)            (* objs.append(HTTPHeaders.parse(str(objs[i]))) *)
| FromPairs (l : list (text * text))   (* objs.append(HTTPHeaders(list_of_pairs or dict)) *)
| Eq (i j : nat).              (* objs[i] == objs[j]   (Mapping.__eq__: dict(a.items()) == dict(b.items())) *)

Fixpoint upd {A} (i : nat) (x : A) (l : list A) : list A :=
  match l, i with
  | [], _ => []
  | _ :: l', O => x :: l'
  | y :: l', S i' => y :: upd i' x l'
  end.

Definition new_obj (st : list hstate) (r : res * hstate) : res * list hstate :=
  match r with
  | (RUnit, h') => (RUnit, st ++ [h'])
  | (e, _) => (e, st)
  end.

Definition run_cmd (c : cmd) (st : list hstate) : res * list hstate :=
  match c with
  | On i o => match nth_error st i with
              | None => (RBadTarget, st)
              | Some h => let '(r, h') := step o h in (r, upd i h' st)
              end
  | Copy i => match nth_error st i with
              | None => (RBadTarget, st)
              | Some h => new_obj st (copy h)
              end
  | Parse t => new_obj st (parse t)
  | Reparse i => match nth_error st i with
                 | None => (RBadTarget, st)
                 | Some h => new_obj st (parse (to_string h))
                 end
  | FromPairs l => new_obj st (RUnit, update_all l empty_h)
  | Eq i j =>
      match nth_error st i, nth_error st j with
      | Some hi, Some _ =>
          match items hi with
          | (RPairs a, hi') =>
              let st1 := upd i hi' st in
              match nth_error st1 j with
              | None => (RBadTarget, st1)
              | Some hj =>
                  match items hj with
                  | (RPairs b, hj') => (RBool (dict_eqb a b), upd j hj' st1)
                  | (r, hj') => (r, upd j hj' st1)
                  end
              end
          | (r, hi') => (r, upd i hi' st)
          end
      | _, _ => (RBadTarget, st)
      end
  end.

Fixpoint run_cmds (cs : list cmd) (st : list hstate) : list res * list hstate :=
  match cs with
  | [] => ([], st)
  | c :: cs' => let '(r, st1) := run_cmd c st in
                let '(rs, st2) := run_cmds cs' st1 in (r :: rs, st2)
  end.
