(* C06 — the invariant (cache coherence + well-formed store) and the refinement
   of every single-object operation to the cache-free multimap of Spec.v. *)
From Coq Require Import List NArith Bool Lia.
Import ListNotations.
From TV Require Import C06.Model C06.Spec C06.ProofsBase.
Local Open Scope N_scope.

Definition abs (h : hstate) : sstate := mkS (as_list h) (last_key h).

(* every memoised combined value is the comma-join of the stored list *)
Definition cache_ok (h : hstate) : Prop :=
  forall k v, d_get k (cache h) = Some v ->
    exists vs, d_get k (as_list h) = Some vs /\ v = join [c_comma] vs.
Definition entry_ok (kv : text * list text) : Prop := normalize (fst kv) = fst kv /\ snd kv <> [].
Definition struct_ok (m : mmap) : Prop := NoDup (map fst m) /\ Forall entry_ok m.
Definition inv (h : hstate) : Prop := cache_ok h /\ struct_ok (as_list h).

Lemma inv_empty : inv empty_h.
Proof. split; [intros k v H; discriminate | split; constructor]. Qed.

(* ---------- spec operations are the dictionary operations ---------- *)
Lemma ms_find_get : forall k m, ms_find k m = d_get k m.
Proof. intros k m. induction m as [|[k1 v1] m IH]; simpl; [reflexivity|]. rewrite IH. reflexivity. Qed.
Lemma ms_mem_mem : forall k m, ms_mem k m = d_mem k m.
Proof.
  intros k m. unfold d_mem. induction m as [|[k1 v1] m IH]; simpl; auto.
  destruct (text_eqb k k1); simpl; auto.
Qed.
Lemma ms_remove_del : forall k m, ms_remove k m = d_del k m.
Proof.
  intros k m. unfold ms_remove. induction m as [|[k1 v1] m IH]; simpl; auto.
  destruct (text_eqb k k1); simpl; rewrite IH; reflexivity.
Qed.
Lemma ms_replace_set : forall k vs m, ms_replace k vs m = d_set k vs m.
Proof. intros k vs m. induction m as [|[k1 v1] m IH]; simpl; [reflexivity|]. rewrite IH. reflexivity. Qed.
Lemma ms_add_present : forall k v m vs, d_get k m = Some vs -> ms_add k v m = d_set k (vs ++ [v]) m.
Proof.
  intros k v m. induction m as [|[k1 v1] m IH]; simpl; intros vs H; [discriminate|].
  destruct (text_eqb k k1).
  - inversion H; subst. reflexivity.
  - rewrite (IH vs H). reflexivity.
Qed.
Lemma ms_add_absent : forall k v m, d_get k m = None -> ms_add k v m = d_set k [v] m.
Proof.
  intros k v m. induction m as [|[k1 v1] m IH]; simpl; intros H; auto.
  destruct (text_eqb k k1); [discriminate|]. rewrite (IH H). reflexivity.
Qed.
Lemma extend_last_snoc : forall f l v, extend_last f (l ++ [v]) = Some (l ++ [f v]).
Proof.
  intros f l v. induction l as [|x l IH]; simpl; auto.
  rewrite IH. destruct (l ++ [v]) eqn:E; auto. destruct l; discriminate.
Qed.
Lemma extend_last_rev : forall f vs v vs', rev vs = v :: vs' ->
  extend_last f vs = Some (rev (f v :: vs')).
Proof.
  intros f vs v vs' H. assert (vs = rev vs' ++ [v]) as ->.
  { rewrite <- (rev_involutive vs), H. reflexivity. }
  rewrite extend_last_snoc. reflexivity.
Qed.
Lemma extend_last_nil : forall (f : text -> text) vs, rev vs = [] -> extend_last f vs = None.
Proof. intros f vs H. assert (vs = []) as -> by (rewrite <- (rev_involutive vs), H; reflexivity). reflexivity. Qed.

(* ---------- structure preservation ---------- *)
Lemma d_set_Forall {V} (P : text * V -> Prop) : forall k v d,
  Forall P d -> P (k, v) -> Forall P (d_set k v d).
Proof.
  intros k v d Hd Hp. induction Hd as [|[k1 v1] d H1 Hd IH]; simpl.
  - constructor; auto.
  - destruct (text_eqb k k1) eqn:E.
    + apply text_eqb_eq in E. subst k1. constructor; auto.
    + constructor; auto.
Qed.
Lemma d_del_Forall {V} (P : text * V -> Prop) : forall k d, Forall P d -> Forall P (d_del k d).
Proof.
  intros k d Hd. induction Hd as [|[k1 v1] d H1 Hd IH]; simpl; [constructor|].
  destruct (text_eqb k k1); auto.
Qed.
Lemma NoDup_snoc {A} : forall (l : list A) x, NoDup l -> ~ In x l -> NoDup (l ++ [x]).
Proof.
  intros l x H. induction H as [|y l Hy H IH]; simpl; intro Hx.
  - constructor; [auto|constructor].
  - constructor.
    + intro Hin. apply in_app_or in Hin as [Hin|[Hin|[]]]; [contradiction|]. subst. apply Hx. auto.
    + apply IH. intro. apply Hx. auto.
Qed.
Lemma d_set_NoDup {V} : forall k (v : V) d, NoDup (map fst d) -> NoDup (map fst (d_set k v d)).
Proof.
  intros k v d H. destruct (in_dec (list_eq_dec N.eq_dec) k (map fst d)) as [Hin|Hout].
  - rewrite d_set_keys_present; auto.
  - rewrite d_set_absent; auto. rewrite map_app. simpl.
    apply NoDup_snoc; auto.
Qed.
Lemma d_del_NoDup {V} : forall k (d : list (text * V)), NoDup (map fst d) -> NoDup (map fst (d_del k d)).
Proof. intros k d H. rewrite d_del_keys. apply NoDup_filter. exact H. Qed.

Lemma struct_set : forall k vs m, struct_ok m -> normalize k = k -> vs <> [] -> struct_ok (d_set k vs m).
Proof.
  intros k vs m [H1 H2] Hk Hvs. split; [apply d_set_NoDup; auto|].
  apply d_set_Forall; auto. split; auto.
Qed.
Lemma struct_del : forall k m, struct_ok m -> struct_ok (d_del k m).
Proof. intros k m [H1 H2]. split; [apply d_del_NoDup | apply d_del_Forall]; auto. Qed.
Lemma struct_key_norm : forall k m vs, struct_ok m -> d_get k m = Some vs -> normalize k = k.
Proof.
  intros k m vs [_ H] Hg. apply d_get_in_keys in Hg. apply in_map_iff in Hg as [[k1 v1] [E Hin]].
  simpl in E. subst k1. rewrite Forall_forall in H. apply (H _ Hin).
Qed.

(* ---------- invariant preservation for the three kinds of writes ---------- *)
Lemma inv_set : forall h k v lk, inv h -> normalize k = k ->
  inv (mkH (d_set k [v] (as_list h)) (d_set k v (cache h)) lk).
Proof.
  intros h k v lk [Hc Hs] Hk. split.
  - intros k0 v0 H. simpl in *. destruct (text_eqb k k0) eqn:E.
    + apply text_eqb_eq in E. subst k0. rewrite d_get_set_same in H. inversion H; subst.
      exists [v0]. rewrite d_get_set_same. split; reflexivity.
    + apply text_eqb_neq in E. rewrite d_get_set_other in H by assumption.
      rewrite d_get_set_other by assumption. apply Hc. exact H.
  - simpl. apply struct_set; auto. discriminate.
Qed.
Lemma inv_update : forall h k vs vs' lk, inv h -> d_get k (as_list h) = Some vs -> vs' <> [] ->
  inv (mkH (d_set k vs' (as_list h)) (d_del k (cache h)) lk).
Proof.
  intros h k vs vs' lk [Hc Hs] Hg Hne. split.
  - intros k0 v0 H. simpl in *. destruct (text_eqb k k0) eqn:E.
    + apply text_eqb_eq in E. subst k0. rewrite d_get_del_same in H. discriminate.
    + apply text_eqb_neq in E. rewrite d_get_del_other in H by assumption.
      rewrite d_get_set_other by assumption. apply Hc. exact H.
  - simpl. apply struct_set; auto. eapply struct_key_norm; eauto.
Qed.
Lemma inv_delete : forall h k lk, inv h -> inv (mkH (d_del k (as_list h)) (d_del k (cache h)) lk).
Proof.
  intros h k lk [Hc Hs]. split.
  - intros k0 v0 H. simpl in *. destruct (text_eqb k k0) eqn:E.
    + apply text_eqb_eq in E. subst k0. rewrite d_get_del_same in H. discriminate.
    + apply text_eqb_neq in E. rewrite d_get_del_other in H by assumption.
      rewrite d_get_del_other by assumption. apply Hc. exact H.
  - simpl. apply struct_del. exact Hs.
Qed.
Lemma inv_fill : forall h k vs lk, inv h -> d_get k (as_list h) = Some vs ->
  inv (mkH (as_list h) (d_set k (join [c_comma] vs) (cache h)) lk).
Proof.
  intros h k vs lk [Hc Hs] Hg. split; [|exact Hs].
  intros k0 v0 H. simpl in *. destruct (text_eqb k k0) eqn:E.
  - apply text_eqb_eq in E. subst k0. rewrite d_get_set_same in H. inversion H; subst. eauto.
  - apply text_eqb_neq in E. rewrite d_get_set_other in H by assumption. apply Hc. exact H.
Qed.
Lemma inv_last : forall h lk, inv h -> inv (mkH (as_list h) (cache h) lk).
Proof. intros h lk [Hc Hs]. split; auto. Qed.

(* ---------- add ---------- *)
Lemma add_refines : forall n v h, inv h ->
  s_add n v (abs h) = (fst (add n v h), abs (snd (add n v h))) /\ inv (snd (add n v h)).
Proof.
  intros n v h Hi. unfold add, s_add.
  destruct (is_token n) eqn:Et; simpl; [|split; [reflexivity|exact Hi]].
  destruct (is_field_value v) eqn:Ev; simpl; [|split; [reflexivity|exact Hi]].
  rewrite normalize_idem. unfold d_mem.
  destruct (d_get (normalize n) (as_list h)) as [vs|] eqn:Eg; simpl.
  - split.
    + unfold abs; simpl. rewrite (ms_add_present _ _ _ _ Eg). reflexivity.
    + eapply inv_update; eauto. destruct vs; discriminate.
  - unfold set_item; simpl. rewrite normalize_idem. split.
    + unfold abs; simpl. rewrite (ms_add_absent _ _ _ Eg). reflexivity.
    + apply (inv_set (mkH (as_list h) (cache h) (Some (normalize n)))).
      * apply inv_last. exact Hi.
      * apply normalize_idem.
Qed.

(* ---------- parse_line ---------- *)
Lemma parse_line_refines : forall l h, inv h ->
  s_parse_line l (abs h) = (fst (parse_line l h), abs (snd (parse_line l h))) /\
  inv (snd (parse_line l h)).
Proof.
  intros l h Hi. unfold parse_line, s_parse_line.
  destruct (strip_eol l) as [|c line] eqn:El; [split; [reflexivity|exact Hi]|].
  destruct (is_ws c) eqn:Ew.
  - change (s_last (abs h)) with (last_key h). change (s_map (abs h)) with (as_list h). destruct (last_key h) as [k|] eqn:Ek; [|split; [reflexivity|exact Hi]].
    destruct (is_field_value (strip (c :: line))) eqn:Ev; simpl negb; cbv iota;
      [|split; [reflexivity|exact Hi]].
    rewrite ms_find_get.
    destruct (d_get k (as_list h)) as [vs|] eqn:Eg; [|split; [reflexivity|exact Hi]].
    destruct (rev vs) as [|v vs'] eqn:Er.
    + rewrite (extend_last_nil _ _ Er). split; [reflexivity|exact Hi].
    + rewrite (extend_last_rev _ _ _ _ Er). rewrite ms_replace_set. simpl. split.
      * unfold abs; simpl. try rewrite Ek. reflexivity.
      * eapply inv_update; [exact Hi | exact Eg | ]. simpl. intro Hx. apply app_eq_nil in Hx as [_ Hx]. discriminate.
  - destruct (split_colon (c :: line)) as [[n v]|]; [|split; [reflexivity|exact Hi]].
    apply add_refines. exact Hi.
Qed.

(* ---------- __getitem__ and the mixins built on it ---------- *)
Lemma get_item_hit : forall n h vs, inv h -> d_get (normalize n) (as_list h) = Some vs ->
  exists h', get_item n h = (RText (join [c_comma] vs), h') /\
             as_list h' = as_list h /\ last_key h' = last_key h /\ inv h'.
Proof.
  intros n h vs Hi Hg. unfold get_item.
  destruct (d_get (normalize n) (cache h)) as [v|] eqn:Ec.
  - destruct Hi as [Hc Hs]. destruct (Hc _ _ Ec) as [vs' [Hg' Hv]]. rewrite Hg in Hg'. inversion Hg'; subst.
    exists h. split; [reflexivity|]. split; [reflexivity|]. split; [reflexivity|]. split; assumption.
  - rewrite Hg. eexists. split; [reflexivity|]. simpl.
    split; [reflexivity|]. split; [reflexivity|]. apply inv_fill; auto.
Qed.
Lemma get_item_miss : forall n h, inv h -> d_get (normalize n) (as_list h) = None ->
  get_item n h = (RErr EKey, h).
Proof.
  intros n h [Hc Hs] Hg. unfold get_item.
  destruct (d_get (normalize n) (cache h)) as [v|] eqn:Ec.
  - destruct (Hc _ _ Ec) as [vs [Hg' _]]. congruence.
  - rewrite Hg. reflexivity.
Qed.

Lemma nodup_lookup {V} : forall (d : list (text * V)) k v, NoDup (map fst d) -> In (k, v) d -> d_get k d = Some v.
Proof.
  induction d as [|[k1 v1] d IH]; intros k v Hn Hin; [contradiction|]. simpl in *.
  inversion Hn as [|? ? Hk1 Hn']; subst. destruct Hin as [E|Hin].
  - inversion E; subst. rewrite text_eqb_refl. reflexivity.
  - assert (k <> k1). { intro; subst. apply Hk1. apply in_map_iff. exists (k1, v). auto. }
    assert (text_eqb k k1 = false) as -> by (apply text_eqb_neq; assumption). apply IH; assumption.
Qed.

Definition lookup_list (k : text) (al : mmap) : list text :=
  match d_get k al with Some vs => vs | None => [] end.

Lemma items_go_spec : forall ks acc h, inv h ->
  (forall k, In k ks -> normalize k = k /\ exists vs, d_get k (as_list h) = Some vs) ->
  exists h', items_go ks acc h =
               (RPairs (rev acc ++ map (fun k => (k, join [c_comma] (lookup_list k (as_list h)))) ks), h') /\
             as_list h' = as_list h /\ last_key h' = last_key h /\ inv h'.
Proof.
  induction ks as [|k ks IH]; intros acc h Hi Hk.
  - exists h. simpl. rewrite app_nil_r. auto.
  - destruct (Hk k (or_introl eq_refl)) as [Hn [vs Hg]].
    assert (Hg' : d_get (normalize k) (as_list h) = Some vs) by (rewrite Hn; exact Hg).
    destruct (get_item_hit k h vs Hi Hg') as [h1 [E1 [E2 [E3 E4]]]].
    cbn [items_go]. rewrite E1.
    destruct (IH ((k, join [c_comma] vs) :: acc) h1 E4) as [h2 [F1 [F2 [F3 F4]]]].
    { intros k' Hin. rewrite E2. apply Hk. right. exact Hin. }
    exists h2. split; [|split; [congruence|split; [congruence|exact F4]]].
    rewrite F1, E2. assert (HL : lookup_list k (as_list h) = vs) by (unfold lookup_list; rewrite Hg; reflexivity).
    cbn [map rev]. rewrite HL, <- app_assoc. reflexivity.
Qed.

Lemma items_refines : forall h, inv h ->
  exists h', items h = (RPairs (s_items (abs h)), h') /\ abs h' = abs h /\ inv h'.
Proof.
  intros h Hi. unfold items, keys.
  destruct (items_go_spec (map fst (as_list h)) [] h Hi) as [h' [E1 [E2 [E3 E4]]]].
  - intros k Hin. destruct Hi as [_ [Hn Hf]]. split.
    + apply in_map_iff in Hin as [[k1 vs] [E Hin]]. simpl in E. subst k1.
      rewrite Forall_forall in Hf. apply (Hf _ Hin).
    + destruct (d_get k (as_list h)) eqn:Eg; [eauto|]. apply d_get_none_not_in in Eg. contradiction.
  - exists h'. split; [|split; [unfold abs; rewrite E2, E3; reflexivity|exact E4]].
    rewrite E1. f_equal. f_equal. cbn [rev app]. unfold s_items. cbn [abs s_map].
    rewrite map_map. apply map_ext_in. intros [k vs] Hin. cbn [fst snd].
    unfold lookup_list. destruct Hi as [_ [Hn _]]. rewrite (nodup_lookup _ _ _ Hn Hin). reflexivity.
Qed.

Lemma update_all_refines : forall l h, inv h ->
  abs (update_all l h) = s_update l (abs h) /\ inv (update_all l h).
Proof.
  induction l as [|[k v] l IH]; intros h Hi; [split; [reflexivity|exact Hi]|].
  unfold update_all, s_update in *. cbn [fold_left fst snd].
  assert (Hi' : inv (set_item k v h)) by (apply inv_set; [exact Hi|apply normalize_idem]).
  destruct (IH (set_item k v h) Hi') as [E1 E2]. split; [|exact E2].
  rewrite E1. f_equal; unfold abs, set_item; cbn [as_list last_key s_map s_last]; rewrite ms_replace_set; reflexivity.
Qed.

(* ---------- popitem / clear / values ---------- *)
Lemma d_del_absent {V} : forall k (d : list (text * V)), ~ In k (map fst d) -> d_del k d = d.
Proof.
  intros k d. induction d as [|[k1 v1] d IH]; simpl; intro H; [reflexivity|].
  destruct (text_eqb k k1) eqn:E; [apply text_eqb_eq in E; exfalso; apply H; auto|]. rewrite IH; auto.
Qed.
Lemma pop_first_spec : forall h k vs al, inv h -> as_list h = (k, vs) :: al ->
  exists h', pop_first h = (RPairs [(k, join [c_comma] vs)], h') /\
             as_list h' = al /\ last_key h' = last_key h /\ inv h'.
Proof.
  intros h k vs al Hi Ea. pose proof Hi as [_ [Hn Hf]]. rewrite Ea in Hn, Hf.
  inversion Hn as [|? ? Hk Hn']; subst. inversion Hf as [|? ? [Hnk _] _]; subst. simpl in Hnk.
  assert (Hg : d_get (normalize k) (as_list h) = Some vs).
  { rewrite Hnk, Ea. simpl. rewrite text_eqb_refl. reflexivity. }
  destruct (get_item_hit k h vs Hi Hg) as [h1 [E1 [E2 [E3 E4]]]].
  unfold pop_first, keys. rewrite Ea. cbn [map fst]. rewrite E1.
  unfold del_item, d_mem. rewrite E2, Hg. eexists. split; [reflexivity|]. cbn [as_list last_key].
  split; [|split; [exact E3|rewrite <- E2; apply inv_delete; exact E4]].
  rewrite Hnk, Ea. simpl. rewrite text_eqb_refl. apply d_del_absent. exact Hk.
Qed.
Lemma clear_loop_spec : forall fuel h, inv h -> (length (as_list h) <= fuel)%nat ->
  exists h', clear_loop fuel h = (RUnit, h') /\ as_list h' = [] /\ last_key h' = last_key h /\ inv h'.
Proof.
  induction fuel as [|f IH]; intros h Hi Hl.
  - destruct (as_list h) eqn:Ea; [|simpl in Hl; lia]. exists h. simpl. rewrite Ea. auto.
  - destruct (as_list h) as [|[k vs] al] eqn:Ea.
    + exists h. cbn [clear_loop]. unfold pop_first, keys. rewrite Ea. simpl. auto.
    + destruct (pop_first_spec h k vs al Hi Ea) as [h1 [E1 [E2 [E3 E4]]]].
      cbn [clear_loop]. rewrite E1.
      destruct (IH h1 E4) as [h2 [F1 [F2 [F3 F4]]]]; [rewrite E2; simpl in Hl; lia|].
      exists h2. rewrite F1. repeat split; try congruence; apply F4.
Qed.

(* ---------- every single-object operation ---------- *)
Theorem step_refines : forall o h, inv h ->
  s_step o (abs h) = (fst (step o h), abs (snd (step o h))) /\ inv (snd (step o h)).
Proof.
  intros o h Hi. destruct o as [n v|n v|n|n|n|n| | |l| |n|n|n v| | |l| | | ]; simpl step; simpl s_step.
  - apply add_refines. exact Hi.
  - simpl. rewrite ms_replace_set. split; [reflexivity|]. apply inv_set; [exact Hi|apply normalize_idem].
  - unfold del_item. simpl s_map. rewrite ms_mem_mem, ms_remove_del.
    destruct (d_mem (normalize n) (as_list h)); simpl; split; auto. apply inv_delete. exact Hi.
  - unfold get_item. simpl s_map. rewrite ms_find_get.
    destruct (d_get (normalize n) (cache h)) as [v|] eqn:Ec.
    + destruct Hi as [Hc Hs]. destruct (Hc _ _ Ec) as [vs [Hg Hv]]. rewrite Hg. subst v.
      simpl. split; [reflexivity|split; assumption].
    + destruct (d_get (normalize n) (as_list h)) as [vs|] eqn:Eg; simpl; split; auto.
      apply inv_fill; auto.
  - simpl. unfold get_list. rewrite ms_find_get. split; [reflexivity|exact Hi].
  - simpl. unfold contains. rewrite ms_mem_mem. split; [reflexivity|exact Hi].
  - simpl. split; [reflexivity|exact Hi].
  - simpl. split; [reflexivity|exact Hi].
  - apply parse_line_refines. exact Hi.
  - simpl. split; [reflexivity|exact Hi].
  - (* GetD *) change (s_map (abs h)) with (as_list h). rewrite ms_find_get. unfold get_default.
    destruct (d_get (normalize n) (as_list h)) as [vs|] eqn:Eg.
    + destruct (get_item_hit n h vs Hi Eg) as [h' [E1 [E2 [E3 E4]]]]. rewrite E1. simpl.
      split; [unfold abs; rewrite E2, E3; reflexivity|exact E4].
    + rewrite (get_item_miss n h Hi Eg). simpl. split; [reflexivity|exact Hi].
  - (* Pop *) change (s_map (abs h)) with (as_list h). change (s_last (abs h)) with (last_key h).
    rewrite ms_find_get, ms_remove_del. unfold pop_item.
    destruct (d_get (normalize n) (as_list h)) as [vs|] eqn:Eg.
    + destruct (get_item_hit n h vs Hi Eg) as [h' [E1 [E2 [E3 E4]]]]. rewrite E1.
      unfold del_item, d_mem. rewrite E2, Eg. simpl. split.
      * unfold abs. simpl. rewrite E3. reflexivity.
      * rewrite <- E2. apply inv_delete. exact E4.
    + rewrite (get_item_miss n h Hi Eg). simpl. split; [reflexivity|exact Hi].
  - (* SetDefault *) change (s_map (abs h)) with (as_list h). change (s_last (abs h)) with (last_key h).
    rewrite ms_find_get, ms_replace_set. unfold set_default.
    destruct (d_get (normalize n) (as_list h)) as [vs|] eqn:Eg.
    + destruct (get_item_hit n h vs Hi Eg) as [h' [E1 [E2 [E3 E4]]]]. rewrite E1. simpl.
      split; [unfold abs; rewrite E2, E3; reflexivity|exact E4].
    + rewrite (get_item_miss n h Hi Eg). simpl. split; [reflexivity|].
      apply inv_set; [exact Hi|apply normalize_idem].
  - (* Items *) destruct (items_refines h Hi) as [h' [E1 [E2 E3]]]. rewrite E1. simpl.
    rewrite E2. split; [reflexivity|exact E3].
  - simpl. split; [reflexivity|exact Hi].
  - (* Update *) simpl. destruct (update_all_refines l h Hi) as [E1 E2]. rewrite E1. split; [reflexivity|exact E2].
  - (* PopItem *) change (s_map (abs h)) with (as_list h). change (s_last (abs h)) with (last_key h).
    destruct (as_list h) as [|[k vs] al] eqn:Ea.
    + unfold pop_first, keys. rewrite Ea. simpl. split; [reflexivity|exact Hi].
    + destruct (pop_first_spec h k vs al Hi Ea) as [h1 [E1 [E2 [E3 E4]]]]. rewrite E1. simpl.
      split; [unfold abs; rewrite E2, E3; reflexivity|exact E4].
  - (* Clear *) change (s_last (abs h)) with (last_key h). unfold clear.
    destruct (clear_loop_spec (length (as_list h)) h Hi (le_n _)) as [h1 [E1 [E2 [E3 E4]]]]. rewrite E1. simpl.
    split; [unfold abs; rewrite E2, E3; reflexivity|exact E4].
  - (* Values *) unfold values. destruct (items_refines h Hi) as [h' [E1 [E2 E3]]]. rewrite E1. simpl.
    rewrite E2. split; [reflexivity|exact E3].
Qed.
