(* C06 — copy(), parse(), str(): rebuilding a map from its (name, value) lines;
   refinement of whole programs over several objects; the checker theorem. *)
From Coq Require Import List NArith ZArith Bool String Lia.
Import ListNotations.
From TV Require Import Lib.Obs C06.Model C06.Spec C06.Run C06.ProofsBase C06.ProofsRefine.
Local Open Scope N_scope.

(* the spec-side image of add_all *)
Fixpoint s_add_all (ps : list (text * text)) (s : sstate) : res * sstate :=
  match ps with
  | [] => (RUnit, s)
  | (k, v) :: ps' => match s_add k v s with
                     | (RUnit, s') => s_add_all ps' s'
                     | (r, s') => (r, s')
                     end
  end.

Lemma add_all_refines : forall ps h, inv h ->
  s_add_all ps (abs h) = (fst (add_all ps h), abs (snd (add_all ps h))) /\ inv (snd (add_all ps h)).
Proof.
  induction ps as [|[k v] ps IH]; intros h Hi; simpl.
  - split; [reflexivity|exact Hi].
  - destruct (add_refines k v h Hi) as [H1 H2]. rewrite H1.
    destruct (add k v h) as [r h']. simpl in *.
    destruct r; try (split; [reflexivity|exact H2]). apply IH. exact H2.
Qed.

Lemma parse_lines_refines : forall ls h, inv h ->
  s_fold s_parse_line ls (abs h) = (fst (parse_lines ls h), abs (snd (parse_lines ls h))) /\
  inv (snd (parse_lines ls h)).
Proof.
  induction ls as [|l ls IH]; intros h Hi; simpl.
  - split; [reflexivity|exact Hi].
  - destruct (parse_line_refines l h Hi) as [H1 H2]. rewrite H1.
    destruct (parse_line l h) as [r h']. simpl in *.
    destruct r; try (split; [reflexivity|exact H2]). apply IH. exact H2.
Qed.

(* ---------- s_add_all on the lines of a well-formed map ---------- *)
Lemma s_add_valid : forall k v s, pair_valid (k, v) = true ->
  s_add k v s = (RUnit, mkS (ms_add (normalize k) v (s_map s)) (Some (normalize k))).
Proof. intros k v s H. unfold s_add. unfold pair_valid in H. simpl in H. rewrite H. reflexivity. Qed.
Lemma s_add_invalid : forall k v s, pair_valid (k, v) = false -> s_add k v s = (RErr EInput, s).
Proof. intros k v s H. unfold s_add. unfold pair_valid in H. simpl in H. rewrite H. reflexivity. Qed.

Lemma s_add_all_invalid : forall ps s, forallb pair_valid ps = false -> fst (s_add_all ps s) = RErr EInput.
Proof.
  induction ps as [|[k v] ps IH]; intros s H; simpl in *; [discriminate|].
  destruct (pair_valid (k, v)) eqn:E.
  - rewrite (s_add_valid _ _ _ E). apply IH. exact H.
  - rewrite (s_add_invalid _ _ _ E). reflexivity.
Qed.

Lemma ms_add_app_last : forall k v cur m, ~ In k (map fst m) ->
  ms_add k v (m ++ [(k, cur)]) = m ++ [(k, cur ++ [v])].
Proof.
  intros k v cur m. induction m as [|[k1 v1] m IH]; simpl; intro H.
  - rewrite text_eqb_refl. reflexivity.
  - destruct (text_eqb k k1) eqn:E.
    + apply text_eqb_eq in E. exfalso. apply H. auto.
    + rewrite IH; auto.
Qed.
Lemma ms_add_new : forall k v m, ~ In k (map fst m) -> ms_add k v m = m ++ [(k, [v])].
Proof.
  intros k v m. induction m as [|[k1 v1] m IH]; simpl; intro H; auto.
  destruct (text_eqb k k1) eqn:E.
  - apply text_eqb_eq in E. exfalso. apply H. auto.
  - rewrite IH; auto.
Qed.

Lemma s_add_all_one_key : forall vs cur rest m k lk,
  ~ In k (map fst m) -> normalize k = k -> forallb pair_valid (map (pair k) vs) = true ->
  exists lk', s_add_all (map (pair k) vs ++ rest) (mkS (m ++ [(k, cur)]) lk) =
              s_add_all rest (mkS (m ++ [(k, cur ++ vs)]) lk').
Proof.
  induction vs as [|v vs IH]; intros cur rest m k lk Hk Hn Hv; simpl in *.
  - exists lk. rewrite app_nil_r. reflexivity.
  - apply andb_true_iff in Hv as [Hv1 Hv2]. rewrite (s_add_valid _ _ _ Hv1). simpl.
    rewrite Hn, ms_add_app_last by assumption.
    destruct (IH (cur ++ [v]) rest m k (Some k) Hk Hn Hv2) as [lk' E].
    exists lk'. rewrite E, <- app_assoc. reflexivity.
Qed.

Lemma struct_ok_mid : forall m1 k vs m2, struct_ok (m1 ++ (k, vs) :: m2) ->
  ~ In k (map fst m1) /\ normalize k = k /\ vs <> [].
Proof.
  intros m1 k vs m2 [Hn Hf]. rewrite map_app in Hn. simpl in Hn.
  apply NoDup_remove_2 in Hn. rewrite Forall_forall in Hf.
  destruct (Hf (k, vs)) as [H1 H2]; [apply in_elt|]. simpl in *.
  repeat split; auto. intro H. apply Hn. apply in_or_app. auto.
Qed.

Lemma forallb_cons {A} (f : A -> bool) a l : forallb f (a :: l) = f a && forallb f l.
Proof. reflexivity. Qed.

Lemma s_add_all_rebuild : forall m2 m1 lk,
  struct_ok (m1 ++ m2) -> forallb pair_valid (pairs_of m2) = true ->
  exists lk', s_add_all (pairs_of m2) (mkS m1 lk) = (RUnit, mkS (m1 ++ m2) lk').
Proof.
  induction m2 as [|[k vs] m2 IH]; intros m1 lk Hs Hv.
  - exists lk. rewrite app_nil_r. reflexivity.
  - destruct (struct_ok_mid _ _ _ _ Hs) as [Hk [Hn Hne]].
    destruct vs as [|v vs]; [contradiction|].
    unfold pairs_of in *. cbn [flat_map fst snd map app] in *. fold pairs_of in *.
    rewrite forallb_cons in Hv. apply andb_true_iff in Hv as [Hv1 Hv2]. rewrite forallb_app in Hv2.
    apply andb_true_iff in Hv2 as [Hv2 Hv3].
    cbn [s_add_all]. rewrite (s_add_valid _ _ _ Hv1). cbn [s_map]. rewrite Hn, ms_add_new by assumption.
    destruct (s_add_all_one_key vs [v] (flat_map (fun kv => map (pair (fst kv)) (snd kv)) m2) m1 k (Some k) Hk Hn Hv2) as [lk1 E1].
    rewrite E1. cbn [app].
    destruct (IH (m1 ++ [(k, v :: vs)]) lk1) as [lk2 E2].
    + rewrite <- app_assoc. exact Hs.
    + exact Hv3.
    + exists lk2. unfold pairs_of in E2. rewrite E2, <- app_assoc. reflexivity.
Qed.

Lemma last_opt_cons {A} : forall (l : list A) x, last_opt (x :: l) <> None.
Proof. induction l as [|y l IH]; intros x; [discriminate|]. exact (IH y). Qed.
Lemma s_add_all_last : forall ps s s', s_add_all ps s = (RUnit, s') ->
  s_last s' = match last_opt (map fst ps) with Some k => Some (normalize k) | None => s_last s end.
Proof.
  induction ps as [|[k v] ps IH]; intros s s' H.
  - simpl in H. inversion H. reflexivity.
  - cbn [s_add_all] in H. destruct (pair_valid (k, v)) eqn:E.
    + rewrite (s_add_valid _ _ _ E) in H. apply IH in H. rewrite H.
      destruct ps as [|p ps]; [reflexivity|].
      change (last_opt (map fst ((k, v) :: p :: ps))) with (last_opt (map fst (p :: ps))).
      destruct (last_opt (map fst (p :: ps))) eqn:EL; [reflexivity|].
      exfalso. exact (last_opt_cons _ _ EL).
    + rewrite (s_add_invalid _ _ _ E) in H. discriminate.
Qed.

Lemma last_opt_In {A} : forall (l : list A) x, last_opt l = Some x -> In x l.
Proof.
  induction l as [|y l IH]; simpl; intros x H; [discriminate|].
  destruct l; [inversion H; auto|]. right. apply IH. exact H.
Qed.
Lemma pairs_keys_in : forall m k, In k (map fst (pairs_of m)) -> In k (map fst m).
Proof.
  intros m k H. apply in_map_iff in H as [[k1 v1] [E H]]. simpl in E. subst k1.
  unfold pairs_of in H. apply in_flat_map in H as [[k2 vs] [H1 H2]]. simpl in H2.
  apply in_map_iff in H2 as [v2 [E2 _]]. inversion E2; subst.
  apply in_map_iff. exists (k, vs). auto.
Qed.

(* the spec's copy is what re-adding every line does *)
Lemma s_copy_is_add_all : forall s, struct_ok (s_map s) ->
  fst (s_add_all (s_pairs s) empty_s) = fst (s_copy s) /\
  (fst (s_copy s) = RUnit -> s_add_all (s_pairs s) empty_s = s_copy s).
Proof.
  intros s Hs. unfold s_copy. destruct (forallb pair_valid (s_pairs s)) eqn:E.
  - destruct (s_add_all_rebuild (s_map s) [] None Hs E) as [lk' H]. simpl in H.
    unfold s_pairs, empty_s. rewrite H. split; [reflexivity|]. intros _.
    pose proof (s_add_all_last _ _ _ H) as HL. simpl in HL. subst lk'.
    destruct (last_opt (map fst (pairs_of (s_map s)))) as [k|] eqn:EL; [|reflexivity].
    assert (normalize k = k) as ->; [|reflexivity].
    apply last_opt_In, pairs_keys_in in EL. apply in_map_iff in EL as [[k1 vs] [E1 Hin]].
    simpl in E1. subst k1. destruct Hs as [_ Hf]. rewrite Forall_forall in Hf. apply (Hf _ Hin).
  - split; [|discriminate]. simpl. apply s_add_all_invalid. exact E.
Qed.

(* ---------- str() then parse() ---------- *)
Lemma tchar_facts : forall c, is_tchar c = true -> c <> c_colon /\ c <> c_lf /\ is_ws c = false.
Proof.
  intros c H. repeat split.
  - intro E. subst. vm_compute in H. discriminate.
  - intro E. subst. vm_compute in H. discriminate.
  - unfold is_ws. destruct (c =? c_sp) eqn:E1; [apply N.eqb_eq in E1; subst; vm_compute in H; discriminate|].
    destruct (c =? c_tab) eqn:E2; [apply N.eqb_eq in E2; subst; vm_compute in H; discriminate|]. reflexivity.
Qed.
Lemma vchar_facts : forall c, is_vchar c = true -> c <> c_lf /\ c <> c_cr /\ is_ws c = false.
Proof.
  intros c H. repeat split.
  - intro E. subst. vm_compute in H. discriminate.
  - intro E. subst. vm_compute in H. discriminate.
  - unfold is_ws. destruct (c =? c_sp) eqn:E1; [apply N.eqb_eq in E1; subst; vm_compute in H; discriminate|].
    destruct (c =? c_tab) eqn:E2; [apply N.eqb_eq in E2; subst; vm_compute in H; discriminate|]. reflexivity.
Qed.
Lemma fv_char_not_lf : forall c, is_fv_char c = true -> c <> c_lf.
Proof. intros c H E. subst. vm_compute in H. discriminate. Qed.

Definition no_lf (l : text) : Prop := Forall (fun c => c <> c_lf) l.

Lemma lines1_app : forall a t, no_lf a ->
  lines1 (a ++ c_lf :: t) = (a ++ [c_lf], fst (lines1 t) :: snd (lines1 t)).
Proof.
  induction a as [|c a IH]; intros t H.
  - cbn [app lines1]. destruct (lines1 t) as [w ws]. rewrite N.eqb_refl. reflexivity.
  - inversion H as [|? ? Hc Ha]; subst. cbn [app lines1]. rewrite (IH t Ha).
    apply N.eqb_neq in Hc. rewrite Hc. reflexivity.
Qed.
Lemma split_lines_app : forall a t, no_lf a -> split_lines (a ++ c_lf :: t) = (a ++ [c_lf]) :: split_lines t.
Proof.
  intros a t H. unfold split_lines. rewrite (lines1_app a t H). destruct (lines1 t). reflexivity.
Qed.

Lemma strip_eol_simple : forall body,
  match rev body with [] => True | b :: _ => b <> c_lf /\ b <> c_cr end ->
  strip_eol (body ++ [c_lf]) = body.
Proof.
  intros body H. unfold strip_eol. rewrite rev_app_distr. cbn [rev app]. rewrite N.eqb_refl.
  destruct (rev body) as [|b r2] eqn:E.
  - rewrite <- (rev_involutive body), E. reflexivity.
  - destruct H as [H1 H2]. apply N.eqb_neq in H1, H2. rewrite H1, H2.
    rewrite <- E. apply rev_involutive.
Qed.

Lemma split_colon_token : forall k rest, forallb is_tchar k = true ->
  split_colon (k ++ c_colon :: rest) = Some (k, rest).
Proof.
  induction k as [|c k IH]; intros rest H; cbn [app split_colon].
  - rewrite N.eqb_refl. reflexivity.
  - simpl in H. apply andb_true_iff in H as [H1 H2].
    destruct (tchar_facts c H1) as [Hc _]. apply N.eqb_neq in Hc. rewrite Hc, (IH rest H2). reflexivity.
Qed.

Lemma lstrip_head_ok : forall v, head_ok v = true -> lstrip v = v.
Proof.
  intros [|c v] H; [reflexivity|]. simpl in *. destruct (vchar_facts c H) as [_ [_ Hw]]. rewrite Hw. reflexivity.
Qed.
Lemma strip_sp_value : forall v, is_field_value v = true -> strip (c_sp :: v) = v.
Proof.
  intros v H. unfold is_field_value in H. apply andb_true_iff in H as [H H3].
  apply andb_true_iff in H as [H1 H2].
  unfold strip. cbn [lstrip]. change (is_ws c_sp) with true. cbv iota.
  rewrite (lstrip_head_ok v H2), (lstrip_head_ok (rev v) H3). apply rev_involutive.
Qed.

Lemma s_parse_line_of : forall k v s, pair_valid (k, v) = true ->
  s_parse_line (line_of (k, v)) s = s_add k v s.
Proof.
  intros k v s H. pose proof H as Hpv. unfold pair_valid in H. simpl in H.
  apply andb_true_iff in H as [Ht Hv].
  assert (Hk : forallb is_tchar k = true) by (destruct k; [discriminate|exact Ht]).
  unfold line_of. cbn [fst snd].
  replace (k ++ [c_colon; c_sp] ++ v ++ [c_lf]) with ((k ++ c_colon :: c_sp :: v) ++ [c_lf])
    by (rewrite <- app_assoc; reflexivity).
  unfold s_parse_line. rewrite strip_eol_simple.
  - destruct k as [|c k]; [discriminate|]. cbn [app].
    simpl in Hk. apply andb_true_iff in Hk as [Hc Hk].
    destruct (tchar_facts c Hc) as [Hcc [_ Hw]]. rewrite Hw.
    change (c :: k ++ c_colon :: c_sp :: v) with ((c :: k) ++ c_colon :: c_sp :: v).
    rewrite split_colon_token by (simpl; rewrite Hc, Hk; reflexivity).
    rewrite (strip_sp_value v Hv). reflexivity.
  - rewrite rev_app_distr. cbn [rev]. unfold is_field_value in Hv.
    apply andb_true_iff in Hv as [Hv H3]. destruct (rev v) as [|b r] eqn:E.
    + cbn [app]. split; intro E1; vm_compute in E1; discriminate.
    + cbn [app]. simpl in H3. destruct (vchar_facts b H3) as [A [B _]]. auto.
Qed.

Lemma line_no_lf : forall k v, pair_valid (k, v) = true -> no_lf (k ++ c_colon :: c_sp :: v).
Proof.
  intros k v H. unfold pair_valid in H. simpl in H. apply andb_true_iff in H as [Ht Hv].
  assert (Hk : forallb is_tchar k = true) by (destruct k; [discriminate|exact Ht]).
  unfold is_field_value in Hv. apply andb_true_iff in Hv as [Hv _]. apply andb_true_iff in Hv as [Hv _].
  unfold no_lf. apply Forall_app. split.
  - rewrite forallb_forall in Hk. apply Forall_forall. intros c Hc. apply (tchar_facts c (Hk c Hc)).
  - constructor; [intro E; vm_compute in E; discriminate|]. constructor; [intro E; vm_compute in E; discriminate|].
    rewrite forallb_forall in Hv. apply Forall_forall. intros c Hc. apply fv_char_not_lf. auto.
Qed.

Lemma s_parse_lines_of : forall ps s, forallb pair_valid ps = true ->
  s_fold s_parse_line (split_lines (flat_map line_of ps)) s = s_add_all ps s.
Proof.
  induction ps as [|[k v] ps IH]; intros s H.
  - reflexivity.
  - simpl in H. apply andb_true_iff in H as [H1 H2]. cbn [flat_map].
    replace (line_of (k, v) ++ flat_map line_of ps)
      with ((k ++ c_colon :: c_sp :: v) ++ c_lf :: flat_map line_of ps)
      by (unfold line_of; cbn [fst snd]; rewrite <- !app_assoc; reflexivity).
    rewrite split_lines_app by (apply line_no_lf; exact H1).
    cbn [s_fold s_add_all].
    replace ((k ++ c_colon :: c_sp :: v) ++ [c_lf]) with (line_of (k, v))
      by (unfold line_of; cbn [fst snd]; rewrite <- !app_assoc; reflexivity).
    rewrite (s_parse_line_of k v s H1). destruct (s_add k v s) as [r s1].
    destruct r; try reflexivity. apply IH. exact H2.
Qed.

(* ---------- programs ---------- *)
Lemma nth_error_map_abs : forall (st : list hstate) i, nth_error (List.map abs st) i = option_map abs (nth_error st i).
Proof. intros st i. apply nth_error_map. Qed.
Lemma upd_map {A B} (f : A -> B) : forall i x l, upd i (f x) (List.map f l) = List.map f (upd i x l).
Proof.
  intros i x l. revert i. induction l as [|y l IH]; intros [|i]; simpl; auto. rewrite IH. reflexivity.
Qed.
Lemma upd_Forall {A} (P : A -> Prop) : forall i x l, Forall P l -> P x -> Forall P (upd i x l).
Proof.
  intros i x l H Hx. revert i. induction H as [|y l Hy H IH]; intros [|i]; simpl; constructor; auto.
Qed.
Lemma Forall_nth_error {A} (P : A -> Prop) : forall l i x, Forall P l -> nth_error l i = Some x -> P x.
Proof. intros l i x H E. rewrite Forall_forall in H. apply H. eapply nth_error_In; eauto. Qed.

Lemma new_obj_refines : forall st r h' rs s',
  Forall inv st -> fst rs = r -> (r = RUnit -> s' = abs h' /\ inv h') -> snd rs = s' ->
  s_new (List.map abs st) rs = (fst (new_obj st (r, h')), List.map abs (snd (new_obj st (r, h')))) /\
  Forall inv (snd (new_obj st (r, h'))).
Proof.
  intros st r h' [r0 s0] s' Hst Hr Hs Hs'. simpl in *. subst r0 s0.
  destruct r; simpl; try (split; [reflexivity|exact Hst]).
  destruct (Hs eq_refl) as [E Hi]. subst s'. rewrite map_app. simpl. split; [reflexivity|].
  apply Forall_app. split; [exact Hst|constructor; [exact Hi|constructor]].
Qed.

Lemma upd_abs_same : forall st i h h', nth_error st i = Some h -> abs h' = abs h ->
  List.map abs (upd i h' st) = List.map abs st.
Proof.
  induction st as [|x st IH]; intros [|i] h h' E Ha; simpl in *; try discriminate.
  - inversion E; subst. rewrite Ha. reflexivity.
  - rewrite (IH i h h' E Ha). reflexivity.
Qed.

Theorem run_cmd_refines : forall c st, Forall inv st ->
  s_run_cmd c (List.map abs st) = (fst (run_cmd c st), List.map abs (snd (run_cmd c st))) /\
  Forall inv (snd (run_cmd c st)).
Proof.
  intros c st Hst. destruct c as [i o|i|t|i|l|i j]; simpl.
  - rewrite nth_error_map_abs. destruct (nth_error st i) as [h|] eqn:E; simpl; [|split; [reflexivity|exact Hst]].
    pose proof (Forall_nth_error _ _ _ _ Hst E) as Hi.
    destruct (step_refines o h Hi) as [H1 H2]. rewrite H1. destruct (step o h) as [r h']. simpl in *.
    rewrite upd_map. split; [reflexivity|]. apply upd_Forall; assumption.
  - rewrite nth_error_map_abs. destruct (nth_error st i) as [h|] eqn:E; simpl; [|split; [reflexivity|exact Hst]].
    pose proof (Forall_nth_error _ _ _ _ Hst E) as Hi.
    unfold copy. destruct (add_all_refines (get_all h) empty_h inv_empty) as [H1 H2].
    destruct (add_all (get_all h) empty_h) as [r h'] eqn:EA. simpl in H1, H2.
    destruct (s_copy_is_add_all (abs h) (proj2 Hi)) as [C1 C2].
    change (s_pairs (abs h)) with (get_all h) in *. change (abs empty_h) with empty_s in H1.
    rewrite H1 in C1, C2. simpl in C1.
    apply new_obj_refines with (s' := snd (s_copy (abs h))); auto.
    intros Er. assert (C3 : fst (s_copy (abs h)) = RUnit) by congruence.
    rewrite <- (C2 C3). simpl. split; [reflexivity|exact H2].
  - unfold parse, s_parse.
    destruct (parse_lines_refines (split_lines t) empty_h inv_empty) as [H1 H2].
    change (abs empty_h) with empty_s in H1.
    destruct (parse_lines (split_lines t) empty_h) as [r h']. cbn [fst snd] in H1, H2. rewrite H1.
    apply new_obj_refines with (s' := abs h'); auto.
  - rewrite nth_error_map_abs. destruct (nth_error st i) as [h|] eqn:E; simpl; [|split; [reflexivity|exact Hst]].
    change (s_string (abs h)) with (to_string h). unfold parse, s_parse.
    destruct (parse_lines_refines (split_lines (to_string h)) empty_h inv_empty) as [H1 H2].
    change (abs empty_h) with empty_s in H1.
    destruct (parse_lines (split_lines (to_string h)) empty_h) as [r h']. cbn [fst snd] in H1, H2. rewrite H1.
    apply new_obj_refines with (s' := abs h'); auto.
  - (* FromPairs *) destruct (update_all_refines l empty_h inv_empty) as [E1 E2].
    change (abs empty_h) with empty_s in E1.
    rewrite map_app, <- E1. simpl. split; [reflexivity|].
    apply Forall_app. split; [exact Hst|constructor; [exact E2|constructor]].
  - (* Eq *) rewrite !nth_error_map_abs.
    destruct (nth_error st i) as [hi|] eqn:Ei; simpl; [|split; [reflexivity|exact Hst]].
    destruct (nth_error st j) as [hj|] eqn:Ej; simpl; [|split; [reflexivity|exact Hst]].
    pose proof (Forall_nth_error _ _ _ _ Hst Ei) as Hi. pose proof (Forall_nth_error _ _ _ _ Hst Ej) as Hj.
    destruct (items_refines hi Hi) as [hi' [I1 [I2 I3]]]. rewrite I1.
    pose proof (upd_abs_same st i hi hi' Ei I2) as M1.
    assert (F1 : Forall inv (upd i hi' st)) by (apply upd_Forall; assumption).
    assert (Ej1 : exists hj1, nth_error (upd i hi' st) j = Some hj1 /\ abs hj1 = abs hj).
    { pose proof (nth_error_map_abs (upd i hi' st) j) as N. rewrite M1, nth_error_map_abs, Ej in N. simpl in N.
      destruct (nth_error (upd i hi' st) j) as [hj1|]; simpl in N; [|discriminate].
      exists hj1. split; [reflexivity|]. congruence. }
    destruct Ej1 as [hj1 [Ej1 Aj]]. rewrite Ej1.
    pose proof (Forall_nth_error _ _ _ _ F1 Ej1) as Hj1.
    destruct (items_refines hj1 Hj1) as [hj' [J1 [J2 J3]]]. rewrite J1. simpl.
    rewrite (upd_abs_same _ j hj1 hj' Ej1 J2), M1, Aj. split; [reflexivity|].
    apply upd_Forall; assumption.
Qed.

Theorem run_cmds_refines : forall cs st, Forall inv st ->
  s_run_cmds cs (List.map abs st) = (fst (run_cmds cs st), List.map abs (snd (run_cmds cs st))) /\
  Forall inv (snd (run_cmds cs st)).
Proof.
  induction cs as [|c cs IH]; intros st Hst; simpl.
  - split; [reflexivity|exact Hst].
  - destruct (run_cmd_refines c st Hst) as [H1 H2]. rewrite H1.
    destruct (run_cmd c st) as [r st1]. simpl in *.
    destruct (IH st1 H2) as [H3 H4]. rewrite H3.
    destruct (run_cmds cs st1) as [rs st2]. simpl in *. split; [reflexivity|exact H4].
Qed.

(* ---------- the checker accepts the model on every program ---------- *)
Lemma list_eqb_N_refl : forall l, list_eqb N.eqb l l = true.
Proof. induction l; simpl; auto. rewrite N.eqb_refl, IHl. reflexivity. Qed.
Fixpoint obs_eqb_refl (o : obs) : obs_eqb o o = true.
Proof.
  destruct o as [|b|z|l|s|l]; simpl.
  - reflexivity.
  - apply Bool.eqb_reflx.
  - apply Z.eqb_refl.
  - apply list_eqb_N_refl.
  - apply String.eqb_refl.
  - induction l as [|a l IHl]; [reflexivity|]. rewrite (obs_eqb_refl a), IHl. reflexivity.
Qed.

Theorem spec_case_eq_run_case : forall cs, spec_case cs = run_case cs.
Proof.
  intro cs. unfold spec_case, run_case.
  assert (Hst : Forall inv [empty_h]) by (constructor; [exact inv_empty|constructor]).
  destruct (run_cmds_refines cs [empty_h] Hst) as [H _].
  change (List.map abs [empty_h]) with [empty_s] in H. rewrite H.
  destruct (run_cmds cs [empty_h]) as [rs st]. simpl. rewrite map_map. reflexivity.
Qed.
