(* C06 — corollaries from the initial object, and examples showing that the
   hypotheses used in Property.v are met by concrete non-trivial states. *)
From Coq Require Import List NArith Bool.
Import ListNotations.
From TV Require Import Lib.Obs C06.Model C06.Spec C06.Run C06.ProofsBase C06.ProofsRefine C06.ProofsProg
  C06.ProofsLaws C06.ProofsValid.
Local Open Scope N_scope.

Lemma from_empty_refines : forall cs,
  s_run_cmds cs [empty_s] = (fst (run_cmds cs [empty_h]), map abs (snd (run_cmds cs [empty_h]))) /\
  Forall inv (snd (run_cmds cs [empty_h])).
Proof.
  intro cs. apply (run_cmds_refines cs [empty_h]). constructor; [exact inv_empty|constructor].
Qed.
Lemma from_empty_cache_coherent : forall cs h, In h (snd (run_cmds cs [empty_h])) -> cache_ok h.
Proof.
  intros cs h Hin. destruct (from_empty_refines cs) as [_ H]. rewrite Forall_forall in H.
  apply (H h Hin).
Qed.

(* the witness of the defect fixed by 8cd6af7: add, add, delete *)
Example delete_after_second_add :
  fst (run_cmds [On 0 (Add [65] [49]); On 0 (Add [97] [50]); On 0 (DelItem [65]); On 0 (Contains [97])] [empty_h])
  = [RUnit; RUnit; RUnit; RBool false].
Proof. vm_compute. reflexivity. Qed.

(* not covered by the property, modelled as it is: a continuation line after the
   last-added name was deleted raises KeyError (stale _last_key), not HTTPInputError *)
Example fold_after_delete_raises_KeyError :
  fst (run_cmds [On 0 (Add [97] [49]); On 0 (DelItem [97]); On 0 (ParseLine [32; 120])] [empty_h])
  = [RUnit; RUnit; RErr EKey].
Proof. vm_compute. reflexivity. Qed.

(* a raw write makes copy() raise and str()/parse() lose the value: why the round-trip
   theorems are stated for validated programs *)
Example raw_set_blocks_copy :
  fst (run_cmds [On 0 (SetItem [97] [32; 120]); Copy 0; Reparse 0; On 1 GetAll] [empty_h])
  = [RUnit; RErr EInput; RUnit; RPairs [([65], [120])]].
Proof. vm_compute. reflexivity. Qed.

Definition ex_prog : list cmd :=
  [On 0 (Add [97] [49]); On 0 (GetItem [65]); On 0 (Add [65] [50]); On 0 (ParseLine [32; 51]);
   On 0 (SetItem [120; 45; 121] [52]); Copy 0; On 1 (DelItem [88; 45; 89])].
Example ex_prog_valid : forallb valid_cmd ex_prog = true.
Proof. reflexivity. Qed.
Example ex_prog_state :
  map get_all (snd (run_cmds ex_prog [empty_h])) =
  [[([65], [49]); ([65], [50; 32; 51]); ([88; 45; 89], [52])]; [([65], [49]); ([65], [50; 32; 51])]].
Proof. vm_compute. reflexivity. Qed.
Example ex_prog_good : Forall good (snd (run_cmds ex_prog [empty_h])).
Proof. apply run_cmds_good; [reflexivity|constructor; [exact good_empty|constructor]]. Qed.
Example ex_contains : exists h, nth_error (snd (run_cmds ex_prog [empty_h])) 0 = Some h /\ contains [97] h = true
  /\ forallb pair_valid (get_all h) = true.
Proof. eexists. split; [vm_compute; reflexivity|split; vm_compute; reflexivity]. Qed.
Example ex_mixins :
  fst (run_cmds [FromPairs [([97], [49]); ([65], [50]); ([98], [51])]; On 1 (Add [97] [52]); On 1 Items;
                 On 1 (Pop [66]); On 1 (SetDefault [66] [53]); On 1 (GetD [122]); On 1 Len; Copy 1; Eq 1 2;
                 On 2 (Update [([99], [54])]); Eq 1 2] [empty_h])
  = [RUnit; RUnit; RPairs [([65], [50; 44; 52]); ([66], [51])]; RText [51]; RText [53]; RUnit; RNat 2; RUnit;
     RBool true; RUnit; RBool false].
Proof. vm_compute. reflexivity. Qed.
Example ex_untouched : ~ touches (Eq 1 2) 0 /\ ~ touches (Copy 0) 0 /\ ~ touches (On 1 Items) 0.
Proof. split; [|split]; simpl; [intros [H|H]; discriminate|tauto|discriminate]. Qed.
Lemma clear_spec : forall h, inv h ->
  exists h', step Clear h = (RUnit, h') /\ as_list h' = [] /\ last_key h' = last_key h /\ inv h'.
Proof. intros h Hi. exact (clear_loop_spec (length (as_list h)) h Hi (le_n _)). Qed.
Lemma popitem_spec : forall h k vs al, inv h -> as_list h = (k, vs) :: al ->
  exists h', step PopItem h = (RPairs [(k, join [c_comma] vs)], h') /\
             as_list h' = al /\ last_key h' = last_key h /\ inv h'.
Proof. exact pop_first_spec. Qed.
Example ex_popitem_clear :
  fst (run_cmds [FromPairs [([97], [49]); ([98], [50])]; On 1 (Add [65] [51]); On 1 Values; On 1 PopItem; On 1 Keys;
                 On 1 Clear; On 1 PopItem; On 1 Len] [empty_h])
  = [RUnit; RUnit; RList [[49; 44; 51]; [50]]; RPairs [([65], [49; 44; 51])]; RList [[66]]; RUnit; RErr EKey; RNat 0].
Proof. vm_compute. reflexivity. Qed.
Example ex_ci : map lower [88; 45; 121] = map lower [120; 45; 89].
Proof. reflexivity. Qed.
Example ex_token_value : is_token [88; 45; 121] = true /\ is_field_value [118; 32; 119] = true.
Proof. split; reflexivity. Qed.
