(* Universal observable type shared by every correspondence check.
   Definitions only (plus the soundness lemma of the equality test). *)
From Coq Require Import List ZArith NArith Bool String.
Import ListNotations.

Inductive obs : Type :=
| ONone
| OBool (b : bool)
| OInt (z : Z)
| OBytes (l : list N)        (* byte string, or text as code points *)
| OTag (s : string)          (* small enums: error kinds, states *)
| OList (l : list obs).

Fixpoint list_eqb {A} (eqb : A -> A -> bool) (x y : list A) : bool :=
  match x, y with
  | [], [] => true
  | a :: x', b :: y' => eqb a b && list_eqb eqb x' y'
  | _, _ => false
  end.

Fixpoint obs_eqb (a b : obs) {struct a} : bool :=
  match a, b with
  | ONone, ONone => true
  | OBool x, OBool y => Bool.eqb x y
  | OInt x, OInt y => Z.eqb x y
  | OBytes x, OBytes y => list_eqb N.eqb x y
  | OTag s, OTag t => String.eqb s t
  | OList x, OList y =>
      (fix go (l1 l2 : list obs) {struct l1} : bool :=
         match l1, l2 with
         | [], [] => true
         | a' :: l1', b' :: l2' => obs_eqb a' b' && go l1' l2'
         | _, _ => false
         end) x y
  | _, _ => false
  end.

(* indices (0-based) of the cases on which [run input] differs from the
   observable recorded from the implementation *)
Fixpoint mismatches_from {A} (run : A -> obs) (i : nat) (cs : list (A * obs)) : list nat :=
  match cs with
  | [] => []
  | (a, o) :: cs' =>
      if obs_eqb (run a) o then mismatches_from run (S i) cs'
      else i :: mismatches_from run (S i) cs'
  end.
Definition mismatches {A} (run : A -> obs) (cs : list (A * obs)) : list nat :=
  mismatches_from run 0 cs.

(* indices of the cases on which the property's boolean checker rejects the
   implementation's observable *)
Fixpoint failures_from {A} (chk : A -> obs -> bool) (i : nat) (cs : list (A * obs)) : list nat :=
  match cs with
  | [] => []
  | (a, o) :: cs' =>
      if chk a o then failures_from chk (S i) cs'
      else i :: failures_from chk (S i) cs'
  end.
Definition failures {A} (chk : A -> obs -> bool) (cs : list (A * obs)) : list nat :=
  failures_from chk 0 cs.

Lemma list_eqb_sound {A} (eqb : A -> A -> bool) :
  (forall a b, eqb a b = true -> a = b) ->
  forall x y, list_eqb eqb x y = true -> x = y.
Proof.
  intros H x; induction x as [|a x IH]; intros [|b y] E; simpl in E; try discriminate; auto.
  apply andb_true_iff in E as [E1 E2]. f_equal; auto.
Qed.
