(* UTF-8 encoder / decoder over code points (list N) with the behaviour of
   CPython's str.encode('utf-8') / bytes.decode('utf-8', 'strict' | 'replace').
   Definitions first, then the round-trip lemmas.  Reusable by other properties. *)
From Coq Require Import List ZArith NArith Bool Lia ZifyBool.
Import ListNotations.
Local Open Scope N_scope.

Definition in_range (lo hi b : N) : bool := (lo <=? b) && (b <=? hi).
Definition is_cont (b : N) : bool := in_range 128 191 b.

(* a Unicode scalar value: what a Python str without lone surrogates holds *)
Definition is_scalar (c : N) : bool := (c <? 55296) || ((57343 <? c) && (c <=? 1114111)).
Definition valid_text (s : list N) : Prop := Forall (fun c => is_scalar c = true) s.
Definition is_byte (b : N) : bool := b <? 256.

(* ---------- encoder: None = UnicodeEncodeError (lone surrogate) ---------- *)
Definition utf8_enc1 (c : N) : option (list N) :=
  if c <? 128 then Some [c]
  else if c <? 2048 then Some [192 + c / 64; 128 + c mod 64]
  else if c <? 65536 then
    if in_range 55296 57343 c then None
    else Some [224 + c / 4096; 128 + (c / 64) mod 64; 128 + c mod 64]
  else if c <=? 1114111 then
    Some [240 + c / 262144; 128 + (c / 4096) mod 64; 128 + (c / 64) mod 64; 128 + c mod 64]
  else None.

Fixpoint utf8_encode (s : list N) : option (list N) :=
  match s with
  | [] => Some []
  | c :: t =>
      match utf8_enc1 c, utf8_encode t with
      | Some a, Some b => Some (a ++ b)
      | _, _ => None
      end
  end.

(* ---------- decoder ----------
   [utf8_items] cuts the byte string into decoded scalar values (Some c) and
   ill-formed maximal subparts (None): exactly the units CPython reports as one
   decoding error each (one U+FFFD each under errors='replace'). *)
Definition cp2 (b0 b1 : N) : N := (b0 - 192) * 64 + (b1 - 128).
Definition cp3 (b0 b1 b2 : N) : N := (b0 - 224) * 4096 + (b1 - 128) * 64 + (b2 - 128).
Definition cp4 (b0 b1 b2 b3 : N) : N :=
  (b0 - 240) * 262144 + (b1 - 128) * 4096 + (b2 - 128) * 64 + (b3 - 128).

(* admissible second byte after lead byte b0 of a 3- resp. 4-byte sequence *)
Definition second3 (b0 b1 : N) : bool :=
  in_range (if b0 =? 224 then 160 else 128) (if b0 =? 237 then 159 else 191) b1.
Definition second4 (b0 b1 : N) : bool :=
  in_range (if b0 =? 240 then 144 else 128) (if b0 =? 244 then 143 else 191) b1.

Fixpoint utf8_items (l : list N) : list (option N) :=
  match l with
  | [] => []
  | b0 :: t0 =>
    if b0 <? 128 then Some b0 :: utf8_items t0
    else if in_range 194 223 b0 then
      match t0 with
      | [] => [None]
      | b1 :: t1 =>
          if is_cont b1 then Some (cp2 b0 b1) :: utf8_items t1
          else None :: utf8_items t0
      end
    else if in_range 224 239 b0 then
      match t0 with
      | [] => [None]
      | b1 :: t1 =>
          if second3 b0 b1 then
            match t1 with
            | [] => [None]
            | b2 :: t2 =>
                if is_cont b2 then Some (cp3 b0 b1 b2) :: utf8_items t2
                else None :: utf8_items t1
            end
          else None :: utf8_items t0
      end
    else if in_range 240 244 b0 then
      match t0 with
      | [] => [None]
      | b1 :: t1 =>
          if second4 b0 b1 then
            match t1 with
            | [] => [None]
            | b2 :: t2 =>
                if is_cont b2 then
                  match t2 with
                  | [] => [None]
                  | b3 :: t3 =>
                      if is_cont b3 then Some (cp4 b0 b1 b2 b3) :: utf8_items t3
                      else None :: utf8_items t2
                  end
                else None :: utf8_items t1
            end
          else None :: utf8_items t0
      end
    else None :: utf8_items t0
  end.

Fixpoint sequence {A} (l : list (option A)) : option (list A) :=
  match l with
  | [] => Some []
  | Some a :: t => match sequence t with Some r => Some (a :: r) | None => None end
  | None :: _ => None
  end.

(* bytes.decode('utf-8') (errors='strict'): None = UnicodeDecodeError *)
Definition utf8_decode (b : list N) : option (list N) := sequence (utf8_items b).
(* bytes.decode('utf-8', 'replace') *)
Definition utf8_decode_replace (b : list N) : list N :=
  map (fun o => match o with Some c => c | None => 65533 end) (utf8_items b).

(* ====================================================================== *)
(* Lemmas                                                                  *)
(* ====================================================================== *)
Ltac Zify.zify_post_hook ::= Z.to_euclidean_division_equations.
Local Arguments N.add : simpl never.
Local Arguments N.mul : simpl never.
Local Arguments N.sub : simpl never.
Local Arguments N.div : simpl never.
Local Arguments N.modulo : simpl never.
Local Arguments N.ltb : simpl never.
Local Arguments N.leb : simpl never.
Local Arguments N.eqb : simpl never.

Lemma sequence_map_Some {A} (l : list A) : sequence (map Some l) = Some l.
Proof. induction l as [|a l IH]; simpl; [reflexivity|]. rewrite IH. reflexivity. Qed.

Lemma sequence_Some_inv {A} (l : list (option A)) r : sequence l = Some r -> l = map Some r.
Proof.
  revert r; induction l as [|[a|] l IH]; intros r H; simpl in H.
  - inversion H. reflexivity.
  - destruct (sequence l) as [r'|] eqn:E; [|discriminate]. inversion H; subst. simpl. f_equal. auto.
  - discriminate.
Qed.

(* decoding one encoded scalar in front of anything *)
Lemma utf8_items_enc1 c a r :
  utf8_enc1 c = Some a -> utf8_items (a ++ r) = Some c :: utf8_items r.
Proof.
  unfold utf8_enc1. intros H.
  destruct (c <? 128) eqn:E1.
  { injection H as <-. cbn [app utf8_items]. rewrite E1. reflexivity. }
  destruct (c <? 2048) eqn:E2.
  { injection H as <-. cbn [app utf8_items].
    replace (192 + c / 64 <? 128) with false by lia.
    replace (in_range 194 223 (192 + c / 64)) with true by (unfold in_range; lia).
    replace (is_cont (128 + c mod 64)) with true by (unfold is_cont, in_range; lia).
    f_equal. f_equal. unfold cp2. lia. }
  destruct (c <? 65536) eqn:E3.
  { destruct (in_range 55296 57343 c) eqn:E4; [discriminate|]. injection H as <-. cbn [app utf8_items].
    unfold in_range in E4.
    replace (224 + c / 4096 <? 128) with false by lia.
    replace (in_range 194 223 (224 + c / 4096)) with false by (unfold in_range; lia).
    replace (in_range 224 239 (224 + c / 4096)) with true by (unfold in_range; lia).
    replace (second3 (224 + c / 4096) (128 + (c / 64) mod 64)) with true
      by (unfold second3, in_range;
          destruct (224 + c / 4096 =? 224) eqn:Ea; destruct (224 + c / 4096 =? 237) eqn:Eb; lia).
    replace (is_cont (128 + c mod 64)) with true by (unfold is_cont, in_range; lia).
    f_equal. f_equal. unfold cp3. lia. }
  destruct (c <=? 1114111) eqn:E5; [|discriminate].
  injection H as <-. cbn [app utf8_items].
  replace (240 + c / 262144 <? 128) with false by lia.
  replace (in_range 194 223 (240 + c / 262144)) with false by (unfold in_range; lia).
  replace (in_range 224 239 (240 + c / 262144)) with false by (unfold in_range; lia).
  replace (in_range 240 244 (240 + c / 262144)) with true by (unfold in_range; lia).
  replace (second4 (240 + c / 262144) (128 + (c / 4096) mod 64)) with true
    by (unfold second4, in_range;
        destruct (240 + c / 262144 =? 240) eqn:Ea; destruct (240 + c / 262144 =? 244) eqn:Eb; lia).
  replace (is_cont (128 + (c / 64) mod 64)) with true by (unfold is_cont, in_range; lia).
  replace (is_cont (128 + c mod 64)) with true by (unfold is_cont, in_range; lia).
  f_equal. f_equal. unfold cp4. lia.
Qed.

Lemma utf8_items_encode s b : utf8_encode s = Some b -> utf8_items b = map Some s.
Proof.
  revert b; induction s as [|c s IH]; intros b H; simpl in H.
  - inversion H. reflexivity.
  - destruct (utf8_enc1 c) as [a|] eqn:Ea; [|discriminate].
    destruct (utf8_encode s) as [b'|] eqn:Eb; [|discriminate].
    inversion H; subst. rewrite (utf8_items_enc1 _ _ _ Ea). simpl. f_equal. auto.
Qed.

(* str.encode then bytes.decode is the identity (both error modes) *)
Lemma utf8_decode_encode s b : utf8_encode s = Some b -> utf8_decode b = Some s.
Proof. intros H. unfold utf8_decode. rewrite (utf8_items_encode _ _ H). apply sequence_map_Some. Qed.

Lemma utf8_decode_replace_encode s b : utf8_encode s = Some b -> utf8_decode_replace b = s.
Proof.
  intros H. unfold utf8_decode_replace. rewrite (utf8_items_encode _ _ H).
  rewrite map_map. apply map_id.
Qed.

(* the encoder is total exactly on surrogate-free text *)
Lemma utf8_enc1_scalar c : is_scalar c = true -> exists a, utf8_enc1 c = Some a.
Proof.
  unfold is_scalar, utf8_enc1, in_range. intros H.
  destruct (c <? 128); [eauto|]. destruct (c <? 2048); [eauto|].
  destruct (c <? 65536) eqn:E3.
  - destruct ((55296 <=? c) && (c <=? 57343)) eqn:E4; [lia|eauto].
  - destruct (c <=? 1114111) eqn:E5; [eauto|lia].
Qed.

Lemma utf8_enc1_Some_scalar c a : utf8_enc1 c = Some a -> is_scalar c = true.
Proof.
  unfold is_scalar, utf8_enc1, in_range. intros H.
  destruct (c <? 128) eqn:E1; [lia|]. destruct (c <? 2048) eqn:E2; [lia|].
  destruct (c <? 65536) eqn:E3.
  - destruct ((55296 <=? c) && (c <=? 57343)) eqn:E4; [discriminate|lia].
  - destruct (c <=? 1114111) eqn:E5; [lia|discriminate].
Qed.

Lemma utf8_encode_total s : valid_text s -> exists b, utf8_encode s = Some b.
Proof.
  induction 1 as [|c s Hc _ [b IH]]; simpl; [eauto|].
  destruct (utf8_enc1_scalar c Hc) as [a Ha]. rewrite Ha, IH. eauto.
Qed.

Lemma utf8_encode_Some_valid s b : utf8_encode s = Some b -> valid_text s.
Proof.
  revert b; induction s as [|c s IH]; intros b H; [constructor|]. simpl in H.
  destruct (utf8_enc1 c) as [a|] eqn:Ea; [|discriminate].
  destruct (utf8_encode s) as [b'|] eqn:Eb; [|discriminate].
  constructor; [eapply utf8_enc1_Some_scalar; exact Ea|eapply IH; reflexivity].
Qed.

(* encoded bytes are bytes *)
Lemma utf8_enc1_bytes c a : utf8_enc1 c = Some a -> Forall (fun b => b < 256) a.
Proof.
  unfold utf8_enc1, in_range. intros H.
  destruct (c <? 128) eqn:E1. { injection H as <-. repeat constructor. lia. }
  destruct (c <? 2048) eqn:E2. { injection H as <-. repeat constructor; lia. }
  destruct (c <? 65536) eqn:E3.
  { destruct ((55296 <=? c) && (c <=? 57343)); [discriminate|]. injection H as <-. repeat constructor; lia. }
  destruct (c <=? 1114111) eqn:E5; [|discriminate]. injection H as <-. repeat constructor; lia.
Qed.

(* ---------- the other direction: decode then encode ---------- *)
Lemma app_cons_assoc {A} (a : A) l r : (a :: l) ++ r = a :: (l ++ r).
Proof. reflexivity. Qed.

Lemma utf8_encode_app1 c a s b :
  utf8_enc1 c = Some a -> utf8_encode s = Some b -> utf8_encode (c :: s) = Some (a ++ b).
Proof. intros H1 H2. simpl. rewrite H1, H2. reflexivity. Qed.

Lemma enc1_1 b0 : b0 < 128 -> utf8_enc1 b0 = Some [b0].
Proof. intros H. unfold utf8_enc1. replace (b0 <? 128) with true by lia. reflexivity. Qed.

Lemma enc1_2 b0 b1 : in_range 194 223 b0 = true -> is_cont b1 = true ->
  utf8_enc1 (cp2 b0 b1) = Some [b0; b1].
Proof.
  unfold is_cont, in_range, cp2, utf8_enc1. intros H0 H1.
  replace ((b0 - 192) * 64 + (b1 - 128) <? 128) with false by lia.
  replace ((b0 - 192) * 64 + (b1 - 128) <? 2048) with true by lia.
  f_equal. f_equal; [lia|]. f_equal. lia.
Qed.

Lemma enc1_3 b0 b1 b2 : in_range 224 239 b0 = true -> second3 b0 b1 = true -> is_cont b2 = true ->
  utf8_enc1 (cp3 b0 b1 b2) = Some [b0; b1; b2].
Proof.
  unfold is_cont, second3, cp3, utf8_enc1, in_range. intros H0 H1 H2.
  destruct (b0 =? 224) eqn:Ea; destruct (b0 =? 237) eqn:Eb; try lia.
  all: replace ((b0 - 224) * 4096 + (b1 - 128) * 64 + (b2 - 128) <? 128) with false by lia.
  all: replace ((b0 - 224) * 4096 + (b1 - 128) * 64 + (b2 - 128) <? 2048) with false by lia.
  all: replace ((b0 - 224) * 4096 + (b1 - 128) * 64 + (b2 - 128) <? 65536) with true by lia.
  all: replace ((55296 <=? (b0 - 224) * 4096 + (b1 - 128) * 64 + (b2 - 128)) &&
                ((b0 - 224) * 4096 + (b1 - 128) * 64 + (b2 - 128) <=? 57343)) with false by lia.
  all: f_equal; repeat (apply f_equal2; [lia|]); reflexivity.
Qed.

Lemma enc1_4 b0 b1 b2 b3 : in_range 240 244 b0 = true -> second4 b0 b1 = true ->
  is_cont b2 = true -> is_cont b3 = true ->
  utf8_enc1 (cp4 b0 b1 b2 b3) = Some [b0; b1; b2; b3].
Proof.
  unfold is_cont, second4, cp4, utf8_enc1, in_range. intros H0 H1 H2 H3.
  destruct (b0 =? 240) eqn:Ea; destruct (b0 =? 244) eqn:Eb; try lia.
  all: replace ((b0 - 240) * 262144 + (b1 - 128) * 4096 + (b2 - 128) * 64 + (b3 - 128) <? 128) with false by lia.
  all: replace ((b0 - 240) * 262144 + (b1 - 128) * 4096 + (b2 - 128) * 64 + (b3 - 128) <? 2048) with false by lia.
  all: replace ((b0 - 240) * 262144 + (b1 - 128) * 4096 + (b2 - 128) * 64 + (b3 - 128) <? 65536) with false by lia.
  all: replace ((b0 - 240) * 262144 + (b1 - 128) * 4096 + (b2 - 128) * 64 + (b3 - 128) <=? 1114111) with true by lia.
  all: f_equal; repeat (apply f_equal2; [lia|]); reflexivity.
Qed.

Lemma utf8_encode_decode_len n : forall b s, (length b <= n)%nat ->
  utf8_decode b = Some s -> utf8_encode s = Some b.
Proof.
  unfold utf8_decode.
  induction n as [|n IH]; intros b s Hlen H.
  { destruct b; [|simpl in Hlen; lia]. simpl in H. inversion H. reflexivity. }
  destruct b as [|b0 t0]; [simpl in H; inversion H; reflexivity|].
  simpl in Hlen. cbn [utf8_items] in H.
  destruct (b0 <? 128) eqn:E1.
  { cbn [sequence] in H. destruct (sequence (utf8_items t0)) as [r|] eqn:Er; [|discriminate].
    inversion H; subst. apply (utf8_encode_app1 b0 [b0]); [apply enc1_1; lia|apply IH; [lia|exact Er]]. }
  destruct (in_range 194 223 b0) eqn:E2.
  { destruct t0 as [|b1 t1]; [discriminate|].
    destruct (is_cont b1) eqn:C1; [|discriminate].
    cbn [sequence] in H. destruct (sequence (utf8_items t1)) as [r|] eqn:Er; [|discriminate].
    inversion H; subst. simpl in Hlen.
    apply (utf8_encode_app1 _ [b0; b1]); [apply enc1_2; assumption|apply IH; [lia|exact Er]]. }
  destruct (in_range 224 239 b0) eqn:E3.
  { destruct t0 as [|b1 t1]; [discriminate|].
    destruct (second3 b0 b1) eqn:C1; [|discriminate].
    destruct t1 as [|b2 t2]; [discriminate|].
    destruct (is_cont b2) eqn:C2; [|discriminate].
    cbn [sequence] in H. destruct (sequence (utf8_items t2)) as [r|] eqn:Er; [|discriminate].
    inversion H; subst. simpl in Hlen.
    apply (utf8_encode_app1 _ [b0; b1; b2]); [apply enc1_3; assumption|apply IH; [lia|exact Er]]. }
  destruct (in_range 240 244 b0) eqn:E4.
  { destruct t0 as [|b1 t1]; [discriminate|].
    destruct (second4 b0 b1) eqn:C1; [|discriminate].
    destruct t1 as [|b2 t2]; [discriminate|].
    destruct (is_cont b2) eqn:C2; [|discriminate].
    destruct t2 as [|b3 t3]; [discriminate|].
    destruct (is_cont b3) eqn:C3; [|discriminate].
    cbn [sequence] in H. destruct (sequence (utf8_items t3)) as [r|] eqn:Er; [|discriminate].
    inversion H; subst. simpl in Hlen.
    apply (utf8_encode_app1 _ [b0; b1; b2; b3]); [apply enc1_4; assumption|apply IH; [lia|exact Er]]. }
  discriminate.
Qed.

(* bytes.decode (strict) then str.encode is the identity on every byte string
   the decoder accepts *)
Lemma utf8_encode_decode b s : utf8_decode b = Some s -> utf8_encode s = Some b.
Proof. apply (utf8_encode_decode_len (length b)). lia. Qed.

(* everything the strict decoder returns is surrogate-free text *)
Lemma utf8_decode_valid b s : utf8_decode b = Some s -> valid_text s.
Proof. intros H. eapply utf8_encode_Some_valid. eapply utf8_encode_decode. exact H. Qed.

(* ASCII is a fixed point of all three conversions *)
Lemma utf8_items_ascii s : Forall (fun c => c < 128) s -> utf8_items s = map Some s.
Proof.
  induction 1 as [|c s Hc _ IH]; [reflexivity|]. cbn [utf8_items map].
  replace (c <? 128) with true by lia. f_equal. exact IH.
Qed.

Lemma utf8_decode_replace_ascii s : Forall (fun c => c < 128) s -> utf8_decode_replace s = s.
Proof.
  intros H. unfold utf8_decode_replace. rewrite (utf8_items_ascii _ H), map_map. apply map_id.
Qed.

Lemma utf8_encode_ascii s : Forall (fun c => c < 128) s -> utf8_encode s = Some s.
Proof.
  induction 1 as [|c s Hc _ IH]; [reflexivity|]. simpl. rewrite IH, enc1_1 by exact Hc. reflexivity.
Qed.
