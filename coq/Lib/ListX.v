(* Small list lemmas missing from the 8.16 standard library. *)
From Coq Require Import List Arith Lia.
Import ListNotations.

Lemma Forall_firstn {A} (P : A -> Prop) n l : Forall P l -> Forall P (firstn n l).
Proof.
  revert l; induction n as [|n IH]; intros l H; [constructor|].
  destruct H; simpl; constructor; auto.
Qed.

Lemma Forall_skipn {A} (P : A -> Prop) n l : Forall P l -> Forall P (skipn n l).
Proof.
  revert l; induction n as [|n IH]; intros l H; [exact H|].
  destruct H; simpl; auto.
Qed.
