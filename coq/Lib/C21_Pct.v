(* Percent-encoding as implemented by urllib.parse (quote_from_bytes, quote_plus,
   unquote_to_bytes, unquote) over bytes / code points as list N.
   Definitions first, then the round-trip lemmas.  Reusable by other properties. *)
From Coq Require Import List ZArith NArith Bool Lia ZifyBool.
Import ListNotations.
From TV Require Import Lib.C21_Utf8.
Local Open Scope N_scope.

(* str.replace / bytes.replace of a single character by a string *)
Definition replace_char (c : N) (r : list N) (s : list N) : list N :=
  flat_map (fun x => if x =? c then r else [x]) s.

(* ---------- quoting ---------- *)
(* '%{:02X}'.format(b) digits *)
Definition hexdigit_upper (n : N) : N := if n <? 10 then 48 + n else 55 + n.

(* urllib.parse._ALWAYS_SAFE: A-Z a-z 0-9 _ . - ~ *)
Definition is_always_safe (b : N) : bool :=
  in_range 65 90 b || in_range 97 122 b || in_range 48 57 b ||
  (b =? 95) || (b =? 46) || (b =? 45) || (b =? 126).
Definition safe_slash (b : N) : bool := is_always_safe b || (b =? 47).   (* quote(): safe='/' *)
Definition safe_space (b : N) : bool := is_always_safe b || (b =? 32).   (* quote_plus(): safe=' ' *)

(* _Quoter.__missing__ *)
Definition pct_byte (safe : N -> bool) (b : N) : list N :=
  if safe b then [b] else [37; hexdigit_upper (b / 16); hexdigit_upper (b mod 16)].
Definition quote_from_bytes (safe : N -> bool) (bs : list N) : list N := flat_map (pct_byte safe) bs.

(* quote_plus: [has_space] is the `' ' in string` test made on the caller's
   str / bytes object before encoding *)
Definition quote_plus_bytes (has_space : bool) (bs : list N) : list N :=
  if negb has_space then quote_from_bytes is_always_safe bs
  else replace_char 32 [43] (quote_from_bytes safe_space bs).

(* ---------- unquoting ---------- *)
(* _hexdig = '0123456789ABCDEFabcdef' *)
Definition hexval (c : N) : option N :=
  if in_range 48 57 c then Some (c - 48)
  else if in_range 65 70 c then Some (c - 55)
  else if in_range 97 102 c then Some (c - 87)
  else None.

(* urllib.parse._unquote_impl on bytes.  The library splits on '%' and looks the
   first two characters of every later piece up in a table of hex pairs; since
   a piece contains no '%', that is this left-to-right scan. *)
Fixpoint unquote_bytes (l : list N) : list N :=
  match l with
  | [] => []
  | c :: t =>
      if c =? 37 then
        match t with
        | h1 :: h2 :: t2 =>
            match hexval h1, hexval h2 with
            | Some a, Some b => (a * 16 + b) :: unquote_bytes t2
            | _, _ => 37 :: unquote_bytes t
            end
        | _ => 37 :: unquote_bytes t
        end
      else c :: unquote_bytes t
  end.

(* urllib.parse.unquote on a str: maximal ASCII runs are unquoted to bytes and
   decoded with [dec]; other characters are copied.  [acc] is the current run,
   reversed. *)
Fixpoint unquote_runs (dec : list N -> list N) (acc s : list N) : list N :=
  match s with
  | [] => dec (unquote_bytes (rev acc))
  | c :: t =>
      if c <? 128 then unquote_runs dec (c :: acc) t
      else dec (unquote_bytes (rev acc)) ++ c :: unquote_runs dec [] t
  end.
Definition unquote_text (dec : list N -> list N) (s : list N) : list N :=
  if existsb (N.eqb 37) s then unquote_runs dec [] s else s.   (* `if '%' not in string: return string` *)

Definition unquote_plus_text (dec : list N -> list N) (s : list N) : list N :=
  unquote_text dec (replace_char 43 [32] s).

(* ====================================================================== *)
(* Lemmas                                                                  *)
(* ====================================================================== *)
Ltac Zify.zify_post_hook ::= Z.to_euclidean_division_equations.
Local Arguments N.add : simpl never.
Local Arguments N.mul : simpl never.
Local Arguments N.sub : simpl never.
Local Arguments N.div : simpl never.
Local Arguments N.modulo : simpl never.
Local Arguments N.ltb : simpl never.
Local Arguments N.leb : simpl never.
Local Arguments N.eqb : simpl never.

Definition bytes (l : list N) : Prop := Forall (fun b => b < 256) l.
Definition ascii (l : list N) : Prop := Forall (fun c => c < 128) l.

Lemma hexval_hexdigit x : x < 16 -> hexval (hexdigit_upper x) = Some x.
Proof.
  intros H. unfold hexval, hexdigit_upper, in_range.
  destruct (x <? 10) eqn:E.
  - replace ((48 <=? 48 + x) && (48 + x <=? 57)) with true by lia. f_equal. lia.
  - replace ((48 <=? 55 + x) && (55 + x <=? 57)) with false by lia.
    replace ((65 <=? 55 + x) && (55 + x <=? 70)) with true by lia. f_equal. lia.
Qed.

Lemma hexdigit_range x : x < 16 ->
  48 <= hexdigit_upper x <= 57 \/ 65 <= hexdigit_upper x <= 70.
Proof. intros H. unfold hexdigit_upper. destruct (x <? 10) eqn:E; lia. Qed.

Lemma unquote_bytes_app_pct safe b r :
  (forall x, safe x = true -> x <> 37) -> b < 256 ->
  unquote_bytes (pct_byte safe b ++ r) = b :: unquote_bytes r.
Proof.
  intros Hs Hb. unfold pct_byte. destruct (safe b) eqn:E.
  - cbn [app unquote_bytes]. specialize (Hs b E). replace (b =? 37) with false by lia. reflexivity.
  - cbn [app unquote_bytes]. replace (37 =? 37) with true by reflexivity.
    rewrite !hexval_hexdigit by lia. f_equal. lia.
Qed.

(* unquote_to_bytes (quote_from_bytes b) = b, for any safe set not containing '%' *)
Lemma unquote_bytes_quote safe bs :
  (forall x, safe x = true -> x <> 37) -> bytes bs ->
  unquote_bytes (quote_from_bytes safe bs) = bs.
Proof.
  intros Hs. induction 1 as [|b bs Hb _ IH]; [reflexivity|].
  unfold quote_from_bytes in *. cbn [flat_map]. rewrite unquote_bytes_app_pct by assumption.
  f_equal. exact IH.
Qed.

Lemma always_safe_not_pct x : is_always_safe x = true -> x <> 37.
Proof. unfold is_always_safe, in_range. lia. Qed.
Lemma safe_slash_not_pct x : safe_slash x = true -> x <> 37.
Proof. unfold safe_slash, is_always_safe, in_range. lia. Qed.
Lemma safe_space_not_pct x : safe_space x = true -> x <> 37.
Proof. unfold safe_space, is_always_safe, in_range. lia. Qed.

(* characters occurring in quoted output *)
Lemma quote_chars safe bs c :
  bytes bs -> In c (quote_from_bytes safe bs) ->
  (safe c = true /\ In c bs) \/ c = 37 \/ 48 <= c <= 57 \/ 65 <= c <= 70.
Proof.
  induction 1 as [|b bs Hb _ IH]; [intros []|].
  unfold quote_from_bytes in *. cbn [flat_map]. intros Hin. apply in_app_or in Hin as [Hin|Hin].
  - unfold pct_byte in Hin. destruct (safe b) eqn:E.
    + destruct Hin as [<-|[]]. left. split; [exact E|left; reflexivity].
    + destruct Hin as [<-|[<-|[<-|[]]]].
      * right. left. reflexivity.
      * right. right. apply hexdigit_range. lia.
      * right. right. apply hexdigit_range. lia.
  - destruct (IH Hin) as [[H1 H2]|H]; [left; split; [exact H1|right; exact H2]|right; exact H].
Qed.

Lemma quote_ascii safe bs :
  (forall x, safe x = true -> x < 128) -> bytes bs -> ascii (quote_from_bytes safe bs).
Proof.
  intros Hs Hb. apply Forall_forall. intros c Hin.
  destruct (quote_chars safe bs c Hb Hin) as [[H _]|[->|H]]; [apply Hs; exact H|lia|lia].
Qed.

Lemma always_safe_ascii x : is_always_safe x = true -> x < 128.
Proof. unfold is_always_safe, in_range. lia. Qed.
Lemma safe_slash_ascii x : safe_slash x = true -> x < 128.
Proof. unfold safe_slash, is_always_safe, in_range. lia. Qed.
Lemma safe_space_ascii x : safe_space x = true -> x < 128.
Proof. unfold safe_space, is_always_safe, in_range. lia. Qed.

(* replace_char facts *)
Lemma replace_char_absent c r s : ~ In c s -> replace_char c r s = s.
Proof.
  induction s as [|x s IH]; intros H; [reflexivity|]. unfold replace_char in *. cbn [flat_map].
  assert (x <> c) by (intros ->; apply H; left; reflexivity).
  replace (x =? c) with false by lia. simpl. f_equal. apply IH. intros Hin. apply H. right. exact Hin.
Qed.

Lemma replace_char_inverse a b s : ~ In b s -> a <> b ->
  replace_char b [a] (replace_char a [b] s) = s.
Proof.
  intros Hn Hab. induction s as [|x s IH]; [reflexivity|]. unfold replace_char in *. cbn [flat_map].
  assert (x <> b) by (intros ->; apply Hn; left; reflexivity).
  assert (IH' := IH (fun Hin => Hn (or_intror Hin))).
  destruct (x =? a) eqn:E.
  - cbn [app flat_map]. replace (b =? b) with true by lia. simpl. f_equal; [lia|exact IH'].
  - cbn [app flat_map]. replace (x =? b) with false by lia. simpl. f_equal. exact IH'.
Qed.

Lemma replace_char_ascii c r s : ascii r -> ascii s -> ascii (replace_char c r s).
Proof.
  intros Hr. induction 1 as [|x s Hx _ IH]; [constructor|]. unfold replace_char in *. cbn [flat_map].
  apply Forall_app. split; [|exact IH]. destruct (x =? c); [exact Hr|constructor; [exact Hx|constructor]].
Qed.

Lemma quote_no_plus safe bs : safe 43 = false -> bytes bs -> ~ In 43 (quote_from_bytes safe bs).
Proof.
  intros Hs Hb Hin. destruct (quote_chars safe bs 43 Hb Hin) as [[H _]|[H|H]]; [congruence|lia|lia].
Qed.

Lemma quote_ext safe1 safe2 bs :
  (forall b, In b bs -> safe1 b = safe2 b) -> quote_from_bytes safe1 bs = quote_from_bytes safe2 bs.
Proof.
  induction bs as [|b bs IH]; intros H; [reflexivity|]. unfold quote_from_bytes in *. cbn [flat_map].
  f_equal; [unfold pct_byte; rewrite (H b (or_introl eq_refl)); reflexivity|].
  apply IH. intros x Hx. apply H. right. exact Hx.
Qed.

Lemma existsb_eqb_false c l : existsb (N.eqb c) l = false -> ~ In c l.
Proof.
  intros H Hin. assert (existsb (N.eqb c) l = true); [|congruence].
  apply existsb_exists. exists c. split; [exact Hin|apply N.eqb_refl].
Qed.

Lemma existsb_eqb_true c l : existsb (N.eqb c) l = true -> In c l.
Proof. intros H. apply existsb_exists in H as [x [Hin E]]. apply N.eqb_eq in E. subst. exact Hin. Qed.

(* undoing the '+' of quote_plus yields the plain quoting with ' ' kept *)
Lemma unplus_quote_plus bs :
  bytes bs ->
  replace_char 43 [32] (quote_plus_bytes (existsb (N.eqb 32) bs) bs) = quote_from_bytes safe_space bs.
Proof.
  intros Hb. unfold quote_plus_bytes. destruct (existsb (N.eqb 32) bs) eqn:E; cbn [negb].
  - apply replace_char_inverse; [|lia]. apply quote_no_plus; [reflexivity|exact Hb].
  - rewrite replace_char_absent by (apply quote_no_plus; [reflexivity|exact Hb]).
    apply quote_ext. intros b Hin. unfold safe_space.
    assert (b <> 32) by (intros ->; apply (existsb_eqb_false _ _ E); exact Hin).
    replace (b =? 32) with false by lia. symmetry. apply orb_false_r.
Qed.

Lemma quote_plus_ascii sp bs : bytes bs -> ascii (quote_plus_bytes sp bs).
Proof.
  intros Hb. unfold quote_plus_bytes. destruct (negb sp).
  - apply quote_ascii; [exact always_safe_ascii|exact Hb].
  - apply replace_char_ascii; [repeat constructor; lia|]. apply quote_ascii; [exact safe_space_ascii|exact Hb].
Qed.

(* unquote on ASCII text *)
Lemma unquote_runs_ascii dec s : forall acc, ascii s ->
  unquote_runs dec acc s = dec (unquote_bytes (rev acc ++ s)).
Proof.
  induction s as [|c s IH]; intros acc H.
  - cbn [unquote_runs]. rewrite app_nil_r. reflexivity.
  - inversion H as [|? ? Hc Hs]; subst. cbn [unquote_runs]. replace (c <? 128) with true by lia.
    rewrite IH by exact Hs. cbn [rev]. rewrite <- app_assoc. reflexivity.
Qed.

Lemma unquote_bytes_no_pct s : ~ In 37 s -> unquote_bytes s = s.
Proof.
  induction s as [|c s IH]; intros H; [reflexivity|]. cbn [unquote_bytes].
  assert (c <> 37) by (intros ->; apply H; left; reflexivity).
  replace (c =? 37) with false by lia. f_equal. apply IH. intros Hin. apply H. right. exact Hin.
Qed.

Lemma unquote_text_ascii dec s :
  (forall a, ascii a -> dec a = a) -> ascii s -> unquote_text dec s = dec (unquote_bytes s).
Proof.
  intros Hdec Hs. unfold unquote_text. destruct (existsb (N.eqb 37) s) eqn:E.
  - rewrite unquote_runs_ascii by exact Hs. reflexivity.
  - rewrite unquote_bytes_no_pct by (apply existsb_eqb_false; exact E). symmetry. apply Hdec. exact Hs.
Qed.

(* the `'%' not in string` shortcut changes nothing *)
Lemma unquote_runs_no_pct dec s : (forall a, ascii a -> dec a = a) ->
  forall acc, ascii acc -> ~ In 37 acc -> ~ In 37 s -> unquote_runs dec acc s = rev acc ++ s.
Proof.
  intros Hdec. induction s as [|c s IH]; intros acc Ha Hn Hs.
  - cbn [unquote_runs]. rewrite app_nil_r. rewrite unquote_bytes_no_pct by (rewrite <- in_rev; exact Hn).
    apply Hdec. apply Forall_rev. exact Ha.
  - cbn [unquote_runs]. assert (Hs' : ~ In 37 s) by (intros Hin; apply Hs; right; exact Hin).
    assert (c <> 37) by (intros ->; apply Hs; left; reflexivity).
    destruct (c <? 128) eqn:E.
    + rewrite IH; [cbn [rev]; rewrite <- app_assoc; reflexivity|constructor; [lia|exact Ha]| |exact Hs'].
      intros [->|Hin]; [congruence|exact (Hn Hin)].
    + rewrite IH; [|constructor|intros []|exact Hs'].
      rewrite unquote_bytes_no_pct by (rewrite <- in_rev; exact Hn).
      rewrite Hdec by (apply Forall_rev; exact Ha). reflexivity.
Qed.

Lemma unquote_text_shortcut_irrelevant dec s : (forall a, ascii a -> dec a = a) ->
  ~ In 37 s -> unquote_runs dec [] s = s.
Proof. intros Hdec H. apply (unquote_runs_no_pct dec s Hdec []); [constructor|intros []|exact H]. Qed.
