(* C08 — executable entry points used by the correspondence check. *)
From Coq Require Import String.
From Coq Require Import List NArith ZArith Bool.
Import ListNotations.
From TV Require Import Lib.Obs C08.Base C08.Model.

(* input: (max_header_size, max_body_size, chunk_size, request method is HEAD,
           decompress_response, streaming_callback given, expect_100_continue (POST with a body
           held back), zlib answers in call order, TCP segments of the response stream; EOF
           follows the last segment) *)
Definition input := (nat * N * nat * bool * bool * bool * bool * gz_table * list (list N))%type.
Definition cfg_of (i : input) : cfg :=
  let '(mh, mb, cs, hd, dec, str, ex, _, _) := i in
  {| max_header := mh; max_body := mb; chunk_pred := Nat.pred cs; is_head := hd;
     decompress := dec; streaming := str; expect100 := ex |}.
Definition tbl_of (i : input) : gz_table := let '(_, _, _, _, _, _, _, t, _) := i in t.
Definition segs_of (i : input) : list bytes := snd i.

Definition obs_of_ekind (k : ekind) : obs :=
  match k with
  | EStreamClosed => OTag "StreamClosed"
  | EConnClosed => OTag "ConnectionClosed"
  | EMalformed => OTag "MalformedResponse"
  | EUnsat => OTag "UnsatisfiableRead"
  | EQuiet => OTag "QuietException"
  end.
Definition obs_of_outcome (o : outcome) : obs :=
  match o with
  | OResp code reason hs body =>
      OList [OInt (Z.of_N code);
             match reason with Some r => OBytes r | None => ONone end;
             OList (map (fun kv => OList [OBytes (fst kv); OBytes (snd kv)]) hs);
             OBytes body]
  | OErr k => obs_of_ekind k
  end.

(* [what final_callback got; bytes given to streaming_callback by then; bytes given to it
    afterwards (the model never produces any); final_callback ran before the transport's EOF
    was consumed; the held-back request body was written (once) in answer to a 100] *)
Definition obs_of_result (r : result) : obs :=
  match r with
  | Res o eof st sent => OList [obs_of_outcome o; OBytes st; OBytes []; OBool (negb eof); OBool sent]
  | OutOfFuel => OTag "OutOfFuel"
  end.

Definition run_case (i : input) : obs := obs_of_result (client_seg (cfg_of i) (tbl_of i) (segs_of i)).

(* ---------- the property on observables ---------- *)
Definition blen (o : obs) : N := match o with OBytes b => N.of_nat (length b) | _ => 0%N end.
Definition obs_is_1xx (o : obs) : bool :=
  match o with OInt z => (100 <=? z)%Z && (z <? 200)%Z | _ => false end.

Definition check_case (i : input) (o : obs) : bool :=
  match o with
  | OList [out; st; late; early; OBool sent] =>
      (* a held-back request body is only ever written when the request asked for that *)
      implb sent (expect100 (cfg_of i)) &&
      (* the fetch completes: a response or an error, never silence *)
      negb (obs_eqb out (OTag "Hang")) &&
      (* nothing is delivered after the result was handed over *)
      (blen late =? 0)%N &&
      (* the delivered body (after decompression) never exceeds max_body_size *)
      (blen st <=? max_body (cfg_of i))%N &&
      match out with
      | OList [code; _; _; body] =>
          (* ... also when it is returned in one piece; an interim response is never the result *)
          (blen body <=? max_body (cfg_of i))%N && negb (obs_is_1xx code)
      | _ => true
      end &&
      (* without decompression: exactly what the strict reader extracts from the concatenated
         stream (same response, or the same kind of error, completing before EOF exactly when
         the strict reader does not need the EOF).  With decompression the recorded zlib
         answers belong to this segmentation only, so the comparison is left to the theorems
         (ref_gzip) and to the Python oracle. *)
      (decompress (cfg_of i) ||
       obs_eqb o (obs_of_result (strict_client (cfg_of i) (tbl_of i) (concat (segs_of i)))))
  | _ => false
  end.
