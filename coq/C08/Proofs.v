(* C08 — refinement: the client logic commutes with any simulation between two stream
   implementations, hence the segment-fed client equals the strict reader of the
   concatenated stream. *)
From Coq Require Import List NArith Arith Bool Lia.
Import ListNotations.
From TV Require Import C08.Base C08.BaseProofs C08.Model.

Lemma is_1xx_spec code : is_1xx code = true <-> (100 <= code < 200)%N.
Proof.
  unfold is_1xx. rewrite andb_true_iff, N.leb_le, N.ltb_lt. tauto.
Qed.

(* what may depend on how a body was cut into pieces when [keep = false]: the bytes a failed
   fetch had already handed to streaming_callback *)
Definition rproj (keep : bool) (r : result) : result :=
  match r with
  | Res (OErr k) e st sn => Res (OErr k) e (if keep then st else []) sn
  | other => other
  end.

Section Sim.
  Context {S1 S2 : Type} (o1 : sops S1) (o2 : sops S2) (R : S1 -> S2 -> Prop).
  Context {G : Type} (inflate : G -> bytes -> nat -> option (G * bytes * bytes))
          (gflush : G -> G * bool * bool) (gnew : G -> G).
  Context (c : cfg) (keep : bool).

  Notation dstateG := (@dstate G).
  Notation deliverG := (deliver inflate c).

  Definition dproj (r : @dres G) : @dres G :=
    match r with
    | DBad d => if keep then DBad d else DBad (DS [] [] false (d_gz d) 0%N false (d_sent d))
    | other => other
    end.

  Definition rrelG (r1 : rres S1) (r2 : rres S2) : Prop :=
    match r1, r2 with
    | RData d s, RData d' s' => d = d' /\ R s s'
    | RUnsat, RUnsat => True
    | REof, REof => True
    | _, _ => False
    end.
  Definition orelG (x1 : option S1) (x2 : option S2) : Prop :=
    match x1, x2 with
    | Some s, Some s' => R s s'
    | None, None => True
    | _, _ => False
    end.
  Definition brelG (b1 : bstat S1) (b2 : bstat S2) : Prop :=
    match b1, b2 with
    | BDone s, BDone s' => R s s'
    | BEofS, BEofS | BBadS, BBadS | BUnsatS, BUnsatS | BFuel, BFuel => True
    | _, _ => False
    end.

  Hypothesis H_regex : forall m s1 s2, R s1 s2 -> rrelG (rd_regex o1 m s1) (rd_regex o2 m s2).
  Hypothesis H_until : forall m s1 s2, R s1 s2 -> rrelG (rd_until o1 m s1) (rd_until o2 m s2).
  Hypothesis H_exact : forall n s1 s2, R s1 s2 -> rrelG (rd_exact o1 n s1) (rd_exact o2 n s2).
  Hypothesis H_body : forall cs n s1 s2, R s1 s2 ->
      concat (fst (rd_body o1 cs n s1)) = concat (fst (rd_body o2 cs n s2)) /\
      orelG (snd (rd_body o1 cs n s1)) (snd (rd_body o2 cs n s2)).
  Hypothesis H_all : forall s1 s2, R s1 s2 -> rd_all o1 s1 = rd_all o2 s2.
  Hypothesis H_rem : forall s1 s2, R s1 s2 -> remaining o1 s1 = remaining o2 s2.
  (* the delegate chain only looks at the concatenation of the pieces it is given (up to the
     state it is left in when it fails, if [keep = false]) *)
  Context (Inv : dstateG -> Prop).
  Hypothesis H_inv : forall d h0, Inv d -> Inv (fst (headers_received gnew c d h0)).
  Hypothesis H_sent : forall d, Inv d -> Inv (set_sent d).
  Hypothesis H_dl : forall (d : dstateG) cs cs', Inv d ->
      concat cs = concat cs' -> dproj (deliverG d cs) = dproj (deliverG d cs').

  Lemma read_chunked_sim fuel : forall total s1 s2, R s1 s2 ->
      concat (fst (read_chunked o1 c fuel total s1)) =
      concat (fst (read_chunked o2 c fuel total s2)) /\
      brelG (snd (read_chunked o1 c fuel total s1)) (snd (read_chunked o2 c fuel total s2)).
  Proof.
    induction fuel as [|f IH]; intros total s1 s2 HR; [simpl; auto|].
    cbn [read_chunked].
    pose proof (H_until 64 s1 s2 HR) as U.
    destruct (rd_until o1 64 s1) as [l1 t1| |], (rd_until o2 64 s2) as [l2 t2| |];
      simpl in U; try contradiction; try (simpl; auto; fail).
    destruct U as [<- HR1].
    destruct (parse_hex_int (firstn (length l1 - 2) l1)) as [len|]; [|simpl; auto].
    destruct (len =? 0)%N.
    - pose proof (H_exact 2 t1 t2 HR1) as X.
      destruct (rd_exact o1 2 t1) as [d1 u1| |], (rd_exact o2 2 t2) as [d2 u2| |];
        simpl in X; try contradiction; try (simpl; auto; fail).
      destruct X as [<- HR2]. destruct (beqb d1 CRLF); simpl; auto.
    - destruct (max_body c <? total + len)%N; [simpl; auto|].
      pose proof (H_body (chunk_pred c) len t1 t2 HR1) as [B1 B2].
      destruct (rd_body o1 (chunk_pred c) len t1) as [cs1 ob1].
      destruct (rd_body o2 (chunk_pred c) len t2) as [cs2 ob2].
      cbn [fst snd] in B1, B2.
      destruct ob1 as [u1|], ob2 as [u2|]; simpl in B2; try contradiction; [|simpl; auto].
      pose proof (H_exact 2 u1 u2 B2) as X.
      destruct (rd_exact o1 2 u1) as [d1 v1| |], (rd_exact o2 2 u2) as [d2 v2| |];
        simpl in X; try contradiction; try (simpl; auto; fail).
      destruct X as [<- HR3]. destruct (beqb d1 CRLF); [|simpl; auto].
      specialize (IH (total + len)%N v1 v2 HR3).
      destruct (read_chunked o1 c f (total + len) v1) as [p1 r1].
      destruct (read_chunked o2 c f (total + len) v2) as [p2 r2].
      cbn [fst snd] in *. destruct IH as [I1 I2].
      rewrite !concat_app, B1, I1. auto.
  Qed.

  Lemma finish_body_sim d code reason h cs1 cs2 (b1 : bstat S1) (b2 : bstat S2) :
    Inv d -> concat cs1 = concat cs2 -> brelG b1 b2 ->
    rproj keep (finish_body inflate gflush c d code reason h cs1 b1) =
    rproj keep (finish_body inflate gflush c d code reason h cs2 b2).
  Proof.
    intros HI HC HB. unfold finish_body.
    pose proof (H_dl d cs1 cs2 HI HC) as HD.
    destruct (deliverG d cs1) as [d1|d1|], (deliverG d cs2) as [d2|d2|];
      simpl in HD; try discriminate; try (destruct keep; discriminate); auto.
    - inversion HD; subst d2.
      destruct b1, b2; simpl in HB; try contradiction; reflexivity.
    - simpl. destruct keep; [inversion HD; reflexivity|]. inversion HD as [[E1 E2]]. rewrite E2. reflexivity.
  Qed.

  Lemma read_body_sim s1 s2 d code reason h : Inv d -> R s1 s2 ->
    rproj keep (read_body o1 inflate gflush c s1 d code reason h) =
    rproj keep (read_body o2 inflate gflush c s2 d code reason h).
  Proof.
    intros HI HR. unfold read_body.
    destruct (body_plan (max_body c) code h) as [[[n| |] h']|]; [| | |reflexivity].
    - pose proof (H_body (chunk_pred c) n s1 s2 HR) as [B1 B2].
      destruct (rd_body o1 (chunk_pred c) n s1) as [cs1 ob1].
      destruct (rd_body o2 (chunk_pred c) n s2) as [cs2 ob2].
      cbn [fst snd] in B1, B2.
      apply finish_body_sim; [exact HI|exact B1|].
      destruct ob1, ob2; simpl in *; auto.
    - rewrite (H_rem _ _ HR).
      pose proof (read_chunked_sim (S (remaining o2 s2)) 0%N s1 s2 HR) as [B1 B2].
      destruct (read_chunked o1 c (S (remaining o2 s2)) 0 s1) as [cs1 b1].
      destruct (read_chunked o2 c (S (remaining o2 s2)) 0 s2) as [cs2 b2].
      cbn [fst snd] in B1, B2.
      apply finish_body_sim; assumption.
    - rewrite (H_all _ _ HR). reflexivity.
  Qed.

  Lemma frame_sim fuel : forall s1 s2 d, Inv d -> R s1 s2 ->
    rproj keep (frame o1 inflate gflush gnew c fuel s1 d) =
    rproj keep (frame o2 inflate gflush gnew c fuel s2 d).
  Proof.
    induction fuel as [|f IH]; intros s1 s2 d HI HR; [reflexivity|].
    cbn [frame].
    pose proof (H_regex (max_header c) s1 s2 HR) as U.
    destruct (rd_regex o1 (max_header c) s1) as [hd t1| |],
             (rd_regex o2 (max_header c) s2) as [hd2 t2| |];
      simpl in U; try contradiction; try reflexivity.
    destruct U as [<- HR1].
    destruct (parse_resp_head hd) as [[[code reason] h0]|]; [|reflexivity].
    pose proof (H_inv d h0 HI) as HI1.
    destruct (headers_received gnew c d h0) as [d1 h]. cbn [fst] in HI1.
    destruct (is_1xx code).
    - destruct (expect100 c && (code =? 100)%N && d_sent d1); [reflexivity|].
      destruct (hmem h K_CL || hmem h K_TE); [reflexivity|].
      apply IH; [|assumption].
      destruct (expect100 c && (code =? 100)%N); [apply H_sent|]; assumption.
    - destruct (is_head c || (code =? 304)%N); [reflexivity|].
      apply read_body_sim; assumption.
  Qed.

  Theorem fetch_sim g0 s1 s2 : Inv (d0 g0) -> R s1 s2 ->
    rproj keep (fetch o1 inflate gflush gnew c g0 s1) =
    rproj keep (fetch o2 inflate gflush gnew c g0 s2).
  Proof.
    intros HI HR. unfold fetch. rewrite (H_rem _ _ HR). apply frame_sim; assumption.
  Qed.
End Sim.

(* ---------- the refinement: segment-fed client = strict reader of the concatenation ---------- *)
Lemma rrel_is_rrelG r1 r2 : rrel r1 r2 -> rrelG (fun s b => flat s = b) r1 r2.
Proof. destruct r1, r2; simpl; auto. Qed.

Theorem seg_refines_whole {G : Type} (inflate : G -> bytes -> nat -> option (G * bytes * bytes))
        (gflush : G -> G * bool * bool) (gnew : G -> G) (c : cfg) (keep : bool)
        (Inv : @dstate G -> Prop)
  (Hinv : forall d h0, Inv d -> Inv (fst (headers_received gnew c d h0)))
  (Hsent : forall d, Inv d -> Inv (set_sent d))
  (Hdl : forall (d : @dstate G) cs cs', Inv d -> concat cs = concat cs' ->
         dproj keep (deliver inflate c d cs) = dproj keep (deliver inflate c d cs')) :
  forall g0 (s : sstream), Inv (d0 g0) ->
    rproj keep (fetch seg_ops inflate gflush gnew c g0 s) =
    rproj keep (fetch whole_ops inflate gflush gnew c g0 (flat s)).
Proof.
  intros g0 s HI.
  apply fetch_sim with (R := fun (s : sstream) (b : bytes) => flat s = b) (Inv := Inv).
  - intros m [buf segs] b <-. apply rrel_is_rrelG. exact (s_delim_sim _ find_term_stable m segs buf).
  - intros m [buf segs] b <-. apply rrel_is_rrelG. exact (s_delim_sim _ find_crlf_stable m segs buf).
  - intros n [buf segs] b <-. apply rrel_is_rrelG. exact (s_exact_sim n segs buf).
  - intros cs n [buf segs] b <-. cbn [rd_body seg_ops whole_ops fst snd flat].
    destruct (s_body_sim cs segs n buf) as [A B]. split; [exact A|exact B].
  - intros [buf segs] b <-. reflexivity.
  - intros [buf segs] b <-. reflexivity.
  - exact Hinv.
  - exact Hsent.
  - exact Hdl.
  - exact HI.
  - reflexivity.
Qed.

(* without decompression the delegate chain just appends *)
Section Plain.
  Context {G : Type} (inflate : G -> bytes -> nat -> option (G * bytes * bytes)) (c : cfg).

  Definition plain_append (d : @dstate G) (x : bytes) : @dstate G := inner_data c d x.

  Lemma inner_data_app d a b : inner_data c (inner_data c d a) b = inner_data (G:=G) c d (a ++ b).
  Proof. unfold inner_data. destruct (streaming c); simpl; rewrite app_assoc; reflexivity. Qed.
  Lemma inner_data_nil d : inner_data (G:=G) c d [] = d.
  Proof. unfold inner_data. destruct d, (streaming c); simpl; rewrite app_nil_r; reflexivity. Qed.

  Lemma deliver_plain : forall cs d, d_gzon d = false ->
    deliver inflate c d cs = DOk (inner_data c d (concat cs)).
  Proof.
    induction cs as [|p r IH]; intros d Hg.
    - simpl. rewrite inner_data_nil. reflexivity.
    - cbn [deliver concat]. unfold data_received. rewrite Hg.
      rewrite IH.
      + rewrite inner_data_app. reflexivity.
      + unfold inner_data. destruct (streaming c); exact Hg.
  Qed.
End Plain.
