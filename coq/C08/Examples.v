(* C08 — the premises of the theorems are satisfiable: concrete instances (by computation), and a
   decompressor that meets the piece-insensitivity premise of the decompressing refinement. *)
From Coq Require Import String.
From Coq Require Import List NArith Arith Bool Lia.
Import ListNotations.
From TV Require Import C08.Base C08.BaseProofs C08.Model C08.Proofs C08.Proofs2 C08.ProofsChunk C08.ProofsFuel C08.Proofs3.

Definition cfg_ex (str dec hd : bool) : cfg :=
  {| max_header := 1000; max_body := 100; chunk_pred := 63; is_head := hd; decompress := dec; streaming := str; expect100 := false |}.
Definition CL2 : bytes := s2b "HTTP/1.1 200 OK" ++ CRLF ++ s2b "Content-Length: 2" ++ CRLF ++ CRLF.
Definition TE : bytes := s2b "HTTP/1.1 200 OK" ++ CRLF ++ s2b "Transfer-Encoding: chunked" ++ CRLF ++ CRLF.
Definition BARE : bytes := s2b "HTTP/1.0 404 Not Found" ++ CRLF ++ s2b "X-A: b" ++ CRLF ++ CRLF.
Definition CONT : bytes := s2b "HTTP/1.1 100 Continue" ++ CRLF ++ CRLF.

Notation strictT c := (strict_client c []).

(* a Content-Length response followed by unrelated bytes, in three segments *)
Example ex_fixed :
  client_seg (cfg_ex false false false) [] [firstn 7 CL2; skipn 7 CL2 ++ s2b "h"; s2b "iTRAIL"]
  = Res (OResp 200 (Some (s2b "OK")) [(s2b "Content-Length", s2b "2")] (s2b "hi")) false [] false.
Proof. vm_compute. reflexivity. Qed.

Example ex_final_at :
  exists d1 h, final_at (fun t : gz_table => t) (cfg_ex false false false) [] (CL2 ++ s2b "hiTRAIL")
                        (s2b "hi" ++ s2b "TRAIL") 200 (Some (s2b "OK")) d1 h /\
               body_plan 100 200 h = Some (PFixed 2, h).
Proof.
  eexists. eexists. split.
  - exists CL2. eexists. repeat split; vm_compute; reflexivity.
  - vm_compute. reflexivity.
Qed.

(* chunked, streaming: "3\r\nhel\r\n02\r\nlo\r\n0\r\n\r\n" *)
Example ex_chunked :
  strictT (cfg_ex true false false)
    (TE ++ chunks_wire [(s2b "3", s2b "hel"); (s2b "02", s2b "lo")] ++ s2b "0" ++ CRLF ++ CRLF ++ s2b "X")
  = Res (OResp 200 (Some (s2b "OK")) [(s2b "Transfer-Encoding", s2b "chunked")] []) false (s2b "hello") false.
Proof. vm_compute. reflexivity. Qed.
Example ex_chunk_ok : Forall chunk_ok [(s2b "3", s2b "hel"); (s2b "02", s2b "lo")].
Proof. repeat constructor; try (vm_compute; lia); discriminate. Qed.

(* close-delimited, after an interim response *)
Example ex_close_after_interim :
  strictT (cfg_ex false false false) (CONT ++ BARE ++ s2b "body")
  = Res (OResp 404 (Some (s2b "Not Found")) [(s2b "X-A", s2b "b")] (s2b "body")) true [] false.
Proof. vm_compute. reflexivity. Qed.
Example ex_interim_premises :
  head_at (cfg_ex false false false) (CONT ++ BARE ++ s2b "body") CONT (BARE ++ s2b "body") /\
  parse_resp_head CONT = Some (100%N, Some (s2b "Continue"), []) /\
  expect100 (cfg_ex false false false) && (100 =? 100)%N = false.
Proof. repeat split; vm_compute; reflexivity. Qed.

(* rejections *)
Example ex_bad_status_line :
  strictT (cfg_ex false false false) (s2b "HTTP/1.1 20 OK" ++ CRLF ++ CRLF) = Res (OErr EMalformed) false [] false.
Proof. vm_compute. reflexivity. Qed.
Example ex_interim_with_length :
  strictT (cfg_ex false false false)
    (s2b "HTTP/1.1 100 Continue" ++ CRLF ++ s2b "Content-Length: 0" ++ CRLF ++ CRLF ++ CL2 ++ s2b "hi")
  = Res (OErr EConnClosed) false [] false.
Proof. vm_compute. reflexivity. Qed.
Example ex_204_with_length :
  strictT (cfg_ex false false false)
    (s2b "HTTP/1.1 204 No Content" ++ CRLF ++ s2b "Content-Length: 2" ++ CRLF ++ CRLF ++ s2b "xx")
  = Res (OErr EConnClosed) false [] false.
Proof. vm_compute. reflexivity. Qed.
Example ex_cl_and_te :
  strictT (cfg_ex false false false)
    (s2b "HTTP/1.1 200 OK" ++ CRLF ++ s2b "Content-Length: 2" ++ CRLF ++ s2b "Transfer-Encoding: chunked"
       ++ CRLF ++ CRLF ++ s2b "hi")
  = Res (OErr EConnClosed) false [] false.
Proof. vm_compute. reflexivity. Qed.
Example ex_truncated_fixed :
  strictT (cfg_ex true false false) (CL2 ++ s2b "h") = Res (OErr EConnClosed) true (s2b "h") false.
Proof. vm_compute. reflexivity. Qed.
Example ex_truncated_chunked :
  strictT (cfg_ex true false false) (TE ++ s2b "5" ++ CRLF ++ s2b "hel") = Res (OErr EConnClosed) true (s2b "hel") false.
Proof. vm_compute. reflexivity. Qed.
Example ex_broken_chunk_premise :
  forall s, snd (read_chunked whole_ops (cfg_ex true false false) 9 0 (s2b "5" ++ CRLF ++ s2b "hel")) <> BDone s.
Proof. intros s. vm_compute. discriminate. Qed.
Example ex_close_too_long :
  strictT {| max_header := 1000; max_body := 3; chunk_pred := 63; is_head := false; decompress := false;
             streaming := true; expect100 := false |} (BARE ++ s2b "body")
  = Res (OErr EConnClosed) true [] false.
Proof. vm_compute. reflexivity. Qed.
Example ex_head :
  strictT (cfg_ex false false true) (CL2 ++ s2b "hi")
  = Res (OResp 200 (Some (s2b "OK")) [(s2b "Content-Length", s2b "2")] []) false [] false.
Proof. vm_compute. reflexivity. Qed.

(* gzip: a 3-byte compressed body inflated by the recorded decompressor, the Content-Encoding
   header renamed; the same stream cut off (decompressor not at end of stream) is an error *)
Definition GZ : bytes :=
  s2b "HTTP/1.1 200 OK" ++ CRLF ++ s2b "Content-Encoding: gzip" ++ CRLF ++ s2b "Content-Length: 3" ++ CRLF ++ CRLF.
Example ex_gzip :
  strict_client (cfg_ex false true false) [GDec 3 64 (s2b "hello") 0; GFlush false true] (GZ ++ [1; 2; 3]%N)
  = Res (OResp 200 (Some (s2b "OK"))
          [(s2b "Content-Length", s2b "3"); (s2b "X-Consumed-Content-Encoding", s2b "gzip")] (s2b "hello"))
        false [] false.
Proof. vm_compute. reflexivity. Qed.
Example ex_gzip_truncated :
  strict_client (cfg_ex false true false) [GDec 3 64 (s2b "hel") 0; GFlush false false] (GZ ++ [1; 2; 3]%N)
  = Res (OErr EMalformed) false [] false.
Proof. vm_compute. reflexivity. Qed.
Example ex_gzip_too_large :
  strict_client {| max_header := 1000; max_body := 4; chunk_pred := 63; is_head := false; decompress := true;
                   streaming := true; expect100 := false |} [GDec 3 64 (s2b "hello") 0] (GZ ++ [1; 2; 3]%N)
  = Res (OErr EConnClosed) false [] false.
Proof. vm_compute. reflexivity. Qed.

(* expect_100_continue: the body is written on the 100, the response follows; a second 100 is refused *)
Definition cfg_exp : cfg :=
  {| max_header := 1000; max_body := 100; chunk_pred := 63; is_head := false; decompress := false;
     streaming := false; expect100 := true |}.
Example ex_continue :
  client_seg cfg_exp [] [CONT; CL2 ++ s2b "hi"]
  = Res (OResp 200 (Some (s2b "OK")) [(s2b "Content-Length", s2b "2")] (s2b "hi")) false [] true.
Proof. vm_compute. reflexivity. Qed.
Example ex_no_continue :
  client_seg cfg_exp [] [CL2 ++ s2b "hi"]
  = Res (OResp 200 (Some (s2b "OK")) [(s2b "Content-Length", s2b "2")] (s2b "hi")) false [] false.
Proof. vm_compute. reflexivity. Qed.
Example ex_two_continues :
  client_seg cfg_exp [] [CONT; CONT; CL2 ++ s2b "hi"] = Res (OErr EConnClosed) false [] true.
Proof. vm_compute. reflexivity. Qed.
Example ex_continue_premises :
  head_at cfg_exp (CONT ++ CL2 ++ s2b "hi") CONT (CL2 ++ s2b "hi") /\
  parse_resp_head CONT = Some (100%N, Some (s2b "Continue"), []).
Proof. split; vm_compute; reflexivity. Qed.

(* ---------- the premise of the decompressing refinement is satisfiable ---------- *)
(* a decompressor that rejects every input: how the body is cut into pieces is irrelevant *)
Definition inflate_never : unit -> bytes -> nat -> option (unit * bytes * bytes) := fun _ _ _ => None.

Lemma deliver_never c : forall cs (d : @dstate unit), d_gzon d = true ->
  dproj false (deliver inflate_never c d cs) =
  match concat cs with [] => DOk d | _ => DBad (DS [] [] false tt 0%N false (d_sent d)) end.
Proof.
  induction cs as [|p r IH]; intros d Hon; [reflexivity|].
  cbn [deliver concat]. unfold data_received. rewrite Hon.
  destruct p as [|x p].
  - cbn [gz_chunk app]. rewrite orb_false_r.
    replace (DS (d_chunks d) (d_streamed d) true (d_gz d) (d_gzsize d) (d_gzrecv d) (d_sent d)) with d
      by (destruct d; cbn in *; subst; reflexivity).
    apply IH. exact Hon.
  - cbn [gz_chunk app]. unfold inflate_never. cbn [dproj]. destruct (d_gz _). reflexivity.
Qed.

Example piece_insensitive_decompressor c :
  forall (d : @dstate unit) cs cs', concat cs = concat cs' ->
    dproj false (deliver inflate_never c d cs) = dproj false (deliver inflate_never c d cs').
Proof.
  intros d cs cs' H. destruct (d_gzon d) eqn:Hon.
  - rewrite !deliver_never by exact Hon. rewrite H. reflexivity.
  - rewrite !(deliver_plain inflate_never c _ d Hon). rewrite H. reflexivity.
Qed.

(* ---------- phase 4: a well-formed stream in the sense of the truncation theorem ---------- *)
From TV Require Import C08.ProofsP4.
Definition one_chunk : list (bytes * bytes) := [(s2b "3", s2b "hel")].
Example ex_wf_stream :
  wf_stream (cfg_ex true false false)
            (CONT ++ TE ++ chunks_wire one_chunk ++ s2b "0" ++ CRLF ++ CRLF) (chunks_data one_chunk).
Proof.
  apply (wf_interim _ _ CONT (TE ++ chunks_wire one_chunk ++ s2b "0" ++ CRLF ++ CRLF)
                    100%N (Some (s2b "Continue")) []); try (vm_compute; reflexivity).
  apply (wf_final _ _ TE (chunks_wire one_chunk ++ s2b "0" ++ CRLF ++ CRLF)
                  200%N (Some (s2b "OK")) [(s2b "Transfer-Encoding", [s2b "chunked"])]);
    try (vm_compute; reflexivity).
  change (is_head (cfg_ex true false false) || (200 =? 304)%N) with false. cbv iota.
  exists PChunked, [(s2b "Transfer-Encoding", [s2b "chunked"])]. split; [vm_compute; reflexivity|].
  apply wf_chunked; [reflexivity|simpl; lia| |vm_compute; discriminate].
  repeat constructor; try (vm_compute; lia); discriminate.
Qed.
(* ... cut in the middle of the chunk data: an error, "he" was delivered *)
Example ex_cut_stream :
  strictT (cfg_ex true false false) (CONT ++ TE ++ s2b "3" ++ CRLF ++ s2b "he")
  = Res (OErr EConnClosed) true (s2b "he") false.
Proof. vm_compute. reflexivity. Qed.
