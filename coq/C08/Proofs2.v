(* C08 — (REF) corollaries and (INV): whatever the fetch delivers respects max_body_size, and a
   response never carries an interim (1xx) status. *)
From Coq Require Import List NArith Arith Bool Lia.
Import ListNotations.
From TV Require Import C08.Base C08.BaseProofs C08.Model C08.Proofs.

Lemma rproj_keep r : rproj true r = r.
Proof. destruct r as [o e st sn|]; [destruct o|]; reflexivity. Qed.

(* (REF) without decompression: exact equality, for every decompressor (it is never used) *)
Theorem ref_plain {G : Type} (inflate : G -> bytes -> nat -> option (G * bytes * bytes))
        (gflush : G -> G * bool * bool) (gnew : G -> G) (c : cfg) (g0 : G) (segs : list bytes) :
  decompress c = false ->
  fetch seg_ops inflate gflush gnew c g0 ([], segs) =
  fetch whole_ops inflate gflush gnew c g0 (concat segs).
Proof.
  intros Hd.
  rewrite <- (rproj_keep (fetch seg_ops inflate gflush gnew c g0 ([], segs))).
  rewrite <- (rproj_keep (fetch whole_ops inflate gflush gnew c g0 (concat segs))).
  change (concat segs) with (flat ([], segs)).
  apply (seg_refines_whole inflate gflush gnew c true (fun d => d_gzon d = false)).
  - intros d h0 Hi. unfold headers_received. rewrite Hd. exact Hi.
  - intros d Hi. exact Hi.
  - intros d cs cs' Hi Hc. rewrite !(deliver_plain inflate c _ d Hi). rewrite Hc. reflexivity.
  - reflexivity.
Qed.

(* (REF) with decompression, for any decompressor that does not care how its input is cut:
   same response or same error; only the bytes a FAILED fetch had already streamed may differ *)
Theorem ref_gzip {G : Type} (inflate : G -> bytes -> nat -> option (G * bytes * bytes))
        (gflush : G -> G * bool * bool) (gnew : G -> G) (c : cfg) (g0 : G) (segs : list bytes) :
  (forall (d : @dstate G) cs cs', concat cs = concat cs' ->
     dproj false (deliver inflate c d cs) = dproj false (deliver inflate c d cs')) ->
  rproj false (fetch seg_ops inflate gflush gnew c g0 ([], segs)) =
  rproj false (fetch whole_ops inflate gflush gnew c g0 (concat segs)).
Proof.
  intros Hdl.
  change (concat segs) with (flat ([], segs)).
  apply (seg_refines_whole inflate gflush gnew c false (fun _ => True)); auto.
Qed.

(* ---------- (INV) ---------- *)
Section Bound.
  Context {S : Type} (ops : sops S).
  Context {G : Type} (inflate : G -> bytes -> nat -> option (G * bytes * bytes))
          (gflush : G -> G * bool * bool) (gnew : G -> G).
  Context (c : cfg).
  Hypothesis H_bodylen : forall cs n s,
      (N.of_nat (length (concat (fst (rd_body ops cs n s)))) <= n)%N.

  Definition delivered (d : @dstate G) : N :=
    N.of_nat (length (d_chunks d) + length (d_streamed d)).

  Lemma delivered_inner d x :
    delivered (inner_data c d x) = (delivered d + N.of_nat (length x))%N.
  Proof.
    unfold delivered, inner_data. destruct (streaming c); cbn [d_chunks d_streamed];
      rewrite app_length; lia.
  Qed.
  Lemma gzsize_inner d x : d_gzsize (inner_data (G:=G) c d x) = d_gzsize d.
  Proof. unfold inner_data. destruct (streaming c); reflexivity. Qed.
  Lemma gzon_inner d x : d_gzon (inner_data (G:=G) c d x) = d_gzon d.
  Proof. unfold inner_data. destruct (streaming c); reflexivity. Qed.

  Definition dres_inv (on : bool) (r : @dres G) : Prop :=
    match r with
    | DOk d' | DBad d' =>
        d_gzon d' = on /\ (delivered d' <= d_gzsize d')%N /\ (delivered d' <= max_body c)%N
    | DFuel => True
    end.

  Lemma gz_chunk_bound fuel : forall d data,
    (delivered d <= d_gzsize d)%N -> (delivered d <= max_body c)%N ->
    dres_inv (d_gzon d) (gz_chunk inflate c fuel d data).
  Proof.
    induction fuel as [|f IH]; intros d data H1 H2.
    - destruct data; simpl; auto.
    - destruct data as [|x data]; [simpl; auto|].
      cbn [gz_chunk].
      destruct (inflate (d_gz d) (x :: data) (Datatypes.S (chunk_pred c))) as [[[g' out] tail]|];
        [|simpl; auto].
      destruct out as [|y out].
      + destruct tail; simpl; auto.
      + destruct (max_body c <? d_gzsize d + N.of_nat (length (y :: out)))%N eqn:E.
        * simpl. unfold delivered in *. cbn [d_chunks d_streamed with_gz]. repeat split; lia.
        * apply N.ltb_ge in E.
          set (d2 := inner_data c (with_gz d g' (d_gzsize d + N.of_nat (length (y :: out)))) (y :: out)).
          assert (Hon : d_gzon d2 = d_gzon d) by (unfold d2; rewrite gzon_inner; reflexivity).
          rewrite <- Hon. apply IH.
          -- unfold d2. rewrite delivered_inner, gzsize_inner.
             unfold delivered in *. cbn [d_chunks d_streamed d_gzsize with_gz]. lia.
          -- unfold d2. rewrite delivered_inner.
             unfold delivered in *. cbn [d_chunks d_streamed d_gzsize with_gz]. lia.
  Qed.

  Lemma deliver_gz_bound : forall cs d,
    d_gzon d = true -> (delivered d <= d_gzsize d)%N -> (delivered d <= max_body c)%N ->
    dres_inv true (deliver inflate c d cs).
  Proof.
    induction cs as [|p r IH]; intros d Hon H1 H2.
    - simpl. auto.
    - cbn [deliver]. unfold data_received. rewrite Hon.
      match goal with |- context [gz_chunk inflate c ?f ?dd p] =>
        pose proof (gz_chunk_bound f dd p) as GB; destruct (gz_chunk inflate c f dd p) as [d'|d'|] end.
      + cbn [d_gzon] in GB. destruct GB as (A & B & C); [exact H1|exact H2|]. apply IH; assumption.
      + cbn [d_gzon] in GB. apply GB; assumption.
      + exact I.
  Qed.

  (* the held-back request body is written only if the request asked for 100-continue *)
  Definition SI (d : @dstate G) : Prop := d_sent d = true -> expect100 c = true.

  Lemma gz_chunk_sent fuel : forall d data,
    match gz_chunk inflate c fuel d data with
    | DOk d' | DBad d' => d_sent d' = d_sent d
    | DFuel => True
    end.
  Proof.
    induction fuel as [|f IH]; intros d data; [destruct data; simpl; auto|].
    destruct data as [|x data]; [simpl; auto|]. cbn [gz_chunk].
    destruct (inflate (d_gz d) (x :: data) (Datatypes.S (chunk_pred c))) as [[[g' out] tail]|];
      [|simpl; auto].
    destruct out as [|y out]; [destruct tail; simpl; auto|].
    destruct (max_body c <? d_gzsize d + N.of_nat (length (y :: out)))%N; [simpl; auto|].
    match goal with |- context [gz_chunk inflate c f ?dd tail] =>
      specialize (IH dd tail); destruct (gz_chunk inflate c f dd tail); auto;
      rewrite IH; unfold inner_data; destruct (streaming c); reflexivity end.
  Qed.
  Lemma deliver_sent : forall cs d,
    match deliver inflate c d cs with
    | DOk d' | DBad d' => d_sent d' = d_sent d
    | DFuel => True
    end.
  Proof.
    induction cs as [|p r IH]; intros d; [simpl; auto|].
    cbn [deliver]. unfold data_received. destruct (d_gzon d).
    - match goal with |- context [gz_chunk inflate c ?f ?dd p] =>
        pose proof (gz_chunk_sent f dd p) as GS; destruct (gz_chunk inflate c f dd p) as [d'|d'|] end;
        auto.
      specialize (IH d'). destruct (deliver inflate c d' r); auto; rewrite IH; exact GS.
    - specialize (IH (inner_data c d p)).
      assert (E : d_sent (inner_data c d p) = d_sent d)
        by (unfold inner_data; destruct (streaming c); reflexivity).
      destruct (deliver inflate c (inner_data c d p) r); auto; rewrite IH; exact E.
  Qed.

  Definition res_ok (r : result) : Prop :=
    match r with
    | Res o e st sn =>
        (sn = true -> expect100 c = true) /\
        (N.of_nat (length st) <= max_body c)%N /\
        match o with
        | OResp code _ _ body => (N.of_nat (length body) <= max_body c)%N /\ is_1xx code = false
        | OErr _ => True
        end
    | OutOfFuel => True
    end.

  Lemma err_ok k e (d : @dstate G) :
    SI d -> (delivered d <= max_body c)%N -> res_ok (Res (OErr k) e (d_streamed d) (d_sent d)).
  Proof. intros HS H. unfold delivered in H. simpl. split; [exact HS|]. split; [lia|exact I]. Qed.

  Lemma do_finish_ok d code reason h e :
    SI d -> (delivered d <= max_body c)%N -> is_1xx code = false ->
    res_ok (do_finish gflush c d code reason h e).
  Proof.
    intros HS H H1. unfold do_finish.
    destruct (d_gzon d).
    - destruct (gflush (d_gz d)) as [[g' ne] ateof].
      destruct ne; [apply (err_ok _ _ (with_gz d g' (d_gzsize d))); assumption|].
      destruct (d_gzrecv d && negb ateof); [apply (err_ok _ _ (with_gz d g' (d_gzsize d))); assumption|].
      unfold delivered in H. simpl. destruct (streaming c); simpl; repeat split; auto; lia.
    - unfold delivered in H. simpl. destruct (streaming c); simpl; repeat split; auto; lia.
  Qed.

  Lemma deliver_bound d cs :
    delivered d = 0%N -> d_gzsize d = 0%N ->
    (d_gzon d = false -> (N.of_nat (length (concat cs)) <= max_body c)%N) ->
    match deliver inflate c d cs with
    | DOk d' | DBad d' => (delivered d' <= max_body c)%N
    | DFuel => True
    end.
  Proof.
    intros H0 Hz Hp. destruct (d_gzon d) eqn:Hon.
    - pose proof (deliver_gz_bound cs d Hon) as B.
      destruct (deliver inflate c d cs); try exact I; apply B; lia.
    - rewrite (deliver_plain inflate c cs d Hon). rewrite delivered_inner. specialize (Hp eq_refl). lia.
  Qed.

  Lemma finish_body_ok d code reason h cs (b : bstat S) :
    SI d -> delivered d = 0%N -> d_gzsize d = 0%N -> is_1xx code = false ->
    (d_gzon d = false -> (N.of_nat (length (concat cs)) <= max_body c)%N) ->
    res_ok (finish_body inflate gflush c d code reason h cs b).
  Proof.
    intros HS H0 Hz H1 Hp. unfold finish_body.
    pose proof (deliver_bound d cs H0 Hz Hp) as B.
    pose proof (deliver_sent cs d) as DSn.
    destruct (deliver inflate c d cs) as [d'|d'|]; [| |exact I].
    - assert (HS' : SI d') by (unfold SI; rewrite DSn; exact HS).
      destruct b; try exact I; try (apply err_ok; assumption).
      apply do_finish_ok; assumption.
    - apply err_ok; [unfold SI; rewrite DSn; exact HS|exact B].
  Qed.

  Lemma read_chunked_len fuel : forall total s,
    (total <= max_body c)%N ->
    (N.of_nat (length (concat (fst (read_chunked ops c fuel total s)))) + total <= max_body c)%N.
  Proof.
    induction fuel as [|f IH]; intros total s Ht; [simpl; lia|].
    cbn [read_chunked].
    destruct (rd_until ops 64 s) as [line st1| |]; try (simpl; lia).
    destruct (parse_hex_int (firstn (length line - 2) line)) as [len|]; [|simpl; lia].
    destruct (len =? 0)%N.
    - destruct (rd_exact ops 2 st1) as [t st2| |]; try (simpl; lia).
      destruct (beqb t CRLF); simpl; lia.
    - destruct (max_body c <? total + len)%N eqn:E; [simpl; lia|].
      apply N.ltb_ge in E.
      pose proof (H_bodylen (chunk_pred c) len st1) as HB.
      destruct (rd_body ops (chunk_pred c) len st1) as [cs o]. cbn [fst] in HB.
      destruct o as [st2|]; [|cbn [fst]; lia].
      destruct (rd_exact ops 2 st2) as [t st3| |]; try (cbn [fst]; lia).
      destruct (beqb t CRLF); [|cbn [fst]; lia].
      specialize (IH (total + len)%N st3 E).
      destruct (read_chunked ops c f (total + len) st3) as [cs2 r]. cbn [fst] in *.
      rewrite concat_app, app_length. lia.
  Qed.

  Lemma body_plan_fixed_le code h n h' :
    body_plan (max_body c) code h = Some (PFixed n, h') -> (n <= max_body c)%N.
  Proof.
    unfold body_plan, cl_of.
    destruct (hcomb h K_CL) as [v|].
    - set (v1 := if mem COMMA v then _ else _).
      destruct v1 as [[s hh]|]; [|discriminate].
      destruct (parse_int s) as [m|]; [|discriminate].
      destruct (max_body c <? m)%N eqn:E; [discriminate|]. apply N.ltb_ge in E.
      destruct (te_chunked hh) as [ch|]; [|discriminate].
      destruct (code =? 204)%N.
      + destruct (ch || negb (m =? 0)%N); [discriminate|]. intros H; inversion H; subst. lia.
      + destruct ch; [discriminate|]. intros H; inversion H; subst. exact E.
    - destruct (te_chunked h) as [ch|]; [|discriminate].
      destruct (code =? 204)%N.
      + destruct (ch || false); [discriminate|]. intros H; inversion H; subst. lia.
      + destruct ch; discriminate.
  Qed.

  Lemma deliver_single (d : @dstate G) p : deliver inflate c d [p] = data_received inflate c d p.
  Proof. cbn [deliver]. destruct (data_received inflate c d p); reflexivity. Qed.

  Lemma read_body_ok s d code reason h :
    SI d -> delivered d = 0%N -> d_gzsize d = 0%N -> is_1xx code = false ->
    res_ok (read_body ops inflate gflush c s d code reason h).
  Proof.
    intros HS H0 Hz H1. unfold read_body.
    destruct (body_plan (max_body c) code h) as [[[n| |] h']|] eqn:BP.
    - pose proof (body_plan_fixed_le _ _ _ _ BP) as Hn.
      pose proof (H_bodylen (chunk_pred c) n s) as HB.
      destruct (rd_body ops (chunk_pred c) n s) as [cs o]. cbn [fst] in HB.
      apply finish_body_ok; auto. intros _. lia.
    - pose proof (read_chunked_len (Datatypes.S (remaining ops s)) 0%N s) as HL.
      destruct (read_chunked ops c (Datatypes.S (remaining ops s)) 0 s) as [cs b]. cbn [fst] in HL.
      apply finish_body_ok; auto. intros _. lia.
    - destruct (max_body c <? N.of_nat (length (rd_all ops s)))%N eqn:E.
      + apply err_ok; [exact HS|lia].
      + apply N.ltb_ge in E. rewrite <- deliver_single.
        pose proof (deliver_bound d [rd_all ops s] H0 Hz) as B.
        pose proof (deliver_sent [rd_all ops s] d) as DSn.
        cbn [concat] in B. rewrite app_nil_r in B. specialize (B (fun _ => E)).
        destruct (deliver inflate c d [rd_all ops s]) as [d'|d'|]; [| |exact I].
        * apply do_finish_ok; try assumption. unfold SI; rewrite DSn; exact HS.
        * apply err_ok; [unfold SI; rewrite DSn; exact HS|exact B].
    - apply err_ok; [exact HS|lia].
  Qed.

  Lemma frame_ok fuel : forall s d,
    SI d -> delivered d = 0%N -> d_gzsize d = 0%N ->
    res_ok (frame ops inflate gflush gnew c fuel s d).
  Proof.
    induction fuel as [|f IH]; intros s d HS H0 Hz; [exact I|].
    cbn [frame].
    destruct (rd_regex ops (max_header c) s) as [hd s1| |]; try (apply err_ok; [exact HS|lia]).
    destruct (parse_resp_head hd) as [[[code reason] h0]|]; [|apply err_ok; [exact HS|lia]].
    assert (HR : delivered (fst (headers_received gnew c d h0)) = 0%N /\
                 d_gzsize (fst (headers_received gnew c d h0)) = 0%N /\
                 d_sent (fst (headers_received gnew c d h0)) = d_sent d).
    { unfold headers_received. destruct (decompress c); [|auto].
      destruct (gz_headers h0) as [h on]. cbn [fst]. unfold delivered in *. auto. }
    destruct (headers_received gnew c d h0) as [d1 h]. cbn [fst] in HR. destruct HR as (R0 & Rz & Rs).
    assert (HS1 : SI d1) by (unfold SI; rewrite Rs; exact HS).
    destruct (is_1xx code) eqn:X.
    - destruct (expect100 c && (code =? 100)%N) eqn:W.
      + apply andb_true_iff in W as [W1 _].
        destruct (d_sent d1) eqn:Sn; cbn [andb].
        * simpl. unfold delivered in R0. repeat split; auto; lia.
        * assert (HS2 : SI (set_sent d1)) by (intros _; exact W1).
          destruct (hmem h K_CL || hmem h K_TE);
            [apply (err_ok _ _ (set_sent d1)); [exact HS2|exact (eq_ind_r (fun x => (x <= max_body c)%N) (N.le_0_l _) R0)]|].
          apply IH; assumption.
      + cbn [andb]. destruct (hmem h K_CL || hmem h K_TE); [apply err_ok; [exact HS1|lia]|].
        apply IH; assumption.
    - destruct (is_head c || (code =? 304)%N).
      + apply do_finish_ok; [exact HS1|lia|exact X].
      + apply read_body_ok; assumption.
  Qed.

  Theorem fetch_ok g0 s : res_ok (fetch ops inflate gflush gnew c g0 s).
  Proof. unfold fetch. apply frame_ok; [intros H; discriminate|reflexivity|reflexivity]. Qed.
End Bound.

Lemma w_bodylen cs n b : (N.of_nat (length (concat (fst (w_body cs n b)))) <= n)%N.
Proof.
  destruct (N.le_gt_cases n (N.of_nat (length b))) as [L|L].
  - destruct (w_body_le cs n b L) as [A _]. rewrite A, firstn_length. lia.
  - destruct (w_body_gt cs n b L) as [A _]. rewrite A. lia.
Qed.
Lemma s_bodylen cs n (s : sstream) :
  (N.of_nat (length (concat (fst (rd_body seg_ops cs n s)))) <= n)%N.
Proof.
  destruct s as [buf segs]. cbn [rd_body seg_ops fst snd].
  destruct (s_body_sim cs segs n buf) as [A _]. rewrite A. apply w_bodylen.
Qed.
