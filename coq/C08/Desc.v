(* C08 — a description of the framing rules as read from the SOURCE TEXT of
   http1connection.is_transfer_encoding_chunked / HTTP1Connection._read_body /
   _read_body_until_close by translators/c08_src.py (statement template with holes), and its
   meaning.  Definitions only.  Gen/C08_src.v holds the description regenerated on every run;
   Gen/C08_equiv.v proves it means C08.Model.body_plan and the close-delimited size check. *)
From Coq Require Import String.
From Coq Require Import List NArith Bool.
Import ListNotations.
From TV Require Import C08.Base C08.Model.
Local Open Scope N_scope.

Inductive cmpop := OpGt | OpGe | OpLt | OpLe | OpEq | OpNe.
Definition cmp_holds (op : cmpop) (a b : N) : bool :=
  match op with
  | OpGt => b <? a | OpGe => b <=? a | OpLt => a <? b | OpLe => a <=? b
  | OpEq => a =? b | OpNe => negb (a =? b)
  end.

Record framing_desc := {
  k_cl : bytes;                 (* the header consulted by _read_body for the length *)
  k_te : bytes;                 (* is_transfer_encoding_chunked: the coding header ... *)
  k_te_cl : bytes;              (* ... the header that must not accompany it ... *)
  tok_chunked : bytes;          (* ... and the only coding accepted (compared lower-cased) *)
  limit_op : cmpop;             (* `content_length <op> self._max_body_size` raises *)
  nobody_code : N;              (* `if code == <204>` *)
  nobody_ok : list (option N);  (* `content_length not in (None, 0)` raises *)
  close_op : cmpop              (* `len(body) <op> self._max_body_size` raises *)
}.

Definition opt_eqb (a b : option N) : bool :=
  match a, b with
  | None, None => true
  | Some x, Some y => x =? y
  | _, _ => false
  end.

Section Meaning.
  Context (d : framing_desc).
  Definition KCL := norm_name (k_cl d).      (* `name in headers` / headers[name] normalise the name *)
  Definition KTE := norm_name (k_te d).
  Definition KTECL := norm_name (k_te_cl d).

  (* is_transfer_encoding_chunked *)
  Definition te_of_desc (h : headers) : option bool :=
    match hcomb h KTE with
    | None => Some false
    | Some te =>
        if hmem h KTECL then None
        else if beqb (lower_s te) (tok_chunked d) then Some true else None
    end.

  (* the Content-Length block of _read_body *)
  Definition cl_of_desc (maxb : N) (h : headers) : option (option N * headers) :=
    match hcomb h KCL with
    | None => Some (None, h)
    | Some v =>
        let v1 :=
          if mem COMMA v then
            match split_cl false [] v with
            | p0 :: ps => if forallb (beqb p0) ps then Some (p0, hset h KCL p0) else None
            | [] => None
            end
          else Some (v, h) in
        match v1 with
        | None => None
        | Some (s, h') =>
            match parse_int s with
            | None => None
            | Some n => if cmp_holds (limit_op d) n maxb then None else Some (Some n, h')
            end
        end
    end.

  (* _read_body as a whole (is_client) *)
  Definition plan_of_desc (maxb code : N) (h : headers) : option (plan * headers) :=
    match cl_of_desc maxb h with
    | None => None
    | Some (cl, h') =>
        match te_of_desc h' with
        | None => None
        | Some ch =>
            if code =? nobody_code d then
              if ch || negb (existsb (opt_eqb cl) (nobody_ok d)) then None
              else Some (PFixed 0, h')
            else if ch then Some (PChunked, h')
            else match cl with Some n => Some (PFixed n, h') | None => Some (PClose, h') end
        end
    end.

  (* _read_body_until_close refuses the body *)
  Definition close_refused (maxb len : N) : bool := cmp_holds (close_op d) len maxb.
End Meaning.

Definition desc_expected : framing_desc :=
  {| k_cl := s2b "Content-Length"; k_te := s2b "Transfer-Encoding"; k_te_cl := s2b "Content-Length";
     tok_chunked := s2b "chunked"; limit_op := OpGt; nobody_code := 204; nobody_ok := [None; Some 0];
     close_op := OpGt |}.
