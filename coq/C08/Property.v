(* C08 — The HTTP client decodes any response stream exactly as a strict parser does.
   Property theorems only; proofs are in Proofs*.v.

   Vocabulary (C08/Model.v):
     fetch ops inflate gflush gnew c g0 s   what final_callback receives for the response stream s:
                                             Res outcome eof_consumed streamed_bytes body_written_on_100
     strict_client c t b  = fetch on the whole byte string b   (the strict reader, the specification)
     client_seg c t segs  = fetch on an IOStream fed the TCP segments segs one at a time, then EOF
     inflate / gflush / gnew                an arbitrary gzip decompressor (zlib is not modelled; the
                                             theorems hold for every decompressor)
     head_at c b hd rest                    the strict reader finds the header block hd at the start of b
     final_at gnew c g0 b rest code reason d1 h
                                            b starts with a parsable non-1xx head; h = its headers as
                                            the client sees them, rest = the bytes after the head *)
From Coq Require Import String.
From Coq Require Import List NArith Bool.
Import ListNotations.
From TV Require Import Lib.Obs C08.Base C08.BaseProofs C08.Model C08.Run
                       C08.Proofs C08.Proofs2 C08.ProofsChunk C08.ProofsFuel C08.Proofs3 C08.ProofsP4 C08.Desc Gen.C08_src Gen.C08_equiv.

(* ===== (REF) every segmentation gives the strict reader's answer ===== *)

(* Without decompression, for every configuration (limits, HEAD, streaming or not), every
   segmentation of every byte stream: same response (status, reason, headers, body), or the same
   error; the same bytes to streaming_callback; the fetch completes before EOF exactly when
   the strict reader does not need the EOF; and (expect_100_continue) the held-back request body
   is written exactly when the strict reader sees the 100 (Continue). *)
Theorem C08_segmentation_independent :
  forall c t segs, decompress c = false -> client_seg c t segs = strict_client c t (concat segs).
Proof. exact client_seg_eq_strict_plain. Qed.
Print Assumptions C08_segmentation_independent.

(* With decompression, for every decompressor whose result does not depend on how its input is
   cut into pieces: same response or same error (only the bytes that a FAILED fetch had already
   streamed may differ: rproj false forgets them). *)
Theorem C08_segmentation_independent_decompressing :
  forall (G : Type) (inflate : G -> bytes -> nat -> option (G * bytes * bytes))
         (gflush : G -> G * bool * bool) (gnew : G -> G) (c : cfg) (g0 : G) (segs : list bytes),
    (forall (d : dstate) cs cs', concat cs = concat cs' ->
       dproj false (deliver inflate c d cs) = dproj false (deliver inflate c d cs')) ->
    rproj false (fetch seg_ops inflate gflush gnew c g0 ([], segs)) =
    rproj false (fetch whole_ops inflate gflush gnew c g0 (concat segs)).
Proof. exact @ref_gzip. Qed.
Print Assumptions C08_segmentation_independent_decompressing.

(* ===== (INV) size limit; an interim response is never the result ===== *)

(* For every decompressor, configuration and segmentation: what streaming_callback received
   (also in failed fetches) and the body of a returned response (after decompression) are at
   most max_body_size bytes, a returned response never has a 1xx status, and a held-back request
   body is written only when the request asked for 100-continue. *)
Theorem C08_delivered_body_within_limit :
  forall c t segs o e st sn,
    client_seg c t segs = Res o e st sn ->
    (sn = true -> expect100 c = true) /\
    (N.of_nat (length st) <= max_body c)%N /\
    match o with
    | OResp code _ _ body => (N.of_nat (length body) <= max_body c)%N /\ is_1xx code = false
    | OErr _ => True
    end.
Proof. intros c t segs o e st sn H. pose proof (client_seg_ok c t segs) as K. rewrite H in K. exact K. Qed.
Print Assumptions C08_delivered_body_within_limit.

Theorem C08_delivered_body_within_limit_any_decompressor :
  forall (G : Type) (inflate : G -> bytes -> nat -> option (G * bytes * bytes))
         (gflush : G -> G * bool * bool) (gnew : G -> G) (c : cfg) (g0 : G) (segs : list bytes) o e st sn,
    fetch seg_ops inflate gflush gnew c g0 ([], segs) = Res o e st sn ->
    (sn = true -> expect100 c = true) /\
    (N.of_nat (length st) <= max_body c)%N /\
    match o with
    | OResp code _ _ body => (N.of_nat (length body) <= max_body c)%N /\ is_1xx code = false
    | OErr _ => True
    end.
Proof.
  intros G inflate gflush gnew c g0 segs o e st sn H.
  pose proof (fetch_ok seg_ops inflate gflush gnew c (fun cs n s => s_bodylen cs n s) g0 ([], segs)) as K.
  rewrite H in K. exact K.
Qed.
Print Assumptions C08_delivered_body_within_limit_any_decompressor.

(* ===== rejection: the strict reader fails, it does not return a short or guessed response ===== *)

Theorem C08_rejects_truncated_header_block :
  forall G inflate gflush gnew c (g0 : G) b,
    w_delim find_term (max_header c) b = REof ->
    fetch whole_ops inflate gflush gnew c g0 b = Res (OErr EStreamClosed) true [] false.
Proof. exact @reject_truncated_head. Qed.
Print Assumptions C08_rejects_truncated_header_block.

Theorem C08_rejects_oversize_header_block :
  forall G inflate gflush gnew c (g0 : G) b,
    w_delim find_term (max_header c) b = RUnsat ->
    fetch whole_ops inflate gflush gnew c g0 b = Res (OErr EUnsat) false [] false.
Proof. exact @reject_oversize_head. Qed.
Print Assumptions C08_rejects_oversize_header_block.

(* bad status line (version, code, separators, reason characters) or bad header line *)
Theorem C08_rejects_malformed_head :
  forall G inflate gflush gnew c (g0 : G) b hd rest,
    head_at c b hd rest -> parse_resp_head hd = None ->
    fetch whole_ops inflate gflush gnew c g0 b = Res (OErr EMalformed) false [] false.
Proof. exact @reject_unparsable_head. Qed.
Print Assumptions C08_rejects_malformed_head.

(* a 1xx response carrying Content-Length or Transfer-Encoding *)
Theorem C08_rejects_interim_with_body_headers :
  forall G inflate gflush gnew c (g0 : G) b hd rest code reason h0,
    head_at c b hd rest -> parse_resp_head hd = Some (code, reason, h0) -> is_1xx code = true ->
    hmem h0 K_CL || hmem h0 K_TE = true ->
    fetch whole_ops inflate gflush gnew c g0 b
      = Res (OErr EConnClosed) false [] (expect100 c && (code =? 100)%N).
Proof. exact @reject_interim_with_framing. Qed.
Print Assumptions C08_rejects_interim_with_body_headers.

(* any framing the client refuses ... *)
Theorem C08_rejects_bad_framing :
  forall G inflate gflush gnew c (g0 : G) b rest code reason d1 h,
    final_at gnew c g0 b rest code reason d1 h -> is_head c || (code =? 304)%N = false ->
    body_plan (max_body c) code h = None ->
    fetch whole_ops inflate gflush gnew c g0 b = Res (OErr EConnClosed) false [] false.
Proof. exact @reject_bad_framing. Qed.
Print Assumptions C08_rejects_bad_framing.

(* ... which includes: Content-Length with Transfer-Encoding; a Transfer-Encoding other than
   "chunked"; a non-numeric or too large Content-Length; 204 with a body *)
Theorem C08_framing_refusals :
  forall maxb code h,
    (hmem h K_CL = true -> hmem h K_TE = true -> body_plan maxb code h = None) /\
    (forall te, hcomb h K_TE = Some te -> beqb (lower_s te) (s2b "chunked") = false ->
                body_plan maxb code h = None) /\
    (forall v, hcomb h K_CL = Some v -> mem COMMA v = false -> parse_int v = None ->
               body_plan maxb code h = None) /\
    (forall v n, hcomb h K_CL = Some v -> mem COMMA v = false -> parse_int v = Some n -> (maxb < n)%N ->
                 body_plan maxb code h = None) /\
    (hmem h K_TE = true -> body_plan maxb 204 h = None) /\
    (forall v n, hcomb h K_CL = Some v -> mem COMMA v = false -> parse_int v = Some n -> n <> 0%N ->
                 body_plan maxb 204 h = None) /\
    (forall pl h', body_plan maxb 204 h = Some (pl, h') -> pl = PFixed 0).
Proof.
  intros maxb code h. repeat split.
  - apply plan_cl_and_te.
  - apply plan_te_not_chunked.
  - apply plan_cl_not_integer.
  - apply plan_cl_too_large.
  - apply plan_204_chunked.
  - apply plan_204_length.
  - apply plan_204.
Qed.
Print Assumptions C08_framing_refusals.

(* a Content-Length body cut short by EOF: an error, never the short body *)
Theorem C08_rejects_truncated_fixed_body :
  forall G inflate gflush gnew c (g0 : G) b rest code reason d1 h n h',
    final_at gnew c g0 b rest code reason d1 h -> is_head c || (code =? 304)%N = false ->
    body_plan (max_body c) code h = Some (PFixed n, h') -> (N.of_nat (length rest) < n)%N ->
    ~ is_response (fetch whole_ops inflate gflush gnew c g0 b).
Proof. exact @reject_truncated_fixed_body. Qed.
Print Assumptions C08_rejects_truncated_fixed_body.

Theorem C08_truncated_fixed_body_is_connection_closed :
  forall G inflate gflush gnew c (g0 : G) b rest code reason d1 h n h',
    final_at gnew c g0 b rest code reason d1 h -> is_head c || (code =? 304)%N = false ->
    decompress c = false ->
    body_plan (max_body c) code h = Some (PFixed n, h') -> (N.of_nat (length rest) < n)%N ->
    fetch whole_ops inflate gflush gnew c g0 b
      = Res (OErr EConnClosed) true (if streaming c then rest else []) false.
Proof. exact @reject_truncated_fixed_body_plain. Qed.
Print Assumptions C08_truncated_fixed_body_is_connection_closed.

(* a chunked body whose decoding does not reach the last-chunk + CRLF (EOF inside, bad size line,
   bad chunk terminator, total too large, size line too long): never a response *)
Theorem C08_rejects_broken_chunked_body :
  forall G inflate gflush gnew c (g0 : G) b rest code reason d1 h h',
    final_at gnew c g0 b rest code reason d1 h -> is_head c || (code =? 304)%N = false ->
    body_plan (max_body c) code h = Some (PChunked, h') ->
    (forall s, snd (read_chunked whole_ops c (S (length rest)) 0 rest) <> BDone s) ->
    ~ is_response (fetch whole_ops inflate gflush gnew c g0 b).
Proof. exact @reject_broken_chunked_body. Qed.
Print Assumptions C08_rejects_broken_chunked_body.

(* a close-delimited body longer than max_body_size *)
Theorem C08_rejects_oversize_close_delimited_body :
  forall G inflate gflush gnew c (g0 : G) b rest code reason d1 h h',
    final_at gnew c g0 b rest code reason d1 h -> is_head c || (code =? 304)%N = false ->
    body_plan (max_body c) code h = Some (PClose, h') -> (max_body c < N.of_nat (length rest))%N ->
    fetch whole_ops inflate gflush gnew c g0 b = Res (OErr EConnClosed) true [] false.
Proof. exact @reject_oversize_close_body. Qed.
Print Assumptions C08_rejects_oversize_close_delimited_body.

(* gzip: compressed data was received but the decompressor is not at end of stream when the body
   ends (truncated gzip), or flush() still returns data: an error instead of delegate.finish() *)
Theorem C08_rejects_truncated_gzip :
  forall G (gflush : G -> G * bool * bool) c (d : dstate) code reason h e g',
    d_gzon d = true -> d_gzrecv d = true -> gflush (d_gz d) = (g', false, false) ->
    do_finish gflush c d code reason h e = Res (OErr EMalformed) e (d_streamed d) (d_sent d).
Proof. exact @reject_truncated_gzip. Qed.
Print Assumptions C08_rejects_truncated_gzip.

Theorem C08_rejects_gzip_flush_tail :
  forall G (gflush : G -> G * bool * bool) c (d : dstate) code reason h e g' ateof,
    d_gzon d = true -> gflush (d_gz d) = (g', true, ateof) ->
    do_finish gflush c d code reason h e = Res (OErr EQuiet) e (d_streamed d) (d_sent d).
Proof. exact @reject_gzip_flush_tail. Qed.
Print Assumptions C08_rejects_gzip_flush_tail.

(* ===== (RT) well-framed bodies are returned exactly (decompress_response off) =====
   delivered_as c body code reason h eof = the response (code, reason, h, body) with the body in
   HTTPResponse.body, or, with a streaming_callback, given to the callback. *)

Theorem C08_roundtrip_content_length :
  forall G inflate gflush gnew c (g0 : G) b body trail code reason d1 h h',
    final_at gnew c g0 b (body ++ trail) code reason d1 h -> is_head c || (code =? 304)%N = false ->
    decompress c = false ->
    body_plan (max_body c) code h = Some (PFixed (N.of_nat (length body)), h') ->
    fetch whole_ops inflate gflush gnew c g0 b = delivered_as c body code reason h' false.
Proof. exact @roundtrip_fixed. Qed.
Print Assumptions C08_roundtrip_content_length.

(* any split into non-empty chunks, any spelling of the sizes (case, leading zeros), any spelling
   z of the last-chunk size *)
Theorem C08_roundtrip_chunked :
  forall G inflate gflush gnew c (g0 : G) b z trail cs code reason d1 h h',
    final_at gnew c g0 b (chunks_wire cs ++ z ++ CRLF ++ CRLF ++ trail) code reason d1 h ->
    is_head c || (code =? 304)%N = false -> decompress c = false ->
    body_plan (max_body c) code h = Some (PChunked, h') ->
    parse_hex_int z = Some 0%N -> length z <= 62 -> Forall chunk_ok cs ->
    (chunks_len cs <= max_body c)%N ->
    fetch whole_ops inflate gflush gnew c g0 b = delivered_as c (chunks_data cs) code reason h' false.
Proof. exact @roundtrip_chunked. Qed.
Print Assumptions C08_roundtrip_chunked.

Theorem C08_roundtrip_close_delimited :
  forall G inflate gflush gnew c (g0 : G) b rest code reason d1 h h',
    final_at gnew c g0 b rest code reason d1 h -> is_head c || (code =? 304)%N = false ->
    decompress c = false ->
    body_plan (max_body c) code h = Some (PClose, h') -> (N.of_nat (length rest) <= max_body c)%N ->
    fetch whole_ops inflate gflush gnew c g0 b = delivered_as c rest code reason h' true.
Proof. exact @roundtrip_close. Qed.
Print Assumptions C08_roundtrip_close_delimited.

(* responses to HEAD and 304 responses: headers only, whatever they announce *)
Theorem C08_head_and_304_have_no_body :
  forall G inflate gflush gnew c (g0 : G) b rest code reason d1 h,
    final_at gnew c g0 b rest code reason d1 h -> is_head c || (code =? 304)%N = true ->
    decompress c = false ->
    fetch whole_ops inflate gflush gnew c g0 b = delivered_as c [] code reason h false.
Proof. exact @roundtrip_no_body. Qed.
Print Assumptions C08_head_and_304_have_no_body.

(* a well-formed interim response (other than the awaited 100) changes nothing: the fetch is the
   fetch of what follows it *)
Theorem C08_interim_response_is_skipped :
  forall G inflate gflush gnew c (g0 : G) b hd rest code reason h0,
    head_at c b hd rest -> parse_resp_head hd = Some (code, reason, h0) -> is_1xx code = true ->
    hmem h0 K_CL || hmem h0 K_TE = false -> decompress c = false ->
    expect100 c && (code =? 100)%N = false ->
    fetch whole_ops inflate gflush gnew c g0 b = fetch whole_ops inflate gflush gnew c g0 rest.
Proof. exact @interim_is_skipped. Qed.
Print Assumptions C08_interim_response_is_skipped.

(* ===== expect_100_continue (POST with the body held back; run() -> _read_response directly) ===== *)

(* the awaited 100 (Continue) makes the client write the body; the fetch then is the fetch of
   what follows, with the body marked as written (fetch_sent) *)
Theorem C08_continue_releases_request_body :
  forall G inflate gflush gnew c (g0 : G) b hd rest reason h0,
    head_at c b hd rest -> parse_resp_head hd = Some (100%N, reason, h0) ->
    hmem h0 K_CL || hmem h0 K_TE = false -> decompress c = false -> expect100 c = true ->
    fetch whole_ops inflate gflush gnew c g0 b = fetch_sent whole_ops inflate gflush gnew c g0 rest.
Proof. exact @continue_sends_body. Qed.
Print Assumptions C08_continue_releases_request_body.

(* the body is never written twice: a second 100 (Continue) fails the fetch *)
Theorem C08_second_continue_is_refused :
  forall G inflate gflush gnew c (g0 : G) b hd rest reason h0,
    head_at c b hd rest -> parse_resp_head hd = Some (100%N, reason, h0) -> expect100 c = true ->
    fetch_sent whole_ops inflate gflush gnew c g0 b = Res (OErr EConnClosed) false [] true.
Proof. exact @repeated_continue_rejected. Qed.
Print Assumptions C08_second_continue_is_refused.

(* ===== truncation (phase 4): a response cut ANYWHERE and followed by EOF is an error =====
   wf_stream c b body (C08/ProofsP4.v): b is zero or more well-formed interim responses followed by
   one message whose head parses and that is body-less (HEAD / 304; b ends with the head) or framed
   by Content-Length (exactly that many bytes follow) or by chunked coding (any well-formed chunks,
   any size spellings, last-chunk and CRLF); body is the body it carries.  For every such stream
   and EVERY cut point (inside an interim head, the head, a chunk-size line, chunk data, a chunk
   terminator, the last-chunk line ...), decompress_response off: the strict reader of the proper
   prefix reports an error, never a response, and the bytes it had given to streaming_callback are
   a prefix of the body.  (Close-delimited bodies cannot be told from truncated ones; for them only
   cuts inside the head are errors: C08_cut_inside_head.) *)
Theorem C08_truncated_response_is_an_error :
  forall G inflate gflush gnew c (g0 : G) b body,
    decompress c = false -> wf_stream c b body ->
    forall p x, x <> [] -> p ++ x = b ->
    exists k e st sn,
      fetch whole_ops inflate gflush gnew c g0 p = Res (OErr k) e st sn /\ exists y, st ++ y = body.
Proof.
  intros G inflate gflush gnew c g0 b body D W p x NX E.
  exact (truncated_stream_is_an_error inflate gflush gnew c g0 D b body W p x NX E).
Qed.
Print Assumptions C08_truncated_response_is_an_error.

(* ... and, by segmentation independence, so does the client however the prefix arrives *)
Theorem C08_truncated_response_is_an_error_any_segmentation :
  forall c t b body, decompress c = false -> wf_stream c b body ->
    forall segs x, x <> [] -> concat segs ++ x = b ->
    exists k e st sn, client_seg c t segs = Res (OErr k) e st sn /\ exists y, st ++ y = body.
Proof.
  intros c t b body D W segs x NX E. rewrite (client_seg_eq_strict_plain c t segs D).
  exact (truncated_stream_is_an_error inflate_tbl flush_tbl (fun t => t) c t D b body W _ x NX E).
Qed.
Print Assumptions C08_truncated_response_is_an_error_any_segmentation.

Theorem C08_cut_inside_head :
  forall G inflate gflush gnew c (g0 : G) b hd rest p x,
    head_at c b hd rest -> p ++ x = b -> length p < length hd ->
    fetch whole_ops inflate gflush gnew c g0 p = Res (OErr EStreamClosed) true [] false.
Proof. exact @cut_in_head. Qed.
Print Assumptions C08_cut_inside_head.

(* the status-line grammar `HTTP/1.<d> SP <ddd> SP <reason>` is read back exactly, and nothing else
   is accepted *)
Theorem C08_status_line_roundtrip :
  forall minor c1 c2 c3 reason,
    is_digit minor = true -> is_digit c1 = true -> is_digit c2 = true -> is_digit c3 = true ->
    forallb is_reason_char reason = true ->
    parse_status_line (render_status minor c1 c2 c3 reason)
    = Some (dec_val 0 [c1; c2; c3], match reason with [] => None | _ => Some reason end).
Proof. exact status_line_roundtrip. Qed.
Print Assumptions C08_status_line_roundtrip.

Theorem C08_status_line_only_that_grammar :
  forall l code reason, parse_status_line l = Some (code, reason) ->
    exists minor c1 c2 c3 r,
      l = render_status minor c1 c2 c3 r /\ is_digit c1 = true /\ is_digit c2 = true /\
      is_digit c3 = true /\ code = dec_val 0 [c1; c2; c3] /\ forallb is_reason_char r = true.
Proof. exact status_line_needs_three_digits. Qed.
Print Assumptions C08_status_line_only_that_grammar.

(* ===== the framing rules read from the source text are the model's =====
   src_desc is regenerated from tornado/http1connection.py on every run by translators/c08_src.py
   (is_transfer_encoding_chunked, _read_body, _read_body_until_close matched statement by statement,
   with the header names, token, comparison operators, no-body status and its allowed lengths as
   holes); plan_of_desc / close_refused (C08/Desc.v) give such a description its meaning. *)
Theorem C08_source_framing_rules_are_the_model :
  forall maxb code h, plan_of_desc src_desc maxb code h = body_plan maxb code h.
Proof. exact src_plan_is_body_plan. Qed.
Print Assumptions C08_source_framing_rules_are_the_model.

Theorem C08_source_close_delimited_limit_is_the_model :
  forall maxb len, close_refused src_desc maxb len = (maxb <? len)%N.
Proof. exact src_close_check. Qed.
Print Assumptions C08_source_close_delimited_limit_is_the_model.

(* ===== the model always answers (fuel suffices), on every stream and decompressor ===== *)
Theorem C08_model_never_out_of_fuel :
  forall G inflate gflush gnew c (g0 : G),
    (forall b, fetch whole_ops inflate gflush gnew c g0 b <> OutOfFuel) /\
    (forall s, fetch seg_ops inflate gflush gnew c g0 s <> OutOfFuel).
Proof.
  intros G inflate gflush gnew c g0. split; intros x;
    [apply strict_never_out_of_fuel|apply seg_never_out_of_fuel].
Qed.
Print Assumptions C08_model_never_out_of_fuel.

(* ===== the model satisfies the checker applied to the implementation's observables ===== *)
Theorem C08_model_satisfies_checker : forall i, check_case i (run_case i) = true.
Proof. exact model_satisfies_checker. Qed.
Print Assumptions C08_model_satisfies_checker.
