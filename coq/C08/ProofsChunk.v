(* C08 — chunked bodies on the strict reader: one lemma per way a chunk can be wrong, and the
   round trip of any well-formed chunked encoding (any split into chunks, any spelling of the
   sizes).  Same statements as C01/Proofs4.v (Section Chunk) and C01/Proofs6.v, restated for the
   client's read_chunked (limit = max_body c). *)
From Coq Require Import String.
From Coq Require Import List NArith Arith Bool Lia.
Import ListNotations.
From TV Require Import C08.Base C08.BaseProofs C08.Model.

Lemma beqb_eq a b : beqb a b = true <-> a = b.
Proof.
  revert b; induction a as [|x a IH]; intros [|y b]; simpl; split; intros H;
    try discriminate; auto.
  - apply andb_true_iff in H as [H1 H2]. apply N.eqb_eq in H1. apply IH in H2. congruence.
  - inversion H; subst. rewrite N.eqb_refl. simpl. apply IH. reflexivity.
Qed.
Lemma beqb_refl a : beqb a a = true.
Proof. apply beqb_eq. reflexivity. Qed.
Lemma beqb_neq a b : a <> b -> beqb a b = false.
Proof. intros H. destruct (beqb a b) eqn:E; auto. apply beqb_eq in E. contradiction. Qed.


Section Chunk.
  Variable c : cfg.

  Lemma chunk_bad_size fuel total b line rest :
    w_delim find_crlf 64 b = RData line rest ->
    parse_hex_int (firstn (length line - 2) line) = None ->
    read_chunked whole_ops c (S fuel) total b = ([], BBadS).
  Proof. intros A B. cbn [read_chunked rd_until whole_ops]. rewrite A, B. reflexivity. Qed.

  (* no CRLF within 64 bytes: the stream is closed without a response *)
  Lemma chunk_size_line_too_long fuel total b :
    w_delim find_crlf 64 b = RUnsat ->
    read_chunked whole_ops c (S fuel) total b = ([], BUnsatS).
  Proof. intros A. cbn [read_chunked rd_until whole_ops]. rewrite A. reflexivity. Qed.

  Lemma chunk_too_large fuel total b line rest len :
    w_delim find_crlf 64 b = RData line rest ->
    parse_hex_int (firstn (length line - 2) line) = Some len -> len <> 0%N ->
    ((max_body c) < total + len)%N ->
    read_chunked whole_ops c (S fuel) total b = ([], BBadS).
  Proof.
    intros A B C D. cbn [read_chunked rd_until whole_ops]. rewrite A, B.
    apply N.eqb_neq in C. rewrite C. apply N.ltb_lt in D. rewrite D. reflexivity.
  Qed.

  (* chunk data not followed by CRLF *)
  Lemma chunk_bad_terminator fuel total b line rest len t rest2 :
    w_delim find_crlf 64 b = RData line rest ->
    parse_hex_int (firstn (length line - 2) line) = Some len -> len <> 0%N ->
    (total + len <= (max_body c))%N -> (len <= N.of_nat (length rest))%N ->
    w_exact 2 (skipn (N.to_nat len) rest) = RData t rest2 -> t <> CRLF ->
    read_chunked whole_ops c (S fuel) total b =
      (split_by (N.to_nat len) (chunk_pred c) (firstn (N.to_nat len) rest), BBadS).
  Proof.
    intros A B C D E F G. cbn [read_chunked rd_until rd_body rd_exact whole_ops]. rewrite A, B.
    apply N.eqb_neq in C. rewrite C.
    replace ((max_body c) <? total + len)%N with false by (symmetry; apply N.ltb_ge; exact D).
    unfold w_body. apply N.leb_le in E. rewrite E. rewrite F.
    rewrite (beqb_neq _ _ G). reflexivity.
  Qed.

  (* last chunk not followed by CRLF (e.g. a trailer section) *)
  Lemma chunk_bad_last fuel total b line rest t rest2 :
    w_delim find_crlf 64 b = RData line rest ->
    parse_hex_int (firstn (length line - 2) line) = Some 0%N ->
    w_exact 2 rest = RData t rest2 -> t <> CRLF ->
    read_chunked whole_ops c (S fuel) total b = ([], BBadS).
  Proof.
    intros A B F G. cbn [read_chunked rd_until rd_exact whole_ops]. rewrite A, B.
    simpl. rewrite F, (beqb_neq _ _ G). reflexivity.
  Qed.

  (* EOF inside the data of a chunk *)
  Lemma chunk_eof_in_data fuel total b line rest len :
    w_delim find_crlf 64 b = RData line rest ->
    parse_hex_int (firstn (length line - 2) line) = Some len -> len <> 0%N ->
    (total + len <= (max_body c))%N -> (N.of_nat (length rest) < len)%N ->
    read_chunked whole_ops c (S fuel) total b = (split_by (length rest) (chunk_pred c) rest, BEofS).
  Proof.
    intros A B C D E. cbn [read_chunked rd_until rd_body rd_exact whole_ops]. rewrite A, B.
    apply N.eqb_neq in C. rewrite C.
    replace ((max_body c) <? total + len)%N with false by (symmetry; apply N.ltb_ge; exact D).
    unfold w_body. apply N.leb_gt in E. rewrite E. reflexivity.
  Qed.
  (* EOF before a complete chunk-size line *)
  Lemma chunk_eof_in_size_line fuel total b :
    w_delim find_crlf 64 b = REof ->
    read_chunked whole_ops c (S fuel) total b = ([], BEofS).
  Proof. intros A. cbn [read_chunked rd_until whole_ops]. rewrite A. reflexivity. Qed.

  (* one well-formed chunk, then whatever the decoder does on the rest *)
  Lemma chunk_good fuel total b line rest len rest2 :
    w_delim find_crlf 64 b = RData line rest ->
    parse_hex_int (firstn (length line - 2) line) = Some len -> len <> 0%N ->
    (total + len <= (max_body c))%N -> (len <= N.of_nat (length rest))%N ->
    w_exact 2 (skipn (N.to_nat len) rest) = RData CRLF rest2 ->
    read_chunked whole_ops c (S fuel) total b =
      (split_by (N.to_nat len) (chunk_pred c) (firstn (N.to_nat len) rest)
         ++ fst (read_chunked whole_ops c fuel (total + len) rest2),
       snd (read_chunked whole_ops c fuel (total + len) rest2)).
  Proof.
    intros A B C D E F. cbn [read_chunked rd_until rd_body rd_exact whole_ops]. rewrite A, B.
    apply N.eqb_neq in C. rewrite C.
    replace ((max_body c) <? total + len)%N with false by (symmetry; apply N.ltb_ge; exact D).
    unfold w_body. apply N.leb_le in E. rewrite E. rewrite F.
    rewrite beqb_refl.
    destruct (read_chunked whole_ops c fuel (total + len) rest2). reflexivity.
  Qed.
End Chunk.

(* ---------- a chunk-size line is found by read_until(CRLF, 64) ---------- *)
Lemma hexdig_cls x : is_hexdig x = true -> cls x = cO.
Proof.
  unfold is_hexdig, is_digit, in_range, cls, CR, LF. intros H.
  destruct (N.eqb_spec x 13) as [->|_]; [vm_compute in H; discriminate|].
  destruct (N.eqb_spec x 10) as [->|_]; [vm_compute in H; discriminate|]. reflexivity.
Qed.

Lemma find_crlf_c_line (os : list cl) r :
  Forall (fun k => k = cO) os -> find_crlf_c (os ++ cC :: cL :: r) = Some (length os + 2)%nat.
Proof.
  induction 1 as [|k os -> _ IH]; [reflexivity|].
  cbn [app find_crlf_c crlf_at length Nat.add]. rewrite IH. reflexivity.
Qed.

Lemma find_crlf_line sz rest :
  forallb is_hexdig sz = true -> find_crlf (sz ++ CRLF ++ rest) = Some (length sz + 2)%nat.
Proof.
  intros H. unfold find_crlf. rewrite map_app. cbn [CRLF app map].
  change (cls CR) with cC. change (cls LF) with cL.
  rewrite find_crlf_c_line; [rewrite map_length; reflexivity|].
  apply Forall_map. rewrite forallb_forall in H. apply Forall_forall. intros x I.
  apply hexdig_cls. apply H. exact I.
Qed.

Lemma w_until_size_line sz rest :
  forallb is_hexdig sz = true -> (length sz <= 62)%nat ->
  w_delim find_crlf 64 (sz ++ CRLF ++ rest) = RData (sz ++ CRLF) rest.
Proof.
  intros H L. unfold w_delim, delim_pos. rewrite (find_crlf_line sz rest H).
  replace (length sz + 2 <=? 64)%nat with true by (symmetry; apply Nat.leb_le; lia).
  rewrite app_assoc.
  replace (length sz + 2)%nat with (length (sz ++ CRLF)) by (rewrite app_length; reflexivity).
  rewrite firstn_app_le, skipn_app_le by lia.
  rewrite firstn_all, skipn_all. reflexivity.
Qed.

Lemma size_of_line sz : firstn (length (sz ++ CRLF) - 2) (sz ++ CRLF) = sz.
Proof.
  rewrite app_length. cbn [CRLF length]. replace (length sz + 2 - 2)%nat with (length sz) by lia.
  rewrite firstn_app_le by lia. apply firstn_all.
Qed.

(* ---------- chunked bodies ---------- *)
(* a chunk on the wire: any spelling [sz] of the size that the hex parser reads as the
   length of the data (upper/lower case, leading zeros), at most 62 characters *)
Definition chunk_ok (sd : bytes * bytes) : Prop :=
  let '(sz, d) := sd in
  parse_hex_int sz = Some (N.of_nat (length d)) /\ (length sz <= 62)%nat /\ d <> [].
Definition chunk_wire (sd : bytes * bytes) : bytes := fst sd ++ CRLF ++ snd sd ++ CRLF.
Definition chunks_wire (cs : list (bytes * bytes)) : bytes := concat (map chunk_wire cs).
Definition chunks_data (cs : list (bytes * bytes)) : bytes := concat (map snd cs).
Definition chunks_len (cs : list (bytes * bytes)) : N := N.of_nat (length (chunks_data cs)).

Lemma parse_hex_int_hexdig sz n : parse_hex_int sz = Some n -> forallb is_hexdig sz = true.
Proof. unfold parse_hex_int. destruct sz; [discriminate|]. destruct (forallb _ _); [auto|discriminate]. Qed.

Lemma w_exact_crlf rest : w_exact 2 (CRLF ++ rest) = RData CRLF rest.
Proof. reflexivity. Qed.

Theorem chunked_roundtrip (c : cfg) (z : bytes) (rest : bytes) :
  parse_hex_int z = Some 0%N -> (length z <= 62)%nat ->
  forall cs fuel total,
    Forall chunk_ok cs -> (length cs < fuel)%nat -> (total + chunks_len cs <= (max_body c))%N ->
    exists pieces,
      read_chunked whole_ops c fuel total (chunks_wire cs ++ z ++ CRLF ++ CRLF ++ rest)
        = (pieces, BDone rest) /\ concat pieces = chunks_data cs.
Proof.
  intros Z ZL cs. induction cs as [|[sz d] cs IH]; intros fuel total OK F M.
  - destruct fuel as [|f]; [simpl in F; lia|].
    exists []. split; [|reflexivity].
    cbn [chunks_wire map concat app read_chunked rd_until rd_exact whole_ops].
    rewrite (w_until_size_line z (CRLF ++ rest) (parse_hex_int_hexdig _ _ Z) ZL).
    rewrite size_of_line, Z. cbn [N.eqb]. rewrite w_exact_crlf. reflexivity.
  - destruct fuel as [|f]; [simpl in F; lia|].
    inversion OK as [|? ? CK OK']; subst. cbn [chunk_ok] in CK. destruct CK as [P [L D]].
    assert (LEN : (chunks_len ((sz, d) :: cs) = N.of_nat (length d) + chunks_len cs)%N).
    { unfold chunks_len, chunks_data. cbn [map concat snd]. rewrite app_length. lia. }
    destruct (IH f (total + N.of_nat (length d))%N OK') as (pieces & RC & CP).
    { simpl in F. lia. }
    { rewrite LEN in M. lia. }
    set (tail := chunks_wire cs ++ z ++ CRLF ++ CRLF ++ rest) in *.
    assert (W : chunks_wire ((sz, d) :: cs) ++ z ++ CRLF ++ CRLF ++ rest
                = sz ++ CRLF ++ (d ++ CRLF ++ tail)).
    { unfold chunks_wire, chunk_wire, tail. cbn [map concat fst snd].
      rewrite <- !app_assoc. reflexivity. }
    rewrite W.
    assert (ND : N.of_nat (length d) <> 0%N) by (destruct d; [congruence|simpl; lia]).
    rewrite (chunk_good c f total _ (sz ++ CRLF) (d ++ CRLF ++ tail)
               (N.of_nat (length d)) tail).
    + rewrite RC. cbn [fst snd]. eexists. split; [reflexivity|].
      rewrite concat_app, CP. rewrite Nat2N.id, firstn_app_le, firstn_all by lia.
      rewrite concat_split_by by lia. unfold chunks_data. reflexivity.
    + apply w_until_size_line; [exact (parse_hex_int_hexdig _ _ P)|exact L].
    + rewrite size_of_line. exact P.
    + exact ND.
    + rewrite LEN in M. lia.
    + rewrite app_length. lia.
    + rewrite Nat2N.id, skipn_app_le, skipn_all by lia. apply w_exact_crlf.
Qed.

