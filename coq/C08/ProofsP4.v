(* C08 (phase 4) — truncation: every proper prefix of a well-formed response followed by EOF is
   reported as an error, never as a complete response, and what the delegate was given is a
   prefix of the body. *)
From Coq Require Import String.
From Coq Require Import List NArith Arith Bool Lia.
Import ListNotations.
From TV Require Import C08.Base C08.BaseProofs C08.Model C08.Proofs C08.Proofs2 C08.ProofsChunk
                       C08.ProofsFuel C08.Proofs3.

(* ---------- lists ---------- *)
Lemma split_prefix {A} (a b p x : list A) :
  p ++ x = a ++ b -> (length a <= length p)%nat -> exists q, p = a ++ q /\ q ++ x = b.
Proof.
  intros H L. exists (skipn (length a) p). split.
  - rewrite <- (firstn_skipn (length a) p) at 1. f_equal.
    rewrite <- (firstn_app_le (length a) p x L), H, firstn_app_le, firstn_all by lia. reflexivity.
  - rewrite <- (skipn_app_le (length a) p x L), H, skipn_app_le, skipn_all by lia. reflexivity.
Qed.
Lemma prefix_of_shorter {A} (q x d r : list A) :
  q ++ x = d ++ r -> (length q <= length d)%nat -> exists y, q ++ y = d.
Proof.
  intros H L. destruct (app_eq_app _ _ _ _ H) as [l [[E1 E2]|[E1 E2]]].
  - subst q. rewrite app_length in L. destruct l; [exists []; rewrite !app_nil_r; reflexivity|simpl in L; lia].
  - exists l. symmetry. exact E1.
Qed.

(* ---------- a delimiter that lies beyond the cut is not found: the read ends at EOF ---------- *)
Lemma find_none_before find (Hs : stable find) p x e :
  find (p ++ x) = Some e -> (length p < e)%nat -> find p = None.
Proof.
  intros F L. destruct (find p) as [e'|] eqn:E; [|reflexivity].
  pose proof (st_app _ Hs _ x _ E) as A. rewrite F in A. inversion A; subst.
  pose proof (st_range _ Hs _ _ E). lia.
Qed.
Lemma w_delim_cut_before find (Hs : stable find) max p x e :
  find (p ++ x) = Some e -> (length p < e)%nat -> (e <= max)%nat -> w_delim find max p = REof.
Proof.
  intros F L M. unfold w_delim, delim_pos. rewrite (find_none_before find Hs p x e F L).
  replace (max <? length p)%nat with false by (symmetry; apply Nat.ltb_ge; lia). reflexivity.
Qed.
Lemma w_delim_cut_after find (Hs : stable find) max p x e :
  find (p ++ x) = Some e -> (e <= length p)%nat -> (e <= max)%nat ->
  w_delim find max p = RData (firstn e (p ++ x)) (skipn e p).
Proof.
  intros F L M. unfold w_delim, delim_pos. rewrite (st_inv _ Hs p x e F L).
  replace (e <=? max)%nat with true by (symmetry; apply Nat.leb_le; lia).
  rewrite firstn_app_le by lia. reflexivity.
Qed.

(* ---------- chunked bodies cut anywhere ---------- *)
Section ChunkCut.
  Variable c : cfg.
  Variable z : bytes.
  Hypothesis Z : parse_hex_int z = Some 0%N.
  Hypothesis ZL : (length z <= 62)%nat.

  Lemma size_line_cut sz p x more :
    forallb is_hexdig sz = true -> (length sz <= 62)%nat ->
    p ++ x = sz ++ CRLF ++ more -> (length p < length sz + 2)%nat ->
    w_delim find_crlf 64 p = REof.
  Proof.
    intros H L E Lp. apply (w_delim_cut_before _ find_crlf_stable 64 p x (length sz + 2)); [|lia|lia].
    rewrite E. apply find_crlf_line. exact H.
  Qed.

  Lemma chunk_step f total sz d q :
    chunk_ok (sz, d) -> (total + N.of_nat (length d) <= max_body c)%N ->
    read_chunked whole_ops c (S f) total (sz ++ CRLF ++ q) =
      let len := N.of_nat (length d) in
      let '(cs0, o) := w_body (chunk_pred c) len q in
      match o with
      | None => (cs0, BEofS)
      | Some st2 =>
          match w_exact 2 st2 with
          | RData t st3 =>
              if beqb t CRLF then
                let '(cs2, r) := read_chunked whole_ops c f (total + len) st3 in (cs0 ++ cs2, r)
              else (cs0, BBadS)
          | RUnsat => (cs0, BUnsatS)
          | REof => (cs0, BEofS)
          end
      end.
  Proof.
    intros [P [L D]] M. cbn [read_chunked rd_until rd_body rd_exact whole_ops].
    rewrite (w_until_size_line sz q (parse_hex_int_hexdig _ _ P) L), size_of_line, P.
    assert (ND : (N.of_nat (length d) =? 0)%N = false)
      by (apply N.eqb_neq; destruct d; [congruence|simpl; lia]).
    rewrite ND.
    replace (max_body c <? total + N.of_nat (length d))%N with false by (symmetry; apply N.ltb_ge; exact M).
    reflexivity.
  Qed.

  Lemma chunked_cut : forall cs p x fuel total,
    Forall chunk_ok cs -> (length p < fuel)%nat -> (total + chunks_len cs <= max_body c)%N ->
    x <> [] -> p ++ x = chunks_wire cs ++ z ++ CRLF ++ CRLF ->
    exists pieces y,
      read_chunked whole_ops c fuel total p = (pieces, BEofS) /\ concat pieces ++ y = chunks_data cs.
  Proof.
    induction cs as [|[sz d] cs IH]; intros p x fuel total OK F M NX E.
    - destruct fuel as [|f]; [simpl in F; lia|].
      cbn [chunks_wire map concat app] in E.
      destruct (Nat.lt_ge_cases (length p) (length z + 2)) as [Lp|Lp].
      + exists [], []. split; [|reflexivity].
        apply chunk_eof_in_size_line.
        apply (size_line_cut z p x CRLF (parse_hex_int_hexdig _ _ Z) ZL E Lp).
      + rewrite app_assoc in E.
        destruct (split_prefix (z ++ CRLF) CRLF p x E) as [q [-> Eq]];
          [rewrite app_length; simpl; lia|].
        exists [], []. split; [|reflexivity].
        rewrite <- app_assoc.
        cbn [read_chunked rd_until rd_exact whole_ops].
        rewrite (w_until_size_line z q (parse_hex_int_hexdig _ _ Z) ZL), size_of_line, Z.
        cbn [N.eqb]. unfold w_exact.
        assert (Lq : (length q < 2)%nat).
        { apply (f_equal (@length N)) in Eq. rewrite app_length in Eq. simpl in Eq.
          destruct x; [congruence|simpl in Eq; lia]. }
        replace (2 <=? length q)%nat with false by (symmetry; apply Nat.leb_gt; exact Lq).
        reflexivity.
    - destruct fuel as [|f]; [simpl in F; lia|].
      inversion OK as [|? ? CK OK']; subst. pose proof CK as CK0. destruct CK as [P [L D]].
      assert (LEN : (chunks_len ((sz, d) :: cs) = N.of_nat (length d) + chunks_len cs)%N).
      { unfold chunks_len, chunks_data. cbn [map concat snd]. rewrite app_length. lia. }
      assert (DATA : chunks_data ((sz, d) :: cs) = d ++ chunks_data cs) by reflexivity.
      set (tail := chunks_wire cs ++ z ++ CRLF ++ CRLF) in *.
      assert (W : chunks_wire ((sz, d) :: cs) ++ z ++ CRLF ++ CRLF = sz ++ CRLF ++ (d ++ CRLF ++ tail)).
      { unfold chunks_wire, chunk_wire, tail. cbn [map concat fst snd]. rewrite <- !app_assoc. reflexivity. }
      rewrite W in E. rewrite LEN in M.
      destruct (Nat.lt_ge_cases (length p) (length sz + 2)) as [Lp|Lp].
      + exists [], (chunks_data ((sz, d) :: cs)). split; [|reflexivity].
        apply chunk_eof_in_size_line.
        apply (size_line_cut sz p x _ (parse_hex_int_hexdig _ _ P) L E Lp).
      + rewrite app_assoc in E.
        destruct (split_prefix (sz ++ CRLF) _ p x E) as [q [-> Eq]];
          [rewrite app_length; simpl; lia|].
        rewrite <- app_assoc. rewrite (chunk_step f total sz d q CK0) by lia.
        cbv zeta. unfold w_body.
        destruct (Nat.lt_ge_cases (length q) (length d)) as [Lq|Lq].
        * (* EOF inside the chunk data *)
          replace (N.of_nat (length d) <=? N.of_nat (length q))%N with false
            by (symmetry; apply N.leb_gt; lia).
          destruct (prefix_of_shorter q x d _ Eq) as [y Ey]; [lia|].
          exists (split_by (length q) (chunk_pred c) q), (y ++ chunks_data cs). split; [reflexivity|].
          rewrite concat_split_by by lia. rewrite DATA, app_assoc, Ey. reflexivity.
        * replace (N.of_nat (length d) <=? N.of_nat (length q))%N with true
            by (symmetry; apply N.leb_le; lia).
          destruct (split_prefix d _ q x Eq Lq) as [q2 [-> Eq2]].
          rewrite Nat2N.id, firstn_app_le, firstn_all, skipn_app_le, skipn_all by lia.
          cbn [app].
          assert (CD : concat (split_by (length d) (chunk_pred c) d) = d)
            by (apply concat_split_by; lia).
          destruct (Nat.lt_ge_cases (length q2) 2) as [L2|L2].
          -- (* EOF inside the CRLF after the chunk data *)
             unfold w_exact.
             replace (2 <=? length q2)%nat with false by (symmetry; apply Nat.leb_gt; exact L2).
             exists (split_by (length d) (chunk_pred c) d), (chunks_data cs). split; [reflexivity|].
             rewrite CD, DATA. reflexivity.
          -- destruct (split_prefix CRLF tail q2 x Eq2 L2) as [p' [-> Ep']].
             rewrite w_exact_crlf, beqb_refl.
             destruct (IH p' x f (total + N.of_nat (length d))%N OK') as (pieces & y & RC & CP);
               [rewrite !app_length in F; simpl in F; lia|lia|exact NX|exact Ep'|].
             rewrite RC.
             exists (split_by (length d) (chunk_pred c) d ++ pieces), y. split; [reflexivity|].
             rewrite concat_app, CD, DATA, <- app_assoc, CP. reflexivity.
  Qed.
End ChunkCut.

(* ---------- whole responses ---------- *)
Section Truncation.
  Context {G : Type} (inflate : G -> bytes -> nat -> option (G * bytes * bytes))
          (gflush : G -> G * bool * bool) (gnew : G -> G).
  Context (c : cfg) (g0 : G).
  Hypothesis Plain : decompress c = false.

  Notation strict := (fetch whole_ops inflate gflush gnew c g0).

  Lemma head_at_inv b hd rest : head_at c b hd rest ->
    find_term b = Some (length hd) /\ (length hd <= max_header c)%nat /\ b = hd ++ rest.
  Proof.
    unfold head_at, w_delim, delim_pos. destruct (find_term b) as [e|] eqn:F.
    - destruct (e <=? max_header c)%nat eqn:M; [|discriminate]. intros H; inversion H; subst.
      pose proof (st_range _ find_term_stable _ _ F) as R. apply Nat.leb_le in M.
      rewrite firstn_length, Nat.min_l by lia. repeat split; auto.
      symmetry. apply firstn_skipn.
    - destruct (max_header c <? length b)%nat; discriminate.
  Qed.

  (* EOF inside the header block *)
  Theorem cut_in_head b hd rest p x :
    head_at c b hd rest -> p ++ x = b -> (length p < length hd)%nat ->
    strict p = Res (OErr EStreamClosed) true [] false.
  Proof.
    intros H E L. destruct (head_at_inv _ _ _ H) as (F & M & _).
    apply reject_truncated_head.
    apply (w_delim_cut_before _ find_term_stable _ p x (length hd)); [rewrite E; exact F|exact L|exact M].
  Qed.

  (* a cut after the header block leaves the header block in place *)
  Lemma head_at_cut b hd rest p x :
    head_at c b hd rest -> p ++ x = b -> (length hd <= length p)%nat ->
    exists q, p = hd ++ q /\ q ++ x = rest /\ head_at c p hd q.
  Proof.
    intros H E L. destruct (head_at_inv _ _ _ H) as (F & M & B).
    rewrite B in E. destruct (split_prefix hd rest p x E L) as [q [-> Eq]].
    exists q. repeat split; auto.
    unfold head_at. rewrite (w_delim_cut_after _ find_term_stable _ (hd ++ q) x (length hd));
      [|rewrite E, <- B; exact F|rewrite app_length; lia|exact M].
    rewrite <- app_assoc, firstn_app_le, firstn_all, skipn_app_le, skipn_all by lia. reflexivity.
  Qed.

  (* the body bytes on the wire of a complete message with a self-delimiting framing, and the
     body they carry *)
  Inductive wf_body : plan -> bytes -> bytes -> Prop :=
  | wf_fixed body : wf_body (PFixed (N.of_nat (length body))) body body
  | wf_chunked cs z :
      parse_hex_int z = Some 0%N -> (length z <= 62)%nat -> Forall chunk_ok cs ->
      (chunks_len cs <= max_body c)%N ->
      wf_body PChunked (chunks_wire cs ++ z ++ CRLF ++ CRLF) (chunks_data cs).

  (* a well-formed response stream: interim responses, then one message that is either
     body-less (HEAD / 304) or framed by Content-Length or chunked coding *)
  Inductive wf_stream : bytes -> bytes -> Prop :=
  | wf_final b hd rest code reason h0 body :
      head_at c b hd rest -> parse_resp_head hd = Some (code, reason, h0) -> is_1xx code = false ->
      (if is_head c || (code =? 304)%N then rest = [] /\ body = []
       else exists pl h', body_plan (max_body c) code h0 = Some (pl, h') /\ wf_body pl rest body) ->
      wf_stream b body
  | wf_interim b hd rest code reason h0 body :
      head_at c b hd rest -> parse_resp_head hd = Some (code, reason, h0) -> is_1xx code = true ->
      hmem h0 K_CL || hmem h0 K_TE = false -> expect100 c && (code =? 100)%N = false ->
      wf_stream rest body -> wf_stream b body.

  Definition error_with_prefix_of (body : bytes) (r : result) : Prop :=
    exists k e st sn, r = Res (OErr k) e st sn /\ exists y, st ++ y = body.

  Lemma final_at_plain p hd q code reason h0 :
    head_at c p hd q -> parse_resp_head hd = Some (code, reason, h0) -> is_1xx code = false ->
    final_at gnew c g0 p q code reason (d0 g0) h0.
  Proof.
    intros H P X. exists hd, h0. repeat split; auto. unfold headers_received. rewrite Plain. reflexivity.
  Qed.

  Theorem truncated_stream_is_an_error b body :
    wf_stream b body -> forall p x, x <> [] -> p ++ x = b -> error_with_prefix_of body (strict p).
  Proof.
    induction 1 as [b hd rest code reason h0 body H P X FR|b hd rest code reason h0 body H P X F W _ IH];
      intros p x NX E.
    - destruct (Nat.lt_ge_cases (length p) (length hd)) as [L|L].
      { rewrite (cut_in_head _ _ _ _ _ H E L). exists EStreamClosed, true, [], false.
        split; [reflexivity|exists body; reflexivity]. }
      destruct (head_at_cut _ _ _ _ _ H E L) as (q & -> & Eq & Hq).
      pose proof (final_at_plain _ _ _ _ _ _ Hq P X) as FA.
      destruct (is_head c || (code =? 304)%N) eqn:K.
      { destruct FR as [-> _]. destruct q; [destruct x; [congruence|discriminate]|discriminate]. }
      destruct FR as (pl & h' & BP & WB).
      inversion WB as [body0 E1 E2 E3|cs z Z ZL OK M E1 E2 E3]; subst.
      + (* Content-Length *)
        assert (Lq : (N.of_nat (length q) < N.of_nat (length (q ++ x)))%N)
          by (rewrite app_length; destruct x; [congruence|simpl; lia]).
        rewrite (reject_truncated_fixed_body_plain inflate gflush gnew c g0 _ _ _ _ _ _ _ _ FA K Plain BP Lq).
        exists EConnClosed, true, (if streaming c then q else []), false. split; [reflexivity|].
        destruct (streaming c); [exists x; reflexivity|exists (q ++ x); reflexivity].
      + (* chunked *)
        rewrite (strict_final _ _ _ _ _ _ _ _ _ _ _ FA), K. unfold read_body. rewrite BP.
        cbn [remaining whole_ops].
        destruct (chunked_cut c z Z ZL cs q x (Datatypes.S (length q)) 0%N OK) as (pieces & y & RC & CP);
          [lia|lia|exact NX|symmetry; exact E2|].
        rewrite RC. unfold finish_body. rewrite (deliver_plain inflate c pieces (d0 g0) eq_refl).
        exists EConnClosed, true, (d_streamed (inner_data c (d0 g0) (concat pieces))), false.
        split; [unfold inner_data; destruct (streaming c); reflexivity|].
        unfold inner_data. destruct (streaming c); cbn [d_streamed d0 app].
        * exists y. exact CP.
        * exists (chunks_data cs). reflexivity.
    - destruct (Nat.lt_ge_cases (length p) (length hd)) as [L|L].
      { rewrite (cut_in_head _ _ _ _ _ H E L). exists EStreamClosed, true, [], false.
        split; [reflexivity|exists body; reflexivity]. }
      destruct (head_at_cut _ _ _ _ _ H E L) as (q & -> & Eq & Hq).
      rewrite (interim_is_skipped inflate gflush gnew c g0 _ _ _ _ _ _ Hq P X F Plain W).
      apply (IH q x NX Eq).
  Qed.
End Truncation.

(* ---------- the status line grammar is read back exactly ---------- *)
(* "HTTP/1." minor SP d1 d2 d3 SP reason *)
Definition render_status (minor c1 c2 c3 : N) (reason : bytes) : bytes :=
  s2b "HTTP/1." ++ [minor; SP; c1; c2; c3; SP] ++ reason.

Theorem status_line_roundtrip minor c1 c2 c3 reason :
  is_digit minor = true -> is_digit c1 = true -> is_digit c2 = true -> is_digit c3 = true ->
  forallb is_reason_char reason = true ->
  parse_status_line (render_status minor c1 c2 c3 reason)
  = Some (dec_val 0 [c1; c2; c3], match reason with [] => None | _ => Some reason end).
Proof.
  intros Hm H1 H2 H3 Hr. unfold render_status.
  change (s2b "HTTP/1.") with [72; 84; 84; 80; 47; 49; 46]%N. cbn [app parse_status_line].
  rewrite Hm, H1, H2, H3, Hr. reflexivity.
Qed.

(* anything that is not of that shape is refused: wrong length of the code, missing separator ... *)
Theorem status_line_needs_three_digits l code reason :
  parse_status_line l = Some (code, reason) ->
  exists minor c1 c2 c3 r, l = render_status minor c1 c2 c3 r /\ is_digit c1 = true /\ is_digit c2 = true /\
                           is_digit c3 = true /\ code = dec_val 0 [c1; c2; c3] /\ forallb is_reason_char r = true.
Proof.
  unfold parse_status_line.
  destruct l as [|h [|t1 [|t2 [|p [|sl [|d1 [|dot [|d2 [|sp1 [|c1 [|c2 [|c3 [|sp2 r]]]]]]]]]]]]]; try discriminate.
  destruct (beqb [h; t1; t2; p; sl] (s2b "HTTP/")) eqn:B; [|discriminate]. apply beqb_eq in B.
  destruct (is_digit d1) eqn:D1; [|discriminate]. destruct (dot =? 46)%N eqn:DOT; [|discriminate].
  destruct (is_digit d2) eqn:D2; [|discriminate]. destruct (sp1 =? SP)%N eqn:S1; [|discriminate].
  destruct (is_digit c1) eqn:C1; [|discriminate]. destruct (is_digit c2) eqn:C2; [|discriminate].
  destruct (is_digit c3) eqn:C3; [|discriminate]. destruct (sp2 =? SP)%N eqn:S2; [|discriminate].
  destruct (forallb is_reason_char r) eqn:R; [|discriminate].
  destruct (d1 =? 49)%N eqn:V; [|discriminate]. cbn [andb]. intros H. inversion H; subst.
  apply N.eqb_eq in DOT, S1, S2, V. subst. inversion B; subst.
  exists d2, c1, c2, c3, r. repeat split; auto.
Qed.
