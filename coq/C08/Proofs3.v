(* C08 — rejection lemmas and round trips on the strict reader (one per clause of the
   statement), interim responses, and "the model satisfies the checker". *)
From Coq Require Import String.
From Coq Require Import List NArith ZArith Arith Bool Lia.
Import ListNotations.
From TV Require Import Lib.Obs C08.Base C08.BaseProofs C08.Model C08.Run C08.Proofs C08.Proofs2 C08.ProofsChunk C08.ProofsFuel.

(* ---------- header-map facts ---------- *)
Lemma hget_hadd_other h k k' v : beqb k' k = false -> hget (hadd h k v) k' = hget h k'.
Proof.
  intros N. induction h as [|[k0 vs] r IH]; cbn [hadd hget].
  - rewrite N. reflexivity.
  - destruct (beqb k k0) eqn:E; cbn [hget].
    + apply beqb_eq in E. subst k0. rewrite N. reflexivity.
    + destruct (beqb k' k0); [reflexivity|exact IH].
Qed.
Lemma hget_hdel_other h k k' : beqb k' k = false -> hget (hdel h k) k' = hget h k'.
Proof.
  intros N. induction h as [|[k0 vs] r IH]; cbn [hdel hget]; [reflexivity|].
  destruct (beqb k k0) eqn:E; cbn [hget].
  - apply beqb_eq in E. subst k0. rewrite N. reflexivity.
  - destruct (beqb k' k0); [reflexivity|exact IH].
Qed.
Lemma hget_hset_other h k k' v : beqb k' k = false -> hget (hset h k v) k' = hget h k'.
Proof.
  intros N. induction h as [|[k0 vs] r IH]; cbn [hset hget].
  - rewrite N. reflexivity.
  - destruct (beqb k k0) eqn:E; cbn [hget].
    + apply beqb_eq in E. subst k0. rewrite N. reflexivity.
    + destruct (beqb k' k0); [reflexivity|exact IH].
Qed.
Lemma hget_hset_same h k v : hget (hset h k v) k = Some [v].
Proof.
  induction h as [|[k0 vs] r IH]; cbn [hset hget].
  - rewrite beqb_refl. reflexivity.
  - destruct (beqb k k0) eqn:E; cbn [hget]; rewrite E; [reflexivity|exact IH].
Qed.

(* the gzip wrapper's header rewrite does not touch the framing headers *)
Lemma gz_headers_framing h k :
  beqb k K_XCCE = false -> beqb k K_CE = false -> hget (fst (gz_headers h)) k = hget h k.
Proof.
  intros N1 N2. unfold gz_headers.
  destruct (hcomb h K_CE) as [ce|]; [|reflexivity].
  destruct (beqb (lower_s ce) (s2b "gzip")); [|reflexivity].
  cbn [fst]. rewrite hget_hdel_other, hget_hadd_other by assumption. reflexivity.
Qed.
Lemma headers_received_framing {G} (gnew : G -> G) c d h0 k :
  beqb k K_XCCE = false -> beqb k K_CE = false ->
  hget (snd (headers_received gnew c d h0)) k = hget h0 k.
Proof.
  intros N1 N2. unfold headers_received. destruct (decompress c); [|reflexivity].
  pose proof (gz_headers_framing h0 k N1 N2) as H.
  destruct (gz_headers h0) as [h on]. exact H.
Qed.

(* ---------- framing decisions that reject ---------- *)
Lemma hmem_hget h k : hmem h k = match hget h k with Some _ => true | None => false end.
Proof. reflexivity. Qed.

Lemma cl_of_keeps h maxb cl h' k :
  cl_of maxb h = Some (cl, h') -> beqb k K_CL = false -> hget h' k = hget h k.
Proof.
  unfold cl_of. intros H N. destruct (hcomb h K_CL) as [v|]; [|inversion H; reflexivity].
  destruct (mem COMMA v).
  - destruct (split_cl false [] v) as [|p0 ps]; [discriminate|].
    destruct (forallb (beqb p0) ps); [|discriminate].
    destruct (parse_int p0); [|discriminate]. destruct (maxb <? n)%N; [discriminate|].
    inversion H; subst. apply hget_hset_other. exact N.
  - destruct (parse_int v); [|discriminate]. destruct (maxb <? n)%N; [discriminate|].
    inversion H; subst. reflexivity.
Qed.
Lemma cl_of_keeps_cl h maxb cl h' :
  cl_of maxb h = Some (cl, h') -> hmem h K_CL = true -> hmem h' K_CL = true.
Proof.
  unfold cl_of, hmem, hcomb. intros H M. destruct (hget h K_CL) as [vs|] eqn:E; [|discriminate].
  cbn [option_map] in H.
  destruct (mem COMMA (join_comma vs)).
  - destruct (split_cl false [] (join_comma vs)) as [|p0 ps]; [discriminate|].
    destruct (forallb (beqb p0) ps); [|discriminate].
    destruct (parse_int p0); [|discriminate]. destruct (maxb <? n)%N; [discriminate|].
    inversion H; subst. rewrite hget_hset_same. reflexivity.
  - destruct (parse_int (join_comma vs)); [|discriminate]. destruct (maxb <? n)%N; [discriminate|].
    inversion H; subst. rewrite E. reflexivity.
Qed.

(* Content-Length together with Transfer-Encoding *)
Lemma plan_cl_and_te maxb code h :
  hmem h K_CL = true -> hmem h K_TE = true -> body_plan maxb code h = None.
Proof.
  intros A B. unfold body_plan. destruct (cl_of maxb h) as [[cl h']|] eqn:C; [|reflexivity].
  pose proof (cl_of_keeps_cl _ _ _ _ C A) as A'.
  assert (B' : hmem h' K_TE = true).
  { unfold hmem in *. rewrite (cl_of_keeps _ _ _ _ K_TE C eq_refl). exact B. }
  unfold te_chunked, hcomb. unfold hmem in B'. destruct (hget h' K_TE); [|discriminate].
  cbn [option_map]. rewrite A'. reflexivity.
Qed.
(* a Transfer-Encoding other than exactly "chunked" *)
Lemma plan_te_not_chunked maxb code h te :
  hcomb h K_TE = Some te -> beqb (lower_s te) (s2b "chunked") = false -> body_plan maxb code h = None.
Proof.
  intros A B. unfold body_plan. destruct (cl_of maxb h) as [[cl h']|] eqn:C; [|reflexivity].
  unfold te_chunked. unfold hcomb in *. rewrite (cl_of_keeps _ _ _ _ K_TE C eq_refl).
  destruct (hget h K_TE) as [vs|]; [|discriminate]. cbn [option_map] in *. inversion A; subst.
  destruct (hmem h' K_CL); [reflexivity|]. rewrite B. reflexivity.
Qed.
(* a Content-Length that is not a digit string, or exceeds max_body_size *)
Lemma plan_cl_not_integer maxb code h v :
  hcomb h K_CL = Some v -> mem COMMA v = false -> parse_int v = None -> body_plan maxb code h = None.
Proof. intros A B C. unfold body_plan, cl_of. rewrite A, B, C. reflexivity. Qed.
Lemma plan_cl_too_large maxb code h v n :
  hcomb h K_CL = Some v -> mem COMMA v = false -> parse_int v = Some n -> (maxb < n)%N ->
  body_plan maxb code h = None.
Proof.
  intros A B C D. unfold body_plan, cl_of. rewrite A, B, C.
  apply N.ltb_lt in D. rewrite D. reflexivity.
Qed.
(* 204: never any body bytes; a non-zero Content-Length or chunked coding is an error *)
Lemma plan_204 maxb h pl h' : body_plan maxb 204 h = Some (pl, h') -> pl = PFixed 0.
Proof.
  unfold body_plan. destruct (cl_of maxb h) as [[cl hh]|]; [|discriminate].
  destruct (te_chunked hh) as [ch|]; [|discriminate]. cbn [N.eqb Pos.eqb].
  destruct (ch || _); [discriminate|]. intros H; inversion H; reflexivity.
Qed.
Lemma plan_204_chunked maxb h : hmem h K_TE = true -> body_plan maxb 204 h = None.
Proof.
  intros B. unfold body_plan. destruct (cl_of maxb h) as [[cl h']|] eqn:C; [|reflexivity].
  assert (B' : hmem h' K_TE = true).
  { unfold hmem in *. rewrite (cl_of_keeps _ _ _ _ K_TE C eq_refl). exact B. }
  unfold te_chunked, hcomb. unfold hmem in B'. destruct (hget h' K_TE) as [vs|]; [|discriminate].
  cbn [option_map]. destruct (hmem h' K_CL); [reflexivity|].
  destruct (beqb (lower_s (join_comma vs)) (s2b "chunked")); reflexivity.
Qed.
Lemma plan_204_length maxb h v n :
  hcomb h K_CL = Some v -> mem COMMA v = false -> parse_int v = Some n -> n <> 0%N ->
  body_plan maxb 204 h = None.
Proof.
  intros A B C D. unfold body_plan, cl_of. rewrite A, B, C.
  destruct (maxb <? n)%N; [reflexivity|].
  destruct (te_chunked h) as [ch|]; [|reflexivity]. cbn [N.eqb Pos.eqb].
  apply N.eqb_neq in D. rewrite D. destruct ch; reflexivity.
Qed.

(* ---------- the strict reader on one message ---------- *)
Section Strict.
  Context {G : Type} (inflate : G -> bytes -> nat -> option (G * bytes * bytes))
          (gflush : G -> G * bool * bool) (gnew : G -> G).
  Context (c : cfg) (g0 : G).

  Notation strict := (fetch whole_ops inflate gflush gnew c g0).
  Notation frameW := (frame whole_ops inflate gflush gnew c).

  (* the header block of the first message *)
  Definition head_at (b hd rest : bytes) : Prop :=
    w_delim find_term (max_header c) b = RData hd rest.

  Lemma strict_step b : strict b = frameW (Datatypes.S (length b)) b (d0 g0).
  Proof. reflexivity. Qed.

  (* no complete header block before EOF / none within max_header_size *)
  Theorem reject_truncated_head b :
    w_delim find_term (max_header c) b = REof -> strict b = Res (OErr EStreamClosed) true [] false.
  Proof. intros H. rewrite strict_step. cbn [frame rd_regex whole_ops]. rewrite H. reflexivity. Qed.
  Theorem reject_oversize_head b :
    w_delim find_term (max_header c) b = RUnsat -> strict b = Res (OErr EUnsat) false [] false.
  Proof. intros H. rewrite strict_step. cbn [frame rd_regex whole_ops]. rewrite H. reflexivity. Qed.

  (* malformed status line or header line *)
  Theorem reject_unparsable_head b hd rest :
    head_at b hd rest -> parse_resp_head hd = None -> strict b = Res (OErr EMalformed) false [] false.
  Proof.
    intros H P. rewrite strict_step. cbn [frame rd_regex whole_ops]. rewrite H, P. reflexivity.
  Qed.

  Lemma streamed_hr d h0 : d_streamed (fst (headers_received gnew c d h0)) = d_streamed d.
  Proof.
    unfold headers_received. destruct (decompress c); [|reflexivity].
    destruct (gz_headers h0). reflexivity.
  Qed.
  Lemma sent_hr d h0 : d_sent (fst (headers_received gnew c d h0)) = d_sent d.
  Proof.
    unfold headers_received. destruct (decompress c); [|reflexivity].
    destruct (gz_headers h0). reflexivity.
  Qed.

  (* an interim response that announces a body *)
  Theorem reject_interim_with_framing b hd rest code reason h0 :
    head_at b hd rest -> parse_resp_head hd = Some (code, reason, h0) -> is_1xx code = true ->
    hmem h0 K_CL || hmem h0 K_TE = true ->
    strict b = Res (OErr EConnClosed) false [] (expect100 c && (code =? 100)%N).
  Proof.
    intros H P X F. rewrite strict_step. cbn [frame rd_regex whole_ops]. rewrite H, P.
    pose proof (headers_received_framing gnew c (d0 g0) h0 K_CL eq_refl eq_refl) as E1.
    pose proof (headers_received_framing gnew c (d0 g0) h0 K_TE eq_refl eq_refl) as E2.
    pose proof (streamed_hr (d0 g0) h0) as E3.
    pose proof (sent_hr (d0 g0) h0) as E4.
    destruct (headers_received gnew c (d0 g0) h0) as [d1 h]. cbn [fst snd d_sent d0] in *.
    rewrite X, E4, andb_false_r. unfold hmem in *. rewrite E1, E2, F.
    destruct (expect100 c && (code =? 100)%N); cbn [set_sent d_streamed d_sent]; rewrite E3; try rewrite E4; reflexivity.
  Qed.

  (* the final (non-interim) message of a stream that starts with it *)
  Definition final_at (b rest : bytes) (code : N) (reason : option bytes) (d1 : @dstate G) (h : headers) : Prop :=
    exists hd h0, head_at b hd rest /\ parse_resp_head hd = Some (code, reason, h0) /\
                  is_1xx code = false /\ headers_received gnew c (d0 g0) h0 = (d1, h).

  Lemma strict_final b rest code reason d1 h :
    final_at b rest code reason d1 h ->
    strict b = if is_head c || (code =? 304)%N then do_finish gflush c d1 code reason h false
               else read_body whole_ops inflate gflush c rest d1 code reason h.
  Proof.
    intros (hd & h0 & H & P & X & HR). rewrite strict_step. cbn [frame rd_regex whole_ops].
    rewrite H, P, HR, X. reflexivity.
  Qed.

  Lemma final_streamed b rest code reason d1 h : final_at b rest code reason d1 h -> d_streamed d1 = [].
  Proof. intros (hd & h0 & _ & _ & _ & HR). pose proof (streamed_hr (d0 g0) h0) as E. rewrite HR in E. exact E. Qed.
  Lemma final_sent b rest code reason d1 h : final_at b rest code reason d1 h -> d_sent d1 = false.
  Proof. intros (hd & h0 & _ & _ & _ & HR). pose proof (sent_hr (d0 g0) h0) as E. rewrite HR in E. exact E. Qed.

  (* Content-Length + Transfer-Encoding, bad Content-Length, unsupported coding, 204 with a body ... *)
  Theorem reject_bad_framing b rest code reason d1 h :
    final_at b rest code reason d1 h -> is_head c || (code =? 304)%N = false ->
    body_plan (max_body c) code h = None ->
    strict b = Res (OErr EConnClosed) false [] false.
  Proof.
    intros F K BP. rewrite (strict_final _ _ _ _ _ _ F), K. unfold read_body. rewrite BP.
    rewrite (final_streamed _ _ _ _ _ _ F), (final_sent _ _ _ _ _ _ F). reflexivity.
  Qed.

  Definition is_response (r : result) : Prop :=
    match r with Res (OResp _ _ _ _) _ _ _ => True | _ => False end.

  Lemma finish_body_not_done d code reason h cs (b : bstat bytes) :
    (forall s, b <> BDone s) -> ~ is_response (finish_body inflate gflush c d code reason h cs b).
  Proof.
    intros NB. unfold finish_body. destruct (deliver inflate c d cs); simpl; auto.
    destruct b; simpl; auto. exfalso. eapply NB. reflexivity.
  Qed.

  (* a Content-Length body cut short by EOF is an error, never a short body *)
  Theorem reject_truncated_fixed_body b rest code reason d1 h n h' :
    final_at b rest code reason d1 h -> is_head c || (code =? 304)%N = false ->
    body_plan (max_body c) code h = Some (PFixed n, h') -> (N.of_nat (length rest) < n)%N ->
    ~ is_response (strict b).
  Proof.
    intros F K BP L. rewrite (strict_final _ _ _ _ _ _ F), K. unfold read_body. rewrite BP.
    cbn [rd_body whole_ops]. destruct (w_body_gt (chunk_pred c) n rest L) as [_ B].
    destruct (w_body (chunk_pred c) n rest) as [cs o]. cbn [snd] in B. subst o.
    apply finish_body_not_done. discriminate.
  Qed.
  Theorem reject_truncated_fixed_body_plain b rest code reason d1 h n h' :
    final_at b rest code reason d1 h -> is_head c || (code =? 304)%N = false -> decompress c = false ->
    body_plan (max_body c) code h = Some (PFixed n, h') -> (N.of_nat (length rest) < n)%N ->
    strict b = Res (OErr EConnClosed) true (if streaming c then rest else []) false.
  Proof.
    intros F K D BP L. rewrite (strict_final _ _ _ _ _ _ F), K. unfold read_body. rewrite BP.
    destruct F as (hd & h0 & _ & _ & _ & HR). unfold headers_received in HR. rewrite D in HR.
    inversion HR; subst d1 h.
    cbn [rd_body whole_ops]. destruct (w_body_gt (chunk_pred c) n rest L) as [A B].
    destruct (w_body (chunk_pred c) n rest) as [cs o]. cbn [fst snd] in A, B. subst o.
    unfold finish_body. rewrite (deliver_plain inflate c cs (d0 g0) eq_refl), A.
    unfold inner_data. destruct (streaming c); reflexivity.
  Qed.

  (* a chunked body that does not end with the last-chunk and CRLF (EOF inside, bad size line,
     bad terminator, too large, size line too long) is an error, never a short body *)
  Theorem reject_broken_chunked_body b rest code reason d1 h h' :
    final_at b rest code reason d1 h -> is_head c || (code =? 304)%N = false ->
    body_plan (max_body c) code h = Some (PChunked, h') ->
    (forall s, snd (read_chunked whole_ops c (Datatypes.S (length rest)) 0 rest) <> BDone s) ->
    ~ is_response (strict b).
  Proof.
    intros F K BP NB. rewrite (strict_final _ _ _ _ _ _ F), K. unfold read_body. rewrite BP.
    cbn [remaining whole_ops].
    destruct (read_chunked whole_ops c (Datatypes.S (length rest)) 0 rest) as [cs bs]. cbn [snd] in NB.
    apply finish_body_not_done. exact NB.
  Qed.

  (* a close-delimited body longer than max_body_size *)
  Theorem reject_oversize_close_body b rest code reason d1 h h' :
    final_at b rest code reason d1 h -> is_head c || (code =? 304)%N = false ->
    body_plan (max_body c) code h = Some (PClose, h') -> (max_body c < N.of_nat (length rest))%N ->
    strict b = Res (OErr EConnClosed) true [] false.
  Proof.
    intros F K BP L. rewrite (strict_final _ _ _ _ _ _ F), K. unfold read_body. rewrite BP.
    cbn [rd_all whole_ops]. apply N.ltb_lt in L. rewrite L.
    rewrite (final_streamed _ _ _ _ _ _ F), (final_sent _ _ _ _ _ _ F). reflexivity.
  Qed.

  (* a gzip stream that has not reached its end when the body ends; flush() returning data *)
  Theorem reject_truncated_gzip d code reason h e g' :
    d_gzon d = true -> d_gzrecv d = true -> gflush (d_gz d) = (g', false, false) ->
    do_finish gflush c d code reason h e = Res (OErr EMalformed) e (d_streamed d) (d_sent d).
  Proof. intros A B C. unfold do_finish. rewrite A, C, B. reflexivity. Qed.
  Theorem reject_gzip_flush_tail d code reason h e g' ateof :
    d_gzon d = true -> gflush (d_gz d) = (g', true, ateof) ->
    do_finish gflush c d code reason h e = Res (OErr EQuiet) e (d_streamed d) (d_sent d).
  Proof. intros A C. unfold do_finish. rewrite A, C. reflexivity. Qed.

  (* ---------- round trips (decompress_response off) ---------- *)
  Lemma final_plain b rest code reason d1 h :
    final_at b rest code reason d1 h -> decompress c = false -> d1 = d0 g0.
  Proof.
    intros (hd & h0 & _ & _ & _ & HR) D. unfold headers_received in HR. rewrite D in HR.
    inversion HR; reflexivity.
  Qed.

  Definition delivered_as (body : bytes) (code : N) (reason : option bytes) (h : headers) (eof : bool) : result :=
    Res (OResp code reason (get_all h) (if streaming c then [] else body)) eof
        (if streaming c then body else []) false.

  Lemma finish_plain code reason h body e :
    do_finish gflush c (inner_data c (d0 g0) body) code reason h e = delivered_as body code reason h e.
  Proof. unfold do_finish, inner_data, delivered_as. destruct (streaming c); reflexivity. Qed.

  (* Content-Length: exactly the announced bytes, whatever follows them *)
  Theorem roundtrip_fixed b body trail code reason d1 h h' :
    final_at b (body ++ trail) code reason d1 h -> is_head c || (code =? 304)%N = false ->
    decompress c = false ->
    body_plan (max_body c) code h = Some (PFixed (N.of_nat (length body)), h') ->
    strict b = delivered_as body code reason h' false.
  Proof.
    intros F K D BP. rewrite (strict_final _ _ _ _ _ _ F), K. unfold read_body. rewrite BP.
    rewrite (final_plain _ _ _ _ _ _ F D).
    cbn [rd_body whole_ops].
    assert (L : (N.of_nat (length body) <= N.of_nat (length (body ++ trail)))%N)
      by (rewrite app_length; lia).
    destruct (w_body_le (chunk_pred c) _ _ L) as [A B].
    destruct (w_body (chunk_pred c) (N.of_nat (length body)) (body ++ trail)) as [cs o].
    cbn [fst snd] in A, B. subst o.
    unfold finish_body. rewrite (deliver_plain inflate c cs (d0 g0) eq_refl), A.
    rewrite Nat2N.id, firstn_app_le, firstn_all by lia. apply finish_plain.
  Qed.

  (* chunked: the concatenated chunk data, for any split and any spelling of the sizes *)
  Theorem roundtrip_chunked b z trail cs code reason d1 h h' :
    final_at b (chunks_wire cs ++ z ++ CRLF ++ CRLF ++ trail) code reason d1 h ->
    is_head c || (code =? 304)%N = false -> decompress c = false ->
    body_plan (max_body c) code h = Some (PChunked, h') ->
    parse_hex_int z = Some 0%N -> (length z <= 62)%nat -> Forall chunk_ok cs ->
    (chunks_len cs <= max_body c)%N ->
    strict b = delivered_as (chunks_data cs) code reason h' false.
  Proof.
    intros F K D BP Z ZL OK M. rewrite (strict_final _ _ _ _ _ _ F), K. unfold read_body. rewrite BP.
    rewrite (final_plain _ _ _ _ _ _ F D). cbn [remaining whole_ops].
    set (w := chunks_wire cs ++ z ++ CRLF ++ CRLF ++ trail).
    destruct (chunked_roundtrip c z trail Z ZL cs (Datatypes.S (length w)) 0%N OK) as (pieces & RC & CP).
    { unfold w. rewrite app_length. unfold chunks_wire.
      assert (length cs <= length (concat (map chunk_wire cs)))%nat; [|lia].
      clear -OK. induction OK as [|[sz d] l CK _ IH]; [simpl; lia|].
      cbn [map concat length]. rewrite app_length. unfold chunk_wire at 1. cbn [fst snd].
      rewrite !app_length. cbn [CRLF length]. lia. }
    { lia. }
    fold w in RC. rewrite RC.
    unfold finish_body. rewrite (deliver_plain inflate c pieces (d0 g0) eq_refl), CP.
    apply finish_plain.
  Qed.

  (* close-delimited: everything up to EOF, within max_body_size *)
  Theorem roundtrip_close b rest code reason d1 h h' :
    final_at b rest code reason d1 h -> is_head c || (code =? 304)%N = false ->
    decompress c = false ->
    body_plan (max_body c) code h = Some (PClose, h') -> (N.of_nat (length rest) <= max_body c)%N ->
    strict b = delivered_as rest code reason h' true.
  Proof.
    intros F K D BP L. rewrite (strict_final _ _ _ _ _ _ F), K. unfold read_body. rewrite BP.
    rewrite (final_plain _ _ _ _ _ _ F D). cbn [rd_all whole_ops].
    apply N.leb_le in L. rewrite N.ltb_antisym, L. cbn [negb].
    unfold data_received. cbn [d_gzon d0]. apply finish_plain.
  Qed.

  (* HEAD and 304: the headers, no body, whatever Content-Length / Transfer-Encoding say *)
  Theorem roundtrip_no_body b rest code reason d1 h :
    final_at b rest code reason d1 h -> is_head c || (code =? 304)%N = true ->
    decompress c = false ->
    strict b = delivered_as [] code reason h false.
  Proof.
    intros F K D. rewrite (strict_final _ _ _ _ _ _ F), K.
    rewrite (final_plain _ _ _ _ _ _ F D).
    unfold do_finish, delivered_as. cbn [d_gzon d0 d_chunks d_streamed]. destruct (streaming c); reflexivity.
  Qed.

  (* ---------- interim responses ---------- *)
  Lemma frame_more_fuel f : forall s d,
    frameW f s d <> OutOfFuel -> frameW (Datatypes.S f) s d = frameW f s d.
  Proof.
    induction f as [|f IH]; intros s d H; [exfalso; apply H; reflexivity|].
    remember (Datatypes.S f) as f1. cbn [frame]. subst f1. cbn [frame] in H |- *.
    destruct (rd_regex whole_ops (max_header c) s) as [hd s1| |]; try reflexivity.
    destruct (parse_resp_head hd) as [[[code reason] h0]|]; [|reflexivity].
    destruct (headers_received gnew c d h0) as [d1 h].
    destruct (is_1xx code); [|reflexivity].
    destruct (expect100 c && (code =? 100)%N && d_sent d1); [reflexivity|].
    destruct (hmem h K_CL || hmem h K_TE); [reflexivity|].
    apply IH. exact H.
  Qed.
  Lemma frame_fuel_le f f' s d : (f <= f')%nat ->
    frameW f s d <> OutOfFuel -> frameW f' s d = frameW f s d.
  Proof.
    induction 1 as [|f' L IH]; intros H; [reflexivity|].
    rewrite frame_more_fuel; [apply IH; exact H|]. rewrite IH; exact H.
  Qed.

  Lemma head_consumes b hd rest : head_at b hd rest -> (Datatypes.S (length rest) <= length b)%nat.
  Proof.
    unfold head_at, w_delim, delim_pos. intros H.
    destruct (find_term b) as [e|] eqn:FT.
    - destruct (e <=? max_header c)%nat; [|discriminate]. inversion H; subst.
      pose proof (st_range _ find_term_stable _ _ FT) as R.
      rewrite skipn_length. lia.
    - destruct (max_header c <? length b)%nat; discriminate.
  Qed.

  (* a 1xx message without Content-Length / Transfer-Encoding that is not the awaited
     100 (Continue) contributes nothing: the fetch is the fetch of what follows it *)
  Theorem interim_is_skipped b hd rest code reason h0 :
    head_at b hd rest -> parse_resp_head hd = Some (code, reason, h0) -> is_1xx code = true ->
    hmem h0 K_CL || hmem h0 K_TE = false -> decompress c = false ->
    expect100 c && (code =? 100)%N = false ->
    strict b = strict rest.
  Proof.
    intros H P X F D W. rewrite strict_step. cbn [frame rd_regex whole_ops]. rewrite H, P.
    unfold headers_received. rewrite D, X, W, F. cbn [andb].
    rewrite (strict_step rest).
    apply frame_fuel_le; [apply (head_consumes _ _ _ H)|].
    apply frame_whole_fuel. lia.
  Qed.

  (* expect_100_continue: the awaited 100 (Continue) makes the client write the held-back body;
     the fetch continues on what follows, with the body marked as written *)
  Theorem continue_sends_body b hd rest reason h0 :
    head_at b hd rest -> parse_resp_head hd = Some (100%N, reason, h0) ->
    hmem h0 K_CL || hmem h0 K_TE = false -> decompress c = false -> expect100 c = true ->
    strict b = fetch_sent whole_ops inflate gflush gnew c g0 rest.
  Proof.
    intros H P F D E. rewrite strict_step. cbn [frame rd_regex whole_ops]. rewrite H, P.
    unfold headers_received. rewrite D, E. cbn [is_1xx N.leb N.ltb N.compare Pos.compare Pos.compare_cont andb N.eqb Pos.eqb d_sent d0].
    rewrite F. unfold fetch_sent. cbn [remaining whole_ops].
    apply frame_fuel_le; [apply (head_consumes _ _ _ H)|].
    apply frame_whole_fuel. lia.
  Qed.

  (* ... and a second 100 (Continue) is refused: the body is not written twice *)
  Theorem repeated_continue_rejected b hd rest reason h0 :
    head_at b hd rest -> parse_resp_head hd = Some (100%N, reason, h0) -> expect100 c = true ->
    fetch_sent whole_ops inflate gflush gnew c g0 b = Res (OErr EConnClosed) false [] true.
  Proof.
    intros H P E. unfold fetch_sent. cbn [frame rd_regex remaining whole_ops]. rewrite H, P.
    pose proof (streamed_hr (set_sent (d0 g0)) h0) as E3.
    pose proof (sent_hr (set_sent (d0 g0)) h0) as E4.
    destruct (headers_received gnew c (set_sent (d0 g0)) h0) as [d1 h]. cbn [fst] in *.
    rewrite E, E4. cbn [is_1xx N.leb N.ltb N.compare Pos.compare Pos.compare_cont andb N.eqb Pos.eqb d_sent set_sent].
    rewrite E3. reflexivity.
  Qed.
End Strict.

(* ---------- the model satisfies the checker ---------- *)
Lemma list_eqb_N_refl (l : list N) : list_eqb N.eqb l l = true.
Proof. induction l as [|x l IH]; simpl; [reflexivity|]. rewrite N.eqb_refl, IH. reflexivity. Qed.

Lemma obs_eqb_refl : forall o, obs_eqb o o = true.
Proof.
  fix IH 1. intros o. destruct o as [|b|z|l|s|l]; simpl.
  - reflexivity.
  - destruct b; reflexivity.
  - apply Z.eqb_refl.
  - apply list_eqb_N_refl.
  - apply String.eqb_refl.
  - revert l. fix IHl 1. intros [|a l]; [reflexivity|].
    rewrite IH. simpl. apply IHl.
Qed.

Lemma obs_1xx code : is_1xx code = false -> obs_is_1xx (OInt (Z.of_N code)) = false.
Proof.
  unfold is_1xx, obs_is_1xx. intros H.
  apply andb_false_iff in H. apply andb_false_iff.
  destruct H as [H|H]; [left; apply N.leb_gt in H; apply Z.leb_gt; lia
                       |right; apply N.ltb_ge in H; apply Z.ltb_ge; lia].
Qed.

Theorem client_seg_ok c t segs :
  res_ok c (client_seg c t segs).
Proof. unfold client_seg. apply fetch_ok. intros cs n s. apply s_bodylen. Qed.
Theorem strict_client_ok c t b :
  res_ok c (strict_client c t b).
Proof. unfold strict_client. apply fetch_ok. intros cs n s. apply w_bodylen. Qed.

Theorem client_seg_eq_strict_plain c t segs :
  decompress c = false -> client_seg c t segs = strict_client c t (concat segs).
Proof. intros D. unfold client_seg, strict_client. apply ref_plain. exact D. Qed.

Theorem client_seg_never_out_of_fuel c t segs : client_seg c t segs <> OutOfFuel.
Proof. unfold client_seg. apply seg_never_out_of_fuel. Qed.
Theorem strict_client_never_out_of_fuel c t b : strict_client c t b <> OutOfFuel.
Proof. unfold strict_client. apply strict_never_out_of_fuel. Qed.

Theorem model_satisfies_checker : forall i, check_case i (run_case i) = true.
Proof.
  intros i. unfold run_case, check_case.
  pose proof (client_seg_never_out_of_fuel (cfg_of i) (tbl_of i) (segs_of i)) as NF.
  pose proof (client_seg_ok (cfg_of i) (tbl_of i) (segs_of i)) as OKs.
  pose proof (client_seg_eq_strict_plain (cfg_of i) (tbl_of i) (segs_of i)) as REF.
  destruct (client_seg (cfg_of i) (tbl_of i) (segs_of i)) as [o e st sn|] eqn:CS; [|congruence].
  cbn [obs_of_result]. cbn [res_ok] in OKs. destruct OKs as (Hsn & Hst & Ho).
  assert (A0 : implb sn (expect100 (cfg_of i)) = true)
    by (destruct sn; [rewrite (Hsn eq_refl)|]; reflexivity).
  rewrite A0.
  assert (A1 : negb (obs_eqb (obs_of_outcome o) (OTag "Hang")) = true)
    by (destruct o as [code reason hs body|k]; [reflexivity|destruct k; reflexivity]).
  rewrite A1. cbn [blen length N.of_nat N.eqb andb].
  apply N.leb_le in Hst. rewrite Hst. cbn [andb].
  assert (A2 : (decompress (cfg_of i)
               || obs_eqb (OList [obs_of_outcome o; OBytes st; OBytes []; OBool (negb e); OBool sn])
                    (obs_of_result (strict_client (cfg_of i) (tbl_of i) (concat (segs_of i))))) = true).
  { destruct (decompress (cfg_of i)); [reflexivity|]. rewrite <- (REF eq_refl).
    cbn [orb obs_of_result]. apply obs_eqb_refl. }
  rewrite A2, andb_true_r.
  destruct o as [code reason hs body|k]; [|destruct k; reflexivity].
  cbn [obs_of_outcome]. destruct Ho as [Hb Hx]. apply N.leb_le in Hb.
  cbn [blen]. rewrite Hb, (obs_1xx _ Hx). reflexivity.
Qed.
