(* C08 — the fuel supplied in Model.v always suffices: the client model never answers OutOfFuel,
   on any stream implementation whose delimited reads consume at least one byte. *)
From Coq Require Import List NArith Arith Bool Lia.
Import ListNotations.
From TV Require Import C08.Base C08.BaseProofs C08.Model.

Section Fuel.
  Context {S : Type} (ops : sops S).
  Context {G : Type} (inflate : G -> bytes -> nat -> option (G * bytes * bytes))
          (gflush : G -> G * bool * bool) (gnew : G -> G).
  Context (c : cfg).

  Hypothesis P_regex : forall m s d s', rd_regex ops m s = RData d s' -> (remaining ops s' < remaining ops s)%nat.
  Hypothesis P_until : forall m s d s', rd_until ops m s = RData d s' -> (remaining ops s' < remaining ops s)%nat.
  Hypothesis P_exact : forall n s d s', rd_exact ops n s = RData d s' -> (remaining ops s' <= remaining ops s)%nat.
  Hypothesis P_body : forall cs n s p s', rd_body ops cs n s = (p, Some s') -> (remaining ops s' <= remaining ops s)%nat.

  Lemma read_chunked_fuel fuel : forall total s,
    (remaining ops s < fuel)%nat -> snd (read_chunked ops c fuel total s) <> BFuel.
  Proof.
    induction fuel as [|f IH]; intros total s L; [lia|].
    cbn [read_chunked].
    destruct (rd_until ops 64 s) as [line st1| |] eqn:U; try (cbn [snd]; discriminate).
    pose proof (P_until _ _ _ _ U) as L1.
    destruct (parse_hex_int (firstn (length line - 2) line)) as [len|]; [|cbn [snd]; discriminate].
    destruct (len =? 0)%N.
    - destruct (rd_exact ops 2 st1) as [t st2| |]; try (cbn [snd]; discriminate).
      destruct (beqb t CRLF); cbn [snd]; discriminate.
    - destruct (max_body c <? total + len)%N; [cbn [snd]; discriminate|].
      destruct (rd_body ops (chunk_pred c) len st1) as [cs o] eqn:B.
      destruct o as [st2|]; [|cbn [snd]; discriminate].
      pose proof (P_body _ _ _ _ _ B) as L2.
      destruct (rd_exact ops 2 st2) as [t st3| |] eqn:X; try (cbn [snd]; discriminate).
      pose proof (P_exact _ _ _ _ X) as L3.
      destruct (beqb t CRLF); [|cbn [snd]; discriminate].
      specialize (IH (total + len)%N st3 ltac:(lia)).
      destruct (read_chunked ops c f (total + len) st3) as [cs2 r]. cbn [snd] in *. exact IH.
  Qed.

  Lemma gz_chunk_fuel fuel : forall (d : @dstate G) data,
    (N.to_nat (max_body c - d_gzsize d) < fuel)%nat -> gz_chunk inflate c fuel d data <> DFuel.
  Proof.
    induction fuel as [|f IH]; intros d data L; [lia|].
    destruct data as [|x data]; [discriminate|].
    cbn [gz_chunk].
    destruct (inflate (d_gz d) (x :: data) (Datatypes.S (chunk_pred c))) as [[[g' out] tail]|]; [|discriminate].
    destruct out as [|y out]; [destruct tail; discriminate|].
    destruct (max_body c <? d_gzsize d + N.of_nat (length (y :: out)))%N eqn:E; [discriminate|].
    apply N.ltb_ge in E. apply IH.
    unfold inner_data. destruct (streaming c); cbn [d_gzsize with_gz]; cbn [length] in *; lia.
  Qed.

  Lemma data_received_fuel (d : @dstate G) p : data_received inflate c d p <> DFuel.
  Proof.
    unfold data_received. destruct (d_gzon d); [|discriminate].
    apply gz_chunk_fuel. cbn [d_gzsize]. lia.
  Qed.

  Lemma deliver_fuel : forall cs (d : @dstate G), deliver inflate c d cs <> DFuel.
  Proof.
    induction cs as [|p r IH]; intros d; [discriminate|].
    cbn [deliver]. pose proof (data_received_fuel d p) as H.
    destruct (data_received inflate c d p); [apply IH|discriminate|congruence].
  Qed.

  Lemma do_finish_fuel d code reason h e : do_finish gflush c d code reason h e <> OutOfFuel.
  Proof.
    unfold do_finish. destruct (d_gzon d).
    - destruct (gflush (d_gz d)) as [[g' ne] ateof]. destruct ne; [discriminate|].
      destruct (d_gzrecv d && negb ateof); discriminate.
    - discriminate.
  Qed.

  Lemma finish_body_fuel d code reason h cs (b : bstat S) :
    b <> BFuel -> finish_body inflate gflush c d code reason h cs b <> OutOfFuel.
  Proof.
    intros NB. unfold finish_body. pose proof (deliver_fuel cs d) as H.
    destruct (deliver inflate c d cs); [|discriminate|congruence].
    destruct b; try discriminate; [apply do_finish_fuel|congruence].
  Qed.

  Lemma read_body_fuel s d code reason h : read_body ops inflate gflush c s d code reason h <> OutOfFuel.
  Proof.
    unfold read_body. destruct (body_plan (max_body c) code h) as [[[n| |] h']|]; [| | |discriminate].
    - destruct (rd_body ops (chunk_pred c) n s) as [cs o]. apply finish_body_fuel.
      destruct o; discriminate.
    - pose proof (read_chunked_fuel (Datatypes.S (remaining ops s)) 0%N s ltac:(lia)) as H.
      destruct (read_chunked ops c (Datatypes.S (remaining ops s)) 0 s) as [cs b]. cbn [snd] in H.
      apply finish_body_fuel. exact H.
    - destruct (max_body c <? N.of_nat (length (rd_all ops s)))%N; [discriminate|].
      pose proof (data_received_fuel d (rd_all ops s)) as H.
      destruct (data_received inflate c d (rd_all ops s)); [apply do_finish_fuel|discriminate|congruence].
  Qed.

  Lemma frame_fuel fuel : forall s d,
    (remaining ops s < fuel)%nat -> frame ops inflate gflush gnew c fuel s d <> OutOfFuel.
  Proof.
    induction fuel as [|f IH]; intros s d L; [lia|].
    cbn [frame].
    destruct (rd_regex ops (max_header c) s) as [hd s1| |] eqn:U; try discriminate.
    pose proof (P_regex _ _ _ _ U) as L1.
    destruct (parse_resp_head hd) as [[[code reason] h0]|]; [|discriminate].
    destruct (headers_received gnew c d h0) as [d1 h].
    destruct (is_1xx code).
    - destruct (expect100 c && (code =? 100)%N && d_sent d1); [discriminate|].
      destruct (hmem h K_CL || hmem h K_TE); [discriminate|]. apply IH. lia.
    - destruct (is_head c || (code =? 304)%N); [apply do_finish_fuel|apply read_body_fuel].
  Qed.

  Theorem fetch_fuel g0 s : fetch ops inflate gflush gnew c g0 s <> OutOfFuel.
  Proof. unfold fetch. apply frame_fuel. lia. Qed.
End Fuel.

(* ---------- the two stream implementations make progress ---------- *)
Lemma w_delim_progress find (Hs : stable find) m b d b' :
  w_delim find m b = RData d b' -> (length b' < length b)%nat.
Proof.
  unfold w_delim, delim_pos. destruct (find b) as [e|] eqn:F.
  - destruct (e <=? m)%nat; [|discriminate]. intros H; inversion H; subst.
    pose proof (st_range _ Hs _ _ F). rewrite skipn_length. lia.
  - destruct (m <? length b)%nat; discriminate.
Qed.
Lemma w_exact_progress n b d b' : w_exact n b = RData d b' -> (length b' <= length b)%nat.
Proof.
  unfold w_exact. destruct (n <=? length b)%nat; [|discriminate].
  intros H; inversion H; subst. rewrite skipn_length. lia.
Qed.
Lemma w_body_progress cs n b p b' : w_body cs n b = (p, Some b') -> (length b' <= length b)%nat.
Proof.
  unfold w_body. destruct (n <=? N.of_nat (length b))%N; [|discriminate].
  intros H; inversion H; subst. rewrite skipn_length. lia.
Qed.

Lemma s_delim_progress find (Hs : stable find) m buf segs d s' :
  s_delim find m buf segs = RData d s' -> (length (flat s') < length (flat (buf, segs)))%nat.
Proof.
  intros H. pose proof (s_delim_sim find Hs m segs buf) as R. rewrite H in R.
  destruct (w_delim find m (buf ++ concat segs)) as [d' b'| |] eqn:W; simpl in R; try contradiction.
  destruct R as [_ R]. rewrite R. apply (w_delim_progress find Hs _ _ _ _ W).
Qed.
Lemma s_exact_progress n buf segs d s' :
  s_exact n buf segs = RData d s' -> (length (flat s') <= length (flat (buf, segs)))%nat.
Proof.
  intros H. pose proof (s_exact_sim n segs buf) as R. rewrite H in R.
  destruct (w_exact n (buf ++ concat segs)) as [d' b'| |] eqn:W; simpl in R; try contradiction.
  destruct R as [_ R]. rewrite R. apply (w_exact_progress _ _ _ _ W).
Qed.
Lemma s_body_progress cs n buf segs p s' :
  s_body cs n buf segs = (p, Some s') -> (length (flat s') <= length (flat (buf, segs)))%nat.
Proof.
  intros H. destruct (s_body_sim cs segs n buf) as [_ R]. rewrite H in R. cbn [snd] in R.
  destruct (w_body cs n (buf ++ concat segs)) as [p' o] eqn:W. cbn [snd] in R.
  destruct o as [b'|]; simpl in R; [|contradiction]. rewrite R. apply (w_body_progress _ _ _ _ _ W).
Qed.

Lemma frame_whole_fuel {G : Type} (inflate : G -> bytes -> nat -> option (G * bytes * bytes))
        (gflush : G -> G * bool * bool) (gnew : G -> G) (c : cfg) f (b : bytes) d :
  (length b < f)%nat -> frame whole_ops inflate gflush gnew c f b d <> OutOfFuel.
Proof.
  intros L. apply (frame_fuel whole_ops); [| | | |exact L]; cbn [rd_regex rd_until rd_exact rd_body remaining whole_ops].
  - intros m s x s'. apply (w_delim_progress _ find_term_stable).
  - intros m s x s'. apply (w_delim_progress _ find_crlf_stable).
  - apply w_exact_progress.
  - apply w_body_progress.
Qed.

Theorem strict_never_out_of_fuel {G : Type} (inflate : G -> bytes -> nat -> option (G * bytes * bytes))
        (gflush : G -> G * bool * bool) (gnew : G -> G) (c : cfg) (g0 : G) (b : bytes) :
  fetch whole_ops inflate gflush gnew c g0 b <> OutOfFuel.
Proof.
  apply fetch_fuel; cbn [rd_regex rd_until rd_exact rd_body remaining whole_ops].
  - intros m s d s'. apply (w_delim_progress _ find_term_stable).
  - intros m s d s'. apply (w_delim_progress _ find_crlf_stable).
  - apply w_exact_progress.
  - apply w_body_progress.
Qed.

Theorem seg_never_out_of_fuel {G : Type} (inflate : G -> bytes -> nat -> option (G * bytes * bytes))
        (gflush : G -> G * bool * bool) (gnew : G -> G) (c : cfg) (g0 : G) (s : sstream) :
  fetch seg_ops inflate gflush gnew c g0 s <> OutOfFuel.
Proof.
  apply fetch_fuel; cbn [rd_regex rd_until rd_exact rd_body remaining seg_ops].
  - intros m [buf segs] d s'. apply (s_delim_progress _ find_term_stable).
  - intros m [buf segs] d s'. apply (s_delim_progress _ find_crlf_stable).
  - intros n [buf segs] d s'. apply s_exact_progress.
  - intros cs n [buf segs] p s'. apply s_body_progress.
Qed.
