(* C08 — model of Tornado's HTTP/1.x CLIENT response reader.  Definitions only.
   Mirrors, for is_client = True:
     httputil.py          _ABNF.status_line, parse_response_start_line
     http1connection.py   HTTP1Connection._read_message (client branch: HEAD / 304 skip-body,
                          1xx handling), _parse_headers, _read_body (Content-Length rules, 204 rules,
                          chunked / fixed / read-until-close), _read_fixed_body, _read_chunked_body,
                          _read_body_until_close, _GzipMessageDelegate (headers_received /
                          data_received / finish), the `except HTTPInputError` / `finally` exits
     simple_httpclient.py _HTTPConnection.headers_received / data_received / finish /
                          on_connection_close / _handle_exception (which HTTPResponse or error
                          reaches final_callback), _write_body's `except StreamClosedError`
   The message logic is written ONCE over the abstract stream interface [sops] of Base.v and
   over an abstract gzip decompressor; it is instantiated with the whole-buffer stream (the
   strict reader) and with the segment-fed stream (the operational model). *)
From Coq Require Import String Ascii.
From Coq Require Import List NArith Arith Bool.
Import ListNotations.
From TV Require Import C08.Base.
Local Open Scope N_scope.

(* ---------- status line ---------- *)
(* _parse_headers: data_str[:eol] / data_str[eol:] with eol = find("\n") (-1 when absent) *)
Definition split_first_lf (d : bytes) : bytes * bytes :=
  match split_at LF d with
  | Some (a, b) => (a, LF :: b)
  | None => (removelast d, match d with [] => [] | _ => [last d 0] end)
  end.

(* reason_phrase character: HTAB / SP / VCHAR / obs-text *)
Definition is_reason_char (x : N) : bool := is_hws x || is_fvchar x.

(* _ABNF.status_line.fullmatch + version.startswith("HTTP/1"); None = HTTPInputError.
   Result: (code, reason) with reason = None when group 3 did not participate. *)
Definition parse_status_line (l : bytes) : option (N * option bytes) :=
  match l with
  | h :: t1 :: t2 :: p :: sl :: d1 :: dot :: d2 :: sp1 :: c1 :: c2 :: c3 :: sp2 :: reason =>
      if beqb [h; t1; t2; p; sl] (s2b "HTTP/") && is_digit d1 && (dot =? 46) && is_digit d2
         && (sp1 =? SP) && is_digit c1 && is_digit c2 && is_digit c3 && (sp2 =? SP)
         && forallb is_reason_char reason
         && (d1 =? 49)
      then Some (dec_val 0 [c1; c2; c3], match reason with [] => None | _ => Some reason end)
      else None
  | _ => None
  end.

(* HTTP1Connection._parse_headers + parse_response_start_line *)
Definition parse_resp_head (data : bytes) : option (N * option bytes * headers) :=
  let d := lstrip is_crlf_char data in
  let '(sl, rest) := split_first_lf d in
  match headers_parse rest with
  | None => None
  | Some h =>
      match parse_status_line (rstrip (N.eqb CR) sl) with
      | None => None
      | Some (code, reason) => Some (code, reason, h)
      end
  end.

(* ---------- framing decision (_read_body with the response code) ---------- *)
(* headers[k] = v *)
Fixpoint hset (h : headers) (k v : bytes) : headers :=
  match h with
  | [] => [(k, [v])]
  | (k', vs) :: r => if beqb k k' then (k', [v]) :: r else (k', vs) :: hset r k v
  end.

(* the Content-Length part: None = HTTPInputError; also the headers after the
   `headers["Content-Length"] = pieces[0]` rewrite *)
Definition cl_of (maxb : N) (h : headers) : option (option N * headers) :=
  match hcomb h K_CL with
  | None => Some (None, h)
  | Some v =>
      let v1 :=
        if mem COMMA v then
          match split_cl false [] v with
          | p0 :: ps => if forallb (beqb p0) ps then Some (p0, hset h K_CL p0) else None
          | [] => None
          end
        else Some (v, h) in
      match v1 with
      | None => None
      | Some (s, h') =>
          match parse_int s with
          | None => None
          | Some n => if maxb <? n then None else Some (Some n, h')
          end
      end
  end.

Inductive plan := PFixed (n : N) | PChunked | PClose.

Definition body_plan (maxb code : N) (h : headers) : option (plan * headers) :=
  match cl_of maxb h with
  | None => None
  | Some (cl, h') =>
      match te_chunked h' with
      | None => None
      | Some ch =>
          if code =? 204 then
            if ch || match cl with None => false | Some n => negb (n =? 0) end then None
            else Some (PFixed 0, h')
          else if ch then Some (PChunked, h')
          else match cl with Some n => Some (PFixed n, h') | None => Some (PClose, h') end
      end
  end.

Definition is_1xx (code : N) : bool := (100 <=? code) && (code <? 200).

(* _GzipMessageDelegate.headers_received: (rewritten headers, new decompressor installed) *)
Definition gz_headers (h : headers) : headers * bool :=
  match hcomb h K_CE with
  | Some ce =>
      if beqb (lower_s ce) (s2b "gzip")
      then (hdel (hadd h K_XCCE ce) K_CE, true)
      else (h, false)
  | None => (h, false)
  end.

(* ---------- configuration, outcomes ---------- *)
Record cfg := {
  max_header : nat;              (* max_header_size *)
  max_body : N;                  (* max_body_size *)
  chunk_pred : nat;              (* chunk_size - 1 *)
  is_head : bool;                (* the request method was HEAD *)
  decompress : bool;             (* decompress_response *)
  streaming : bool;              (* a streaming_callback was given *)
  expect100 : bool               (* expect_100_continue: the request body is held back until a
                                    100 (Continue) interim response arrives *)
}.

Inductive ekind :=
| EStreamClosed        (* HTTPStreamClosedError("Stream closed"): EOF inside a header block *)
| EConnClosed          (* HTTPStreamClosedError("Connection closed"): reported by on_connection_close *)
| EMalformed           (* HTTPStreamClosedError("Malformed response"): read_response returned False
                          without the delegate having been told (/repo commit 18bc8c4) *)
| EUnsat               (* UnsatisfiableReadError: header block too large *)
| EQuiet.              (* _QuietException: an exception was logged inside a delegate call *)

Inductive outcome :=
| OResp (code : N) (reason : option bytes) (hs : list (bytes * bytes)) (body : bytes)
| OErr (k : ekind).

(* what final_callback got, whether EOF had been consumed from the transport by then, the
   bytes given to streaming_callback (concatenated), and whether the held-back request body was
   written in answer to a 100 (Continue) *)
Inductive result :=
| Res (o : outcome) (eof : bool) (streamed : bytes) (sent : bool)
| OutOfFuel.

Inductive bstat (S : Type) := BDone (s : S) | BEofS | BBadS | BUnsatS | BFuel.
Arguments BDone {S}. Arguments BEofS {S}. Arguments BBadS {S}. Arguments BUnsatS {S}. Arguments BFuel {S}.

Section Client.
  Context {S : Type} (ops : sops S).
  (* util.GzipDecompressor.  G is the state of "the zlib world":
     [inflate g data max_length] = Some (g', output, unconsumed_tail), None when zlib raises
     (HTTPInputError since /repo commit 4f57f99);
     [gflush g] = (g', flush() returned data, decompressobj.eof afterwards);
     [gnew g] = a freshly constructed decompressor. *)
  Context {G : Type} (inflate : G -> bytes -> nat -> option (G * bytes * bytes))
          (gflush : G -> G * bool * bool) (gnew : G -> G).
  Context (c : cfg).

  (* _read_chunked_body: the pieces read, and how reading ended *)
  Fixpoint read_chunked (fuel : nat) (total : N) (st : S) : list bytes * bstat S :=
    match fuel with
    | O => ([], BFuel)
    | Datatypes.S f =>
        match rd_until ops 64 st with
        | RUnsat => ([], BUnsatS)
        | REof => ([], BEofS)
        | RData line st1 =>
            match parse_hex_int (firstn (length line - 2) line) with
            | None => ([], BBadS)
            | Some len =>
                if len =? 0 then
                  match rd_exact ops 2 st1 with
                  | RData t st2 => if beqb t CRLF then ([], BDone st2) else ([], BBadS)
                  | RUnsat => ([], BUnsatS)
                  | REof => ([], BEofS)
                  end
                else
                  let total' := total + len in
                  if max_body c <? total' then ([], BBadS)
                  else
                    let '(cs, o) := rd_body ops (chunk_pred c) len st1 in
                    match o with
                    | None => (cs, BEofS)
                    | Some st2 =>
                        match rd_exact ops 2 st2 with
                        | RData t st3 =>
                            if beqb t CRLF then
                              let '(cs2, r) := read_chunked f total' st3 in (cs ++ cs2, r)
                            else (cs, BBadS)
                        | RUnsat => (cs, BUnsatS)
                        | REof => (cs, BEofS)
                        end
                    end
            end
        end
    end.

  (* ---------- the delegate chain: _GzipMessageDelegate (optional) -> _HTTPConnection ---------- *)
  Record dstate := DS {
    d_chunks : bytes;              (* b"".join(_HTTPConnection.chunks) *)
    d_streamed : bytes;            (* everything given to streaming_callback, concatenated *)
    d_gzon : bool;                 (* _GzipMessageDelegate._decompressor is not None *)
    d_gz : G;
    d_gzsize : N;                  (* _decompressed_body_size (never reset) *)
    d_gzrecv : bool;               (* _compressed_data_received *)
    d_sent : bool                  (* _write_body(False) already ran from headers_received *)
  }.

  (* _HTTPConnection.data_received *)
  Definition inner_data (d : dstate) (x : bytes) : dstate :=
    if streaming c
    then DS (d_chunks d) (d_streamed d ++ x) (d_gzon d) (d_gz d) (d_gzsize d) (d_gzrecv d) (d_sent d)
    else DS (d_chunks d ++ x) (d_streamed d) (d_gzon d) (d_gz d) (d_gzsize d) (d_gzrecv d) (d_sent d).
  Definition with_gz (d : dstate) (g : G) (sz : N) : dstate :=
    DS (d_chunks d) (d_streamed d) (d_gzon d) g sz (d_gzrecv d) (d_sent d).

  Definition set_sent (d : dstate) : dstate :=
    DS (d_chunks d) (d_streamed d) (d_gzon d) (d_gz d) (d_gzsize d) (d_gzrecv d) true.

  Inductive dres := DOk (d : dstate) | DBad (d : dstate) (* HTTPInputError *) | DFuel.

  (* _GzipMessageDelegate.data_received with a decompressor: the `while compressed_data` loop *)
  Fixpoint gz_chunk (fuel : nat) (d : dstate) (data : bytes) : dres :=
    match data with
    | [] => DOk d
    | _ =>
        match fuel with
        | O => DFuel
        | Datatypes.S f =>
            match inflate (d_gz d) data (Datatypes.S (chunk_pred c)) with
            | None => DBad d                              (* invalid compressed body *)
            | Some (g', out, tail) =>
                match out with
                | [] =>
                    match tail with
                    | [] => DOk (with_gz d g' (d_gzsize d))
                    | _ => DBad (with_gz d g' (d_gzsize d))         (* no progress *)
                    end
                | _ =>
                    let size' := d_gzsize d + N.of_nat (length out) in
                    if max_body c <? size' then DBad (with_gz d g' size')   (* too large *)
                    else gz_chunk f (inner_data (with_gz d g' size') out) tail
                end
            end
        end
    end.

  (* one delegate.data_received(piece) *)
  Definition data_received (d : dstate) (piece : bytes) : dres :=
    if d_gzon d
    then
      let d1 := DS (d_chunks d) (d_streamed d) true (d_gz d) (d_gzsize d)
                   (d_gzrecv d || match piece with [] => false | _ => true end) (d_sent d) in
      gz_chunk (Datatypes.S (Datatypes.S (N.to_nat (max_body c - d_gzsize d)))) d1 piece
    else DOk (inner_data d piece).

  Fixpoint deliver (d : dstate) (pieces : list bytes) : dres :=
    match pieces with
    | [] => DOk d
    | p :: r =>
        match data_received d p with
        | DOk d' => deliver d' r
        | other => other
        end
    end.

  (* delegate.headers_received: the gzip wrapper (when decompress_response) forgets the previous
     message's decompressor, rewrites the headers and installs a new one for gzip;
     _HTTPConnection stores code / reason / headers (passed along by the caller here) *)
  Definition headers_received (d : dstate) (h0 : headers) : dstate * headers :=
    if decompress c then
      let '(h, on) := gz_headers h0 in
      (DS (d_chunks d) (d_streamed d) on (if on then gnew (d_gz d) else d_gz d) (d_gzsize d) false (d_sent d), h)
    else (d, h0).

  (* delegate.finish(): the gzip wrapper's flush / truncation checks, then _HTTPConnection.finish *)
  Definition do_finish (d : dstate) (code : N) (reason : option bytes) (h : headers) (eof : bool)
    : result :=
    let '(d1, bad) :=
      if d_gzon d then
        let '(g', ne, ateof) := gflush (d_gz d) in
        (with_gz d g' (d_gzsize d),
         if ne then Some EQuiet                                   (* ValueError, logged *)
         else if d_gzrecv d && negb ateof then Some EMalformed    (* truncated gzip body *)
         else None)
      else (d, None) in
    match bad with
    | Some k => Res (OErr k) eof (d_streamed d1) (d_sent d1)
    | None => Res (OResp code reason (get_all h) (if streaming c then [] else d_chunks d1))
                  eof (d_streamed d1) (d_sent d1)
    end.

  (* after the pieces of a body were read: deliver them, then act on how reading ended *)
  Definition finish_body (d : dstate) (code : N) (reason : option bytes) (h : headers)
             (pieces : list bytes) (b : bstat S) : result :=
    match deliver d pieces with
    | DFuel => OutOfFuel
    | DBad d' => Res (OErr EConnClosed) false (d_streamed d') (d_sent d')
    | DOk d' =>
        match b with
        | BDone _ => do_finish d' code reason h false
        | BEofS => Res (OErr EConnClosed) true (d_streamed d') (d_sent d')
        | BBadS => Res (OErr EConnClosed) false (d_streamed d') (d_sent d')
        | BUnsatS => Res (OErr EQuiet) false (d_streamed d') (d_sent d')   (* on_connection_close re-raises
                                                                  stream.error inside the logging context *)
        | BFuel => OutOfFuel
        end
    end.

  (* _read_body + the rest of _read_message *)
  Definition read_body (s1 : S) (d : dstate) (code : N) (reason : option bytes) (h : headers)
    : result :=
    match body_plan (max_body c) code h with
    | None => Res (OErr EConnClosed) false (d_streamed d) (d_sent d)
    | Some (pl, h') =>
        match pl with
        | PFixed n =>
            let '(cs, o) := rd_body ops (chunk_pred c) n s1 in
            finish_body d code reason h' cs (match o with Some s => BDone s | None => BEofS end)
        | PChunked =>
            let '(cs, b) := read_chunked (Datatypes.S (remaining ops s1)) 0 s1 in
            finish_body d code reason h' cs b
        | PClose =>
            (* read_until_close, the size check of /repo commit e310265, one data_received call *)
            let body := rd_all ops s1 in
            if max_body c <? N.of_nat (length body) then Res (OErr EConnClosed) true (d_streamed d) (d_sent d)
            else
              match data_received d body with
              | DFuel => OutOfFuel
              | DBad d' => Res (OErr EConnClosed) true (d_streamed d') (d_sent d')
              | DOk d' => do_finish d' code reason h' true
              end
        end
    end.

  (* HTTP1Connection._read_message(delegate), is_client, and what reaches final_callback *)
  Fixpoint frame (fuel : nat) (s : S) (d : dstate) : result :=
    match fuel with
    | O => OutOfFuel
    | Datatypes.S f =>
        match rd_regex ops (max_header c) s with
        | RUnsat => Res (OErr EUnsat) false (d_streamed d) (d_sent d)
        | REof => Res (OErr EStreamClosed) true (d_streamed d) (d_sent d)
        | RData hd s1 =>
            match parse_resp_head hd with
            | None => Res (OErr EMalformed) false (d_streamed d) (d_sent d)
            | Some (code, reason, h0) =>
                let '(d1, h) := headers_received d h0 in
                if is_1xx code then
                  (* _HTTPConnection.headers_received: `if expect_100_continue and code == 100:
                     await self._write_body(False)`.  A second 100 makes HTTP1Connection.write
                     exceed Content-Length: the stream is closed, HTTPOutputError is logged,
                     on_connection_close reports the failure *)
                  let wr := expect100 c && (code =? 100) in
                  if wr && d_sent d1 then Res (OErr EConnClosed) false (d_streamed d1) true
                  else
                    let d2 := if wr then set_sent d1 else d1 in
                    if hmem h K_CL || hmem h K_TE
                    then Res (OErr EConnClosed) false (d_streamed d2) (d_sent d2)
                    else frame f s1 d2           (* the next message is the response *)
                else if is_head c || (code =? 304) then do_finish d1 code reason h false
                else read_body s1 d1 code reason h
            end
        end
    end.

  Definition d0 (g0 : G) : dstate := DS [] [] false g0 0 false false.

  (* _HTTPConnection.run / _write_body / _read_response *)
  Definition fetch (g0 : G) (s : S) : result :=
    frame (Datatypes.S (remaining ops s)) s (d0 g0).
  (* the rest of the fetch once the held-back body has been written (after a 100 Continue) *)
  Definition fetch_sent (g0 : G) (s : S) : result :=
    frame (Datatypes.S (remaining ops s)) s (set_sent (d0 g0)).
End Client.

(* ---------- a table-driven decompressor for the correspondence check ---------- *)
(* the answers the real zlib gave, in call order *)
Inductive gzent :=
| GDec (inlen maxlen : nat) (out : bytes) (taillen : nat)   (* decompress(data, max_length) *)
| GDecErr                                                   (* zlib.error *)
| GFlush (nonempty : bool) (eof : bool).                    (* flush(); decompressobj.eof afterwards *)
Definition gz_table := list gzent.
Definition inflate_tbl (t : gz_table) (data : bytes) (maxlen : nat)
  : option (gz_table * bytes * bytes) :=
  match t with
  | GDec inlen ml out taillen :: r =>
      if (inlen =? length data)%nat && (ml =? maxlen)%nat && (taillen <=? length data)%nat
      then Some (r, out, skipn (length data - taillen) data)
      else None
  | _ => None
  end.
(* a table out of step with the model answers "flush returned data" so that the
   disagreement becomes visible (an EQuiet outcome the implementation did not produce) *)
Definition flush_tbl (t : gz_table) : gz_table * bool * bool :=
  match t with
  | GFlush ne e :: r => (r, ne, e)
  | _ => (t, true, false)
  end.

(* ---------- the two readers ---------- *)
(* the strict reader (specification): a pure function of the byte string *)
Definition strict_client (c : cfg) (t : gz_table) (b : bytes) : result :=
  fetch whole_ops inflate_tbl flush_tbl (fun t => t) c t b.
(* the client fed segment by segment (operational model) *)
Definition client_seg (c : cfg) (t : gz_table) (segs : list bytes) : result :=
  fetch seg_ops inflate_tbl flush_tbl (fun t => t) c t ([], segs).
