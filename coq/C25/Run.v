(* C25 — executable entry points used by the correspondence check. *)
From Coq Require Import List NArith ZArith String Bool.
Import ListNotations.
From TV Require Import Lib.Obs C25.Model.
Local Open Scope N_scope.

Definition tag_of (o : outcome) : obs :=
  match o with
  | Ok => OTag "Ok" | ValueErr => OTag "ValueError" | CookieErr => OTag "CookieError"
  | OSErr => OTag "OSError" | OverflowErr => OTag "OverflowError"
  end.

Definition obs_pair (p : str * str) : obs := OList [OBytes (fst p); OBytes (snd p)].

(* observable of one scenario: the outcome of every call, then either
   "NoResponse" or the Set-Cookie header values of the response (in wire
   order) and HTTPServerRequest.cookies of the next request, which carries
   Cookie: <name=value part of every Set-Cookie header, joined by "; "> *)
Definition out_obs (r : option (list str)) : obs :=
  match r with
  | None => OTag "NoResponse"
  | Some hs => OList [OList (map OBytes hs);
                      OList (map obs_pair (request_cookies (cookie_header hs)))]
  end.

(* input: the calls and how the request ends; observable: outcomes, status code, cookies *)
Definition run_case (i : list op * ending) : obs :=
  let '(ops, e) := i in
  match run_request ops e with
  | (res, Some (st, r)) => OList [OList (map tag_of res); OInt (Z.of_N st); out_obs r]
  | (res, None) => OList [OList (map tag_of res); OInt 0; OTag "HeadAlreadySent"]
  end.

(* ---------------- the property as a checker on observables ---------------- *)

(* keep, for every name, only the last call (in the order of those last calls) *)
Fixpoint dedup_last (l : list call) : list call :=
  match l with
  | [] => []
  | c :: l' =>
      if existsb (fun c' => str_eqb (c_name c') (c_name c)) l' then dedup_last l'
      else c :: dedup_last l'
  end.

Definition is_ok (o : obs) : bool :=
  match o with OTag s => String.eqb s "Ok" | _ => false end.

(* the calls the IMPLEMENTATION accepted (did not raise on) *)
Fixpoint ok_calls (cs : list call) (res : list obs) : option (list call) :=
  match cs, res with
  | [], [] => Some []
  | c :: cs', r :: res' =>
      match ok_calls cs' res' with
      | Some l => Some (if is_ok r then c :: l else l)
      | None => None
      end
  | _, _ => None
  end.

Definition ostr_eqb (a b : option str) : bool :=
  match a, b with
  | None, None => true
  | Some x, Some y => str_eqb x y
  | _, _ => false
  end.
Definition attr_eqb (a b : str * option str) : bool :=
  str_eqb (fst a) (fst b) && ostr_eqb (snd a) (snd b).
Definition pair_eqb (a b : str * str) : bool :=
  str_eqb (fst a) (fst b) && str_eqb (snd a) (snd b).

(* one emitted header against the call it must come from: the user agent reads
   the requested name, exactly the requested attributes, and Tornado's cookie
   parser reads the name=value part back as exactly (name, value) *)
Definition header_matches (c : call) (h : str) : bool :=
  str_eqb (browser_name h) (c_name c)
  && list_eqb attr_eqb (browser_attrs h) (requested c)
  && list_eqb pair_eqb (parse_cookie (nv_part h)) [(c_name c, c_value c)].

Definition find_call (n : str) (l : list call) : option call :=
  find (fun c => str_eqb (c_name c) n) l.

(* an emitted header is the header of the expected setting of its name *)
Definition header_expected (expected : list call) (h : obs) : bool :=
  match h with
  | OBytes h =>
      match find_call (browser_name h) expected with
      | Some c => header_matches c h
      | None => false                      (* a cookie nobody set *)
      end
  | _ => false
  end.

Definition header_name (h : obs) : str :=
  match h with OBytes h => browser_name h | _ => [] end.

(* the recorded HTTPServerRequest.cookies of the next request *)
Fixpoint pairs_of (l : list obs) : option (list (str * str)) :=
  match l with
  | [] => Some []
  | OList [OBytes k; OBytes v] :: l' =>
      match pairs_of l' with Some ps => Some ((k, v) :: ps) | None => None end
  | _ => None
  end.

Definition check_case (i : list op * ending) (o : obs) : bool :=
  let '(ops, e) := i in
  match o with
  | OList [OList res; OInt st; out] =>
      Z.eqb st (Z.of_N (status_of e)) &&
      match ok_calls (map lower ops) res with
      | None => false
      | Some acc =>
          let expected := dedup_last acc in
          match out with
          | OList [OList hs; OList cks] =>
              (* whatever the ending (normal, Finish, HTTPError, other exception,
                 send_error, redirect), the response that is sent carries the
                 expected settings.  The order of the Set-Cookie lines is not
                 part of the property: as many headers as expected settings
                 (whose names are distinct), every header is the expected one of
                 its name, every expected setting has its header; and the next
                 request sees exactly the expected (name, value) pairs *)
              Nat.eqb (List.length hs) (List.length expected)
              && forallb (header_expected expected) hs
              && forallb (fun c => existsb (str_eqb (c_name c)) (map header_name hs)) expected
              && match pairs_of cks with
                 | Some ps =>
                     Nat.eqb (List.length ps) (List.length expected)
                     && forallb (fun c => existsb (pair_eqb (c_name c, c_value c)) ps) expected
                 | None => false
                 end
          | _ => false       (* a call returned normally but no response was sent *)
          end
      end
  | _ => false
  end.
