(* C25 — Outgoing cookies are emitted exactly as set.  Definitions only.

   Modelled code (as of the current /repo):
     tornado/web.py      RequestHandler.set_cookie (validation + jar update),
                         clear_cookie, set_signed_cookie (lowered to set_cookie),
                         RequestHandler.flush (Set-Cookie emission, _convert_header_value)
     http/cookies.py     _quote/_Translator, Morsel.set (legal / reserved key),
                         Morsel.OutputString (attribute order and spelling)
     tornado/httputil.py parse_cookie, _unquote_cookie, HTTPServerRequest.cookies
   plus an RFC 6265 5.2-style reader of a Set-Cookie header (the "browser"),
   used only to STATE the property.

   Text is a list of code points (N). *)
From Coq Require Import List NArith ZArith Bool Arith.
Import ListNotations.
Local Open Scope N_scope.

Definition str := list N.

(* ------------------------------------------------------------------ *)
(* generic text helpers                                                *)

Fixpoint mem (c : N) (l : list N) : bool :=
  match l with [] => false | x :: l' => (c =? x) || mem c l' end.

Fixpoint str_eqb (a b : str) : bool :=
  match a, b with
  | [], [] => true
  | x :: a', y :: b' => (x =? y) && str_eqb a' b'
  | _, _ => false
  end.

(* Python s.split(sep) for a one-character separator: always >= 1 piece *)
Fixpoint split_on (sep : N) (s : str) : list str :=
  match s with
  | [] => [[]]
  | c :: s' =>
      if c =? sep then [] :: split_on sep s'
      else match split_on sep s' with
           | [] => [[c]]                      (* unreachable: split_on is never empty *)
           | p :: ps => (c :: p) :: ps
           end
  end.

(* s.split("=", 1) when "=" in s; None when there is no "=" *)
Fixpoint split_once (sep : N) (s : str) : option (str * str) :=
  match s with
  | [] => None
  | c :: s' =>
      if c =? sep then Some ([], s')
      else match split_once sep s' with
           | None => None
           | Some (a, b) => Some (c :: a, b)
           end
  end.

Fixpoint take_until (sep : N) (s : str) : str :=
  match s with
  | [] => []
  | c :: s' => if c =? sep then [] else c :: take_until sep s'
  end.

(* sep.join(parts) for the two-character separator "; " *)
Definition semisp : str := [59; 32].
Fixpoint join_semisp (parts : list str) : str :=
  match parts with
  | [] => []
  | [p] => p
  | p :: ps => p ++ semisp ++ join_semisp ps
  end.

(* str.isspace() code points (CPython 3.12 unicodedata) *)
Definition py_space (c : N) : bool :=
  ((9 <=? c) && (c <=? 13)) || ((28 <=? c) && (c <=? 32)) || (c =? 133) || (c =? 160)
  || (c =? 5760) || ((8192 <=? c) && (c <=? 8202)) || (c =? 8232) || (c =? 8233)
  || (c =? 8239) || (c =? 8287) || (c =? 12288).

Fixpoint lstrip (sp : N -> bool) (s : str) : str :=
  match s with
  | [] => []
  | c :: s' => if sp c then lstrip sp s' else s
  end.
Definition strip (sp : N -> bool) (s : str) : str := rev (lstrip sp (rev (lstrip sp s))).

(* ------------------------------------------------------------------ *)
(* http.cookies: legal keys, reserved keys, quoting                    *)

Definition is_alnum (c : N) : bool :=
  ((48 <=? c) && (c <=? 57)) || ((65 <=? c) && (c <=? 90)) || ((97 <=? c) && (c <=? 122)).

(* _LegalChars = letters + digits + "!#$%&'*+-.^_`|~:" *)
Definition legal_char (c : N) : bool :=
  is_alnum c || mem c [33; 35; 36; 37; 38; 39; 42; 43; 45; 46; 94; 95; 96; 124; 126; 58].

(* _is_legal_key = re.compile('[%s]+' % re.escape(_LegalChars)).fullmatch *)
Definition legal_key (s : str) : bool :=
  match s with [] => false | _ => forallb legal_char s end.

(* _UnescapedChars = _LegalChars + ' ()/<=>?@[]{}' *)
Definition unescaped (c : N) : bool :=
  legal_char c || mem c [32; 40; 41; 47; 60; 61; 62; 63; 64; 91; 93; 123; 125].

Definition oct3 (c : N) : str := [92; 48 + c / 64; 48 + (c / 8) mod 8; 48 + c mod 8].

(* str.translate(_Translator): the table has entries for 0..255 only *)
Definition tr (c : N) : str :=
  if c =? 34 then [92; 34]
  else if c =? 92 then [92; 92]
  else if (c <? 256) && negb (unescaped c) then oct3 c
  else [c].

Definition quote (s : str) : str :=
  if legal_key s then s else 34 :: flat_map tr s ++ [34].

Definition lower_ascii (c : N) : N := if (65 <=? c) && (c <=? 90) then c + 32 else c.

Definition s_expires : str := [101;120;112;105;114;101;115].
Definition s_path : str := [112;97;116;104].
Definition s_comment : str := [99;111;109;109;101;110;116].
Definition s_domain : str := [100;111;109;97;105;110].
Definition s_max_age : str := [109;97;120;45;97;103;101].
Definition s_secure : str := [115;101;99;117;114;101].
Definition s_httponly : str := [104;116;116;112;111;110;108;121].
Definition s_version : str := [118;101;114;115;105;111;110].
Definition s_samesite : str := [115;97;109;101;115;105;116;101].
Definition reserved_keys : list str :=
  [s_expires; s_path; s_comment; s_domain; s_max_age; s_secure; s_httponly; s_version; s_samesite].

(* the traditional spellings used by Morsel.OutputString *)
Definition S_Domain : str := [68;111;109;97;105;110].
Definition S_expires : str := s_expires.
Definition S_HttpOnly : str := [72;116;116;112;79;110;108;121].
Definition S_MaxAge : str := [77;97;120;45;65;103;101].
Definition S_Path : str := [80;97;116;104].
Definition S_SameSite : str := [83;97;109;101;83;105;116;101].
Definition S_Secure : str := [83;101;99;117;114;101].

Definition is_reserved (k : str) : bool :=
  existsb (str_eqb (map lower_ascii k)) reserved_keys.

(* Morsel.set accepts the key.  (Python lowers with the full Unicode mapping;
   a key with a non-ASCII character is illegal anyway and both refusals are
   CookieError, so the ASCII lowering gives the same outcome.) *)
Definition key_ok (k : str) : bool := negb (is_reserved k) && legal_key k.

(* ------------------------------------------------------------------ *)
(* decimal text of an int: str(max_age)                                *)

Fixpoint dec_fuel (fuel : nat) (n : N) (acc : str) : str :=
  match fuel with
  | O => acc
  | S f => let acc' := (48 + n mod 10) :: acc in
           if n <? 10 then acc' else dec_fuel f (n / 10) acc'
  end.
(* a number has no more decimal digits than binary digits, so the fuel never
   runs out (proved: undec_dec_N in Proofs2.v) *)
Definition dec_N (n : N) : str := dec_fuel (S (N.to_nat (N.size n))) n [].
(* int(text) for a digit string *)
Definition undec (s : str) : N := fold_left (fun a c => 10 * a + (c - 48)) s 0.
Definition undec_Z (s : str) : Z :=
  match s with
  | 45 :: t => Z.opp (Z.of_N (undec t))
  | _ => Z.of_N (undec s)
  end.
Definition dec_Z (z : Z) : str :=
  match z with
  | Z0 => [48]
  | Zpos p => dec_N (Npos p)
  | Zneg p => 45 :: dec_N (Npos p)
  end.

(* ------------------------------------------------------------------ *)
(* httputil.format_timestamp(int) = email.utils.formatdate(t, usegmt=True):
   "%s, %02d %s %04d %02d:%02d:%02d GMT" % (weekday, day, month, year, h, m, s)
   of time.gmtime(t)                                                    *)

Definition wd_names : list str :=
  [[77;111;110]; [84;117;101]; [87;101;100]; [84;104;117]; [70;114;105]; [83;97;116]; [83;117;110]].
Definition mon_names : list str :=
  [[74;97;110]; [70;101;98]; [77;97;114]; [65;112;114]; [77;97;121]; [74;117;110];
   [74;117;108]; [65;117;103]; [83;101;112]; [79;99;116]; [78;111;118]; [68;101;99]].

(* days since 0001-01-01 -> (year, month 1..12, day 1..31), proleptic Gregorian
   (the usual era/day-of-era computation; all quantities are non-negative) *)
Definition civil (days : N) : N * N * N :=
  let z := days + 306 in
  let era := z / 146097 in
  let doe := z mod 146097 in
  let yoe := (doe - doe / 1460 + doe / 36524 - doe / 146096) / 365 in
  let doy := doe - (365 * yoe + yoe / 4 - yoe / 100) in
  let mp := (5 * doy + 2) / 153 in
  let d := doy - (153 * mp + 2) / 5 + 1 in
  let m := if mp <? 10 then mp + 3 else mp - 9 in
  let y := yoe + era * 400 + (if m <=? 2 then 1 else 0) in
  (y, m, d).

Definition pad2 (n : N) : str := [48 + (n / 10) mod 10; 48 + n mod 10].
(* %04d: at least four digits *)
Definition pad4 (n : N) : str :=
  if n <? 10000 then [48 + n / 1000; 48 + (n / 100) mod 10; 48 + (n / 10) mod 10; 48 + n mod 10]
  else dec_N n.

Definition s_GMT : str := [32; 71; 77; 84].

(* seconds from 0001-01-01T00:00:00Z to the epoch *)
Definition epoch_offset : Z := 62135596800%Z.

(* the indices are days mod 7 (0001-01-01 is a Monday) and month-1 with month in
   1..12, so the defaults of nth are never used.  Meaningful for timestamps
   from year 1 on (expiry_outcome below refuses the others before formatting). *)
Definition format_ts (t : Z) : str :=
  let s := Z.to_N (t + epoch_offset) in
  let days := s / 86400 in
  let sod := s mod 86400 in
  let '(y, m, d) := civil days in
  nth (N.to_nat (days mod 7)) wd_names [83;117;110] ++ [44; 32] ++ pad2 d ++ [32]
  ++ nth (N.to_nat (m - 1)) mon_names [68;101;99] ++ [32] ++ pad4 y ++ [32]
  ++ pad2 (sod / 3600) ++ [58] ++ pad2 ((sod / 60) mod 60) ++ [58] ++ pad2 (sod mod 60) ++ s_GMT.

(* ------------------------------------------------------------------ *)
(* one set_cookie call                                                 *)

Record call := mkCall {
  c_name : str;
  c_value : str;
  c_domain : option str;
  c_expires : option Z;        (* `expires` as a POSIX timestamp (ints; datetimes go through calendar.timegm) *)
  c_expires_days : option Z;   (* `expires_days` (whole days) *)
  c_now : Z;                   (* the clock at the call: timegm(datetime.now(utc)) *)
  c_path : option str;         (* the default "/" is made explicit by the caller *)
  c_max_age : option Z;
  c_httponly : bool;
  c_secure : bool;
  c_samesite : option str
}.

(* the three public entry points, lowered exactly as web.py does *)
Inductive op :=
| OpSet (c : call)
| OpClear (c : call)     (* clear_cookie(name, **kw): value := "", max_age absent;
                            c_expires is ignored (clear_cookie refuses the keyword) *)
| OpSigned (c : call).   (* set_signed_cookie: c_value carries create_signed_value(...) (opaque),
                            c_expires / c_expires_days as passed (expires_days defaults to 30) *)

Definition lower (o : op) : call :=
  match o with
  | OpSet c => c
  | OpSigned c => c
  | OpClear c =>
      (* set_cookie(name, value="", expires=now - 365 days, **kwargs): an expires_days
         keyword is passed through, and loses against the explicit expires *)
      mkCall (c_name c) [] (c_domain c) (Some (c_now c - 31536000)%Z) (c_expires_days c) (c_now c)
             (c_path c) None (c_httponly c) (c_secure c) (c_samesite c)
  end.

(* ------------------------------------------------------------------ *)
(* Morsel.OutputString(None)                                           *)

Definition truthy (o : option str) : option str :=
  match o with Some ((_ :: _) as s) => Some s | _ => None end.

Definition kv (k v : str) : str := k ++ 61 :: v.

Definition opt_kv (k : str) (o : option str) : list str :=
  match truthy o with Some v => [kv k v] | None => [] end.

(* `if expires_days is not None and not expires: expires = now + timedelta(days=expires_days)`
   "if both are set, expires is used" (0 / None are falsy; a datetime is always truthy) *)
Inductive eff_expiry := EffNone | EffTs (t : Z) | EffDays (t : Z).
Definition days_path (c : call) : eff_expiry :=
  match c_expires_days c with
  | Some d => EffDays (c_now c + 86400 * d)
  | None => EffNone
  end.
Definition effective_expiry (c : call) : eff_expiry :=
  match c_expires c with
  | Some t => if (t =? 0)%Z then days_path c else EffTs t
  | None => days_path c
  end.

(* `expires_text = httputil.format_timestamp(expires) if expires else None` *)
Definition exp_text (c : call) : option str :=
  match effective_expiry c with
  | EffNone => None
  | EffTs t | EffDays t => Some (format_ts t)
  end.

(* `if max_age is not None: morsel["max-age"] = str(max_age)` *)
Definition max_age_text (m : option Z) : option str :=
  match m with
  | Some z => Some (dec_Z z)
  | None => None
  end.

(* sorted(morsel.items()): domain, expires, httponly, max-age, path, samesite, secure
   (comment and version are never set without the legacy **kwargs) *)
Definition out_attrs (c : call) : list str :=
  opt_kv S_Domain (c_domain c)
  ++ opt_kv S_expires (exp_text c)
  ++ (if c_httponly c then [S_HttpOnly] else [])
  ++ opt_kv S_MaxAge (max_age_text (c_max_age c))
  ++ opt_kv S_Path (c_path c)
  ++ opt_kv S_SameSite (c_samesite c)
  ++ (if c_secure c then [S_Secure] else []).

Definition name_value (c : call) : str := kv (c_name c) (quote (c_value c)).

Definition output_string (c : call) : str := join_semisp (name_value c :: out_attrs c).

(* ------------------------------------------------------------------ *)
(* _convert_header_value (used by set_cookie's final check and by flush) *)

(* _VALID_HEADER_CHARS = [\x09\x20-\x7e\x80-\xff]* *)
Definition header_char_ok (c : N) : bool :=
  (c =? 9) || ((32 <=? c) && (c <=? 126)) || ((128 <=? c) && (c <=? 255)).

Inductive outcome := Ok | ValueErr | CookieErr | OSErr | OverflowErr.

(* re.search(r"[\x00-\x20]", value) *)
Definition bad_value_char (c : N) : bool := c <=? 32.
(* re.search(r"[\x00-\x20\x3b\x7f]", attr_value) *)
Definition bad_attr_char (c : N) : bool := (c <=? 32) || (c =? 59) || (c =? 127).

Definition attr_clean (s : str) : bool := negb (existsb bad_attr_char s).
Definition opt_clean (o : option str) : bool :=
  match o with None => true | Some s => attr_clean s end.

(* `expires_text = httputil.format_timestamp(expires) if expires else None`, computed
   before the jar is touched; an exception propagates unchanged.  email.utils.formatdate
   (datetime.fromtimestamp / time.gmtime, 64-bit time_t, glibc): years 1..9999 are
   representable; beyond that ValueError ("year ... is out of range"), then OSError
   (EOVERFLOW, the year does not fit a C int), then OverflowError (not a time_t). *)
Definition expiry_outcome (t : Z) : outcome :=
  if ((-62135596800 <=? t) && (t <? 253402300800))%Z then Ok
  else if ((-67768040609740800 <=? t) && (t <? 67768036191676800))%Z then ValueErr
  else if ((-9223372036854775808 <=? t) && (t <? 9223372036854775808))%Z then OSErr
  else OverflowErr.

(* datetime.now() + timedelta(days) outside years 1..9999: OverflowError
   ("date value out of range"), raised before format_timestamp is reached *)
Definition expiry_check (c : call) : outcome :=
  match effective_expiry c with
  | EffNone => Ok
  | EffTs t => expiry_outcome t
  | EffDays t => if ((-62135596800 <=? t) && (t <? 253402300800))%Z then Ok else OverflowErr
  end.

(* order of the checks in set_cookie: value, then name/domain/path/samesite, then the
   expiry text, then (inside SimpleCookie.__setitem__ -> Morsel.set) reserved / illegal key *)
Definition validate (c : call) : outcome :=
  if existsb bad_value_char (c_value c) then ValueErr
  else if negb (attr_clean (c_name c) && opt_clean (c_domain c) && opt_clean (c_path c)
                && opt_clean (c_samesite c)) then CookieErr
  else match expiry_check c with
       | Ok => if negb (key_ok (c_name c)) then CookieErr else Ok
       | e => e
       end.

(* the check added at the very end of set_cookie:
   try: self._convert_header_value(morsel.OutputString(None))
   except ValueError: del self._new_cookie[name]; raise *)
Definition sendable (c : call) : bool := forallb header_char_ok (output_string c).

(* what the caller of set_cookie sees *)
Definition result_of (c : call) : outcome :=
  match validate c with
  | Ok => if sendable c then Ok else ValueErr
  | e => e
  end.

Definition accepted (c : call) : bool :=
  match result_of c with Ok => true | _ => false end.

(* the call gets as far as the jar (all argument checks passed) *)
Definition touches (c : call) : bool :=
  match validate c with Ok => true | _ => false end.

(* ------------------------------------------------------------------ *)
(* the jar (self._new_cookie: a dict in insertion order)               *)

Definition jar := list call.

Definition jar_del (n : str) (j : jar) : jar :=
  filter (fun c => negb (str_eqb (c_name c) n)) j.

(* `if name in jar: del jar[name]`; `jar[name] = value` (appended: new last key) *)
Definition jar_set (c : call) (j : jar) : jar := jar_del (c_name c) j ++ [c].

Definition jar_find (n : str) (j : jar) : option call :=
  find (fun c => str_eqb (c_name c) n) j.

(* a call that fails the final header check has already replaced the entry of
   that name; the handler deletes the new entry and puts the previous one (if
   any) back -- as the LAST key of the dict *)
Definition jar_apply (j : jar) (c : call) : jar :=
  if sendable c then jar_set c j
  else match jar_find (c_name c) j with
       | Some p => jar_del (c_name c) j ++ [p]
       | None => j
       end.

Definition step (st : list outcome * jar) (o : op) : list outcome * jar :=
  let c := lower o in
  match validate c with
  | Ok => (fst st ++ [result_of c], jar_apply (snd st) c)
  | e => (fst st ++ [e], snd st)
  end.

Definition run_ops (ops : list op) : list outcome * jar := fold_left step ops ([], []).

(* ------------------------------------------------------------------ *)
(* flush: add_header("Set-Cookie", cookie.OutputString(None))          *)

Definition headers_of (j : jar) : list str := map output_string j.

(* None: flush raised ValueError("Unsafe header value") after _headers_written
   was set: nothing at all reaches the wire (proved impossible below, since
   set_cookie now performs the same check itself) *)
Definition flush (j : jar) : option (list str) :=
  let hs := headers_of j in
  if forallb (forallb header_char_ok) hs then Some hs else None.

(* ------------------------------------------------------------------ *)
(* request side: httputil._unquote_cookie / parse_cookie               *)

Definition is_oct (c : N) : bool := (48 <=? c) && (c <=? 55).
Definition is_oct03 (c : N) : bool := (48 <=? c) && (c <=? 51).

(* re.sub(r"\\(?:([0-3][0-7][0-7])|(.))", repl, s): leftmost, non-overlapping;
   "." does not match "\n"; an unmatched backslash is copied *)
Fixpoint unq (s : str) : str :=
  match s with
  | [] => []
  | x :: t =>
      if x =? 92 then
        match t with
        | [] => [92]
        | a :: t1 =>
            match t1 with
            | b :: (c :: r) =>
                if is_oct03 a && is_oct b && is_oct c
                then ((a - 48) * 64 + (b - 48) * 8 + (c - 48)) :: unq r
                else if a =? 10 then 92 :: unq t else a :: unq t1
            | _ => if a =? 10 then 92 :: unq t else a :: unq t1
            end
        end
      else x :: unq t
  end.

Definition unquote_cookie (s : str) : str :=
  match s with
  | [] | [_] => s
  | f :: t => if (f =? 34) && (last t 0 =? 34) then unq (removelast t) else s
  end.

(* a dict in insertion order *)
Fixpoint dict_set (k v : str) (d : list (str * str)) : list (str * str) :=
  match d with
  | [] => [(k, v)]
  | (k', v') :: d' => if str_eqb k' k then (k', v) :: d' else (k', v') :: dict_set k v d'
  end.

Definition parse_chunk (chunk : str) : option (str * str) :=
  let '(key, val) := match split_once 61 chunk with Some p => p | None => ([], chunk) end in
  let key := strip py_space key in
  let val := strip py_space val in
  match key, val with
  | [], [] => None
  | _, _ => Some (key, unquote_cookie val)
  end.

Definition parse_cookie (hdr : str) : list (str * str) :=
  fold_left (fun d chunk => match parse_chunk chunk with
                            | Some (k, v) => dict_set k v d
                            | None => d end)
            (split_on 59 hdr) [].

(* HTTPServerRequest.cookies: SimpleCookie()[k] = v, KeyErrors discarded *)
Definition request_cookies (hdr : str) : list (str * str) :=
  filter (fun p => key_ok (fst p)) (parse_cookie hdr).

(* ------------------------------------------------------------------ *)
(* the user agent (RFC 6265 5.2, without any trimming beyond the       *)
(* whitespace that follows a ";")                                      *)

Definition wsp (c : N) : bool := (c =? 32) || (c =? 9).

Definition nv_part (h : str) : str := strip wsp (take_until 59 h).

Definition parse_av (s : str) : str * option str :=
  let s' := lstrip wsp s in
  match split_once 61 s' with
  | Some (n, v) => (n, Some v)
  | None => (s', None)
  end.

Definition browser_attrs (h : str) : list (str * option str) :=
  map parse_av (tl (split_on 59 h)).

Definition browser_name (h : str) : str :=
  match split_once 61 (nv_part h) with Some (n, _) => n | None => [] end.

(* the Cookie header of the next request *)
Definition cookie_header (hs : list str) : str := join_semisp (map nv_part hs).

(* ------------------------------------------------------------------ *)
(* what the caller asked for (the specification side)                  *)

Definition req_opt (k : str) (o : option str) : list (str * option str) :=
  match truthy o with Some v => [(k, Some v)] | None => [] end.

Definition requested (c : call) : list (str * option str) :=
  req_opt S_Domain (c_domain c)
  ++ req_opt S_expires (exp_text c)
  ++ (if c_httponly c then [(S_HttpOnly, None)] else [])
  ++ match c_max_age c with Some z => [(S_MaxAge, Some (dec_Z z))] | None => [] end
  ++ req_opt S_Path (c_path c)
  ++ req_opt S_SameSite (c_samesite c)
  ++ (if c_secure c then [(S_Secure, None)] else []).

(* ------------------------------------------------------------------ *)
(* how the request ends, and what RequestHandler does with the jar      *)
(* Scope: set_cookie calls made while the response head can still be    *)
(* changed (before flush()); see NOTES.md                               *)

Inductive ending :=
| EndReturn                      (* the handler method returns; finish() *)
| EndFinish                      (* raise Finish() *)
| EndHTTPError (code : N)        (* raise HTTPError(code) -> send_error(code) *)
| EndException                   (* any other exception -> send_error(500) *)
| EndSendError (code : N)        (* explicit self.send_error(code) *)
| EndRedirect (permanent : bool).   (* self.redirect(url, permanent) *)

(* the part of the handler state that matters here *)
Record hstate := mkH {
  h_status : N;
  h_buffered : bool;       (* something is in the write buffer *)
  h_written : bool;        (* self._headers_written: flush() already sent the response head *)
  h_jar : jar              (* self._new_cookie *)
}.

(* RequestHandler.clear(): default headers, empty write buffer, status 200.
   It does NOT touch _new_cookie. *)
Definition h_clear (h : hstate) : hstate := mkH 200 false (h_written h) (h_jar h).

(* send_error: `if self._headers_written: ... finish(); return`; otherwise
   clear(); set_status(code); write_error(); finish() *)
Definition h_send_error (code : N) (h : hstate) : hstate :=
  if h_written h then h
  else let h' := h_clear h in mkH code true false (h_jar h').

Definition h_end (e : ending) (h : hstate) : hstate :=
  match e with
  | EndReturn | EndFinish => h
  | EndHTTPError code => h_send_error code h
  | EndException => h_send_error 500 h
  | EndSendError code => h_send_error code h
  | EndRedirect p =>
      if h_written h then h       (* redirect() raises "Cannot redirect after headers have been written" *)
      else mkH (if p then 301 else 302) (h_buffered h) false (h_jar h)
  end.

(* finish() -> flush(): if the head is still to be written, the status line and
   the Set-Cookie headers of the jar; None when the head already left (nothing
   can be added any more: outside the scope of this property) *)
Definition respond (h : hstate) : option (N * option (list str)) :=
  if h_written h then None else Some (h_status h, flush (h_jar h)).

Definition end_request (e : ending) (h : hstate) : option (N * option (list str)) :=
  respond (h_end e h).

(* one request whose calls are all made before anything is flushed: the calls
   (followed by a body write), then the ending *)
Definition run_request (ops : list op) (e : ending) : list outcome * option (N * option (list str)) :=
  let '(res, j) := run_ops ops in
  (res, end_request e (mkH 200 true false j)).

Definition status_of (e : ending) : N :=
  match e with
  | EndReturn | EndFinish => 200
  | EndHTTPError code | EndSendError code => code
  | EndException => 500
  | EndRedirect p => if p then 301 else 302
  end.
