(* C25 phase 4 — proofs about native_str decoding of bytes names and values. *)
From Coq Require Import List NArith ZArith String Bool Lia.
Import ListNotations.
From TV Require Import Lib.Obs Lib.C21_Utf8 C25.Model C25.Run C25.Proofs C25.Proofs2 C25.Proofs3 C25.Proofs4 C25.ModelP4.
Local Open Scope N_scope.

Lemma lower_set_nv_name : forall o n v, c_name (lower (set_nv o n v)) = n.
Proof. intros [c|c|c] n v; reflexivity. Qed.

Lemma lower_set_nv_value : forall c n v, c_value (lower (set_nv (OpSet c) n v)) = v.
Proof. reflexivity. Qed.

Lemma prepare_Some : forall r o, prepare r = Some o ->
  exists n v, native_str (r_name r) = Some n /\ native_str (r_value r) = Some v /\ o = set_nv (r_op r) n v.
Proof.
  intros r o H. unfold prepare in H.
  destruct (native_str (r_name r)) as [n|]; [|discriminate].
  destruct (native_str (r_value r)) as [v|]; [|discriminate].
  inversion H. eauto.
Qed.

(* bytes arguments: what is read back is exactly the decoded text, and that text
   re-encodes to the bytes that were passed *)
Lemma bytes_roundtrip : forall c bn bv o,
  prepare (mkRaw (OpSet c) (ABytes bn) (ABytes bv)) = Some o ->
  accepted (lower o) = true ->
  exists n v, utf8_decode bn = Some n /\ utf8_decode bv = Some v
    /\ utf8_encode n = Some bn /\ utf8_encode v = Some bv
    /\ parse_cookie (nv_part (output_string (lower o))) = [(n, v)].
Proof.
  intros c bn bv o H A. apply prepare_Some in H as (n & v & Hn & Hv & ->).
  cbn in Hn, Hv. exists n, v. repeat split; auto using utf8_encode_decode.
  apply (value_reads_back _ A).
Qed.

(* the general form: any mix of str / bytes arguments, any of the three entry points *)
Lemma raw_roundtrip : forall r o n,
  prepare r = Some o -> accepted (lower o) = true -> native_str (r_name r) = Some n ->
  parse_cookie (nv_part (output_string (lower o))) = [(n, c_value (lower o))]
  /\ browser_name (output_string (lower o)) = n
  /\ browser_attrs (output_string (lower o)) = requested (lower o).
Proof.
  intros r o n H A Hn. apply prepare_Some in H as (n' & v & Hn' & Hv & ->).
  rewrite Hn in Hn'. inversion Hn'; subst n'.
  assert (E := value_reads_back _ A). rewrite lower_set_nv_name in E.
  destruct (attributes_exact _ A) as [B1 B2]. rewrite lower_set_nv_name in B1. auto.
Qed.

(* a call whose bytes do not decode raises UnicodeDecodeError and changes nothing *)
Lemma decoded_skip : forall l1 r l2, prepare r = None -> decoded (l1 ++ r :: l2) = decoded (l1 ++ l2).
Proof.
  induction l1 as [|a l1 IH]; intros r l2 H; cbn [app decoded].
  - rewrite H. reflexivity.
  - rewrite IH by exact H. reflexivity.
Qed.

Lemma undecodable_changes_nothing : forall l1 r l2,
  prepare r = None ->
  raw_result r = decode_error
  /\ raw_jar (l1 ++ r :: l2) = raw_jar (l1 ++ l2)
  /\ map raw_result (l1 ++ r :: l2) = map raw_result l1 ++ decode_error :: map raw_result l2.
Proof.
  intros l1 r l2 H. split; [unfold raw_result; rewrite H; reflexivity|]. split.
  - unfold raw_jar. rewrite decoded_skip by exact H. reflexivity.
  - rewrite map_app. cbn [map]. unfold raw_result at 2. rewrite H. reflexivity.
Qed.

Lemma invalid_utf8_undecodable : forall o bn av, utf8_decode bn = None ->
  prepare (mkRaw o (ABytes bn) av) = None /\ prepare (mkRaw o av (ABytes bn)) = None.
Proof.
  intros o bn av H. unfold prepare. cbn [r_name r_value native_str]. rewrite H.
  split; [reflexivity|]. destruct (native_str av); reflexivity.
Qed.

(* ---------------- the checker ---------------- *)
Lemma run_case_shape : forall ops e,
  run_case (ops, e)
  = OList [OList (map tag_of (map result_of (map lower ops)));
           OInt (Z.of_N (status_of e));
           out_obs (Some (headers_of (snd (run_ops ops))))].
Proof.
  intros ops e. unfold run_case. rewrite ending_keeps_cookies, results_spec. reflexivity.
Qed.

Lemma tag_not_decode_error : forall x, is_decode_error (tag_of x) = false.
Proof. intros []; reflexivity. Qed.

Lemma strip_decode_model : forall rops,
  strip_decode rops (map raw_result rops)
  = Some (map tag_of (map result_of (map lower (decoded rops)))).
Proof.
  induction rops as [|r rs IH]; [reflexivity|].
  cbn [map strip_decode decoded].
  assert (R : raw_result r = match prepare r with Some o => tag_of (result_of (lower o)) | None => decode_error end)
    by reflexivity.
  destruct (prepare r) as [o|] eqn:E; rewrite R.
  - rewrite tag_not_decode_error, IH. reflexivity.
  - cbn. exact IH.
Qed.

Lemma checker_accepts_raw_model : forall rops e,
  check_case_raw (rops, e) (run_case_raw (rops, e)) = true.
Proof.
  intros rops e. unfold run_case_raw, check_case_raw.
  assert (S := run_case_shape (decoded rops) e). rewrite S.
  rewrite strip_decode_model. rewrite <- S. apply checker_accepts_model.
Qed.

