(* C25 phase 4 — escape.native_str on the name and value arguments of set_cookie:
   str unchanged, bytes decoded as strict UTF-8 (UnicodeDecodeError before
   anything else happens).  Definitions only; layered on Model.v / Run.v. *)
From Coq Require Import List NArith ZArith String Bool.
Import ListNotations.
From TV Require Import Lib.Obs Lib.C21_Utf8 C25.Model C25.Run.
Local Open Scope N_scope.

Inductive arg := AStr (s : str) | ABytes (b : list N).

(* escape.native_str = to_unicode: `value if isinstance(value, str) else value.decode("utf-8")` *)
Definition native_str (a : arg) : option str :=
  match a with AStr s => Some s | ABytes b => utf8_decode b end.

(* one call as the application makes it: the name and value arguments as given
   (the c_name / c_value fields of the call inside r_op are placeholders) *)
Record rawop := mkRaw { r_op : op; r_name : arg; r_value : arg }.

Definition with_nv (c : call) (n v : str) : call :=
  mkCall n v (c_domain c) (c_expires c) (c_expires_days c) (c_now c) (c_path c)
         (c_max_age c) (c_httponly c) (c_secure c) (c_samesite c).

Definition set_nv (o : op) (n v : str) : op :=
  match o with
  | OpSet c => OpSet (with_nv c n v)
  | OpClear c => OpClear (with_nv c n v)
  | OpSigned c => OpSigned (with_nv c n v)
  end.

(* `name = escape.native_str(name); value = escape.native_str(value)`: the first
   two statements of set_cookie.  None = UnicodeDecodeError.  (clear_cookie passes
   value=""; set_signed_cookie passes the signed text: r_value is AStr there.) *)
Definition prepare (r : rawop) : option op :=
  match native_str (r_name r), native_str (r_value r) with
  | Some n, Some v => Some (set_nv (r_op r) n v)
  | _, _ => None
  end.

Fixpoint decoded (rops : list rawop) : list op :=
  match rops with
  | [] => []
  | r :: rs => match prepare r with Some o => o :: decoded rs | None => decoded rs end
  end.

Definition decode_error : obs := OTag "UnicodeDecodeError".

Definition raw_result (r : rawop) : obs :=
  match prepare r with
  | Some o => tag_of (result_of (lower o))
  | None => decode_error
  end.

(* the jar after the calls: only the calls whose arguments decode ever reach it *)
Definition raw_jar (rops : list rawop) : jar := snd (run_ops (decoded rops)).

Definition run_case_raw (i : list rawop * ending) : obs :=
  let '(rops, e) := i in
  match run_case (decoded rops, e) with
  | OList [OList _; st; out] => OList [OList (map raw_result rops); st; out]
  | o => o
  end.

(* the checker: a call whose bytes do not decode must have raised
   UnicodeDecodeError; the other calls must satisfy the property (check_case)
   for the DECODED name and value *)
Definition is_decode_error (o : obs) : bool :=
  match o with OTag s => String.eqb s "UnicodeDecodeError" | _ => false end.

Fixpoint strip_decode (rops : list rawop) (res : list obs) : option (list obs) :=
  match rops, res with
  | [], [] => Some []
  | r :: rs, t :: ts =>
      match prepare r with
      | None => if is_decode_error t then strip_decode rs ts else None
      | Some _ => if is_decode_error t then None
                  else match strip_decode rs ts with Some l => Some (t :: l) | None => None end
      end
  | _, _ => None
  end.

Definition check_case_raw (i : list rawop * ending) (o : obs) : bool :=
  let '(rops, e) := i in
  match o with
  | OList [OList res; st; out] =>
      match strip_decode rops res with
      | Some res' => check_case (decoded rops, e) (OList [OList res'; st; out])
      | None => false
      end
  | _ => false
  end.
