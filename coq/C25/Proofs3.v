(* C25 — sendability of the header, the per-response jar, call sequences. *)
From Coq Require Import List NArith ZArith Bool Arith Lia.
Import ListNotations.
From TV Require Import Lib.Obs C25.Model C25.Run C25.Proofs C25.Proofs2.
Local Open Scope N_scope.

(* ---------------- header characters ---------------- *)
Definition latin1b (s : str) : bool := forallb (fun c => c <? 256) s.
Definition opt_latin1b (o : option str) : bool := match o with Some s => latin1b s | None => true end.
Definition call_latin1 (c : call) : bool :=
  latin1b (c_value c) && opt_latin1b (c_domain c) && opt_latin1b (c_path c) && opt_latin1b (c_samesite c).

Definition hdr_ok (s : str) : Prop := forallb header_char_ok s = true.

Lemma hdr_ok_app : forall a b, hdr_ok a -> hdr_ok b -> hdr_ok (a ++ b).
Proof. intros a b Ha Hb. unfold hdr_ok. rewrite forallb_app, Ha, Hb. reflexivity. Qed.

Lemma hdr_ok_cons : forall c s, header_char_ok c = true -> hdr_ok s -> hdr_ok (c :: s).
Proof. intros c s Hc Hs. unfold hdr_ok. simpl. rewrite Hc, Hs. reflexivity. Qed.

Lemma hdr_ok_Forall : forall s, Forall (fun c => header_char_ok c = true) s -> hdr_ok s.
Proof. intros s H. unfold hdr_ok. apply forallb_forall. rewrite Forall_forall in H. exact H. Qed.

Lemma legal_hdr_ok : forall s, Forall (fun c => legal_char c = true) s -> hdr_ok s.
Proof.
  intros s H. apply hdr_ok_Forall. eapply Forall_impl; [|exact H].
  intros c Hc. apply legal_facts_all in Hc. tauto.
Qed.

Lemma unescaped_hdr : forall c, c < 256 -> implb (unescaped c) (header_char_ok c) = true.
Proof. apply (sweep256 (fun c => implb (unescaped c) (header_char_ok c))). vm_compute. reflexivity. Qed.

Lemma clean_hdr : forall c, c < 256 -> implb (negb (bad_attr_char c)) (header_char_ok c) = true.
Proof. apply (sweep256 (fun c => implb (negb (bad_attr_char c)) (header_char_ok c))). vm_compute. reflexivity. Qed.

Lemma tr_hdr_ok : forall c, c < 256 -> hdr_ok (tr c).
Proof.
  intros c Hc. unfold tr.
  destruct (c =? 34); [reflexivity|]. destruct (c =? 92); [reflexivity|].
  destruct ((c <? 256) && negb (unescaped c)) eqn:Eo.
  - assert (F := oct_chars c Hc). unfold hdr_ok. apply forallb_forall. rewrite forallb_forall in F.
    intros x Hx. apply F in Hx. apply andb_true_iff in Hx. tauto.
  - apply andb_false_iff in Eo. destruct Eo as [Eo|Eo].
    + apply N.ltb_ge in Eo. lia.
    + apply negb_false_iff in Eo. assert (U := unescaped_hdr c Hc). rewrite Eo in U. simpl in U.
      unfold hdr_ok. simpl. rewrite U. reflexivity.
Qed.

Lemma latin1b_Forall : forall s, latin1b s = true -> Forall (fun c => c < 256) s.
Proof.
  intros s H. apply Forall_forall. intros c Hc. unfold latin1b in H. rewrite forallb_forall in H.
  apply N.ltb_lt. auto.
Qed.

Lemma quote_hdr_ok : forall v, latin1b v = true -> hdr_ok (quote v).
Proof.
  intros v H. unfold quote. destruct (legal_key v) eqn:E.
  - apply legal_key_Forall in E as [_ E]. apply legal_hdr_ok, E.
  - apply hdr_ok_cons; [reflexivity|]. apply hdr_ok_app; [|reflexivity].
    apply latin1b_Forall in H. clear E. induction H as [|c v Hc _ IH]; [reflexivity|].
    cbn [flat_map]. apply hdr_ok_app; [apply tr_hdr_ok, Hc|exact IH].
Qed.

Lemma clean_latin1_hdr_ok : forall s, attr_clean s = true -> latin1b s = true -> hdr_ok s.
Proof.
  intros s Hc Hl. apply hdr_ok_Forall. apply attr_clean_chars in Hc. apply latin1b_Forall in Hl.
  rewrite Forall_forall in *. intros c Hin. specialize (Hc c Hin). specialize (Hl c Hin).
  assert (U := clean_hdr c Hl). rewrite Hc in U. exact U.
Qed.

Lemma dec_Z_hdr_ok : forall z, hdr_ok (dec_Z z).
Proof.
  intros z. apply hdr_ok_Forall. eapply Forall_impl; [|apply dec_Z_chars].
  intros c [->|[H1 H2]]; [reflexivity|]. unfold header_char_ok.
  assert (E1 : (32 <=? c) = true) by (apply N.leb_le; lia).
  assert (E2 : (c <=? 126) = true) by (apply N.leb_le; lia).
  rewrite E1, E2. apply orb_true_iff. left. apply orb_true_iff. right. reflexivity.
Qed.

Lemma join_hdr_ok : forall l, Forall hdr_ok l -> hdr_ok (join_semisp l).
Proof.
  intros l H. induction H as [|p ps Hp Hps IH]; [reflexivity|].
  destruct ps as [|q ps]; [exact Hp|].
  change (join_semisp (p :: q :: ps)) with (p ++ semisp ++ join_semisp (q :: ps)).
  apply hdr_ok_app; [exact Hp|]. apply hdr_ok_app; [reflexivity|exact IH].
Qed.

Lemma opt_kv_hdr_ok : forall K o, hdr_ok K -> (forall v, o = Some v -> hdr_ok v) -> Forall hdr_ok (opt_kv K o).
Proof.
  intros K o HK Ho. unfold opt_kv. destruct (truthy o) as [v|] eqn:E; [|constructor].
  apply truthy_Some in E as [E _]. constructor; [|constructor].
  unfold kv. apply hdr_ok_app; [assumption|]. apply hdr_ok_cons; [reflexivity|apply Ho, E].
Qed.

Lemma opt_clean_latin1 : forall o, opt_clean o = true -> opt_latin1b o = true ->
  forall v, o = Some v -> hdr_ok v.
Proof. intros o H1 H2 v ->. apply clean_latin1_hdr_ok; assumption. Qed.

Lemma exp_text_hdr_ok : forall c v, exp_text c = Some v -> hdr_ok v.
Proof.
  intros c v H. apply exp_text_ok in H. unfold okstr in H. unfold hdr_ok.
  apply forallb_forall. rewrite forallb_forall in H. intros x Hx. apply H in Hx.
  apply andb_true_iff in Hx. tauto.
Qed.

Lemma max_age_hdr_ok : forall m v, max_age_text m = Some v -> hdr_ok v.
Proof.
  intros [z|] v H; simpl in H; [|discriminate]. inversion H. apply dec_Z_hdr_ok.
Qed.

Lemma Forall_app_intro' : forall (P : str -> Prop) a b, Forall P a -> Forall P b -> Forall P (a ++ b).
Proof. intros. apply Forall_app. split; assumption. Qed.

(* an accepted call whose texts are Latin-1 yields a header flush() can send *)
Lemma output_sendable : forall c,
  validate c = Ok -> call_latin1 c = true ->
  sendable c = true.
Proof.
  intros c Ha Hl. unfold sendable. destruct (validate_inv c Ha) as (_ & _ & Hd & Hp & Hs & Hk).
  unfold call_latin1 in Hl. repeat (apply andb_true_iff in Hl as [Hl ?]).
  apply key_ok_legal, legal_key_Forall in Hk as [_ Hk].
  apply join_hdr_ok. constructor.
  - unfold name_value, kv. apply hdr_ok_app; [apply legal_hdr_ok, Hk|].
    apply hdr_ok_cons; [reflexivity|apply quote_hdr_ok, Hl].
  - unfold out_attrs. repeat (apply Forall_app_intro'; [|]).
    + apply opt_kv_hdr_ok; [reflexivity|apply opt_clean_latin1; assumption].
    + apply opt_kv_hdr_ok; [reflexivity|apply exp_text_hdr_ok].
    + destruct (c_httponly c); [constructor; [reflexivity|constructor]|constructor].
    + apply opt_kv_hdr_ok; [reflexivity|apply max_age_hdr_ok].
    + apply opt_kv_hdr_ok; [reflexivity|apply opt_clean_latin1; assumption].
    + apply opt_kv_hdr_ok; [reflexivity|apply opt_clean_latin1; assumption].
    + destruct (c_secure c); [constructor; [reflexivity|constructor]|constructor].
Qed.

(* ---------------- the jar ---------------- *)
Definition name_in (n : str) (l : list call) : bool :=
  existsb (fun c' => str_eqb (c_name c') n) l.

Lemma filter_true : forall (A : Type) (f : A -> bool) (l : list A),
  (forall x, In x l -> f x = true) -> filter f l = l.
Proof.
  intros A f l. induction l as [|x l IH]; intros H; simpl; [reflexivity|].
  rewrite (H x (or_introl eq_refl)). f_equal. apply IH. intros y Hy. apply H. right. exact Hy.
Qed.

Lemma filter_andb : forall (A : Type) (p q : A -> bool) (l : list A),
  filter (fun x => p x && q x) l = filter q (filter p l).
Proof.
  intros A p q l. induction l as [|x l IH]; simpl; [reflexivity|].
  destruct (p x); simpl; [destruct (q x); rewrite IH; reflexivity|exact IH].
Qed.

(* ---------------- dedup_last: exactly the last call per name ---------------- *)
Lemma dedup_last_incl : forall l c, In c (dedup_last l) -> In c l.
Proof.
  induction l as [|a l IH]; intros c H; [contradiction|]. cbn [dedup_last] in H.
  destruct (existsb (fun c' => str_eqb (c_name c') (c_name a)) l).
  - right. apply IH, H.
  - destruct H as [H|H]; [left; exact H|right; apply IH, H].
Qed.

Lemma name_in_false : forall n l, name_in n l = false -> ~ In n (map c_name l).
Proof.
  intros n l H Hin. apply in_map_iff in Hin as (c & E & Hc).
  assert (name_in n l = true); [|congruence].
  apply existsb_exists. exists c. split; [exact Hc|]. apply str_eqb_eq. exact E.
Qed.

Lemma name_in_true : forall n l, name_in n l = true -> In n (map c_name l).
Proof.
  intros n l H. apply existsb_exists in H as (c & Hc & E). apply str_eqb_eq in E.
  apply in_map_iff. exists c. split; assumption.
Qed.

Lemma dedup_last_nodup : forall l, NoDup (map c_name (dedup_last l)).
Proof.
  induction l as [|a l IH]; [constructor|]. cbn [dedup_last].
  destruct (existsb (fun c' => str_eqb (c_name c') (c_name a)) l) eqn:E; [exact IH|].
  cbn [map]. constructor; [|exact IH].
  intros Hin. apply in_map_iff in Hin as (c & Ec & Hc). apply dedup_last_incl in Hc.
  apply (name_in_false (c_name a) l E). apply in_map_iff. exists c. split; assumption.
Qed.

Lemma dedup_last_in : forall l c,
  In c (dedup_last l) <->
  exists l1 l2, l = l1 ++ c :: l2 /\ name_in (c_name c) l2 = false.
Proof.
  intros l c. split.
  - induction l as [|a l IH]; intros H; [contradiction|]. cbn [dedup_last] in H.
    destruct (existsb (fun c' => str_eqb (c_name c') (c_name a)) l) eqn:E.
    + destruct (IH H) as (l1 & l2 & -> & Hn). exists (a :: l1), l2. split; [reflexivity|exact Hn].
    + destruct H as [->|H].
      * exists [], l. split; [reflexivity|exact E].
      * destruct (IH H) as (l1 & l2 & -> & Hn). exists (a :: l1), l2. split; [reflexivity|exact Hn].
  - intros (l1 & l2 & -> & Hn). induction l1 as [|a l1 IH].
    + cbn [app dedup_last]. unfold name_in in Hn. rewrite Hn. left. reflexivity.
    + cbn [app dedup_last].
      destruct (existsb (fun c' => str_eqb (c_name c') (c_name a)) (l1 ++ c :: l2)); [exact IH|right; exact IH].
Qed.

Lemma dedup_last_snoc : forall l c,
  dedup_last (l ++ [c])
  = filter (fun x => negb (str_eqb (c_name x) (c_name c))) (dedup_last l) ++ [c].
Proof.
  induction l as [|a l IH]; intros c; [reflexivity|].
  cbn [app dedup_last]. rewrite existsb_app. cbn [existsb]. rewrite orb_false_r.
  destruct (existsb (fun c' => str_eqb (c_name c') (c_name a)) l) eqn:E1; cbn [orb]; [apply IH|].
  destruct (str_eqb (c_name c) (c_name a)) eqn:E2.
  - rewrite IH. cbn [filter]. rewrite (str_eqb_sym (c_name a) (c_name c)), E2. reflexivity.
  - rewrite IH. cbn [filter]. rewrite (str_eqb_sym (c_name a) (c_name c)), E2. reflexivity.
Qed.

(* ---------------- the jar invariant ---------------- *)
Definition jar_inv (j : jar) (l : list call) : Prop :=
  NoDup (map c_name j) /\ forall c, In c j <-> In c (dedup_last l).

Lemma NoDup_map_filter : forall (f : call -> bool) l, NoDup (map c_name l) -> NoDup (map c_name (filter f l)).
Proof.
  intros f l. induction l as [|c l IH]; intros H; [constructor|].
  inversion H as [|? ? Hn Hd]; subst. cbn [filter]. destruct (f c); [|apply IH, Hd].
  cbn [map]. constructor; [|apply IH, Hd].
  intros Hin. apply Hn. apply in_map_iff in Hin as (x & E & Hx). apply filter_In in Hx as [Hx _].
  apply in_map_iff. exists x. split; assumption.
Qed.

Lemma NoDup_snoc : forall (A : Type) (l : list A) x, NoDup l -> ~ In x l -> NoDup (l ++ [x]).
Proof.
  intros A l x H. induction H as [|a l Ha Hl IH]; intros Hx; cbn [app].
  - constructor; [intros []|constructor].
  - constructor.
    + intros Hin. apply in_app_or in Hin as [Hin|[Hin|[]]]; [contradiction|]. apply Hx. left. symmetry. exact Hin.
    + apply IH. intros Hin. apply Hx. right. exact Hin.
Qed.

Lemma jar_del_in : forall n j c, In c (jar_del n j) <-> In c j /\ c_name c <> n.
Proof.
  intros n j c. unfold jar_del. rewrite filter_In. rewrite negb_true_iff, str_eqb_neq. tauto.
Qed.

Lemma jar_del_noname : forall n j, ~ In n (map c_name (jar_del n j)).
Proof.
  intros n j H. apply in_map_iff in H as (c & E & Hc). apply jar_del_in in Hc as [_ Hc]. contradiction.
Qed.

Lemma nodup_name_unique : forall j x y,
  NoDup (map c_name j) -> In x j -> In y j -> c_name x = c_name y -> x = y.
Proof.
  induction j as [|a j IH]; intros x y H Hx Hy E; [contradiction|].
  inversion H as [|? ? Hn Hd]; subst. destruct Hx as [->|Hx], Hy as [->|Hy]; auto.
  - exfalso. apply Hn. rewrite E. apply in_map, Hy.
  - exfalso. apply Hn. rewrite <- E. apply in_map, Hx.
Qed.

Lemma inv_set : forall j l c, jar_inv j l -> jar_inv (jar_set c j) (l ++ [c]).
Proof.
  intros j l c [Hn Hm]. unfold jar_set. split.
  - rewrite map_app. cbn [map]. apply NoDup_snoc; [apply NoDup_map_filter, Hn|apply jar_del_noname].
  - intros x. rewrite dedup_last_snoc, !in_app_iff, jar_del_in, filter_In, negb_true_iff, str_eqb_neq, Hm. tauto.
Qed.

Lemma jar_find_some : forall n j p, jar_find n j = Some p -> In p j /\ c_name p = n.
Proof.
  intros n j p H. unfold jar_find in H. apply find_some in H as [H1 H2]. apply str_eqb_eq in H2. tauto.
Qed.

Lemma inv_restore : forall j l n p, jar_inv j l -> jar_find n j = Some p -> jar_inv (jar_del n j ++ [p]) l.
Proof.
  intros j l n p [Hn Hm] Hf. apply jar_find_some in Hf as [Hp En]. split.
  - rewrite map_app. cbn [map]. rewrite En. apply NoDup_snoc; [apply NoDup_map_filter, Hn|apply jar_del_noname].
  - intros x. rewrite <- Hm, in_app_iff, jar_del_in. split.
    + intros [[H _]|[<-|[]]]; assumption.
    + intros Hx. destruct (str_eqb (c_name x) n) eqn:E.
      * right. left. apply str_eqb_eq in E. apply (nodup_name_unique j); congruence.
      * left. split; [exact Hx|apply str_eqb_neq, E].
Qed.

Lemma run_inv : forall ops res j l, jar_inv j l ->
  fst (fold_left step ops (res, j)) = res ++ map result_of (map lower ops)
  /\ jar_inv (snd (fold_left step ops (res, j))) (l ++ filter accepted (map lower ops)).
Proof.
  induction ops as [|o ops IH]; intros res j l Hi.
  - cbn. rewrite !app_nil_r. split; [reflexivity|exact Hi].
  - cbn [fold_left map filter]. unfold step at 2 4. cbn [fst snd].
    assert (A : accepted (lower o) = match validate (lower o) with
                                     | Ok => sendable (lower o) | _ => false end).
    { unfold accepted, result_of. destruct (validate (lower o)); try reflexivity. destruct (sendable (lower o)); reflexivity. }
    assert (B : result_of (lower o) = match validate (lower o) with
                                      | Ok => if sendable (lower o) then Ok else ValueErr | e => e end) by reflexivity.
    destruct (validate (lower o)) eqn:E.
    + unfold jar_apply. destruct (sendable (lower o)) eqn:S; rewrite A.
      * destruct (IH (res ++ [result_of (lower o)]) (jar_set (lower o) j) (l ++ [lower o]) (inv_set j l _ Hi)) as [I1 I2].
        rewrite I1, <- !app_assoc in *. split; [reflexivity|exact I2].
      * destruct (jar_find (c_name (lower o)) j) as [p|] eqn:F.
        -- destruct (IH (res ++ [result_of (lower o)]) _ l (inv_restore j l _ p Hi F)) as [I1 I2].
           rewrite I1, <- !app_assoc. split; [reflexivity|exact I2].
        -- destruct (IH (res ++ [result_of (lower o)]) j l Hi) as [I1 I2].
           rewrite I1, <- !app_assoc. split; [reflexivity|exact I2].
    + rewrite A. destruct (IH (res ++ [ValueErr]) j l Hi) as [I1 I2].
      rewrite I1, <- !app_assoc, B. split; [reflexivity|exact I2].
    + rewrite A. destruct (IH (res ++ [CookieErr]) j l Hi) as [I1 I2].
      rewrite I1, <- !app_assoc, B. split; [reflexivity|exact I2].
    + rewrite A. destruct (IH (res ++ [OSErr]) j l Hi) as [I1 I2].
      rewrite I1, <- !app_assoc, B. split; [reflexivity|exact I2].
    + rewrite A. destruct (IH (res ++ [OverflowErr]) j l Hi) as [I1 I2].
      rewrite I1, <- !app_assoc, B. split; [reflexivity|exact I2].
Qed.

Lemma run_ops_inv : forall ops,
  fst (run_ops ops) = map result_of (map lower ops)
  /\ jar_inv (snd (run_ops ops)) (filter accepted (map lower ops)).
Proof.
  intros ops. unfold run_ops.
  assert (H0 : jar_inv [] []) by (split; [constructor|intros c; reflexivity]).
  destruct (run_inv ops [] [] [] H0) as [I1 I2]. split; assumption.
Qed.
