(* C25 — the next request's cookies, whole-response statements, the checker. *)
From Coq Require Import List NArith ZArith Bool Arith Lia Permutation.
Import ListNotations.
From TV Require Import Lib.Obs C25.Model C25.Run C25.Proofs C25.Proofs2 C25.Proofs3.
Local Open Scope N_scope.

Definition pair_of (c : call) : str * str := (c_name c, c_value c).

(* ---------------- dict_set ---------------- *)
Lemma dict_set_fresh : forall k v d, ~ In k (map fst d) -> dict_set k v d = d ++ [(k, v)].
Proof.
  intros k v d. induction d as [|[k' v'] d IH]; intros H; [reflexivity|].
  cbn [dict_set]. destruct (str_eqb k' k) eqn:E.
  - apply str_eqb_eq in E. subst. exfalso. apply H. left. reflexivity.
  - cbn [app]. f_equal. apply IH. intros Hin. apply H. right. exact Hin.
Qed.

Definition pc_step (d : list (str * str)) (chunk : str) : list (str * str) :=
  match parse_chunk chunk with Some (k, v) => dict_set k v d | None => d end.

Lemma parse_cookie_unfold : forall h, parse_cookie h = fold_left pc_step (split_on 59 h) [].
Proof. reflexivity. Qed.

Lemma fold_chunks : forall j d,
  Forall (fun c => legal_key (c_name c) = true) j -> NoDup (map c_name j) ->
  (forall c, In c j -> ~ In (c_name c) (map fst d)) ->
  fold_left pc_step (map (cons 32) (map name_value j)) d = d ++ map pair_of j.
Proof.
  induction j as [|c j IH]; intros d Hl Hn Hd.
  - simpl. rewrite app_nil_r. reflexivity.
  - inversion Hl as [|? ? Hc Hl']; subst. inversion Hn as [|? ? Hnc Hn']; subst.
    cbn [map fold_left]. unfold pc_step at 2.
    assert (E := parse_chunk_nv [32] c). cbn [app] in E. rewrite E; [|repeat constructor|repeat constructor; lia|exact Hc].
    rewrite dict_set_fresh by (apply Hd; left; reflexivity).
    rewrite IH; [rewrite <- app_assoc; reflexivity|assumption|assumption|].
    intros c' Hc' Hin. rewrite map_app in Hin. apply in_app_or in Hin as [Hin|Hin].
    + apply (Hd c'); [right; exact Hc'|exact Hin].
    + cbn in Hin. destruct Hin as [Hin|[]]. apply Hnc. rewrite Hin. apply in_map, Hc'.
Qed.

Lemma cookie_header_jar : forall j,
  Forall (fun c => legal_key (c_name c) = true) j ->
  cookie_header (headers_of j) = join_semisp (map name_value j).
Proof.
  intros j H. unfold cookie_header, headers_of. rewrite map_map. f_equal.
  apply map_ext_in. intros c Hc. rewrite Forall_forall in H. apply nv_part_output, H, Hc.
Qed.

Lemma parse_cookie_jar : forall j,
  Forall (fun c => legal_key (c_name c) = true) j -> NoDup (map c_name j) ->
  parse_cookie (cookie_header (headers_of j)) = map pair_of j.
Proof.
  intros j Hl Hn. rewrite cookie_header_jar by assumption. rewrite parse_cookie_unfold.
  destruct j as [|c j]; [reflexivity|].
  inversion Hl as [|? ? Hc Hl']; subst. inversion Hn as [|? ? Hnc Hn']; subst.
  cbn [map]. rewrite split_on_join.
  2:{ apply Forall_forall. intros x Hx. change (In x (map name_value (c :: j))) in Hx.
      apply in_map_iff in Hx as (c' & <- & Hc'). apply nv_nosemi. rewrite Forall_forall in Hl. apply Hl, Hc'. }
  cbn [fold_left]. unfold pc_step at 2.
  assert (E := parse_chunk_nv [] c (Forall_nil _) (Forall_nil _) Hc). cbn [app] in E. rewrite E.
  cbn [dict_set]. rewrite fold_chunks; [reflexivity|assumption|assumption|].
  intros c' Hc' [Hin|[]]. cbn in Hin. apply Hnc. rewrite Hin. apply in_map, Hc'.
Qed.

Lemma request_cookies_jar : forall j,
  Forall (fun c => key_ok (c_name c) = true) j -> NoDup (map c_name j) ->
  request_cookies (cookie_header (headers_of j)) = map pair_of j.
Proof.
  intros j Hk Hn. unfold request_cookies. rewrite parse_cookie_jar; [|
    eapply Forall_impl; [|exact Hk]; intros c; apply key_ok_legal|assumption].
  apply filter_true. intros [k v] Hin. apply in_map_iff in Hin as (c & E & Hc).
  inversion E; subst. rewrite Forall_forall in Hk. apply Hk, Hc.
Qed.

(* ---------------- whole responses ---------------- *)
Definition calls_of (ops : list op) : list call := filter accepted (map lower ops).

Lemma results_spec : forall ops, fst (run_ops ops) = map result_of (map lower ops).
Proof. intros ops. apply run_ops_inv. Qed.

Lemma jar_same_members : forall ops c,
  In c (snd (run_ops ops)) <-> In c (dedup_last (calls_of ops)).
Proof. intros ops. apply run_ops_inv. Qed.

Lemma jar_nodup : forall ops, NoDup (map c_name (snd (run_ops ops))).
Proof. intros ops. apply run_ops_inv. Qed.

Lemma jar_members : forall ops c, In c (snd (run_ops ops)) -> In c (calls_of ops) /\ accepted c = true.
Proof.
  intros ops c H. apply jar_same_members, dedup_last_incl in H.
  split; [exact H|]. apply filter_In in H. tauto.
Qed.

(* membership: exactly the calls that returned normally and are the last such
   call of their name *)
Lemma jar_in : forall ops c,
  In c (snd (run_ops ops)) <->
  exists l1 l2, calls_of ops = l1 ++ c :: l2 /\ name_in (c_name c) l2 = false.
Proof. intros ops c. rewrite jar_same_members. apply dedup_last_in. Qed.

(* a response whose calls returned normally can always be sent *)
Lemma flush_sends : forall ops,
  flush (snd (run_ops ops)) = Some (headers_of (snd (run_ops ops))).
Proof.
  intros ops. unfold flush.
  assert (E : forallb (forallb header_char_ok) (headers_of (snd (run_ops ops))) = true).
  { apply forallb_forall. intros h Hh. unfold headers_of in Hh. apply in_map_iff in Hh as (c & <- & Hc).
    apply jar_members in Hc as [_ Ha]. apply accepted_split in Ha as [_ Ha]. exact Ha. }
  rewrite E. reflexivity.
Qed.

Lemma jar_keys_ok : forall ops, Forall (fun c => key_ok (c_name c) = true) (snd (run_ops ops)).
Proof.
  intros ops. apply Forall_forall. intros c Hc. apply jar_members in Hc as [_ Ha].
  apply accepted_inv in Ha. tauto.
Qed.

Lemma jar_length : forall ops, length (snd (run_ops ops)) = length (dedup_last (calls_of ops)).
Proof.
  intros ops. apply Permutation.Permutation_length. apply Permutation.NoDup_Permutation.
  - eapply NoDup_map_inv, jar_nodup.
  - eapply NoDup_map_inv, dedup_last_nodup.
  - apply jar_same_members.
Qed.

(* ---------------- the checker accepts the model ---------------- *)
Lemma ostr_eqb_refl : forall o, ostr_eqb o o = true.
Proof. intros [s|]; simpl; [apply str_eqb_refl|reflexivity]. Qed.

Lemma list_eqb_refl : forall (A : Type) (eqb : A -> A -> bool) (l : list A),
  (forall x, eqb x x = true) -> list_eqb eqb l l = true.
Proof. intros A eqb l H. induction l as [|x l IH]; simpl; [reflexivity|]. rewrite H, IH. reflexivity. Qed.

Lemma attr_eqb_refl : forall a, attr_eqb a a = true.
Proof. intros [k v]. unfold attr_eqb. cbn [fst snd]. rewrite str_eqb_refl, ostr_eqb_refl. reflexivity. Qed.

Lemma pair_eqb_refl : forall a, pair_eqb a a = true.
Proof. intros [k v]. unfold pair_eqb. cbn [fst snd]. rewrite !str_eqb_refl. reflexivity. Qed.

Lemma header_matches_output : forall c,
  accepted c = true -> header_matches c (output_string c) = true.
Proof.
  intros c Ha.
  assert (Hk : legal_key (c_name c) = true) by (apply key_ok_legal; apply accepted_inv in Ha; tauto).
  apply accepted_split in Ha as [Hv _].
  unfold header_matches.
  rewrite browser_name_output, browser_attrs_output, attrs_exact, value_roundtrip by assumption.
  rewrite str_eqb_refl, (list_eqb_refl _ attr_eqb _ attr_eqb_refl).
  cbn [list_eqb]. rewrite pair_eqb_refl. reflexivity.
Qed.

Lemma find_call_in : forall l c, NoDup (map c_name l) -> In c l -> find_call (c_name c) l = Some c.
Proof.
  induction l as [|a l IH]; intros c Hn Hc; [contradiction|].
  inversion Hn as [|? ? Ha Hd]; subst. unfold find_call. cbn [find].
  destruct (str_eqb (c_name a) (c_name c)) eqn:E.
  - apply str_eqb_eq in E. f_equal. apply (nodup_name_unique (a :: l)); auto. left. reflexivity.
  - destruct Hc as [->|Hc]; [rewrite str_eqb_refl in E; discriminate|]. apply IH; assumption.
Qed.

Lemma pairs_of_obs_pair : forall l, pairs_of (map obs_pair l) = Some l.
Proof.
  induction l as [|[k v] l IH]; [reflexivity|]. cbn [map pairs_of obs_pair fst snd]. rewrite IH. reflexivity.
Qed.

Lemma ok_calls_model : forall cs,
  ok_calls cs (map tag_of (map result_of cs)) = Some (filter accepted cs).
Proof.
  induction cs as [|c cs IH]; [reflexivity|]. cbn [map ok_calls filter]. rewrite IH.
  assert (A : is_ok (tag_of (result_of c)) = accepted c) by (unfold accepted; destruct (result_of c); reflexivity).
  rewrite A. reflexivity.
Qed.

(* ---------------- the end of the request ---------------- *)
(* for ANY handler state whose head has not been written yet, and any ending:
   the response has the status of that ending (the current status for a normal
   return) and the Set-Cookie headers of the whole jar *)
Definition status_after (e : ending) (h : hstate) : N :=
  match e with EndReturn | EndFinish => h_status h | _ => status_of e end.

Lemma end_request_keeps_jar : forall e h, h_written h = false ->
  end_request e h = Some (status_after e h, flush (h_jar h)).
Proof.
  intros e h Hw. unfold end_request, respond.
  destruct e; cbn [h_end status_after status_of]; unfold h_send_error, h_clear; rewrite ?Hw; cbn; rewrite ?Hw; reflexivity.
Qed.

Lemma ending_keeps_cookies : forall ops e,
  run_request ops e
  = (fst (run_ops ops), Some (status_of e, Some (headers_of (snd (run_ops ops))))).
Proof.
  intros ops e. unfold run_request. assert (Hf := flush_sends ops).
  destruct (run_ops ops) as [res j]. cbn [fst snd] in *.
  rewrite end_request_keeps_jar by reflexivity. cbn [h_jar]. rewrite Hf.
  destruct e; reflexivity.
Qed.

Lemma checker_accepts_model : forall ops e,
  check_case (ops, e) (run_case (ops, e)) = true.
Proof.
  intros ops e.
  assert (Hk := jar_keys_ok ops). assert (Hn := jar_nodup ops).
  assert (Hm := jar_same_members ops). assert (Hlen := jar_length ops). assert (Hr := results_spec ops).
  assert (Hmem := jar_members ops).
  unfold run_case. rewrite ending_keeps_cookies.
  destruct (run_ops ops) as [res j]. cbn [fst snd] in *. subst res.
  unfold check_case. rewrite Z.eqb_refl. cbn [andb]. rewrite ok_calls_model. fold (calls_of ops).
  unfold out_obs. rewrite request_cookies_jar by assumption.
  unfold headers_of. rewrite !map_length, Hlen, Nat.eqb_refl. cbn [andb].
  assert (H1 : forallb (header_expected (dedup_last (calls_of ops))) (map OBytes (map output_string j)) = true).
  { apply forallb_forall. intros h Hh. apply in_map_iff in Hh as (h' & <- & Hh).
    apply in_map_iff in Hh as (c & <- & Hc). destruct (Hmem c Hc) as [Hc1 Ha].
    assert (Hkc : legal_key (c_name c) = true) by (apply key_ok_legal; apply accepted_inv in Ha; tauto).
    unfold header_expected. rewrite browser_name_output by exact Hkc.
    rewrite (find_call_in _ c (dedup_last_nodup _) (proj1 (Hm c) Hc)).
    apply header_matches_output; exact Ha. }
  assert (H2 : forallb (fun c => existsb (str_eqb (c_name c)) (map header_name (map OBytes (map output_string j))))
                       (dedup_last (calls_of ops)) = true).
  { apply forallb_forall. intros c Hc. apply Hm in Hc. apply existsb_exists.
    exists (c_name c). split; [|apply str_eqb_refl].
    destruct (Hmem c Hc) as [_ Ha].
    assert (Hkc : legal_key (c_name c) = true) by (apply key_ok_legal; apply accepted_inv in Ha; tauto).
    rewrite <- (browser_name_output c Hkc). rewrite !map_map. cbn [header_name].
    apply (in_map (fun x => browser_name (output_string x))), Hc. }
  rewrite H1, H2. cbn [andb]. rewrite pairs_of_obs_pair, map_length, Hlen, Nat.eqb_refl. cbn [andb].
  apply forallb_forall. intros c Hc. apply Hm in Hc. apply existsb_exists.
  exists (pair_of c). split; [apply in_map, Hc|apply pair_eqb_refl].
Qed.

(* ---------------- a rejected re-set keeps the earlier setting ---------------- *)
(* set_cookie("a","1"); set_cookie("b","2"); set_cookie("a", chr(0x20ac)) -> ValueError:
   both earlier cookies are still sent ("a" is now the last header) *)
Definition w_a : call := mkCall [97] [49] None None None 0%Z (Some [47]) None false false None.
Definition w_b : call := mkCall [98] [50] None None None 0%Z (Some [47]) None false false None.
Definition w_bad : call := mkCall [97] [8364] None None None 0%Z (Some [47]) None false false None.

Lemma failed_reset_example :
  run_ops [OpSet w_a; OpSet w_b; OpSet w_bad] = ([Ok; Ok; ValueErr], [w_b; w_a]).
Proof. vm_compute. reflexivity. Qed.

(* ---------------- statements used by Property.v ---------------- *)
Lemma header_names_distinct : forall ops,
  NoDup (map browser_name (headers_of (snd (run_ops ops)))).
Proof.
  intros ops. unfold headers_of. rewrite map_map.
  rewrite (map_ext_in _ c_name); [apply jar_nodup|].
  intros c Hc. apply browser_name_output, key_ok_legal.
  assert (H := jar_keys_ok ops). rewrite Forall_forall in H. apply H, Hc.
Qed.

Lemma bad_attribute_rejected : forall c,
  attr_clean (c_name c) = false \/ opt_clean (c_domain c) = false
  \/ opt_clean (c_path c) = false \/ opt_clean (c_samesite c) = false ->
  accepted c = false.
Proof.
  intros c H. destruct (accepted c) eqn:A; [|reflexivity].
  apply accepted_inv in A. destruct A as (_ & A1 & A2 & A3 & A4 & _).
  destruct H as [H|[H|[H|H]]]; congruence.
Qed.

Lemma latin1_call_accepted : forall c,
  validate c = Ok -> call_latin1 c = true -> accepted c = true.
Proof.
  intros c Hv Hl. apply accepted_split. split; [exact Hv|apply output_sendable; assumption].
Qed.

Lemma attributes_exact : forall c, accepted c = true ->
  browser_name (output_string c) = c_name c /\ browser_attrs (output_string c) = requested c.
Proof.
  intros c Ha.
  assert (Hk : legal_key (c_name c) = true) by (apply key_ok_legal; apply accepted_inv in Ha; tauto).
  apply accepted_split in Ha as [Hv _]. split; [apply browser_name_output, Hk|].
  rewrite browser_attrs_output by assumption. apply attrs_exact.
Qed.

Lemma value_reads_back : forall c, accepted c = true ->
  parse_cookie (nv_part (output_string c)) = [(c_name c, c_value c)].
Proof. intros c Ha. apply value_roundtrip, key_ok_legal. apply accepted_inv in Ha. tauto. Qed.

Lemma next_request_cookies : forall ops,
  request_cookies (cookie_header (headers_of (snd (run_ops ops))))
  = map pair_of (snd (run_ops ops)).
Proof. intros ops. apply request_cookies_jar; [apply jar_keys_ok|apply jar_nodup]. Qed.

(* a concrete call with every attribute, for the Examples *)
Definition ex_full : call :=
  mkCall [115;105;100] [97;59;34;92;233] (Some [101;46;99;111;109])
         (Some 951782400%Z) (Some 30%Z) 1767323045%Z
         (Some [47;112]) (Some 0%Z) true true (Some [76;97;120]).

Lemma clear_cookie_reads_back_empty : forall c, accepted (lower (OpClear c)) = true ->
  parse_cookie (nv_part (output_string (lower (OpClear c)))) = [(c_name c, [])].
Proof. intros c H. exact (value_reads_back _ H). Qed.

Lemma signed_cookie_reads_back : forall c, accepted (lower (OpSigned c)) = true ->
  parse_cookie (nv_part (output_string (lower (OpSigned c)))) = [(c_name c, c_value c)].
Proof. intros c H. exact (value_reads_back _ H). Qed.

Lemma validate_expiry : forall c, validate c = Ok -> expiry_check c = Ok.
Proof.
  intros c H. unfold validate in H.
  destruct (existsb bad_value_char (c_value c)); [discriminate|].
  destruct (negb (attr_clean (c_name c) && opt_clean (c_domain c) && opt_clean (c_path c) && opt_clean (c_samesite c)));
    [discriminate|].
  destruct (expiry_check c); try discriminate. reflexivity.
Qed.

(* an expiry that format_timestamp cannot represent makes the call raise (and,
   by C25_last_setting_wins, a call that raises changes nothing) *)
Lemma unrepresentable_expiry_rejected : forall c, expiry_check c <> Ok -> accepted c = false.
Proof.
  intros c H. destruct (accepted c) eqn:A; [|reflexivity].
  apply accepted_split in A as [A _]. apply validate_expiry in A. contradiction.
Qed.

(* every accepted call's expiry lies in years 1..9999 (or is absent / falsy) *)
Lemma accepted_expiry_in_range : forall c, accepted c = true ->
  match effective_expiry c with
  | EffNone => True
  | EffTs t | EffDays t => (-62135596800 <= t < 253402300800)%Z
  end.
Proof.
  intros c A. apply accepted_split in A as [A _]. apply validate_expiry in A.
  unfold expiry_check in A. destruct (effective_expiry c) as [|t|t]; [exact I| |].
  - unfold expiry_outcome in A.
    destruct ((-62135596800 <=? t) && (t <? 253402300800))%Z eqn:R.
    + apply andb_true_iff in R as [R1 R2]. apply Z.leb_le in R1. apply Z.ltb_lt in R2. lia.
    + destruct ((-67768040609740800 <=? t) && (t <? 67768036191676800))%Z; [discriminate|].
      destruct ((-9223372036854775808 <=? t) && (t <? 9223372036854775808))%Z; discriminate.
  - destruct ((-62135596800 <=? t) && (t <? 253402300800))%Z eqn:R; [|discriminate].
    apply andb_true_iff in R as [R1 R2]. apply Z.leb_le in R1. apply Z.ltb_lt in R2. lia.
Qed.

(* "if both are set, expires is used": the Expires attribute a user agent reads
   is the text of the explicit (truthy) expires, whatever expires_days is *)
Lemma explicit_expires_wins : forall c t, accepted c = true -> c_expires c = Some t -> t <> 0%Z ->
  In (S_expires, Some (format_ts t)) (browser_attrs (output_string c)).
Proof.
  intros c t A E Hz. destruct (attributes_exact c A) as [_ Hb]. rewrite Hb.
  unfold requested. apply in_or_app. right. apply in_or_app. left.
  unfold req_opt, exp_text, effective_expiry. rewrite E. apply Z.eqb_neq in Hz. rewrite Hz.
  unfold truthy. destruct (format_ts t) eqn:F; [|left; reflexivity].
  exfalso. unfold format_ts in F. destruct (civil (Z.to_N (t + epoch_offset) / 86400)) as [[y m] d].
  apply app_eq_nil in F as [_ F]. discriminate.
Qed.

(* without an explicit expires, expires_days gives now + days *)
Lemma expires_days_used : forall c d, accepted c = true ->
  (c_expires c = None \/ c_expires c = Some 0%Z) -> c_expires_days c = Some d ->
  exp_text c = Some (format_ts (c_now c + 86400 * d)).
Proof.
  intros c d _ [E|E] D; unfold exp_text, effective_expiry, days_path; rewrite E, D; reflexivity.
Qed.

(* clear_cookie always asks for now - 365 days, even when expires_days is passed *)
Lemma clear_cookie_expiry : forall c, c_now c <> 31536000%Z ->
  exp_text (lower (OpClear c)) = Some (format_ts (c_now c - 31536000)).
Proof.
  intros c H. unfold exp_text, effective_expiry. cbn [lower c_expires].
  destruct (c_now c - 31536000 =? 0)%Z eqn:E; [apply Z.eqb_eq in E; lia|reflexivity].
Qed.
