(* C25 — Outgoing cookies are emitted exactly as set.
   Property theorems only; proofs are in Proofs*.v.

   Vocabulary (Model.v): a [call] is one set_cookie call (clear_cookie and
   set_signed_cookie are lowered to it by [lower]); [accepted c] = the call
   returns normally; [output_string c] = the Set-Cookie header value emitted
   for it; [run_ops ops] = (outcome of every call, the handler's cookie jar);
   [flush] = what RequestHandler.flush puts on the wire; [parse_cookie] /
   [request_cookies] = Tornado's request-side cookie parser; [browser_name] /
   [browser_attrs] / [nv_part] / [cookie_header] = an RFC 6265-style user agent. *)
From Coq Require Import List NArith ZArith Bool.
Import ListNotations.
From TV Require Import Lib.C21_Utf8 C25.Model C25.Run C25.Proofs2 C25.Proofs3 C25.Proofs4 C25.ModelP4 C25.ProofsP4.

(* 1. A call that returns normally emits a header whose name=value part is read
      back by Tornado's cookie parser as exactly that name and value: all names,
      all values (separators, quotes, backslashes, non-ASCII), all attributes. *)
Theorem C25_value_reads_back :
  forall c, accepted c = true ->
    parse_cookie (nv_part (output_string c)) = [(c_name c, c_value c)].
Proof. exact value_reads_back. Qed.
Print Assumptions C25_value_reads_back.
Example C25_value_reads_back_ex : accepted ex_full = true.
Proof. vm_compute. reflexivity. Qed.

(* clear_cookie emits an empty value; set_signed_cookie's signed value (opaque
   here; C23 covers it) reads back unchanged. *)
Theorem C25_clear_cookie_reads_back_empty :
  forall c, accepted (lower (OpClear c)) = true ->
    parse_cookie (nv_part (output_string (lower (OpClear c)))) = [(c_name c, [])].
Proof. exact clear_cookie_reads_back_empty. Qed.
Print Assumptions C25_clear_cookie_reads_back_empty.

Theorem C25_signed_cookie_reads_back :
  forall c, accepted (lower (OpSigned c)) = true ->
    parse_cookie (nv_part (output_string (lower (OpSigned c)))) = [(c_name c, c_value c)].
Proof. exact signed_cookie_reads_back. Qed.
Print Assumptions C25_signed_cookie_reads_back.

(* 2. ... and a user agent reads exactly the requested name and exactly the
      requested attributes, in Morsel order, nothing injected, nothing dropped.
      (The expiry text is no longer an assumption: format_timestamp is modelled,
      see C25_expiry_text_is_attribute_safe.) *)
Theorem C25_attributes_exact :
  forall c, accepted c = true ->
    browser_name (output_string c) = c_name c /\
    browser_attrs (output_string c) = requested c.
Proof. exact attributes_exact. Qed.
Print Assumptions C25_attributes_exact.
Example C25_attributes_exact_ex :
  accepted ex_full = true /\ length (requested ex_full) = 7%nat.
Proof. vm_compute. repeat split; reflexivity. Qed.

(* httputil.format_timestamp of every timestamp is free of ";" and of anything a
   header refuses. *)
Theorem C25_expiry_text_is_attribute_safe :
  forall t, forallb (fun x => negb (N.eqb x 59) && header_char_ok x) (format_ts t) = true.
Proof. exact format_ts_ok. Qed.
Print Assumptions C25_expiry_text_is_attribute_safe.
Example C25_format_ts_leap_day :
  format_ts 951782400%Z =
  [84;117;101;44;32;50;57;32;70;101;98;32;50;48;48;48;32;48;48;58;48;48;58;48;48;32;71;77;84]%N.
Proof. vm_compute. reflexivity. Qed.   (* "Tue, 29 Feb 2000 00:00:00 GMT" *)

(* An expiry outside years 1..9999 makes the call raise before the jar is touched;
   accepted calls have a representable expiry. *)
Theorem C25_unrepresentable_expiry_raises :
  forall c, expiry_check c <> Ok -> accepted c = false.
Proof. exact unrepresentable_expiry_rejected. Qed.
Print Assumptions C25_unrepresentable_expiry_raises.

Theorem C25_accepted_expiry_is_representable :
  forall c, accepted c = true ->
    match effective_expiry c with
    | EffNone => True
    | EffTs t | EffDays t => (-62135596800 <= t < 253402300800)%Z
    end.
Proof. exact accepted_expiry_in_range. Qed.
Print Assumptions C25_accepted_expiry_is_representable.

(* "if both are set, expires is used": an explicit expires is the Expires the user
   agent reads, whatever expires_days says (also through set_signed_cookie's default
   expires_days=30); without it expires_days gives now + days; clear_cookie always
   asks for now - 365 days even when an expires_days keyword is passed. *)
Theorem C25_explicit_expires_wins :
  forall c t, accepted c = true -> c_expires c = Some t -> t <> 0%Z ->
    In (S_expires, Some (format_ts t)) (browser_attrs (output_string c)).
Proof. exact explicit_expires_wins. Qed.
Print Assumptions C25_explicit_expires_wins.
Example C25_explicit_expires_wins_ex :
  accepted ex_full = true /\ c_expires ex_full = Some 951782400%Z /\ c_expires_days ex_full = Some 30%Z.
Proof. vm_compute. repeat split; reflexivity. Qed.

Theorem C25_expires_days_used_otherwise :
  forall c d, accepted c = true ->
    (c_expires c = None \/ c_expires c = Some 0%Z) -> c_expires_days c = Some d ->
    exp_text c = Some (format_ts (c_now c + 86400 * d)).
Proof. exact expires_days_used. Qed.
Print Assumptions C25_expires_days_used_otherwise.

Theorem C25_clear_cookie_expiry_is_in_the_past :
  forall c, c_now c <> 31536000%Z ->
    exp_text (lower (OpClear c)) = Some (format_ts (c_now c - 31536000)).
Proof. exact clear_cookie_expiry. Qed.
Print Assumptions C25_clear_cookie_expiry_is_in_the_past.

(* The Max-Age text is the decimal numeral of the requested integer. *)
Theorem C25_max_age_text_denotes_the_number :
  forall z, undec_Z (dec_Z z) = z.
Proof. exact undec_Z_dec_Z. Qed.
Print Assumptions C25_max_age_text_denotes_the_number.

(* 3. A separator, blank or control character in the name, domain, path or
      samesite makes the call raise. *)
Theorem C25_unsafe_attribute_raises :
  forall c,
    attr_clean (c_name c) = false \/ opt_clean (c_domain c) = false
    \/ opt_clean (c_path c) = false \/ opt_clean (c_samesite c) = false ->
    accepted c = false.
Proof. exact bad_attribute_rejected. Qed.
Print Assumptions C25_unsafe_attribute_raises.

(* 4. Whatever the calls were, the response can be sent: flush never refuses a
      cookie header of a call that returned normally, and emits exactly the
      headers of the jar. *)
Theorem C25_returned_normally_is_sent :
  forall ops, flush (snd (run_ops ops)) = Some (map output_string (snd (run_ops ops))).
Proof. exact flush_sends. Qed.
Print Assumptions C25_returned_normally_is_sent.

(* ... and calls are not refused needlessly: arguments that pass the checks and
   are Latin-1 are accepted. *)
Theorem C25_latin1_calls_are_accepted :
  forall c, validate c = Ok -> call_latin1 c = true -> accepted c = true.
Proof. exact latin1_call_accepted. Qed.
Print Assumptions C25_latin1_calls_are_accepted.

(* 5. Last setting wins, for every sequence of calls: the jar holds exactly the
      calls that returned normally and were not followed by another such call
      of the same name; a call that raised changes nothing; one header per name. *)
Theorem C25_last_setting_wins :
  forall ops c,
    In c (snd (run_ops ops)) <->
    exists l1 l2, filter accepted (map lower ops) = l1 ++ c :: l2 /\ name_in (c_name c) l2 = false.
Proof. exact jar_in. Qed.
Print Assumptions C25_last_setting_wins.

Theorem C25_one_header_per_name :
  forall ops, NoDup (map browser_name (headers_of (snd (run_ops ops)))).
Proof. exact header_names_distinct. Qed.
Print Assumptions C25_one_header_per_name.

Theorem C25_outcomes_are_per_call :
  forall ops, fst (run_ops ops) = map result_of (map lower ops).
Proof. exact results_spec. Qed.
Print Assumptions C25_outcomes_are_per_call.

(* 6. The next request, carrying the name=value part of every Set-Cookie header,
      is seen by HTTPServerRequest.cookies as exactly the jar's (name, value)
      pairs: no extra cookie, none lost, none merged. *)
Theorem C25_next_request_sees_exactly_the_jar :
  forall ops,
    request_cookies (cookie_header (headers_of (snd (run_ops ops))))
    = map (fun c => (c_name c, c_value c)) (snd (run_ops ops)).
Proof. exact next_request_cookies. Qed.
Print Assumptions C25_next_request_sees_exactly_the_jar.

(* 7. However the request ends -- the handler returns, raises Finish, raises
      HTTPError(code), raises anything else (500), calls send_error(code) or
      redirect() -- the response that is sent has the status of that ending and
      carries the Set-Cookie header of every setting in the jar: clear() (called
      by send_error) does not discard cookies that set_cookie accepted.
      Scope made explicit: the response head has not been flushed yet
      (h_written = false); after flush() no header API can take effect. *)
Theorem C25_any_ending_sends_the_jar :
  forall e h, h_written h = false ->
    end_request e h = Some (status_after e h, flush (h_jar h)).
Proof. exact end_request_keeps_jar. Qed.
Print Assumptions C25_any_ending_sends_the_jar.
Example C25_any_ending_sends_the_jar_ex :
  h_written (mkH 200 true false [w_a]) = false /\
  end_request (EndHTTPError 403) (mkH 200 true false [w_a]) = Some (403%N, Some [output_string w_a]).
Proof. vm_compute. split; reflexivity. Qed.

Theorem C25_error_response_keeps_cookies :
  forall ops e,
    run_request ops e
    = (fst (run_ops ops), Some (status_of e, Some (map output_string (snd (run_ops ops))))).
Proof. exact ending_keeps_cookies. Qed.
Print Assumptions C25_error_response_keeps_cookies.

(* 8. The model satisfies the checker that is applied to the implementation:
      every call sequence, every ending, no hypothesis. *)
Theorem C25_model_satisfies_checker :
  forall ops e, check_case (ops, e) (run_case (ops, e)) = true.
Proof. exact checker_accepts_model. Qed.
Print Assumptions C25_model_satisfies_checker.

(* A rejected re-set keeps the earlier setting (it becomes the last header). *)
Theorem C25_rejected_reset_keeps_earlier_setting :
  run_ops [OpSet w_a; OpSet w_b; OpSet w_bad] = ([Ok; Ok; ValueErr], [w_b; w_a]).
Proof. exact failed_reset_example. Qed.
Print Assumptions C25_rejected_reset_keeps_earlier_setting.

(* ---- escape.native_str on the name and value arguments (ModelP4.v) ---- *)

(* 9. bytes name and value: for every accepted call the cookie parser reads back
      exactly the strict-UTF-8 decoding of the bytes (which re-encodes to them). *)
Theorem C25_bytes_arguments_read_back_decoded :
  forall c bn bv o,
    prepare (mkRaw (OpSet c) (ABytes bn) (ABytes bv)) = Some o ->
    accepted (lower o) = true ->
    exists n v, utf8_decode bn = Some n /\ utf8_decode bv = Some v
      /\ utf8_encode n = Some bn /\ utf8_encode v = Some bv
      /\ parse_cookie (nv_part (output_string (lower o))) = [(n, v)].
Proof. exact bytes_roundtrip. Qed.
Print Assumptions C25_bytes_arguments_read_back_decoded.
Example C25_bytes_arguments_ex :
  exists o, prepare (mkRaw (OpSet w_a) (ABytes [115;105;100]%N) (ABytes [99;97;102;195;169;59]%N)) = Some o
            /\ accepted (lower o) = true.
Proof. eexists. split; [reflexivity|vm_compute; reflexivity]. Qed.

(* ... for any mix of str / bytes arguments and any of the three entry points: the
   decoded name, the call's value and exactly the requested attributes *)
Theorem C25_decoded_arguments_read_back :
  forall r o n,
    prepare r = Some o -> accepted (lower o) = true -> native_str (r_name r) = Some n ->
    parse_cookie (nv_part (output_string (lower o))) = [(n, c_value (lower o))]
    /\ browser_name (output_string (lower o)) = n
    /\ browser_attrs (output_string (lower o)) = requested (lower o).
Proof. exact raw_roundtrip. Qed.
Print Assumptions C25_decoded_arguments_read_back.

(* 10. a call whose bytes are not valid UTF-8 raises UnicodeDecodeError and leaves
       the jar (and every other call's outcome) unchanged, anywhere in any sequence *)
Theorem C25_invalid_utf8_is_undecodable :
  forall o bn av, utf8_decode bn = None ->
    prepare (mkRaw o (ABytes bn) av) = None /\ prepare (mkRaw o av (ABytes bn)) = None.
Proof. exact invalid_utf8_undecodable. Qed.
Print Assumptions C25_invalid_utf8_is_undecodable.

Theorem C25_undecodable_call_raises_and_changes_nothing :
  forall l1 r l2, prepare r = None ->
    raw_result r = decode_error
    /\ raw_jar (l1 ++ r :: l2) = raw_jar (l1 ++ l2)
    /\ map raw_result (l1 ++ r :: l2) = map raw_result l1 ++ decode_error :: map raw_result l2.
Proof. exact undecodable_changes_nothing. Qed.
Print Assumptions C25_undecodable_call_raises_and_changes_nothing.
Example C25_undecodable_ex : prepare (mkRaw (OpSet w_a) (AStr [97]%N) (ABytes [255]%N)) = None.
Proof. reflexivity. Qed.

(* 11. the model with bytes/str arguments satisfies the checker applied to the
       implementation, for all call sequences and endings *)
Theorem C25_raw_model_satisfies_checker :
  forall rops e, check_case_raw (rops, e) (run_case_raw (rops, e)) = true.
Proof. exact checker_accepts_raw_model. Qed.
Print Assumptions C25_raw_model_satisfies_checker.
