(* C25 — text-level lemmas: splitting, stripping, quoting, unquoting. *)
From Coq Require Import List NArith ZArith Bool Arith Lia.
Import ListNotations.
From TV Require Import C25.Model.
Local Open Scope N_scope.

(* ---------------- finite sweeps over code points < 256 ---------------- *)
Definition range256 : list N := map N.of_nat (seq 0 256).

Lemma in_range256 : forall c, c < 256 -> In c range256.
Proof.
  intros c Hc. unfold range256. rewrite <- (N2Nat.id c). apply in_map.
  apply in_seq. lia.
Qed.

Lemma sweep256 : forall P : N -> bool,
  forallb P range256 = true -> forall c, c < 256 -> P c = true.
Proof.
  intros P H c Hc. rewrite forallb_forall in H. apply H, in_range256, Hc.
Qed.

(* ---------------- str_eqb ---------------- *)
Lemma str_eqb_refl : forall s, str_eqb s s = true.
Proof. induction s as [|c s IH]; simpl; [reflexivity|]. rewrite N.eqb_refl. exact IH. Qed.

Lemma str_eqb_eq : forall a b, str_eqb a b = true <-> a = b.
Proof.
  induction a as [|x a IH]; intros [|y b]; simpl; split; intros H; try reflexivity; try discriminate.
  - apply andb_true_iff in H as [H1 H2]. apply N.eqb_eq in H1. apply IH in H2. congruence.
  - inversion H; subst. rewrite N.eqb_refl. apply IH. reflexivity.
Qed.

Lemma str_eqb_neq : forall a b, str_eqb a b = false <-> a <> b.
Proof.
  intros a b. split; intros H.
  - intros E. apply str_eqb_eq in E. congruence.
  - destruct (str_eqb a b) eqn:E; [|reflexivity]. apply str_eqb_eq in E. contradiction.
Qed.

Lemma str_eqb_sym : forall a b, str_eqb a b = str_eqb b a.
Proof.
  intros a b. destruct (str_eqb a b) eqn:E1, (str_eqb b a) eqn:E2; try reflexivity.
  - apply str_eqb_eq in E1. subst. rewrite str_eqb_refl in E2. discriminate.
  - apply str_eqb_eq in E2. subst. rewrite str_eqb_refl in E1. discriminate.
Qed.

(* ---------------- splitting ---------------- *)
Definition nochar (x : N) (s : str) : Prop := Forall (fun c => c <> x) s.

Lemma nochar_app : forall x a b, nochar x a -> nochar x b -> nochar x (a ++ b).
Proof. intros. apply Forall_app. split; assumption. Qed.

Lemma take_until_all : forall x a, nochar x a -> take_until x a = a.
Proof.
  intros x a H. induction H as [|c a Hc _ IH]; simpl; [reflexivity|].
  apply N.eqb_neq in Hc. rewrite Hc, IH. reflexivity.
Qed.

Lemma take_until_app : forall x a r, nochar x a -> take_until x (a ++ x :: r) = a.
Proof.
  intros x a r H. induction H as [|c a Hc _ IH]; simpl.
  - rewrite N.eqb_refl. reflexivity.
  - apply N.eqb_neq in Hc. rewrite Hc, IH. reflexivity.
Qed.

Lemma split_on_all : forall x a, nochar x a -> split_on x a = [a].
Proof.
  intros x a H. induction H as [|c a Hc _ IH]; simpl; [reflexivity|].
  apply N.eqb_neq in Hc. rewrite Hc, IH. reflexivity.
Qed.

Lemma split_on_app : forall x a r, nochar x a -> split_on x (a ++ x :: r) = a :: split_on x r.
Proof.
  intros x a r H. induction H as [|c a Hc _ IH]; simpl.
  - rewrite N.eqb_refl. reflexivity.
  - apply N.eqb_neq in Hc. rewrite Hc, IH. reflexivity.
Qed.

Lemma split_once_app : forall x a r, nochar x a -> split_once x (a ++ x :: r) = Some (a, r).
Proof.
  intros x a r H. induction H as [|c a Hc _ IH]; simpl.
  - rewrite N.eqb_refl. reflexivity.
  - apply N.eqb_neq in Hc. rewrite Hc, IH. reflexivity.
Qed.

(* split_on over "; ".join *)
Lemma split_on_join_pre : forall ps pre q,
  nochar 59 pre -> Forall (nochar 59) (q :: ps) ->
  split_on 59 (pre ++ join_semisp (q :: ps)) = (pre ++ q) :: map (cons 32) ps.
Proof.
  induction ps as [|a ps IH]; intros pre q Hpre H; inversion H as [|? ? Hq Hps]; subst.
  - cbn [join_semisp map]. apply split_on_all, nochar_app; assumption.
  - change (join_semisp (q :: a :: ps)) with (q ++ 59 :: ([32] ++ join_semisp (a :: ps))).
    rewrite app_assoc. rewrite split_on_app by (apply nochar_app; assumption).
    f_equal. rewrite IH; [reflexivity| |assumption].
    constructor; [lia|constructor].
Qed.

Lemma split_on_join : forall p ps,
  Forall (nochar 59) (p :: ps) ->
  split_on 59 (join_semisp (p :: ps)) = p :: map (cons 32) ps.
Proof.
  intros p ps H. apply (split_on_join_pre ps [] p); [constructor|exact H].
Qed.

Lemma take_until_join : forall p ps,
  nochar 59 p -> take_until 59 (join_semisp (p :: ps)) = p.
Proof.
  intros p [|q ps] H.
  - simpl. apply take_until_all, H.
  - change (join_semisp (p :: q :: ps)) with (p ++ 59 :: 32 :: join_semisp (q :: ps)).
    apply take_until_app, H.
Qed.

(* ---------------- stripping ---------------- *)
Definition first_ok (sp : N -> bool) (s : str) : Prop :=
  match s with [] => True | c :: _ => sp c = false end.

Lemma lstrip_id : forall sp s, first_ok sp s -> lstrip sp s = s.
Proof. intros sp [|c s] H; simpl; [reflexivity|]. simpl in H. rewrite H. reflexivity. Qed.

Lemma strip_id : forall sp s, first_ok sp s -> first_ok sp (rev s) -> strip sp s = s.
Proof.
  intros sp s H1 H2. unfold strip. rewrite (lstrip_id sp s H1), (lstrip_id sp _ H2).
  apply rev_involutive.
Qed.

Lemma lstrip_app : forall sp pre s, Forall (fun c => sp c = true) pre -> lstrip sp (pre ++ s) = lstrip sp s.
Proof.
  intros sp pre s H. induction H as [|c pre Hc _ IH]; simpl; [reflexivity|]. rewrite Hc. exact IH.
Qed.

Lemma first_ok_rev_snoc : forall sp s x, sp x = false -> first_ok sp (rev (s ++ [x])).
Proof. intros. rewrite rev_app_distr. simpl. assumption. Qed.

Lemma first_ok_app : forall sp a b, a <> [] -> first_ok sp a -> first_ok sp (a ++ b).
Proof. intros sp [|c a] b Hne H; [contradiction|exact H]. Qed.

(* every element satisfies ~sp  =>  both ends fine *)
Lemma first_ok_Forall : forall sp s, Forall (fun c => sp c = false) s -> first_ok sp s.
Proof. intros sp s H. destruct H; simpl; auto. Qed.

Lemma Forall_rev' : forall (P : N -> Prop) s, Forall P s -> Forall P (rev s).
Proof. intros P s H. apply Forall_forall. intros x Hx. apply in_rev in Hx. rewrite Forall_forall in H. auto. Qed.

(* ---------------- legal characters ---------------- *)
Lemma legal_char_small : forall c, legal_char c = true -> c < 128.
Proof.
  intros c H. unfold legal_char, is_alnum, mem in H.
  repeat (rewrite ?orb_true_iff, ?andb_true_iff, ?N.eqb_eq, ?N.leb_le in H). lia.
Qed.

Definition legal_facts (c : N) : bool :=
  implb (legal_char c)
        (negb (c =? 59) && negb (c =? 61) && negb (c =? 34) && negb (c =? 92)
         && negb (py_space c) && negb (wsp c) && header_char_ok c && unescaped c
         && negb (bad_attr_char c)).

Lemma legal_facts_all : forall c, legal_char c = true ->
  c <> 59 /\ c <> 61 /\ c <> 34 /\ c <> 92 /\ py_space c = false /\ wsp c = false
  /\ header_char_ok c = true /\ unescaped c = true.
Proof.
  intros c H. assert (Hs := legal_char_small c H).
  assert (F : legal_facts c = true).
  { apply sweep256; [vm_compute; reflexivity|lia]. }
  unfold legal_facts in F. rewrite H in F. simpl in F.
  repeat (apply andb_true_iff in F as [F ?]).
  repeat match goal with
         | h : negb _ = true |- _ => apply negb_true_iff in h
         | h : (_ =? _) = false |- _ => apply N.eqb_neq in h
         end.
  repeat split; assumption.
Qed.

Lemma legal_key_Forall : forall s, legal_key s = true -> s <> [] /\ Forall (fun c => legal_char c = true) s.
Proof.
  intros [|c s] H; [discriminate|]. split; [discriminate|].
  unfold legal_key in H. apply Forall_forall. rewrite forallb_forall in H. exact H.
Qed.

Lemma legal_nochar : forall s x, Forall (fun c => legal_char c = true) s ->
  (x = 59 \/ x = 61 \/ x = 34 \/ x = 92) -> nochar x s.
Proof.
  intros s x H Hx. eapply Forall_impl; [|exact H]. intros c Hc.
  destruct (legal_facts_all c Hc) as (A & B & C & D & _). intuition congruence.
Qed.

Lemma legal_nospace : forall s, Forall (fun c => legal_char c = true) s ->
  Forall (fun c => py_space c = false) s /\ Forall (fun c => wsp c = false) s.
Proof.
  intros s H. split; (eapply Forall_impl; [|exact H]); intros c Hc;
  destruct (legal_facts_all c Hc) as (_ & _ & _ & _ & E & F & _); assumption.
Qed.

(* ---------------- quoting ---------------- *)
Lemma oct_ok : forall c, c < 256 ->
  is_oct03 (48 + c / 64) && is_oct (48 + (c / 8) mod 8) && is_oct (48 + c mod 8) = true.
Proof. apply (sweep256 (fun c => is_oct03 (48 + c / 64) && is_oct (48 + (c / 8) mod 8) && is_oct (48 + c mod 8))). vm_compute. reflexivity. Qed.

Lemma oct_val : forall c, c < 256 ->
  (48 + c / 64 - 48) * 64 + (48 + (c / 8) mod 8 - 48) * 8 + (48 + c mod 8 - 48) = c.
Proof.
  intros c H. apply N.eqb_eq. revert c H.
  apply (sweep256 (fun c => (48 + c / 64 - 48) * 64 + (48 + (c / 8) mod 8 - 48) * 8 + (48 + c mod 8 - 48) =? c)).
  vm_compute. reflexivity.
Qed.

Lemma oct_chars : forall c, c < 256 ->
  forallb (fun x => negb (x =? 59) && header_char_ok x) (oct3 c) = true.
Proof. apply (sweep256 (fun c => forallb (fun x => negb (x =? 59) && header_char_ok x) (oct3 c))). vm_compute. reflexivity. Qed.

Lemma unq_step : forall c r, unq (tr c ++ r) = c :: unq r.
Proof.
  intros c r. unfold tr.
  destruct (c =? 34) eqn:E34.
  { apply N.eqb_eq in E34. subst. destruct r as [|b [|d r']]; reflexivity. }
  destruct (c =? 92) eqn:E92.
  { apply N.eqb_eq in E92. subst. destruct r as [|b [|d r']]; reflexivity. }
  destruct ((c <? 256) && negb (unescaped c)) eqn:Eo.
  - apply andb_true_iff in Eo as [Hlt _]. apply N.ltb_lt in Hlt.
    unfold oct3. cbn [app unq]. cbn [N.eqb Pos.eqb].
    rewrite (oct_ok c Hlt), (oct_val c Hlt). reflexivity.
  - cbn [app unq]. rewrite E92. reflexivity.
Qed.

Lemma unq_flat_map_tr : forall v, unq (flat_map tr v) = v.
Proof.
  induction v as [|c v IH]; [reflexivity|].
  cbn [flat_map]. rewrite unq_step, IH. reflexivity.
Qed.

Lemma tr_nosemi : forall c, nochar 59 (tr c).
Proof.
  intros c. unfold tr.
  destruct (c =? 34); [repeat constructor; lia|].
  destruct (c =? 92); [repeat constructor; lia|].
  destruct ((c <? 256) && negb (unescaped c)) eqn:Eo.
  - apply andb_true_iff in Eo as [Hlt _]. apply N.ltb_lt in Hlt.
    assert (F := oct_chars c Hlt). rewrite forallb_forall in F.
    apply Forall_forall. intros x Hx. apply F in Hx.
    apply andb_true_iff in Hx as [Hx _]. apply negb_true_iff, N.eqb_neq in Hx. exact Hx.
  - apply andb_false_iff in Eo. constructor; [|constructor].
    intros ->. destruct Eo as [Eo|Eo]; vm_compute in Eo; discriminate.
Qed.

Lemma flat_map_tr_nosemi : forall v, nochar 59 (flat_map tr v).
Proof.
  induction v as [|c v IH]; [constructor|]. cbn [flat_map]. apply nochar_app; [apply tr_nosemi|exact IH].
Qed.

Lemma quote_nosemi : forall v, nochar 59 (quote v).
Proof.
  intros v. unfold quote. destruct (legal_key v) eqn:E.
  - apply legal_key_Forall in E as [_ E]. apply legal_nochar; auto.
  - constructor; [lia|]. apply nochar_app; [apply flat_map_tr_nosemi|repeat constructor; lia].
Qed.

(* the first and the last character of a quoted value are never blank *)
Lemma quote_ends : forall sp v,
  (forall c, legal_char c = true -> sp c = false) -> sp 34 = false ->
  quote v <> [] /\ first_ok sp (quote v) /\ first_ok sp (rev (quote v)).
Proof.
  intros sp v Hl H34. unfold quote. destruct (legal_key v) eqn:E.
  - apply legal_key_Forall in E as [Hne E].
    assert (F : Forall (fun c => sp c = false) v) by (eapply Forall_impl; [|exact E]; auto).
    split; [assumption|]. split; apply first_ok_Forall; [|apply Forall_rev']; assumption.
  - split; [discriminate|]. split; [exact H34|].
    change (34 :: flat_map tr v ++ [34]) with ((34 :: flat_map tr v) ++ [34]).
    apply first_ok_rev_snoc, H34.
Qed.

Lemma unquote_quote : forall v, unquote_cookie (quote v) = v.
Proof.
  intros v. unfold quote. destruct (legal_key v) eqn:E.
  - apply legal_key_Forall in E as [Hne E]. destruct v as [|f [|g t]]; try reflexivity.
    inversion E as [|? ? Hf _]; subst.
    destruct (legal_facts_all f Hf) as (_ & _ & H34 & _).
    unfold unquote_cookie. apply N.eqb_neq in H34. rewrite H34. reflexivity.
  - unfold unquote_cookie.
    destruct (flat_map tr v ++ [34]) as [|g t] eqn:Et.
    { destruct (flat_map tr v); discriminate. }
    rewrite <- Et. rewrite last_last, removelast_last, N.eqb_refl. cbn [andb].
    apply unq_flat_map_tr.
Qed.
