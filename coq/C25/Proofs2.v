(* C25 — one accepted call: value round trip, exact attributes, sendability. *)
From Coq Require Import List NArith ZArith Bool Arith Lia.
Import ListNotations.
From TV Require Import C25.Model C25.Proofs.
Local Open Scope N_scope.

(* ---------------- what acceptance gives ---------------- *)
Lemma validate_inv : forall c, validate c = Ok ->
  existsb bad_value_char (c_value c) = false /\ attr_clean (c_name c) = true
  /\ opt_clean (c_domain c) = true /\ opt_clean (c_path c) = true /\ opt_clean (c_samesite c) = true
  /\ key_ok (c_name c) = true.
Proof.
  intros c H. unfold validate in H.
  destruct (existsb bad_value_char (c_value c)); [discriminate|].
  destruct (attr_clean (c_name c) && opt_clean (c_domain c) && opt_clean (c_path c) && opt_clean (c_samesite c)) eqn:E;
    [|discriminate].
  destruct (expiry_check c); try discriminate.
  destruct (key_ok (c_name c)) eqn:K; [|discriminate].
  repeat (apply andb_true_iff in E as [E ?]). repeat split; assumption.
Qed.

Lemma accepted_split : forall c, accepted c = true <-> validate c = Ok /\ sendable c = true.
Proof.
  intros c. unfold accepted, result_of. destruct (validate c); destruct (sendable c); split;
    intros H; try discriminate; try (destruct H; discriminate); auto.
Qed.

Lemma accepted_inv : forall c, accepted c = true ->
  existsb bad_value_char (c_value c) = false /\ attr_clean (c_name c) = true
  /\ opt_clean (c_domain c) = true /\ opt_clean (c_path c) = true /\ opt_clean (c_samesite c) = true
  /\ key_ok (c_name c) = true.
Proof. intros c H. apply accepted_split in H as [H _]. apply validate_inv, H. Qed.

Lemma accepted_touches : forall c, accepted c = true -> touches c = true.
Proof. intros c H. apply accepted_split in H as [H _]. unfold touches. rewrite H. reflexivity. Qed.

Lemma key_ok_legal : forall k, key_ok k = true -> legal_key k = true.
Proof. intros k H. apply andb_true_iff in H as [_ H]. exact H. Qed.

Lemma attr_clean_chars : forall s, attr_clean s = true -> Forall (fun c => bad_attr_char c = false) s.
Proof.
  intros s H. unfold attr_clean in H. apply negb_true_iff in H.
  apply Forall_forall. intros c Hc. destruct (bad_attr_char c) eqn:E; [|reflexivity].
  assert (existsb bad_attr_char s = true) by (apply existsb_exists; eauto). congruence.
Qed.

Lemma attr_clean_nosemi : forall s, attr_clean s = true -> nochar 59 s.
Proof.
  intros s H. eapply Forall_impl; [|apply attr_clean_chars, H]. intros c Hc ->. vm_compute in Hc. discriminate.
Qed.

Lemma truthy_Some : forall o v, truthy o = Some v -> o = Some v /\ v <> [].
Proof. intros [[|x s]|] v H; simpl in H; try discriminate. inversion H; subst. split; [reflexivity|discriminate]. Qed.

(* ---------------- decimal digits ---------------- *)
Definition is_digit (c : N) : Prop := 48 <= c <= 57.

Lemma dec_fuel_digits : forall f n acc, Forall is_digit acc -> Forall is_digit (dec_fuel f n acc).
Proof.
  induction f as [|f IH]; intros n acc H; simpl; [exact H|].
  assert (D : is_digit (48 + n mod 10)).
  { unfold is_digit. assert (Hm : n mod 10 < 10) by (apply N.mod_lt; discriminate).
    remember (n mod 10) as m. clear Heqm. lia. }
  destruct (n <? 10); [constructor; assumption|apply IH; constructor; assumption].
Qed.

Lemma dec_Z_chars : forall z, Forall (fun c => c = 45 \/ is_digit c) (dec_Z z).
Proof.
  intros [|p|p]; simpl.
  - constructor; [right; unfold is_digit; lia|constructor].
  - eapply Forall_impl; [|apply dec_fuel_digits; constructor]. intros; right; assumption.
  - constructor; [left; reflexivity|].
    eapply Forall_impl; [|apply dec_fuel_digits; constructor]. intros; right; assumption.
Qed.

Lemma dec_fuel_nonempty : forall f n acc, acc <> [] -> dec_fuel f n acc <> [].
Proof.
  induction f as [|f IH]; intros n acc H; simpl; [exact H|].
  destruct (n <? 10); [discriminate|apply IH; discriminate].
Qed.

Lemma dec_Z_nonempty : forall z, dec_Z z <> [].
Proof.
  intros [|p|p]; simpl; try discriminate.
  unfold dec_N. cbn [dec_fuel]. destruct (N.pos p <? 10); [discriminate|apply dec_fuel_nonempty; discriminate].
Qed.

(* the decimal text denotes the number (in particular the fuel suffices) *)
Lemma undec_dec_fuel : forall f n acc, n < 2 ^ N.of_nat f ->
  fold_left (fun a c => 10 * a + (c - 48)) (dec_fuel f n acc) 0
  = fold_left (fun a c => 10 * a + (c - 48)) acc n.
Proof.
  induction f as [|f IH]; intros n acc H.
  - cbn in H. assert (n = 0) by lia. subst. reflexivity.
  - cbn [dec_fuel]. destruct (n <? 10) eqn:E.
    + apply N.ltb_lt in E. cbn [fold_left]. f_equal.
      rewrite N.mod_small by exact E. lia.
    + apply N.ltb_ge in E. rewrite IH.
      * cbn [fold_left]. f_equal.
        assert (D := N.div_mod n 10). remember (n / 10) as q. remember (n mod 10) as r. lia.
      * rewrite Nat2N.inj_succ, N.pow_succ_r' in H.
        apply N.div_lt_upper_bound; [discriminate|]. lia.
Qed.

Lemma undec_dec_N : forall n, undec (dec_N n) = n.
Proof.
  intros n. unfold undec, dec_N. rewrite undec_dec_fuel; [reflexivity|].
  rewrite Nat2N.inj_succ, N2Nat.id, N.pow_succ_r'. assert (H := N.size_gt n). lia.
Qed.

Lemma undec_Z_dec_Z : forall z, undec_Z (dec_Z z) = z.
Proof.
  intros [|p|p]; [reflexivity| |].
  - cbn [dec_Z]. unfold undec_Z.
    assert (D := dec_fuel_digits (S (N.to_nat (N.size (N.pos p)))) (N.pos p) [] (Forall_nil _)).
    fold (dec_N (N.pos p)) in D. assert (U := undec_dec_N (N.pos p)).
    destruct (dec_N (N.pos p)) as [|c t] eqn:E; [cbn in U; discriminate|].
    inversion D as [|? ? [H1 H2] _]; subst.
    assert (c <> 45) by lia.
    destruct c as [|q]; [lia|].
    do 6 (destruct q as [q|q|]; try (rewrite U; reflexivity)); try (rewrite U; reflexivity); lia.
  - cbn [dec_Z]. unfold undec_Z. rewrite undec_dec_N. reflexivity.
Qed.

Lemma dec_Z_nosemi : forall z, nochar 59 (dec_Z z).
Proof.
  intros z. eapply Forall_impl; [|apply dec_Z_chars]. intros c [->|[H1 H2]]; lia.
Qed.

(* ---------------- name=value part ---------------- *)
Lemma nv_nosemi : forall c, legal_key (c_name c) = true -> nochar 59 (name_value c).
Proof.
  intros c H. apply legal_key_Forall in H as [_ H]. unfold name_value, kv.
  apply nochar_app; [apply legal_nochar; auto|]. constructor; [lia|apply quote_nosemi].
Qed.

Lemma legal_wsp : forall c, legal_char c = true -> wsp c = false.
Proof. intros c H. apply legal_facts_all in H. tauto. Qed.
Lemma legal_pyspace : forall c, legal_char c = true -> py_space c = false.
Proof. intros c H. apply legal_facts_all in H. tauto. Qed.

Lemma nv_part_output : forall c, legal_key (c_name c) = true ->
  nv_part (output_string c) = name_value c.
Proof.
  intros c H. unfold nv_part, output_string.
  rewrite take_until_join by (apply nv_nosemi, H).
  apply legal_key_Forall in H as [Hne H].
  apply strip_id; unfold name_value, kv.
  - apply first_ok_app; [assumption|]. apply first_ok_Forall. apply legal_nospace, H.
  - rewrite rev_app_distr. cbn [rev]. rewrite <- app_assoc.
    destruct (quote_ends wsp (c_value c) legal_wsp eq_refl) as (Q1 & _ & Q3).
    apply first_ok_app; [|exact Q3]. intros E. apply (f_equal (@rev N)) in E.
    rewrite rev_involutive in E. contradiction.
Qed.

Lemma parse_chunk_nv : forall pre c,
  Forall (fun x => py_space x = true) pre -> nochar 61 pre ->
  legal_key (c_name c) = true ->
  parse_chunk (pre ++ name_value c) = Some (c_name c, c_value c).
Proof.
  intros pre c Hsp Hpre H. apply legal_key_Forall in H as [Hne H].
  unfold parse_chunk, name_value, kv. rewrite app_assoc.
  rewrite split_once_app by (apply nochar_app; [assumption|apply legal_nochar; auto]).
  assert (S1 : strip py_space (pre ++ c_name c) = c_name c).
  { unfold strip. rewrite lstrip_app by assumption.
    rewrite (lstrip_id py_space (c_name c)) by (apply first_ok_Forall, legal_nospace, H).
    rewrite (lstrip_id py_space (rev (c_name c))) by (apply first_ok_Forall, Forall_rev', legal_nospace, H).
    apply rev_involutive. }
  destruct (quote_ends py_space (c_value c) legal_pyspace eq_refl) as (_ & Q2 & Q3).
  rewrite S1, (strip_id py_space _ Q2 Q3), unquote_quote.
  destruct (c_name c); [contradiction|reflexivity].
Qed.

Lemma value_roundtrip : forall c, legal_key (c_name c) = true ->
  parse_cookie (nv_part (output_string c)) = [(c_name c, c_value c)].
Proof.
  intros c H. rewrite nv_part_output by assumption.
  unfold parse_cookie. rewrite split_on_all by (apply nv_nosemi, H).
  cbn [fold_left]. assert (E := parse_chunk_nv [] c (Forall_nil _) (Forall_nil _) H).
  cbn [app] in E. rewrite E. reflexivity.
Qed.

Lemma browser_name_output : forall c, legal_key (c_name c) = true ->
  browser_name (output_string c) = c_name c.
Proof.
  intros c H. unfold browser_name. rewrite nv_part_output by assumption.
  unfold name_value, kv. apply legal_key_Forall in H as [_ H].
  rewrite split_once_app by (apply legal_nochar; auto). reflexivity.
Qed.

(* ---------------- attributes ---------------- *)
Lemma opt_kv_nosemi : forall K o, nochar 59 K ->
  (forall v, o = Some v -> nochar 59 v) -> Forall (nochar 59) (opt_kv K o).
Proof.
  intros K o HK Ho. unfold opt_kv. destruct (truthy o) as [v|] eqn:E; [|constructor].
  apply truthy_Some in E as [E _]. constructor; [|constructor].
  unfold kv. apply nochar_app; [assumption|]. constructor; [lia|apply Ho, E].
Qed.

Lemma const_nosemi : forall K, forallb (fun c => negb (c =? 59)) K = true -> nochar 59 K.
Proof.
  intros K H. rewrite forallb_forall in H. apply Forall_forall. intros c Hc.
  apply H in Hc. apply negb_true_iff, N.eqb_neq in Hc. exact Hc.
Qed.

Lemma opt_clean_nosemi : forall o, opt_clean o = true -> forall v, o = Some v -> nochar 59 v.
Proof. intros o H v ->. apply attr_clean_nosemi, H. Qed.

(* ---------------- format_timestamp produces attribute-safe text ---------------- *)
Definition okc (x : N) : bool := negb (x =? 59) && header_char_ok x.
Definition okstr (s : str) : Prop := forallb okc s = true.

Lemma okstr_app : forall a b, okstr a -> okstr b -> okstr (a ++ b).
Proof. intros a b Ha Hb. unfold okstr. rewrite forallb_app, Ha, Hb. reflexivity. Qed.

Lemma digit_okc : forall k, k < 10 -> okc (48 + k) = true.
Proof.
  intros k Hk. assert (H : forall c, c < 256 -> implb ((48 <=? c) && (c <=? 57)) (okc c) = true).
  { apply (sweep256 (fun c => implb ((48 <=? c) && (c <=? 57)) (okc c))). vm_compute. reflexivity. }
  specialize (H (48 + k)). assert (E1 : (48 <=? 48 + k) = true) by (apply N.leb_le; lia).
  assert (E2 : (48 + k <=? 57) = true) by (apply N.leb_le; lia). rewrite E1, E2 in H. apply H. lia.
Qed.

Lemma mod10_lt : forall n, n mod 10 < 10.
Proof. intros n. apply N.mod_lt. discriminate. Qed.

Lemma pad2_ok : forall n, okstr (pad2 n).
Proof.
  intros n. unfold okstr, pad2. cbn [forallb].
  rewrite !digit_okc by apply mod10_lt. reflexivity.
Qed.

Lemma dec_N_ok : forall n, okstr (dec_N n).
Proof.
  intros n. unfold okstr. apply forallb_forall. intros c Hc.
  assert (D := dec_fuel_digits (S (N.to_nat (N.size n))) n [] (Forall_nil _)). fold (dec_N n) in D.
  rewrite Forall_forall in D. specialize (D c Hc). destruct D as [D1 D2].
  replace c with (48 + (c - 48)) by lia. apply digit_okc. lia.
Qed.

Lemma pad4_ok : forall n, okstr (pad4 n).
Proof.
  intros n. unfold pad4. destruct (n <? 10000) eqn:E; [|apply dec_N_ok].
  apply N.ltb_lt in E. unfold okstr. cbn [forallb].
  rewrite !digit_okc; try apply mod10_lt; [reflexivity|].
  apply N.div_lt_upper_bound; lia.
Qed.

Lemma nth_ok : forall (l : list str) d i, Forall okstr l -> okstr d -> okstr (nth i l d).
Proof.
  induction l as [|a l IH]; intros d i Hl Hd; destruct i; simpl; auto; inversion Hl; subst; auto.
Qed.

Lemma format_ts_ok : forall t, okstr (format_ts t).
Proof.
  intros t. unfold format_ts. destruct (civil (Z.to_N (t + epoch_offset) / 86400)) as [[y m] d].
  repeat apply okstr_app; try apply pad2_ok; try apply pad4_ok; try reflexivity.
  - apply nth_ok; [|reflexivity]. unfold wd_names. repeat constructor.
  - apply nth_ok; [|reflexivity]. unfold mon_names. repeat constructor.
Qed.

Lemma exp_text_ok : forall c v, exp_text c = Some v -> okstr v.
Proof.
  intros c v H. unfold exp_text in H.
  destruct (effective_expiry c) as [|t|t]; [discriminate| |]; inversion H; apply format_ts_ok.
Qed.

Lemma exp_text_nosemi : forall c v, exp_text c = Some v -> nochar 59 v.
Proof.
  intros c v H. apply exp_text_ok in H. unfold okstr in H. rewrite forallb_forall in H.
  apply Forall_forall. intros x Hx. apply H in Hx. apply andb_true_iff in Hx as [Hx _].
  apply negb_true_iff, N.eqb_neq in Hx. exact Hx.
Qed.

Lemma max_age_text_nosemi : forall m v, max_age_text m = Some v -> nochar 59 v.
Proof.
  intros [z|] v H; simpl in H; [|discriminate]. inversion H. apply dec_Z_nosemi.
Qed.

Lemma Forall_app_intro : forall (P : str -> Prop) a b, Forall P a -> Forall P b -> Forall P (a ++ b).
Proof. intros. apply Forall_app. split; assumption. Qed.

Lemma attrs_nosemi : forall c, validate c = Ok ->
  Forall (nochar 59) (out_attrs c).
Proof.
  intros c Ha. destruct (validate_inv c Ha) as (_ & _ & Hd & Hp & Hs & _).
  unfold out_attrs. repeat (apply Forall_app_intro; [|]).
  - apply opt_kv_nosemi; [apply const_nosemi; reflexivity|apply opt_clean_nosemi, Hd].
  - apply opt_kv_nosemi; [apply const_nosemi; reflexivity|apply exp_text_nosemi].
  - destruct (c_httponly c); [constructor; [apply const_nosemi; reflexivity|constructor]|constructor].
  - apply opt_kv_nosemi; [apply const_nosemi; reflexivity|apply max_age_text_nosemi].
  - apply opt_kv_nosemi; [apply const_nosemi; reflexivity|apply opt_clean_nosemi, Hp].
  - apply opt_kv_nosemi; [apply const_nosemi; reflexivity|apply opt_clean_nosemi, Hs].
  - destruct (c_secure c); [constructor; [apply const_nosemi; reflexivity|constructor]|constructor].
Qed.

Lemma browser_attrs_output : forall c, validate c = Ok ->
  browser_attrs (output_string c) = map parse_av (map (cons 32) (out_attrs c)).
Proof.
  intros c Ha. unfold browser_attrs, output_string.
  rewrite split_on_join; [reflexivity|].
  constructor; [|apply attrs_nosemi; assumption].
  apply nv_nosemi, key_ok_legal. apply validate_inv in Ha. tauto.
Qed.

Lemma parse_av_kv : forall K v, K <> [] -> first_ok wsp K -> nochar 61 K ->
  parse_av (32 :: kv K v) = (K, Some v).
Proof.
  intros K v Hne Hf Hn. unfold parse_av, kv. cbn [lstrip wsp N.eqb Pos.eqb orb].
  rewrite lstrip_id by (apply first_ok_app; assumption).
  rewrite split_once_app by assumption. reflexivity.
Qed.

Lemma const_noeq : forall K, forallb (fun c => negb (c =? 61)) K = true -> nochar 61 K.
Proof.
  intros K H. rewrite forallb_forall in H. apply Forall_forall. intros c Hc.
  apply H in Hc. apply negb_true_iff, N.eqb_neq in Hc. exact Hc.
Qed.

Lemma piece_opt : forall K o, K <> [] -> first_ok wsp K -> forallb (fun c => negb (c =? 61)) K = true ->
  map parse_av (map (cons 32) (opt_kv K o)) = req_opt K o.
Proof.
  intros K o H1 H2 H3. unfold opt_kv, req_opt. destruct (truthy o) as [v|]; [|reflexivity].
  cbn [map]. rewrite parse_av_kv; auto. apply const_noeq, H3.
Qed.

Lemma attrs_exact : forall c,
  map parse_av (map (cons 32) (out_attrs c)) = requested c.
Proof.
  intros c. unfold out_attrs, requested. rewrite !map_app.
  rewrite !piece_opt by (try discriminate; reflexivity).
  f_equal. f_equal. f_equal; [destruct (c_httponly c); reflexivity|].
  f_equal; [|f_equal; f_equal; destruct (c_secure c); reflexivity].
  destruct (c_max_age c) as [z|]; [|reflexivity].
  unfold max_age_text, req_opt, truthy. destruct (dec_Z z) eqn:D; [|reflexivity].
  exfalso. revert D. apply dec_Z_nonempty.
Qed.
