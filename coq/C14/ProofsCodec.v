(* Frame codec: the decoder inverts the encoder for every payload length < 2^64. *)
From Coq Require Import List NArith Arith Bool Lia.
Import ListNotations.
From TV Require Import C18.Model C18.Proofs C14.Utf8 C14.Model.
Local Open Scope N_scope.

(* ---------- finite sweeps over bounded N ---------- *)
Definition nrange (n : nat) : list N := map N.of_nat (seq 0 n).

Lemma nrange_in n x : x < N.of_nat n -> In x (nrange n).
Proof.
  intro H. unfold nrange. rewrite <- (N2Nat.id x). apply in_map. apply in_seq. lia.
Qed.

Lemma sweep (f : N -> bool) (n : nat) :
  forallb f (nrange n) = true -> forall x, x < N.of_nat n -> f x = true.
Proof. intros H x Hx. rewrite forallb_forall in H. apply H. apply nrange_in. exact Hx. Qed.

(* ---------- first header byte ---------- *)
Definition hdr0 (fin : bool) (op rsv : N) : N := N.lor (N.lor (if fin then 128 else 0) op) rsv.

Definition hdr0_ok (fin : bool) (op rsv : N) : bool :=
  if rsv mod 16 =? 0 then
    let b := hdr0 fin op rsv in
    Bool.eqb (negb (N.land b 128 =? 0)) fin && (N.land b 112 =? rsv) && (N.land b 15 =? op)
  else true.

Lemma hdr0_sweep :
  forallb (fun fin => forallb (fun op => forallb (fun rsv => hdr0_ok fin op rsv) (nrange 128)) (nrange 16))
          [true; false] = true.
Proof. vm_compute. reflexivity. Qed.

Lemma hdr0_spec fin op rsv :
  op < 16 -> rsv < 128 -> rsv mod 16 = 0 ->
  negb (N.land (hdr0 fin op rsv) 128 =? 0) = fin /\
  N.land (hdr0 fin op rsv) 112 = rsv /\ N.land (hdr0 fin op rsv) 15 = op.
Proof.
  intros Ho Hr Hm.
  pose proof hdr0_sweep as S. rewrite forallb_forall in S.
  assert (Sf := S fin ltac:(destruct fin; simpl; auto)). clear S.
  pose proof (sweep _ 16 Sf op Ho) as S2. cbv beta in S2.
  pose proof (sweep _ 128 S2 rsv Hr) as S3. cbv beta in S3.
  unfold hdr0_ok in S3. rewrite Hm in S3. cbn [N.eqb] in S3.
  apply andb_true_iff in S3 as [S3 S5]. apply andb_true_iff in S3 as [S3 S4].
  apply eqb_prop in S3. apply N.eqb_eq in S4. apply N.eqb_eq in S5. auto.
Qed.

(* ---------- second header byte ---------- *)
Definition hdr1_ok (mb : N) (n : N) : bool :=
  (N.land (N.lor n mb) 127 =? n) && Bool.eqb (negb (N.land (N.lor n mb) 128 =? 0)) (mb =? 128).

Lemma hdr1_sweep : forallb (fun n => hdr1_ok 0 n && hdr1_ok 128 n) (nrange 128) = true.
Proof. vm_compute. reflexivity. Qed.

Lemma hdr1_spec (masked : bool) n :
  n < 128 ->
  let mb := if masked then 128 else 0 in
  N.land (N.lor n mb) 127 = n /\ negb (N.land (N.lor n mb) 128 =? 0) = masked.
Proof.
  intros Hn mb. pose proof (sweep _ 128 hdr1_sweep n Hn) as S. cbv beta in S.
  apply andb_true_iff in S as [S0 S1]. unfold hdr1_ok in *.
  apply andb_true_iff in S0 as [A0 B0]. apply andb_true_iff in S1 as [A1 B1].
  apply N.eqb_eq in A0, A1. apply eqb_prop in B0, B1.
  subst mb. destruct masked; split; auto.
Qed.

(* ---------- big-endian integers ---------- *)
Lemma load_le_store_le k n : load_le (store_le k n) = n mod 256 ^ N.of_nat k.
Proof.
  revert n; induction k as [|k IH]; intro n.
  - simpl. rewrite N.mod_1_r. reflexivity.
  - cbn [store_le load_le]. rewrite IH. rewrite Nat2N.inj_succ, N.pow_succ_r'.
    rewrite N.mod_mul_r by (try discriminate; apply N.pow_nonzero; discriminate). reflexivity.
Qed.

Lemma load_store_BE k n : n < 256 ^ N.of_nat k -> load BE (store BE k n) = n.
Proof.
  intro H. cbn [load store]. rewrite rev_involutive, load_le_store_le. apply N.mod_small. exact H.
Qed.

Lemma store_le_length k n : length (store_le k n) = k.
Proof. revert n; induction k; intro n; simpl; auto. Qed.
Lemma store_BE_length k n : length (store BE k n) = k.
Proof. cbn [store]. rewrite rev_length. apply store_le_length. Qed.

(* ---------- read_bytes ---------- *)
Lemma read_bytes_app a w : read_bytes (blen a) (a ++ w) = Some (a, w).
Proof.
  unfold read_bytes, blen. rewrite app_length.
  destruct (N.ltb_spec (N.of_nat (length a + length w)) (N.of_nat (length a))) as [H|H]; [lia|].
  rewrite Nat2N.id. rewrite firstn_app, skipn_app, Nat.sub_diag, firstn_all, skipn_all. simpl.
  rewrite app_nil_r. reflexivity.
Qed.

Lemma read_bytes_app' n a w : n = blen a -> read_bytes n (a ++ w) = Some (a, w).
Proof. intros ->. apply read_bytes_app. Qed.

(* ---------- masking ---------- *)
Lemma mask_cyc_ref k0 k1 k2 k3 d :
  mask_cyc k0 k1 k2 k3 d = mask_from [k0; k1; k2; k3] 0 d /\
  mask_cyc k1 k2 k3 k0 d = mask_from [k0; k1; k2; k3] 1 d /\
  mask_cyc k2 k3 k0 k1 d = mask_from [k0; k1; k2; k3] 2 d /\
  mask_cyc k3 k0 k1 k2 d = mask_from [k0; k1; k2; k3] 3 d.
Proof.
  induction d as [|b d (I0 & I1 & I2 & I3)]; [repeat split|].
  pose proof (mask_from_add4 [k0; k1; k2; k3] 0 d) as P4. cbn [Nat.add] in P4.
  cbn [mask_cyc mask_from]. rewrite I0, I1, I2, I3, P4.
  repeat split.
Qed.

Lemma ws_mask_ref k d : ws_mask k d = mask_ref k d.
Proof.
  unfold ws_mask, mask_ref.
  destruct k as [|k0 [|k1 [|k2 [|k3 [|? ?]]]]]; try reflexivity.
  apply mask_cyc_ref.
Qed.

Lemma ws_mask_involutive k d : ws_mask k (ws_mask k d) = d.
Proof. rewrite !ws_mask_ref. apply mask_ref_involutive. Qed.
Lemma ws_mask_length k d : length (ws_mask k d) = length d.
Proof. rewrite ws_mask_ref. apply mask_ref_length. Qed.

(* ---------- well-formed frames ---------- *)
Definition wf_frame (f : frame) : Prop :=
  f_op f < 16 /\ f_rsv f < 128 /\ f_rsv f mod 16 = 0 /\
  (match f_mask f with Some k => length k = 4%nat | None => True end) /\
  blen (f_data f) < 2 ^ 64.

(* the length field *)
Lemma read_len_encode (masked : bool) n w :
  n < 2 ^ 64 ->
  let mb := if masked then 128 else 0 in
  exists b1 ext, len_bytes mb n = b1 :: ext /\
    negb (N.land b1 128 =? 0) = masked /\
    (N.land b1 127 = if n <? 126 then n else if n <=? 65535 then 126 else 127) /\
    read_len (N.land b1 127) (ext ++ w) = Some (n, w).
Proof.
  intros Hn mb. unfold len_bytes.
  destruct (N.ltb_spec n 126) as [H1|H1].
  - exists (N.lor n mb), []. destruct (hdr1_spec masked n ltac:(lia)) as [A B]. fold mb in A, B.
    repeat split; auto. rewrite A. unfold read_len.
    destruct (N.ltb_spec n 126); [reflexivity|lia].
  - destruct (N.leb_spec n 65535) as [H2|H2].
    + exists (N.lor 126 mb), (store BE 2 n).
      destruct (hdr1_spec masked 126 ltac:(lia)) as [A B]. fold mb in A, B.
      repeat split; auto. rewrite A. unfold read_len. cbn [N.ltb N.compare Pos.compare Pos.compare_cont N.eqb Pos.eqb].
      rewrite (read_bytes_app' 2 (store BE 2 n) w) by (unfold blen; rewrite store_BE_length; reflexivity).
      rewrite load_store_BE; [reflexivity|]. change (256 ^ N.of_nat 2) with 65536. lia.
    + exists (N.lor 127 mb), (store BE 8 n).
      destruct (hdr1_spec masked 127 ltac:(lia)) as [A B]. fold mb in A, B.
      repeat split; auto. rewrite A. unfold read_len. cbn [N.ltb N.compare Pos.compare Pos.compare_cont N.eqb Pos.eqb].
      rewrite (read_bytes_app' 8 (store BE 8 n) w) by (unfold blen; rewrite store_BE_length; reflexivity).
      rewrite load_store_BE; [reflexivity|]. change (256 ^ N.of_nat 8) with (2 ^ 64). exact Hn.
Qed.

(* masking key and payload *)
Lemma read_body_encode (k : option bytes) d w :
  (match k with Some k => length k = 4%nat | None => True end) ->
  read_body (match k with Some _ => true | None => false end) (blen d)
            ((match k with Some k => k ++ ws_mask k d | None => d end) ++ w)
  = Some (k, d, w).
Proof.
  intro Hk. unfold read_body. destruct k as [k|].
  - rewrite <- app_assoc.
    rewrite (read_bytes_app' 4 k) by (unfold blen; rewrite Hk; reflexivity).
    rewrite (read_bytes_app' (blen d) (ws_mask k d)) by (unfold blen; rewrite ws_mask_length; reflexivity).
    rewrite ws_mask_involutive. reflexivity.
  - rewrite read_bytes_app. reflexivity.
Qed.

(* shape of an encoded frame: two header bytes, then length extension, key, payload *)
Lemma encode_frame_shape f w :
  wf_frame f ->
  exists b1 ext,
    encode_frame f ++ w
    = hdr0 (f_fin f) (f_op f) (f_rsv f) :: b1 :: ext
        ++ (match f_mask f with Some k => k ++ ws_mask k (f_data f) | None => f_data f end) ++ w /\
    negb (N.land b1 128 =? 0) = (match f_mask f with Some _ => true | None => false end) /\
    (N.land b1 127 = let n := blen (f_data f) in if n <? 126 then n else if n <=? 65535 then 126 else 127) /\
    forall w', read_len (N.land b1 127) (ext ++ w') = Some (blen (f_data f), w').
Proof.
  intros (Ho & Hr & Hm & Hk & Hl).
  unfold encode_frame, hdr0.
  destruct (f_mask f) as [k|].
  - destruct (read_len_encode true (blen (f_data f)) [] Hl) as (b1 & ext & E & A & B & _).
    exists b1, ext. cbv zeta in E. rewrite E. repeat split; auto.
    + simpl. rewrite <- !app_assoc. reflexivity.
    + intro w'. destruct (read_len_encode true (blen (f_data f)) w' Hl) as (b1' & ext' & E' & _ & _ & R).
      cbv zeta in E'. rewrite E in E'. injection E' as <- <-. exact R.
  - destruct (read_len_encode false (blen (f_data f)) [] Hl) as (b1 & ext & E & A & B & _).
    exists b1, ext. cbv zeta in E. rewrite E. repeat split; auto.
    + simpl. rewrite <- !app_assoc. reflexivity.
    + intro w'. destruct (read_len_encode false (blen (f_data f)) w' Hl) as (b1' & ext' & E' & _ & _ & R).
      cbv zeta in E'. rewrite E in E'. injection E' as <- <-. exact R.
Qed.

(* (RT) the decoder inverts the encoder *)
Theorem parse_encode f rest :
  wf_frame f -> parse_frame (encode_frame f ++ rest) = Some (f, rest).
Proof.
  intro W. destruct (encode_frame_shape f rest W) as (b1 & ext & E & A & B & R).
  destruct W as (Ho & Hr & Hm & Hk & Hl).
  rewrite E. unfold parse_frame.
  rewrite R, A.
  rewrite (read_body_encode (f_mask f) (f_data f) rest Hk).
  destruct (hdr0_spec (f_fin f) (f_op f) (f_rsv f) Ho Hr Hm) as (F1 & F2 & F3).
  rewrite F1, F2, F3. destruct f; reflexivity.
Qed.

(* non-vacuity: boundary lengths, both masking directions *)
Example wf_example :
  wf_frame {| f_fin := true; f_rsv := 64; f_op := 1; f_mask := Some [1;2;3;4]; f_data := repeat 7 126 |}.
Proof. unfold wf_frame; cbn. repeat split; try reflexivity. Qed.
Example parse_encode_example :
  parse_frame (encode_frame {| f_fin := false; f_rsv := 0; f_op := 2; f_mask := None; f_data := [1;2;3] |} ++ [9])
  = Some ({| f_fin := false; f_rsv := 0; f_op := 2; f_mask := None; f_data := [1;2;3] |}, [9]).
Proof. vm_compute. reflexivity. Qed.
