(* C14/C15 — WebSocket frame codec, sender and receiver of
   tornado/websocket.py (WebSocketProtocol13._write_frame, write_message,
   _receive_frame_loop, _receive_frame, _handle_message, close, _abort,
   _PerMessageDeflateCompressor.compress, _PerMessageDeflateDecompressor.decompress).
   zlib is a pair of Section variables.  Definitions only. *)
From Coq Require Import List NArith Arith Bool.
Import ListNotations.
From TV Require Import C18.Model C14.Utf8.
Local Open Scope N_scope.

Definition bytes := list N.
Definition blen (l : bytes) : N := N.of_nat (length l).

(* ------------------------------------------------------------------ *)
(* Frames on the wire                                                  *)
(* ------------------------------------------------------------------ *)
Record frame := {
  f_fin : bool;
  f_rsv : N;                 (* header & 0x70 : RSV1 = 64, RSV2 = 32, RSV3 = 16 *)
  f_op : N;                  (* header & 0x0F *)
  f_mask : option bytes;     (* 4-byte masking key *)
  f_data : bytes             (* payload before masking *)
}.

(* tornado.util._websocket_mask with a 4-byte key: the same function as C18's mask_ref
   (lemma ws_mask_ref), written with a rotating key so that it evaluates in linear time *)
Fixpoint mask_cyc (k0 k1 k2 k3 : N) (d : bytes) : bytes :=
  match d with
  | [] => []
  | b :: d' => N.lxor b k0 :: mask_cyc k1 k2 k3 k0 d'
  end.
Definition ws_mask (k d : bytes) : bytes :=
  match k with
  | [k0; k1; k2; k3] => mask_cyc k0 k1 k2 k3 d
  | _ => mask_ref k d
  end.

(* struct.pack("B", n | mask_bit) / "!BH" / "!BQ" *)
Definition len_bytes (maskbit n : N) : bytes :=
  if n <? 126 then [N.lor n maskbit]
  else if n <=? 65535 then N.lor 126 maskbit :: store BE 2 n
  else N.lor 127 maskbit :: store BE 8 n.

Definition encode_frame (f : frame) : bytes :=
  let n := blen (f_data f) in
  let b0 := N.lor (N.lor (if f_fin f then 128 else 0) (f_op f)) (f_rsv f) in
  match f_mask f with
  | Some k => b0 :: len_bytes 128 n ++ k ++ ws_mask k (f_data f)
  | None => b0 :: len_bytes 0 n ++ f_data f
  end.

Definition is_ctl (op : N) : bool := negb (N.land op 8 =? 0).

(* WebSocketProtocol13._write_frame ; None = ValueError *)
Definition write_frame (key : option bytes) (fin : bool) (op flags : N) (data : bytes)
  : option bytes :=
  if is_ctl op && (negb fin || (125 <? blen data)) then None
  else Some (encode_frame {| f_fin := fin; f_rsv := flags; f_op := op; f_mask := key; f_data := data |}).

(* stream.read_bytes(n): all or nothing *)
Definition read_bytes (n : N) (w : bytes) : option (bytes * bytes) :=
  if blen w <? n then None else Some (firstn (N.to_nat n) w, skipn (N.to_nat n) w).

(* the extended payload length *)
Definition read_len (plen7 : N) (w : bytes) : option (N * bytes) :=
  if plen7 <? 126 then Some (plen7, w)
  else if plen7 =? 126 then
    match read_bytes 2 w with Some (d, r) => Some (load BE d, r) | None => None end
  else
    match read_bytes 8 w with Some (d, r) => Some (load BE d, r) | None => None end.

(* masking key and payload, unmasked *)
Definition read_body (masked : bool) (plen : N) (w : bytes)
  : option (option bytes * bytes * bytes) :=
  if masked then
    match read_bytes 4 w with
    | Some (k, r) =>
        match read_bytes plen r with
        | Some (d, r') => Some (Some k, ws_mask k d, r')
        | None => None
        end
    | None => None
    end
  else
    match read_bytes plen w with
    | Some (d, r') => Some (None, d, r')
    | None => None
    end.

(* the pure codec: no validation at all *)
Definition parse_frame (w : bytes) : option (frame * bytes) :=
  match w with
  | b0 :: b1 :: w1 =>
      match read_len (N.land b1 127) w1 with
      | Some (plen, w2) =>
          match read_body (negb (N.land b1 128 =? 0)) plen w2 with
          | Some (k, d, w3) =>
              Some ({| f_fin := negb (N.land b0 128 =? 0); f_rsv := N.land b0 112;
                       f_op := N.land b0 15; f_mask := k; f_data := d |}, w3)
          | None => None
          end
      | None => None
      end
  | _ => None
  end.

(* ------------------------------------------------------------------ *)
(* permessage-deflate around an abstract zlib                           *)
(* ------------------------------------------------------------------ *)
Definition trailer : bytes := [0; 0; 255; 255].

(* result of decompressobj.decompress(data, max_length) *)
Inductive zres :=
| ZOk (out : bytes) (tail_empty : bool)     (* tail_empty = not unconsumed_tail *)
| ZErr                                        (* zlib.error *)
| ZOracle.                                    (* correspondence tape disagrees (Run.v only) *)

Inductive dres := DOk (out : bytes) | DTooLarge | DZlibError | DOracle.

Fixpoint bytes_eqb (a b : bytes) : bool :=
  match a, b with
  | [], [] => true
  | x :: a', y :: b' => (x =? y) && bytes_eqb a' b'
  | _, _ => false
  end.

Definition ends_with_trailer (l : bytes) : option bytes :=
  let n := length l in
  if (n <? 4)%nat then None
  else if bytes_eqb (skipn (n - 4) l) trailer then Some (firstn (n - 4) l) else None.

Section Zlib.
Variable ist : Type.   (* state of the inflater (decompressobj) *)
Variable dst : Type.   (* state of the deflater (compressobj) *)
(* z_inflate s fresh data max: [fresh] = a new decompressobj is created for this call *)
Variable z_inflate : ist -> bool -> bytes -> N -> zres * ist.
(* z_deflate s fresh data = compress(data) + flush(Z_SYNC_FLUSH); None = tape disagrees *)
Variable z_deflate : dst -> bool -> bytes -> option bytes * dst.

(* _PerMessageDeflateDecompressor.decompress *)
Definition pmd_decompress (persistent : bool) (max : N) (s : ist) (data : bytes) : dres * ist :=
  let '(r, s') := z_inflate s (negb persistent) (data ++ trailer) max in
  match r with
  | ZOk out true => (DOk out, s')
  | ZOk _ false => (DTooLarge, s')
  | ZErr => (DZlibError, s')
  | ZOracle => (DOracle, s')
  end.

Inductive cres := COk (out : bytes) | CAssert | COracle.

(* _PerMessageDeflateCompressor.compress *)
Definition pmd_compress (persistent : bool) (s : dst) (data : bytes) : cres * dst :=
  let '(r, s') := z_deflate s (negb persistent) data in
  match r with
  | Some out => match ends_with_trailer out with Some c => (COk c, s') | None => (CAssert, s') end
  | None => (COracle, s')
  end.

(* ------------------------------------------------------------------ *)
(* Sender: write_message                                               *)
(* ------------------------------------------------------------------ *)
Record scfg := {
  s_mask : bool;                 (* mask_outgoing *)
  s_comp : option bool           (* None: no compressor | Some persistent *)
}.

Inductive sres := SWire (w : bytes) | SUnicodeError | SValueError | SAssert | SOracle | SNoKey.

(* write_message(message, binary) where [data] is the str (code points) or the bytes;
   [key] is what os.urandom(4) returns for this frame *)
Definition send_message (cfg : scfg) (s : dst) (key : bytes) (binary : bool) (data : list N)
  : sres * dst :=
  match (if binary then Some data else utf8_encode data) with
  | None => (SUnicodeError, s)
  | Some payload =>
      let opcode := if binary then 2 else 1 in
      let k := if s_mask cfg then Some key else None in
      match s_comp cfg with
      | None =>
          match write_frame k true opcode 0 payload with
          | Some w => (SWire w, s) | None => (SValueError, s) end
      | Some persistent =>
          match pmd_compress persistent s payload with
          | (COk c, s') =>
              match write_frame k true opcode 64 c with
              | Some w => (SWire w, s') | None => (SValueError, s') end
          | (CAssert, s') => (SAssert, s')
          | (COracle, s') => (SOracle, s')
          end
      end
  end.

(* ------------------------------------------------------------------ *)
(* Receiver                                                            *)
(* ------------------------------------------------------------------ *)
Record rcfg := {
  r_decomp : option bool;        (* None: no decompressor | Some persistent *)
  r_max : N;                     (* params.max_message_size *)
  r_key : option bytes           (* Some k: mask_outgoing with os.urandom = k *)
}.

Inductive event :=
| EvMsg (text : bool) (d : list N)       (* on_message(str as code points | bytes) *)
| EvPing (d : bytes)
| EvPong (d : bytes).

(* exceptions that escape _receive_frame_loop *)
Inductive exn := XValue | XAssert | XOracle.

Record rstate := {
  r_frag : option (N * bytes);   (* _fragmented_message_opcode, _fragmented_message_buffer *)
  r_fcomp : bool;                (* _frame_compressed *)
  r_cterm : bool;                (* client_terminated *)
  r_sterm : bool;                (* server_terminated *)
  r_closed : bool;               (* stream.closed() *)
  r_ccode : option N;            (* close_code *)
  r_creason : option (list N);   (* close_reason *)
  r_z : ist;
  r_events : list event;         (* newest first *)
  r_sent : list bytes            (* frames written to the stream, newest first *)
}.

Definition rinit (z : ist) : rstate :=
  {| r_frag := None; r_fcomp := false; r_cterm := false; r_sterm := false; r_closed := false;
     r_ccode := None; r_creason := None; r_z := z; r_events := []; r_sent := [] |}.

Definition set_frag st v := {| r_frag := v; r_fcomp := r_fcomp st; r_cterm := r_cterm st; r_sterm := r_sterm st; r_closed := r_closed st; r_ccode := r_ccode st; r_creason := r_creason st; r_z := r_z st; r_events := r_events st; r_sent := r_sent st |}.
Definition set_fcomp st v := {| r_frag := r_frag st; r_fcomp := v; r_cterm := r_cterm st; r_sterm := r_sterm st; r_closed := r_closed st; r_ccode := r_ccode st; r_creason := r_creason st; r_z := r_z st; r_events := r_events st; r_sent := r_sent st |}.
Definition set_cterm st v := {| r_frag := r_frag st; r_fcomp := r_fcomp st; r_cterm := v; r_sterm := r_sterm st; r_closed := r_closed st; r_ccode := r_ccode st; r_creason := r_creason st; r_z := r_z st; r_events := r_events st; r_sent := r_sent st |}.
Definition set_sterm st v := {| r_frag := r_frag st; r_fcomp := r_fcomp st; r_cterm := r_cterm st; r_sterm := v; r_closed := r_closed st; r_ccode := r_ccode st; r_creason := r_creason st; r_z := r_z st; r_events := r_events st; r_sent := r_sent st |}.
Definition set_closed st v := {| r_frag := r_frag st; r_fcomp := r_fcomp st; r_cterm := r_cterm st; r_sterm := r_sterm st; r_closed := v; r_ccode := r_ccode st; r_creason := r_creason st; r_z := r_z st; r_events := r_events st; r_sent := r_sent st |}.
Definition set_ccode st v := {| r_frag := r_frag st; r_fcomp := r_fcomp st; r_cterm := r_cterm st; r_sterm := r_sterm st; r_closed := r_closed st; r_ccode := v; r_creason := r_creason st; r_z := r_z st; r_events := r_events st; r_sent := r_sent st |}.
Definition set_creason st v := {| r_frag := r_frag st; r_fcomp := r_fcomp st; r_cterm := r_cterm st; r_sterm := r_sterm st; r_closed := r_closed st; r_ccode := r_ccode st; r_creason := v; r_z := r_z st; r_events := r_events st; r_sent := r_sent st |}.
Definition set_z st v := {| r_frag := r_frag st; r_fcomp := r_fcomp st; r_cterm := r_cterm st; r_sterm := r_sterm st; r_closed := r_closed st; r_ccode := r_ccode st; r_creason := r_creason st; r_z := v; r_events := r_events st; r_sent := r_sent st |}.
Definition add_event st e := {| r_frag := r_frag st; r_fcomp := r_fcomp st; r_cterm := r_cterm st; r_sterm := r_sterm st; r_closed := r_closed st; r_ccode := r_ccode st; r_creason := r_creason st; r_z := r_z st; r_events := e :: r_events st; r_sent := r_sent st |}.
Definition add_sent st w := {| r_frag := r_frag st; r_fcomp := r_fcomp st; r_cterm := r_cterm st; r_sterm := r_sterm st; r_closed := r_closed st; r_ccode := r_ccode st; r_creason := r_creason st; r_z := r_z st; r_events := r_events st; r_sent := w :: r_sent st |}.

(* WebSocketProtocol._abort: flags, stream.close(), then close() which (server_terminated
   already set, client_terminated set) only closes the stream again *)
Definition abort (st : rstate) : rstate :=
  set_closed (set_sterm (set_cterm st true) true) true.

(* WebSocketProtocol13.close(code, reason); the 5 s timer that aborts later is not modelled *)
Definition ws_close (cfg : rcfg) (st : rstate) (code : option N) (reason : option bytes)
  : rstate * option exn :=
  let '(st1, x) :=
    if r_sterm st then (st, None)
    else
      let '(st', x) :=
        if r_closed st then (st, None)
        else
          let code' := match code, reason with None, Some _ => Some 1000 | _, _ => code end in
          let data := (match code' with Some c => store BE 2 c | None => [] end)
                      ++ (match reason with Some r => r | None => [] end) in
          match write_frame (r_key cfg) true 8 0 data with
          | Some w => (add_sent st w, None)
          | None => (st, Some XValue)
          end in
      match x with
      | Some e => (st', Some e)            (* the exception leaves close() before the flag is set *)
      | None => (set_sterm st' true, None)
      end in
  match x with
  | Some e => (st1, Some e)
  | None => (if r_cterm st1 then set_closed st1 true else st1, None)
  end.

Definition too_big : bytes :=   (* "message too big" *)
  [109;101;115;115;97;103;101;32;116;111;111;32;98;105;103].
Definition too_big_after : bytes :=   (* "message too big after decompression" *)
  too_big ++ [32;97;102;116;101;114;32;100;101;99;111;109;112;114;101;115;115;105;111;110].

(* close(1009, reason); _abort() *)
Definition close_abort cfg st reason : rstate * option exn :=
  match ws_close cfg st (Some 1009) (Some reason) with
  | (st', None) => (abort st', None)
  | (st', Some e) => (st', Some e)
  end.

(* WebSocketProtocol13._handle_message *)
Definition handle_message (cfg : rcfg) (st : rstate) (op : N) (data : bytes)
  : rstate * option exn :=
  if r_cterm st then (st, None)
  else
    let dec : (rstate * dres) + exn :=
      if r_fcomp st && negb (is_ctl op) then
        match r_decomp cfg with
        | None => inr XAssert                (* assert self._decompressor is not None *)
        | Some persistent =>
            let '(r, z') := pmd_decompress persistent (r_max cfg) (r_z st) data in
            inl (set_z st z', r)
        end
      else inl (st, DOk data) in
    match dec with
    | inr e => (st, Some e)
    | inl (st1, r) =>
    match r with
    | DTooLarge => close_abort cfg st1 too_big_after
    | DZlibError => (abort st1, None)          (* except zlib.error: self._abort() *)
    | DOracle => (st1, Some XOracle)
    | DOk data' =>
        if op =? 1 then
          match utf8_decode data' with
          | None => (abort st1, None)
          | Some cps => (add_event st1 (EvMsg true cps), None)
          end
        else if op =? 2 then (add_event st1 (EvMsg false data'), None)
        else if op =? 8 then
          let st2 := set_cterm st1 true in
          let st3 := if (2 <=? length data')%nat
                     then set_ccode st2 (Some (load BE (firstn 2 data'))) else st2 in
          if (2 <? length data')%nat then
            (* data[2:].decode("utf-8", "replace")  (fix 5f4898d) *)
            ws_close cfg (set_creason st3 (Some (utf8_lenient (skipn 2 data')))) (r_ccode st3) None
          else ws_close cfg st3 (r_ccode st3) None
        else if op =? 9 then
          let '(st2, x) :=
            if r_closed st1 then (abort st1, None)      (* StreamClosedError -> _abort *)
            else match write_frame (r_key cfg) true 10 0 data' with
                 | Some w => (add_sent st1 w, None)
                 | None => (st1, Some XValue)
                 end in
          match x with
          | Some e => (st2, Some e)
          | None => (add_event st2 (EvPing data'), None)
          end
        else if op =? 10 then (add_event st1 (EvPong data'), None)
        else (abort st1, None)
    end
    end.

(* what _receive_frame does once header, length and payload are known;
   [plen] is the declared payload length, [data] the unmasked payload *)
Definition header_checks (cfg : rcfg) (st : rstate) (rsv op : N)
  : rstate * bool (* true = reserved bits left: abort *) :=
  let ctl := is_ctl op in
  let '(st1, rsv') :=
    match r_decomp cfg with
    | Some _ =>
        if negb (op =? 0) && negb ctl
        then (set_fcomp st (negb (N.land rsv 64 =? 0)), N.ldiff rsv 64)
        else (st, rsv)
    | None => (st, rsv)
    end in
  (st1, negb (rsv' =? 0)).

(* len(self._fragmented_message_buffer) as counted by the size check: a control
   frame is not part of the message being reassembled *)
Definition frag_len (st : rstate) (op : N) : N :=
  if is_ctl op then 0 else match r_frag st with Some (_, b) => blen b | None => 0 end.

Definition dispatch (cfg : rcfg) (st : rstate) (fin : bool) (op : N) (data : bytes)
  : rstate * option exn :=
  if is_ctl op then
    if fin then handle_message cfg st op data else (abort st, None)
  else if op =? 0 then
    match r_frag st with
    | None => (abort st, None)
    | Some (fop, buf) =>
        if fin then handle_message cfg (set_frag st None) fop (buf ++ data)
        else (set_frag st (Some (fop, buf ++ data)), None)
    end
  else
    match r_frag st with
    | Some _ => (abort st, None)
    | None =>
        if fin then handle_message cfg st op data
        else (set_frag st (Some (op, data)), None)
    end.

Inductive fstep :=
| FShort (st : rstate)                 (* a read_bytes is pending on a short wire *)
| FNext (st : rstate) (rest : bytes)   (* _receive_frame returned *)
| FEsc (st : rstate) (e : exn).        (* an exception left _receive_frame *)

Definition of_pair (p : rstate * option exn) (rest : bytes) : fstep :=
  match p with (st, None) => FNext st rest | (st, Some e) => FEsc st e end.

(* WebSocketProtocol13._receive_frame on the unread bytes [w] *)
Definition recv_frame (cfg : rcfg) (st : rstate) (w : bytes) : fstep :=
  match w with
  | b0 :: b1 :: w1 =>
      let fin := negb (N.land b0 128 =? 0) in
      let op := N.land b0 15 in
      let '(st1, bad_rsv) := header_checks cfg st (N.land b0 112) op in
      if bad_rsv then FNext (abort st1) w1
      else
        let masked := negb (N.land b1 128 =? 0) in
        let plen7 := N.land b1 127 in
        if is_ctl op && (126 <=? plen7) then FNext (abort st1) w1
        else
          match read_len plen7 w1 with
          | None => FShort st1
          | Some (plen, w2) =>
              if r_max cfg <? plen + frag_len st1 op
              then of_pair (close_abort cfg st1 too_big) w2
              else
                match read_body masked plen w2 with
                | None => FShort st1
                | Some (_, data, w3) => of_pair (dispatch cfg st1 fin op data) w3
                end
          end
  | _ => FShort st
  end.

Inductive outcome :=
| Done (st : rstate)           (* loop left; on_ws_connection_close(close_code, close_reason) ran *)
| Waiting (st : rstate)        (* blocked in read_bytes, no EOF yet *)
| Escaped (st : rstate) (e : exn)
| OutOfFuel.

(* _receive_frame_loop over the whole byte stream [w]; [eof]: the peer then closes *)
Fixpoint recv_loop (cfg : rcfg) (eof : bool) (fuel : nat) (st : rstate) (w : bytes) : outcome :=
  if r_cterm st then Done st
  else
    match fuel with
    | O => OutOfFuel
    | S fuel' =>
        match recv_frame cfg st w with
        | FShort st' => if eof then Done (abort st') else Waiting st'
        | FNext st' rest => recv_loop cfg eof fuel' st' rest
        | FEsc st' e => Escaped st' e
        end
    end.

Definition recv_wire (cfg : rcfg) (eof : bool) (st : rstate) (w : bytes) : outcome :=
  recv_loop cfg eof (S (length w)) st w.

(* ---------- the same machine on decoded frames ---------- *)
Definition step_frame (cfg : rcfg) (st : rstate) (f : frame) : rstate * option exn :=
  let '(st1, bad_rsv) := header_checks cfg st (f_rsv f) (f_op f) in
  if bad_rsv then (abort st1, None)
  else if is_ctl (f_op f) && (126 <=? blen (f_data f)) then (abort st1, None)
  else if r_max cfg <? blen (f_data f) + frag_len st1 (f_op f) then close_abort cfg st1 too_big
  else dispatch cfg st1 (f_fin f) (f_op f) (f_data f).

(* [eof]: the stream ends after the last frame *)
Fixpoint run_frames (cfg : rcfg) (eof : bool) (st : rstate) (fs : list frame) : outcome :=
  if r_cterm st then Done st
  else
    match fs with
    | [] => if eof then Done (abort st) else Waiting st
    | f :: fs' =>
        match step_frame cfg st f with
        | (st', None) => run_frames cfg eof st' fs'
        | (st', Some e) => Escaped st' e
        end
    end.

End Zlib.

Arguments rinit {ist}.
Arguments r_frag {ist}. Arguments r_fcomp {ist}. Arguments r_cterm {ist}. Arguments r_sterm {ist}.
Arguments r_closed {ist}. Arguments r_ccode {ist}. Arguments r_creason {ist}. Arguments r_z {ist}.
Arguments r_events {ist}. Arguments r_sent {ist}.
Arguments Done {ist}. Arguments Waiting {ist}. Arguments Escaped {ist}. Arguments OutOfFuel {ist}.

Definition messages_of (evs : list event) : list (bool * list N) :=
  flat_map (fun e => match e with EvMsg t d => [(t, d)] | _ => [] end) evs.

(* ------------------------------------------------------------------ *)
(* Negotiated parameters -> compressor / decompressor configuration     *)
(* (WebSocketProtocol13._create_compressors, _get_compressor_options,   *)
(*  _PerMessageDeflateCompressor/_Decompressor.__init__)                *)
(* ------------------------------------------------------------------ *)
Inductive pkey := KServerNoCtx | KClientNoCtx | KServerBits | KClientBits | KOther.
(* the value of a parameter: None (no value), a decimal integer string, or other text *)
Inductive pval := PNone | PInt (n : N) | PBad.

Definition pkey_eqb (a b : pkey) : bool :=
  match a, b with
  | KServerNoCtx, KServerNoCtx | KClientNoCtx, KClientNoCtx | KServerBits, KServerBits
  | KClientBits, KClientBits | KOther, KOther => true
  | _, _ => false
  end.

(* agreed_parameters: a dict given as its item list (keys distinct) *)
Definition agreed := list (pkey * pval).

Fixpoint pget (k : pkey) (a : agreed) : option pval :=
  match a with
  | [] => None
  | (k', v) :: a' => if pkey_eqb k k' then Some v else pget k a'
  end.
Definition pmem (k : pkey) (a : agreed) : bool := match pget k a with Some _ => true | None => false end.

(* _get_compressor_options(side, agreed): (persistent, max_wbits); None = ValueError from int() *)
Definition side_options (client : bool) (a : agreed) : option (bool * N) :=
  let persistent := negb (pmem (if client then KClientNoCtx else KServerNoCtx) a) in
  match pget (if client then KClientBits else KServerBits) a with
  | None | Some PNone => Some (persistent, 15)          (* zlib.MAX_WBITS *)
  | Some (PInt n) => Some (persistent, n)
  | Some PBad => None
  end.

Definition wbits_in_range (w : N) : bool := (8 <=? w) && (w <=? 15).
(* zlib (1.2.9 and later) refuses windowBits 8 for a raw deflate *compressor*: trusted fact *)
Definition zlib_compressobj_accepts (w : N) : bool := 9 <=? w.

(* the (persistent, max_wbits) of the compressor and of the decompressor; None = ValueError *)
Definition create_compressors (client : bool) (a : agreed) : option ((bool * N) * (bool * N)) :=
  if pmem KOther a then None
  else
    match side_options client a with
    | None => None
    | Some (cp, cw) =>
        if negb (wbits_in_range cw) then None
        else if cp && negb (zlib_compressobj_accepts cw) then None   (* persistent: compressobj() now *)
        else
          match side_options (negb client) a with
          | None => None
          | Some (dp, dw) => if negb (wbits_in_range dw) then None else Some ((cp, cw), (dp, dw))
          end
    end.
