(* Negotiation agreement, and the end-to-end statement: Tornado's sender talking to
   Tornado's receiver delivers the application's messages (str or bytes) unchanged. *)
From Coq Require Import List NArith Arith Bool Lia.
Import ListNotations.
From TV Require Import C18.Model C14.Utf8 C14.Utf8Proofs C14.Model C14.ProofsCodec C14.ProofsRecv C14.Peer
  C14.ProofsReasm C14.ProofsMain.
Local Open Scope N_scope.

(* ---------- _create_compressors on both ends ---------- *)
Theorem negotiation_agrees a c1 d1 c2 d2 :
  create_compressors true a = Some (c1, d1) -> create_compressors false a = Some (c2, d2) ->
  c1 = d2 /\ c2 = d1.
Proof.
  unfold create_compressors. destruct (pmem KOther a); [discriminate|]. cbn [negb].
  destruct (side_options true a) as [[p1 w1]|]; [|discriminate].
  destruct (side_options false a) as [[p2 w2]|];
    [|destruct (negb (wbits_in_range w1)); [discriminate|];
      destruct (p1 && negb (zlib_compressobj_accepts w1)); discriminate].
  destruct (negb (wbits_in_range w1)); [discriminate|].
  destruct (negb (wbits_in_range w2));
    [destruct (p1 && negb (zlib_compressobj_accepts w1)); discriminate|].
  destruct (p1 && negb (zlib_compressobj_accepts w1)); [discriminate|].
  destruct (p2 && negb (zlib_compressobj_accepts w2)); [discriminate|].
  intros H1 H2. injection H1 as <- <-. injection H2 as <- <-. auto.
Qed.

(* every parameter set of RFC 7692 with window bits 9-15 is accepted by both ends *)
Definition pval_ok (v : pval) : Prop :=
  match v with PNone => True | PInt n => 9 <= n /\ n <= 15 | PBad => False end.

Lemma side_options_ok client a :
  (forall k v, pget k a = Some v -> k <> KOther /\ ((k = KServerBits \/ k = KClientBits) -> pval_ok v)) ->
  exists p w, side_options client a = Some (p, w) /\ 9 <= w /\ w <= 15.
Proof.
  intro H. unfold side_options.
  destruct (pget (if client then KClientBits else KServerBits) a) as [v|] eqn:E.
  - destruct (H _ _ E) as [_ Hv].
    assert (Ok : pval_ok v) by (apply Hv; destruct client; auto).
    destruct v as [|n|]; [eexists _, _; split; [reflexivity|lia]| |destruct Ok].
    eexists _, _; split; [reflexivity|exact Ok].
  - eexists _, _; split; [reflexivity|lia].
Qed.

Theorem negotiation_total client a :
  (forall k v, pget k a = Some v -> k <> KOther /\ ((k = KServerBits \/ k = KClientBits) -> pval_ok v)) ->
  exists c d, create_compressors client a = Some (c, d).
Proof.
  intro H. unfold create_compressors.
  assert (NO : pmem KOther a = false).
  { unfold pmem. destruct (pget KOther a) eqn:E; [|reflexivity]. destruct (H _ _ E) as [C _]. congruence. }
  rewrite NO.
  destruct (side_options_ok client a H) as (p1 & w1 & -> & L1 & U1).
  destruct (side_options_ok (negb client) a H) as (p2 & w2 & -> & L2 & U2).
  unfold wbits_in_range, zlib_compressobj_accepts.
  destruct (N.leb_spec 8 w1); [|lia]. destruct (N.leb_spec w1 15); [|lia].
  destruct (N.leb_spec 9 w1); [|lia]. cbn [andb negb]. rewrite andb_false_r.
  destruct (N.leb_spec 8 w2); [|lia]. destruct (N.leb_spec w2 15); [|lia]. cbn [andb negb].
  eauto.
Qed.

(* ---------- application messages ---------- *)
(* (binary?, str as code points | bytes, os.urandom key) *)
Definition amsg := (bool * list N * bytes)%type.
Definition app_bytes (am : amsg) : option bytes :=
  let '(binary, data, _) := am in if binary then Some data else utf8_encode data.
Definition app_delivery (am : amsg) : bool * list N := let '(binary, data, _) := am in (negb binary, data).

Lemma encode_frame_payload_le f : blen (f_data f) <= blen (encode_frame f).
Proof.
  unfold encode_frame, blen. destruct (f_mask f); cbn [length]; rewrite !app_length, ?ws_mask_length; lia.
Qed.

Section E2E.
Variable ist : Type.
Variable dst : Type.
Variable z_inflate : ist -> bool -> bytes -> N -> zres * ist.
Variable z_deflate : dst -> bool -> bytes -> option bytes * dst.
Variable sync : dst -> ist -> Prop.
Hypothesis zlib_ok : forall ds zs fresh m max out ds',
  sync ds zs -> z_deflate ds fresh m = (Some out, ds') -> blen m <= max ->
  exists zs', z_inflate zs fresh out max = (ZOk m true, zs') /\ sync ds' zs'.

(* write_message for each message, in order; None unless every call wrote a frame *)
Fixpoint send_all_wires (cfg : scfg) (ds : dst) (ams : list amsg) : option (list bytes) :=
  match ams with
  | [] => Some []
  | (binary, data, key) :: tl =>
      match send_message dst z_deflate cfg ds key binary data with
      | (SWire w, ds') =>
          match send_all_wires cfg ds' tl with Some ws => Some (w :: ws) | None => None end
      | _ => None
      end
  end.

Lemma sender_builds (cfg : scfg) max : forall ams ds ws,
  send_all_wires cfg ds ams = Some ws ->
  (s_mask cfg = true -> Forall (fun am : amsg => length (snd am) = 4%nat) ams) ->
  Forall (fun w => blen w <= max) ws ->
  exists items msgs,
    concat ws = encode_all (items_frames (is_some (s_comp cfg)) items) /\
    peer_payloads dst z_deflate (s_comp cfg) ds msgs = Some (msg_payloads items) /\
    deliveries msgs = Some (map app_delivery ams) /\
    Forall (item_ok max) items /\
    map (fun tm : bool * bytes => Some (snd tm)) msgs = map app_bytes ams.
Proof.
  induction ams as [|[[binary data] key] tl IH]; intros ds ws H Hk Hw.
  - injection H as <-. exists [], []. repeat split; constructor.
  - cbn [send_all_wires] in H.
    destruct (send_message dst z_deflate cfg ds key binary data) as [[w| | | | |] ds'] eqn:E; try discriminate.
    destruct (send_all_wires cfg ds' tl) as [ws'|] eqn:E2; [|discriminate]. injection H as <-.
    inversion Hw as [|? ? Hw1 Hw2]; subst.
    destruct (sender_conforming dst z_deflate cfg ds key binary data w ds' E) as (m & payload & Em & Ew & Ec).
    destruct (IH ds' ws' E2) as (items & msgs & C & P & D & F & B); auto.
    { intro M. specialize (Hk M). inversion Hk; assumption. }
    set (k := if s_mask cfg then Some key else None).
    exists (IMsg (negb binary) k payload [] :: items), ((negb binary, m) :: msgs).
    split; [|split; [|split; [|split]]].
    + cbn [concat]. unfold items_frames. cbn [flat_map item_frames is_nil more_frames app].
      unfold encode_all. cbn [map concat]. rewrite Ew. f_equal. exact C.
    + cbn [peer_payloads msg_payloads flat_map app]. unfold more_payload. cbn [map concat]. rewrite app_nil_r.
      fold (msg_payloads items).
      destruct (s_comp cfg) as [p|].
      * rewrite Ec. rewrite P. reflexivity.
      * destruct Ec as [-> ->]. rewrite P. reflexivity.
    + cbn [deliveries map app_delivery]. rewrite D.
      unfold delivery. cbn [fst snd]. destruct binary; cbn [negb].
      * injection Em as <-. reflexivity.
      * rewrite (utf8_roundtrip data m Em). reflexivity.
    + constructor; [|exact F]. cbn [item_ok]. unfold more_payload, more_ctls. cbn [map concat flat_map].
      rewrite app_nil_r. split; [|split; [|split; constructor]].
      * subst k. unfold key_ok. destruct (s_mask cfg) eqn:M; [|exact I].
        specialize (Hk eq_refl). inversion Hk; assumption.
      * rewrite Ew in Hw1. eapply N.le_trans; [|exact Hw1].
        apply (encode_frame_payload_le (first_frame (is_some (s_comp cfg)) (negb binary) k payload true)).
    + cbn [map snd]. change (app_bytes (binary, data, key)) with (if binary then Some data else utf8_encode data).
      rewrite Em. f_equal. exact B.
Qed.

(* C14 end to end: Tornado's write_message on one end, Tornado's receive loop on the other;
   the same compression configuration on both ends (negotiation_agrees), sender masked or not *)
Theorem end_to_end (sc : scfg) (rc : rcfg) eof z0 ds0 ams ws :
  s_comp sc = r_decomp rc ->
  r_max rc < 2 ^ 64 ->
  send_all_wires sc ds0 ams = Some ws ->
  (s_mask sc = true -> Forall (fun am : amsg => length (snd am) = 4%nat) ams) ->
  Forall (fun w => blen w <= r_max rc) ws ->
  Forall (fun am => match app_bytes am with Some m => blen m <= r_max rc | None => True end) ams ->
  match r_decomp rc with Some _ => sync ds0 z0 | None => True end ->
  exists st,
    recv_wire ist z_inflate rc eof (rinit z0) (concat ws)
    = (if eof then Done (abort ist st) else Waiting st) /\
    messages_of (rev (r_events st)) = map app_delivery ams /\
    r_closed st = false.
Proof.
  intros Hcfg Hmax Hs Hk Hw Hm Hsync.
  destruct (sender_builds sc (r_max rc) ams ds0 ws Hs Hk Hw) as (items & msgs & C & P & D & F & B).
  rewrite Hcfg in C, P.
  assert (Fm : Forall (fun tm : bool * bytes => blen (snd tm) <= r_max rc) msgs).
  { clear - B Hm. revert ams B Hm. induction msgs as [|tm msgs IH]; intros [|am ams] B Hm; try discriminate; constructor.
    - cbn [map] in B. injection B as B1 B2. inversion Hm as [|? ? H1 H2]; subst. rewrite <- B1 in H1. exact H1.
    - cbn [map] in B. injection B as B1 B2. inversion Hm; subst. eapply IH; eauto. }
  destruct (messages_intact ist dst z_inflate z_deflate sync zlib_ok rc eof z0 ds0 items msgs _ _
              Hmax P eq_refl D F Fm Hsync) as (st & R & M & _ & _ & _ & Cl & _).
  exists st. rewrite C. auto.
Qed.

End E2E.

(* ---------- the checker accepts the model on every negotiation case ---------- *)
From TV Require Import Lib.Obs C14.Run.
From Coq Require Import ZArith.

Lemma neg_pair_eqb p w : obs_eqb (OList [OBool p; OInt (Z.of_N w)]) (OList [OBool p; OInt (Z.of_N w)]) = true.
Proof. cbn. rewrite Bool.eqb_reflx, Z.eqb_refl. reflexivity. Qed.

Theorem check_accepts_model_neg a : check_case (CNeg a) (run_case (CNeg a)) = true.
Proof.
  cbn [check_case run_case].
  destruct (create_compressors true a) as [[[p1 w1] [p2 w2]]|] eqn:E1;
    destruct (create_compressors false a) as [[[p3 w3] [p4 w4]]|] eqn:E2; cbn [neg_obs]; try reflexivity.
  destruct (negotiation_agrees a _ _ _ _ E1 E2) as [A B].
  injection A as <- <-. injection B as <- <-.
  rewrite !neg_pair_eqb. reflexivity.
Qed.
