(* Executable entry points of the C14 correspondence check: zlib is replaced by the
   tape of calls recorded from the real zlib objects while the implementation ran. *)
From Coq Require Import List NArith ZArith Arith Bool String.
Import ListNotations.
From TV Require Import Lib.Obs C18.Model C14.Utf8 C14.Model C14.Ref.
Local Open Scope N_scope.

(* ---------- compact byte strings: (pattern, repeat count) runs ---------- *)
Definition blob := list (bytes * N).
Fixpoint rep (p : bytes) (k : nat) : bytes :=
  match k with O => [] | S k' => p ++ rep p k' end.
Definition expand (b : blob) : bytes :=
  flat_map (fun pk => rep (fst pk) (N.to_nat (snd pk))) b.

(* ---------- observables: long strings are reported as a digest ---------- *)
(* position-weighted checksum (Adler-32 without the modulus): cheap under vm_compute *)
Definition wsum (l : list N) : N * N :=
  fold_left (fun (as_ : N * N) b => let a := fst as_ + b in (a, snd as_ + a)) l (0, 0).
Definition last_n (n : nat) (l : list N) : list N := skipn (List.length l - n) l.
Definition digest (l : list N) : obs :=
  if (List.length l <=? 200)%nat then OBytes l
  else OList [OInt (Z.of_nat (List.length l)); OInt (Z.of_N (fst (wsum l))); OInt (Z.of_N (snd (wsum l))); OBytes (firstn 8 l); OBytes (last_n 8 l)].

(* ---------- tape oracles ---------- *)
Definition itape := list (bool * blob * N * option (blob * bool)).
Definition dtape := list (bool * blob * blob).

Definition tape_inflate (s : itape) (fresh : bool) (d : bytes) (max : N) : zres * itape :=
  match s with
  | (fr, inp, mx, r) :: s' =>
      if Bool.eqb fr fresh && bytes_eqb (expand inp) d && (mx =? max) then
        (match r with Some (out, te) => ZOk (expand out) te | None => ZErr end, s')
      else (ZOracle, s)
  | [] => (ZOracle, s)
  end.

Definition tape_deflate (s : dtape) (fresh : bool) (d : bytes) : option bytes * dtape :=
  match s with
  | (fr, inp, out) :: s' =>
      if Bool.eqb fr fresh && bytes_eqb (expand inp) d then (Some (expand out), s') else (None, s)
  | [] => (None, s)
  end.

Inductive case :=
| CSend (mask : bool) (comp : option bool)
        (msgs : list (bool * blob * bytes))      (* binary?, bytes or code points, os.urandom(4) *)
        (tape : dtape)
| CRecv (decomp : option bool) (max : N) (key : option bytes) (eof : bool)
        (wire : blob) (tape : itape)
        (expect : option (list (bool * blob)))   (* Some: the (text?, message) list a conforming
                                                    peer encoded into [wire] *)
| CNeg (a : agreed)
| CClose (decomp : option bool) (max : N) (key : option bytes) (eof : bool)
         (code : option N) (reason : option blob)  (* close(code, reason) called locally first *)
         (wire : blob) (tape : itape).                             (* _create_compressors("client" | "server", a) *)

Definition sres_obs (r : sres) : obs :=
  match r with
  | SWire w => digest w
  | SUnicodeError => OTag "UnicodeEncodeError"
  | SValueError => OTag "ValueError"
  | SAssert => OTag "AssertionError"
  | SOracle => OTag "OracleMismatch"
  | SNoKey => OTag "NoKey"
  end.

Fixpoint send_all (cfg : scfg) (s : dtape) (msgs : list (bool * blob * bytes)) : list obs :=
  match msgs with
  | [] => []
  | (binary, data, key) :: ms =>
      let '(r, s') := send_message dtape tape_deflate cfg s key binary (expand data) in
      sres_obs r :: send_all cfg s' ms
  end.

Definition event_obs (e : event) : obs :=
  match e with
  | EvMsg true d => OList [OTag "text"; digest d]
  | EvMsg false d => OList [OTag "binary"; digest d]
  | EvPing d => OList [OTag "ping"; digest d]
  | EvPong d => OList [OTag "pong"; digest d]
  end.

Definition exn_name (e : exn) : string :=
  match e with
  | XValue => "Escaped:ValueError" | XAssert => "Escaped:AssertionError"
  | XOracle => "Escaped:OracleMismatch"
  end.

Definition optN_obs (o : option N) : obs := match o with Some n => OInt (Z.of_N n) | None => ONone end.
Definition optB_obs (o : option (list N)) : obs := match o with Some l => OBytes l | None => ONone end.

Definition state_obs (tag : string) (st : rstate itape) : obs :=
  OList [OTag tag; OList (map event_obs (rev (r_events st)));
         OList [OBool (r_cterm st); OBool (r_sterm st); OBool (r_closed st)];
         digest (List.concat (rev (r_sent st)));
         optN_obs (r_ccode st); optB_obs (r_creason st)].

Definition outcome_obs (o : outcome itape) : obs :=
  match o with
  | Done st => state_obs "Done" st
  | Waiting st => state_obs "Waiting" st
  | Escaped st e => state_obs (exn_name e) st
  | OutOfFuel => OTag "OutOfFuel"
  end.

Definition recv_case (decomp : option bool) (max : N) (key : option bytes) (eof : bool)
           (wire : blob) (tape : itape) : obs :=
  outcome_obs (recv_wire itape tape_inflate
                 {| r_decomp := decomp; r_max := max; r_key := key |} eof (rinit tape) (expand wire)).

Definition neg_obs (r : option ((bool * N) * (bool * N))) : obs :=
  match r with
  | Some ((cp, cw), (dp, dw)) =>
      OList [OList [OBool cp; OInt (Z.of_N cw)]; OList [OBool dp; OInt (Z.of_N dw)]]
  | None => OTag "ValueError"
  end.

Definition close_case (decomp : option bool) (max : N) (key : option bytes) (eof : bool)
           (code : option N) (reason : option blob) (wire : blob) (tape : itape) : obs :=
  let cfg := {| r_decomp := decomp; r_max := max; r_key := key |} in
  match ws_close itape cfg (rinit tape) code (option_map expand reason) with
  | (st1, None) => outcome_obs (recv_wire itape tape_inflate cfg eof st1 (expand wire))
  | (st1, Some e) => state_obs (exn_name e) st1
  end.

Definition run_case (c : case) : obs :=
  match c with
  | CClose decomp max key eof code reason wire tape => close_case decomp max key eof code reason wire tape
  | CNeg a => OList [neg_obs (create_compressors true a); neg_obs (create_compressors false a)]
  | CSend mask comp msgs tape => OList (send_all {| s_mask := mask; s_comp := comp |} tape msgs)
  | CRecv decomp max key eof wire tape _ => recv_case decomp max key eof wire tape
  end.

(* ---------- the property on observables ---------- *)
(* delivered (kind, digest) pairs, in order *)
Definition delivered (evs : list obs) : list obs :=
  flat_map (fun e => match e with
                     | OList [OTag k; d] =>
                         if String.eqb k "text" || String.eqb k "binary" then [e] else []
                     | _ => [] end) evs.

Definition expected_obs (ms : list (bool * blob)) : list obs :=
  map (fun m : bool * blob => OList [OTag (if fst m then "text"%string else "binary"%string); digest (expand (snd m))]) ms.

(* sender: the frame the implementation wrote decodes (pure codec) to one final data
   frame with the right opcode / mask bit, and, without compression, the message bytes *)
Definition sent_ok (mask : bool) (comp : option bool) (binary : bool) (data : list N) (key : bytes) (o : obs) : bool :=
  match o with
  | OBytes w =>
      if mask && negb (List.length key =? 4)%nat then true    (* not a case os.urandom(4) can produce *)
      else
      match parse_frame w with
      | Some (f, []) =>
          f_fin f && (f_op f =? (if binary then 2 else 1))
          && Bool.eqb (match f_mask f with Some _ => true | None => false end) mask
          && match comp with
             | None => (f_rsv f =? 0)
                       && match (if binary then Some data else utf8_encode data) with
                          | Some p => bytes_eqb (f_data f) p | None => false end
             | Some _ => (f_rsv f =? 64)
             end
      | _ => false
      end
  | OList [OInt _; OInt _; OInt _; OBytes _; OBytes _] => true   (* digest of a long frame: correspondence only *)
  | OTag t =>
      if String.eqb t "UnicodeEncodeError"
      then match (if binary then Some data else utf8_encode data) with None => true | Some _ => false end
      else String.eqb t "OracleMismatch" || String.eqb t "AssertionError"  (* replay-tape artefacts of the model *)
  | _ => false
  end.

Fixpoint sent_all_ok mask comp (msgs : list (bool * blob * bytes)) (os : list obs) : bool :=
  match msgs, os with
  | [], [] => true
  | (binary, data, key) :: ms, o :: os' =>
      sent_ok mask comp binary (expand data) key o && sent_all_ok mask comp ms os'
  | _, _ => false
  end.

(* the first frame written after a local close(code, reason) is the close frame carrying
   the code (1000 when only a reason was given) and the reason *)
Definition close_sent_ok (code : option N) (reason : option bytes) (o : obs) : bool :=
  match o with
  | OList [OTag tag; _; _; OBytes w; _; _] =>
      if String.eqb tag "Escaped:ValueError" then true
      else
        match parse_frame w with
        | Some (f, _) =>
            f_fin f && (f_op f =? 8) && (f_rsv f =? 0)
            && bytes_eqb (f_data f)
                 ((match code, reason with
                   | Some c, _ => store BE 2 c | None, Some _ => store BE 2 1000 | None, None => [] end)
                  ++ match reason with Some r => r | None => [] end)
        | None => false
        end
  | _ => true
  end.

(* ---------- receive direction: the expectation is COMPUTED from the input bytes by the
   reference decoder (C14/Ref.v); the expectation declared by the harness-side peer is only
   compared with it ---------- *)
Definition msgs_obs (dl : list (bool * list N)) : list obs :=
  map (fun m : bool * list N => OList [OTag (if fst m then "text"%string else "binary"%string); digest (snd m)]) dl.

Definition status_ok (s : rstatus) (eof : bool) (tag : string) (ct st cl : bool) : bool :=
  match s with
  | SAlive => if eof then String.eqb tag "Done" else String.eqb tag "Waiting" && negb cl && negb ct
  | SAbort => String.eqb tag "Done" && ct && st && cl
  | SPartial => String.eqb tag "Done" || String.eqb tag "Waiting"
  | SClosed => String.eqb tag "Done"
  end.

(* None: the reference does not decide this input (the tape has no answer for an inflate call) *)
Definition ref_check (decomp : option bool) (max : N) (eof : bool) (tape : itape) (wire : bytes) (o : obs) : option bool :=
  match ref_decode itape tape_inflate decomp max tape wire with
  | RUnknown => None
  | RDecided dl s =>
      Some (match o with
            | OList [OTag tag; OList evs; OList [OBool ct; OBool st; OBool cl]; _; _; _] =>
                obs_eqb (OList (delivered evs)) (OList (msgs_obs dl)) && status_ok s eof tag ct st cl
            | _ => false
            end)
  end.

(* a declared expectation must be what the reference computes (input-only condition) *)
Definition expect_consistent (decomp : option bool) (max : N) (tape : itape) (wire : bytes)
           (expect : option (list (bool * blob))) : bool :=
  match expect with
  | None => true
  | Some ms =>
      match ref_decode itape tape_inflate decomp max tape wire with
      | RDecided dl SAlive => obs_eqb (OList (msgs_obs dl)) (OList (expected_obs ms))
      | RDecided _ _ => false
      | RUnknown => true
      end
  end.

(* the former checker: compare with the declared expectation (used when the reference is undecided) *)
Definition declared_check (eof : bool) (expect : option (list (bool * blob))) (o : obs) : bool :=
  match expect with
  | None => true
  | Some ms =>
      match o with
      | OList [OTag tag; OList evs; OList [OBool ct; OBool st; OBool cl]; _; _; _] =>
          obs_eqb (OList (delivered evs)) (OList (expected_obs ms))
          && (if eof then String.eqb tag "Done" else String.eqb tag "Waiting" && negb cl && negb ct)
      | _ => false
      end
  end.

Definition check_recv (decomp : option bool) (max : N) (eof : bool) (tape : itape) (wire : blob)
           (expect : option (list (bool * blob))) (o : obs) : bool :=
  match ref_check decomp max eof tape (expand wire) o with
  | Some b => b && expect_consistent decomp max tape (expand wire) expect
  | None => declared_check eof expect o
  end.

Definition check_case (c : case) (o : obs) : bool :=
  match c with
  | CClose _ _ _ _ code reason _ _ => close_sent_ok code (option_map expand reason) o
  | CNeg _ =>
      (* when both ends accept the agreed parameters, each compressor is configured like the
         other end's decompressor *)
      match o with
      | OList [OList [cc; cd]; OList [sc; sd]] => obs_eqb cc sd && obs_eqb sc cd
      | OList [_; _] => true
      | _ => false
      end
  | CSend mask comp msgs _ =>
      match o with OList os => sent_all_ok mask comp msgs os | _ => false end
  | CRecv decomp max _ eof wire tape expect => check_recv decomp max eof tape wire expect o
  end.
