(* A conforming peer (RFC 6455 5.4, RFC 7692): any fragmentation of each message's wire
   payload, ping/pong frames anywhere between frames, any masking key on any frame.
   Definitions only; they are the vocabulary of the theorems in Property.v. *)
From Coq Require Import List NArith Arith Bool.
Import ListNotations.
From TV Require Import C18.Model C14.Utf8 C14.Model.
Local Open Scope N_scope.

(* a control frame: (pong?, masking key, payload) *)
Definition ctlspec := (bool * option bytes * bytes)%type.
Definition ctl_frame (c : ctlspec) : frame :=
  let '(pong, k, d) := c in
  {| f_fin := true; f_rsv := 0; f_op := if pong then 10 else 9; f_mask := k; f_data := d |}.
Definition ctl_event (c : ctlspec) : event :=
  let '(pong, _, d) := c in if pong then EvPong d else EvPing d.
(* what the receiver writes back: a pong for every ping *)
Definition ctl_reply (cfg : rcfg) (c : ctlspec) : list bytes :=
  let '(pong, _, d) := c in
  if pong then []
  else [encode_frame {| f_fin := true; f_rsv := 0; f_op := 10; f_mask := r_key cfg; f_data := d |}].
Definition ctl_ok (max : N) (c : ctlspec) : Prop :=
  blen (snd c) <= 125 /\ blen (snd c) <= max /\
  match snd (fst c) with Some k => length k = 4%nat | None => True end.

(* a later fragment: the control frames sent before it, its key, its chunk of the payload *)
Definition fragspec := (list ctlspec * option bytes * bytes)%type.

Inductive item :=
| ICtl (c : ctlspec)
| IMsg (text : bool) (k0 : option bytes) (c0 : bytes) (more : list fragspec).

Definition is_nil {A} (l : list A) : bool := match l with [] => true | _ => false end.

Fixpoint more_frames (more : list fragspec) : list frame :=
  match more with
  | [] => []
  | (ctls, k, c) :: tl =>
      map ctl_frame ctls ++
      {| f_fin := is_nil tl; f_rsv := 0; f_op := 0; f_mask := k; f_data := c |} :: more_frames tl
  end.

Definition first_frame (rsv1 text : bool) (k0 : option bytes) (c0 : bytes) (final : bool) : frame :=
  {| f_fin := final; f_rsv := if rsv1 then 64 else 0; f_op := if text then 1 else 2;
     f_mask := k0; f_data := c0 |}.

Definition item_frames (rsv1 : bool) (it : item) : list frame :=
  match it with
  | ICtl c => [ctl_frame c]
  | IMsg text k0 c0 more => first_frame rsv1 text k0 c0 (is_nil more) :: more_frames more
  end.

Definition items_frames (rsv1 : bool) (items : list item) : list frame :=
  flat_map (item_frames rsv1) items.

Definition more_payload (more : list fragspec) : bytes := concat (map (fun fs : fragspec => snd fs) more).
Definition more_ctls (more : list fragspec) : list ctlspec := flat_map (fun fs : fragspec => fst (fst fs)) more.

(* the (text?, wire payload) of the data messages, in order *)
Definition msg_payloads (items : list item) : list (bool * bytes) :=
  flat_map (fun it => match it with
                      | IMsg text _ c0 more => [(text, c0 ++ more_payload more)]
                      | ICtl _ => [] end) items.

Definition key_ok (k : option bytes) : Prop :=
  match k with Some k => length k = 4%nat | None => True end.

Definition item_ok (max : N) (it : item) : Prop :=
  match it with
  | ICtl c => ctl_ok max c
  | IMsg _ k0 c0 more =>
      key_ok k0 /\ blen (c0 ++ more_payload more) <= max /\
      Forall (ctl_ok max) (more_ctls more) /\ Forall (fun fs : fragspec => key_ok (snd (fst fs))) more
  end.

(* what the application must see: every control frame's callback at its position, every
   message when its last fragment has arrived *)
Fixpoint expected_events (items : list item) (dl : list (bool * list N)) : list event :=
  match items with
  | [] => []
  | ICtl c :: tl => ctl_event c :: expected_events tl dl
  | IMsg _ _ _ more :: tl =>
      match dl with
      | d :: dl' => map ctl_event (more_ctls more) ++ EvMsg (fst d) (snd d) :: expected_events tl dl'
      | [] => []
      end
  end.

Fixpoint expected_replies (cfg : rcfg) (items : list item) : list bytes :=
  match items with
  | [] => []
  | ICtl c :: tl => ctl_reply cfg c ++ expected_replies cfg tl
  | IMsg _ _ _ more :: tl => flat_map (ctl_reply cfg) (more_ctls more) ++ expected_replies cfg tl
  end.

(* what on_message receives for the message bytes [m] *)
Definition delivery (tm : bool * bytes) : option (bool * list N) :=
  if fst tm then match utf8_decode (snd tm) with Some cps => Some (true, cps) | None => None end
  else Some (false, snd tm).

Fixpoint deliveries (msgs : list (bool * bytes)) : option (list (bool * list N)) :=
  match msgs with
  | [] => Some []
  | tm :: tl =>
      match delivery tm, deliveries tl with
      | Some d, Some dl => Some (d :: dl)
      | _, _ => None
      end
  end.

Section PeerZ.
Variable dst : Type.
Variable z_deflate : dst -> bool -> bytes -> option bytes * dst.

(* wire payloads produced by a peer whose compressor is the one of
   _PerMessageDeflateCompressor.compress (None: no compression negotiated) *)
Fixpoint peer_payloads (comp : option bool) (ds : dst) (msgs : list (bool * bytes))
  : option (list (bool * bytes)) :=
  match msgs with
  | [] => Some []
  | (text, m) :: tl =>
      match comp with
      | None =>
          match peer_payloads comp ds tl with Some r => Some ((text, m) :: r) | None => None end
      | Some p =>
          match pmd_compress dst z_deflate p ds m with
          | (COk c, ds') =>
              match peer_payloads comp ds' tl with Some r => Some ((text, c) :: r) | None => None end
          | _ => None
          end
      end
  end.
End PeerZ.
