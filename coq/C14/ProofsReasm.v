(* Reassembly: for every message list, every fragmentation, every interleaving of
   ping/pong frames and compression on or off, the frame machine delivers exactly the
   messages sent, in order. *)
From Coq Require Import List NArith Arith Bool Lia.
Import ListNotations.
From TV Require Import C18.Model C18.Proofs C14.Utf8 C14.Model C14.ProofsCodec C14.ProofsRecv C14.Peer.
Local Open Scope N_scope.

Lemma bytes_eqb_eq a b : bytes_eqb a b = true -> a = b.
Proof.
  revert b; induction a as [|x a IH]; intros [|y b] H; simpl in H; try discriminate; auto.
  apply andb_true_iff in H as [H1 H2]. apply N.eqb_eq in H1. f_equal; auto.
Qed.

Lemma ends_with_trailer_spec l c : ends_with_trailer l = Some c -> l = c ++ trailer.
Proof.
  unfold ends_with_trailer. destruct (length l <? 4)%nat; [discriminate|].
  destruct (bytes_eqb (skipn (length l - 4) l) trailer) eqn:E; [|discriminate].
  intro H; injection H as <-. apply bytes_eqb_eq in E. rewrite <- E. symmetry. apply firstn_skipn.
Qed.

Lemma blen_app a b : blen (a ++ b) = blen a + blen b.
Proof. unfold blen. rewrite app_length. lia. Qed.

Section Reasm.
Variable ist : Type.
Variable dst : Type.
Variable z_inflate : ist -> bool -> bytes -> N -> zres * ist.
Variable z_deflate : dst -> bool -> bytes -> option bytes * dst.

(* zlib is lossless while both ends stay in step: [sync] couples the deflater of the
   peer with the inflater of the receiver *)
Variable sync : dst -> ist -> Prop.
Hypothesis zlib_ok : forall ds zs fresh m max out ds',
  sync ds zs -> z_deflate ds fresh m = (Some out, ds') -> blen m <= max ->
  exists zs', z_inflate zs fresh out max = (ZOk m true, zs') /\ sync ds' zs'.

Local Notation rstate := (rstate ist).
Local Notation step_frame := (step_frame ist z_inflate).
Local Notation run_frames := (run_frames ist z_inflate).
Local Notation handle_message := (handle_message ist z_inflate).

Definition log (st : rstate) (es : list event) (ws : list bytes) : rstate :=
  {| r_frag := r_frag st; r_fcomp := r_fcomp st; r_cterm := r_cterm st; r_sterm := r_sterm st;
     r_closed := r_closed st; r_ccode := r_ccode st; r_creason := r_creason st; r_z := r_z st;
     r_events := es ++ r_events st; r_sent := ws ++ r_sent st |}.

Lemma log_nil st : log st [] [] = st.
Proof. destruct st; reflexivity. Qed.
Lemma log_log st e1 w1 e2 w2 : log (log st e1 w1) e2 w2 = log st (e2 ++ e1) (w2 ++ w1).
Proof. destruct st; unfold log; simpl. rewrite !app_assoc. reflexivity. Qed.

Definition good (st : rstate) : Prop := r_cterm st = false /\ r_closed st = false.

Lemma good_log st es ws : good st -> good (log st es ws).
Proof. intros [A B]; split; assumption. Qed.

Lemma run_frames_cons cfg eof (st : rstate) f fs :
  r_cterm st = false ->
  run_frames cfg eof st (f :: fs) =
  match step_frame cfg st f with
  | (st', None) => run_frames cfg eof st' fs
  | (st', Some e) => Escaped st' e
  end.
Proof. intro H. cbn [Model.run_frames]. rewrite H. reflexivity. Qed.

(* ---------- a control frame ---------- *)
Lemma leb_false a b : a < b -> (b <=? a) = false.
Proof. intro H. apply N.leb_gt. exact H. Qed.
Lemma ltb_false a b : b <= a -> (a <? b) = false.
Proof. intro H. apply N.ltb_ge. exact H. Qed.

Lemma ctl_step cfg (st : rstate) c :
  good st -> ctl_ok (r_max cfg) c ->
  step_frame cfg st (ctl_frame c) = (log st [ctl_event c] (ctl_reply cfg c), None).
Proof.
  intros [Hc Hcl] (H125 & Hmax & _). destruct c as [[pong k] d]. cbn [fst snd] in *.
  unfold Model.step_frame, ctl_frame. cbn [f_rsv f_op f_data f_fin].
  assert (HC : header_checks ist cfg st 0 (if pong then 10 else 9) = (st, false)).
  { unfold header_checks. destruct (r_decomp cfg); destruct pong; reflexivity. }
  rewrite HC.
  assert (IC : is_ctl (if pong then 10 else 9) = true) by (destruct pong; reflexivity).
  rewrite IC. rewrite (leb_false (blen d) 126) by lia. cbn [andb].
  unfold frag_len. rewrite IC. rewrite N.add_0_r. rewrite (ltb_false (r_max cfg) (blen d)) by lia.
  unfold dispatch. rewrite IC. unfold Model.handle_message. rewrite Hc. rewrite IC.
  rewrite andb_false_r.
  destruct pong.
  - cbn. destruct st; reflexivity.
  - change (9 =? 1) with false. change (9 =? 2) with false. change (9 =? 8) with false. change (9 =? 9) with true.
    cbv iota. rewrite Hcl. unfold write_frame. change (is_ctl 10) with true.
    rewrite (ltb_false 125 (blen d)) by lia. cbn [negb orb andb].
    destruct st; reflexivity.
Qed.

Lemma ctls_run cfg eof (st : rstate) ctls rest :
  good st -> Forall (ctl_ok (r_max cfg)) ctls ->
  run_frames cfg eof st (map ctl_frame ctls ++ rest)
  = run_frames cfg eof (log st (rev (map ctl_event ctls)) (rev (flat_map (ctl_reply cfg) ctls))) rest.
Proof.
  revert st; induction ctls as [|c ctls IH]; intros st G F.
  - simpl. rewrite log_nil. reflexivity.
  - inversion F as [|? ? Fc Fcs]; subst. cbn [map app].
    rewrite run_frames_cons by apply G. rewrite ctl_step by assumption.
    rewrite IH by (auto using good_log). rewrite log_log.
    assert (R : rev (ctl_reply cfg c) = ctl_reply cfg c) by (destruct c as [[[|] k] d]; reflexivity).
    cbn [map rev flat_map]. rewrite rev_app_distr, R. reflexivity.
Qed.


(* ---------- data frames ---------- *)
Definition is_some {A} (o : option A) : bool := match o with Some _ => true | None => false end.

Definition after_first cfg (st : rstate) : rstate :=
  match r_decomp cfg with Some _ => set_fcomp ist st true | None => st end.

Lemma first_step cfg (st : rstate) text k0 c0 final :
  good st -> r_frag st = None -> blen c0 <= r_max cfg ->
  step_frame cfg st (first_frame (is_some (r_decomp cfg)) text k0 c0 final)
  = if final then handle_message cfg (after_first cfg st) (if text then 1 else 2) c0
    else (set_frag ist (after_first cfg st) (Some (if text then 1 else 2, c0)), None).
Proof.
  intros [Hc Hcl] Hf Hmax.
  unfold Model.step_frame, first_frame, after_first. cbn [f_rsv f_op f_data f_fin].
  assert (HC : header_checks ist cfg st (if is_some (r_decomp cfg) then 64 else 0) (if text then 1 else 2)
               = (match r_decomp cfg with Some _ => set_fcomp ist st true | None => st end, false)).
  { unfold header_checks. destruct (r_decomp cfg); destruct text; reflexivity. }
  rewrite HC.
  assert (IC : is_ctl (if text then 1 else 2) = false) by (destruct text; reflexivity).
  rewrite IC. cbn [andb].
  assert (FL : frag_len ist (match r_decomp cfg with Some _ => set_fcomp ist st true | None => st end)
                        (if text then 1 else 2) = 0).
  { unfold frag_len. rewrite IC. destruct (r_decomp cfg); cbn [r_frag set_fcomp]; rewrite Hf; reflexivity. }
  rewrite FL, N.add_0_r. rewrite (ltb_false (r_max cfg) (blen c0)) by lia.
  unfold dispatch. rewrite IC.
  assert (Z : ((if text then 1 else 2) =? 0) = false) by (destruct text; reflexivity).
  rewrite Z.
  assert (FR : r_frag (match r_decomp cfg with Some _ => set_fcomp ist st true | None => st end) = None).
  { destruct (r_decomp cfg); cbn [r_frag set_fcomp]; exact Hf. }
  rewrite FR. reflexivity.
Qed.

Lemma cont_step cfg (st : rstate) op buf k c final :
  good st -> r_frag st = Some (op, buf) -> blen c + blen buf <= r_max cfg ->
  step_frame cfg st {| f_fin := final; f_rsv := 0; f_op := 0; f_mask := k; f_data := c |}
  = if final then handle_message cfg (set_frag ist st None) op (buf ++ c)
    else (set_frag ist st (Some (op, buf ++ c)), None).
Proof.
  intros [Hc Hcl] Hf Hmax.
  unfold Model.step_frame. cbn [f_rsv f_op f_data f_fin].
  assert (HC : header_checks ist cfg st 0 0 = (st, false)).
  { unfold header_checks. destruct (r_decomp cfg); reflexivity. }
  rewrite HC. change (is_ctl 0) with false. cbn [andb].
  unfold frag_len. change (is_ctl 0) with false. cbv iota. rewrite Hf.
  rewrite (ltb_false (r_max cfg) (blen c + blen buf)) by lia.
  unfold dispatch. change (is_ctl 0) with false. change (0 =? 0) with true. cbv iota. rewrite Hf.
  reflexivity.
Qed.

Lemma set_frag_log st es ws v : set_frag ist (log st es ws) v = log (set_frag ist st v) es ws.
Proof. reflexivity. Qed.
Lemma set_frag_set_frag (st : rstate) a b : set_frag ist (set_frag ist st a) b = set_frag ist st b.
Proof. reflexivity. Qed.

(* the fragments after the first one, with their interleaved control frames *)
Lemma more_run cfg eof rest : forall more (st : rstate) op buf,
  more <> [] -> good st -> r_frag st = Some (op, buf) ->
  Forall (ctl_ok (r_max cfg)) (more_ctls more) ->
  blen (buf ++ more_payload more) <= r_max cfg ->
  run_frames cfg eof st (more_frames more ++ rest)
  = match handle_message cfg
            (set_frag ist (log st (rev (map ctl_event (more_ctls more)))
                                  (rev (flat_map (ctl_reply cfg) (more_ctls more)))) None)
            op (buf ++ more_payload more) with
    | (st', None) => run_frames cfg eof st' rest
    | (st', Some e) => Escaped st' e
    end.
Proof.
  induction more as [|[[ctls k] c] tl IH]; intros st op buf Hne G Hf Fc Hlen; [congruence|].
  unfold more_ctls in Fc. cbn [flat_map fst] in Fc. apply Forall_app in Fc as [Fc1 Fc2].
  fold (more_ctls tl) in Fc2.
  unfold more_payload in Hlen. cbn [map concat snd] in Hlen. fold (more_payload tl) in Hlen.
  rewrite !blen_app in Hlen.
  cbn [more_frames]. rewrite <- app_assoc. rewrite ctls_run by assumption. cbn [app].
  set (st1 := log st (rev (map ctl_event ctls)) (rev (flat_map (ctl_reply cfg) ctls))).
  assert (G1 : good st1) by (apply good_log; exact G).
  assert (Hf1 : r_frag st1 = Some (op, buf)) by exact Hf.
  rewrite run_frames_cons by apply G1.
  rewrite (cont_step cfg st1 op buf k c (is_nil tl) G1 Hf1) by lia.
  unfold more_ctls, more_payload. cbn [flat_map fst map concat snd].
  fold (more_ctls tl). fold (more_payload tl).
  destruct tl as [|fs tl'].
  - cbn [is_nil more_frames app]. unfold more_ctls, more_payload. cbn [flat_map map concat].
    rewrite !app_nil_r. reflexivity.
  - cbn [is_nil].
    rewrite (IH (set_frag ist st1 (Some (op, buf ++ c))) op (buf ++ c)).
    + subst st1. rewrite !set_frag_log, set_frag_set_frag, log_log.
      rewrite map_app, !rev_app_distr. rewrite flat_map_app, rev_app_distr. rewrite <- app_assoc. reflexivity.
    + discriminate.
    + split; [apply G1|apply G1].
    + reflexivity.
    + exact Fc2.
    + rewrite !blen_app. lia.
Qed.

(* ---------- delivery of a completed message ---------- *)
Lemma deliver_plain cfg (st : rstate) text m d :
  good st -> r_fcomp st = false -> delivery (text, m) = Some d ->
  handle_message cfg st (if text then 1 else 2) m = (add_event ist st (EvMsg (fst d) (snd d)), None).
Proof.
  intros [Hc Hcl] Hfc Hd. unfold Model.handle_message. rewrite Hc, Hfc. cbn [andb].
  unfold delivery in Hd. cbn [fst snd] in Hd. destruct text.
  - change (1 =? 1) with true. cbv iota.
    destruct (utf8_decode m) as [cps|]; [|discriminate]. injection Hd as <-. reflexivity.
  - change (2 =? 1) with false. change (2 =? 2) with true. cbv iota. injection Hd as <-. reflexivity.
Qed.

Lemma deliver_deflated cfg (st : rstate) p ds ds' text m c d :
  good st -> r_fcomp st = true -> r_decomp cfg = Some p -> sync ds (r_z st) ->
  pmd_compress dst z_deflate p ds m = (COk c, ds') -> blen m <= r_max cfg ->
  delivery (text, m) = Some d ->
  exists z', handle_message cfg st (if text then 1 else 2) c
             = (add_event ist (set_z ist st z') (EvMsg (fst d) (snd d)), None) /\ sync ds' z'.
Proof.
  intros [Hc Hcl] Hfc Hp Hs Hcomp Hmax Hd.
  unfold pmd_compress in Hcomp.
  destruct (z_deflate ds (negb p) m) as [[out|] ds1] eqn:Ed; [|discriminate].
  destruct (ends_with_trailer out) as [c'|] eqn:Et; [|discriminate].
  injection Hcomp as <- <-. apply ends_with_trailer_spec in Et. subst out.
  destruct (zlib_ok ds (r_z st) (negb p) m (r_max cfg) _ _ Hs Ed Hmax) as (z' & Ez & Hs').
  exists z'. split; [|exact Hs'].
  unfold Model.handle_message. rewrite Hc, Hfc, Hp.
  assert (IC : is_ctl (if text then 1 else 2) = false) by (destruct text; reflexivity).
  rewrite IC. cbn [andb negb]. unfold pmd_decompress. rewrite Ez.
  unfold delivery in Hd. cbn [fst snd] in Hd. destruct text.
  - change (1 =? 1) with true. cbv iota.
    destruct (utf8_decode m) as [cps|]; [|discriminate]. injection Hd as <-. reflexivity.
  - change (2 =? 1) with false. change (2 =? 2) with true. cbv iota. injection Hd as <-. reflexivity.
Qed.


(* ---------- one complete message ---------- *)
Definition Inv cfg (ds : dst) (st : rstate) : Prop :=
  good st /\ r_frag st = None /\
  match r_decomp cfg with Some _ => sync ds (r_z st) | None => r_fcomp st = false end.

Lemma set_frag_same (st : rstate) : r_frag st = None -> set_frag ist st None = st.
Proof. destruct st; simpl; intros ->; reflexivity. Qed.

Lemma msg_frames_run cfg eof rest (st : rstate) text k0 c0 more :
  good st -> r_frag st = None ->
  item_ok (r_max cfg) (IMsg text k0 c0 more) ->
  run_frames cfg eof st (item_frames (is_some (r_decomp cfg)) (IMsg text k0 c0 more) ++ rest)
  = match handle_message cfg
            (log (after_first cfg st) (rev (map ctl_event (more_ctls more)))
                 (rev (flat_map (ctl_reply cfg) (more_ctls more))))
            (if text then 1 else 2) (c0 ++ more_payload more) with
    | (st', None) => run_frames cfg eof st' rest
    | (st', Some e) => Escaped st' e
    end.
Proof.
  intros G Hf (_ & Hlen & Fc & _).
  cbn [item_frames app]. rewrite run_frames_cons by apply G.
  rewrite blen_app in Hlen.
  rewrite first_step by (auto; lia).
  assert (Hf1 : r_frag (after_first cfg st) = None).
  { unfold after_first. destruct (r_decomp cfg); exact Hf. }
  assert (G1 : good (after_first cfg st)).
  { unfold after_first. destruct (r_decomp cfg); exact G. }
  destruct more as [|fs tl].
  - cbn [is_nil more_frames app]. unfold more_ctls, more_payload. cbn [flat_map map concat rev].
    rewrite log_nil, app_nil_r. reflexivity.
  - cbn [is_nil].
    rewrite (more_run cfg eof rest (fs :: tl) (set_frag ist (after_first cfg st) (Some (if text then 1 else 2, c0)))
               (if text then 1 else 2) c0).
    + rewrite set_frag_log, set_frag_set_frag, set_frag_same by exact Hf1. reflexivity.
    + discriminate.
    + exact G1.
    + reflexivity.
    + exact Fc.
    + rewrite blen_app. lia.
Qed.

Lemma peer_payloads_cons comp ds msgs text c pay' :
  peer_payloads dst z_deflate comp ds msgs = Some ((text, c) :: pay') ->
  exists m msgs',
    msgs = (text, m) :: msgs' /\
    match comp with
    | None => m = c /\ peer_payloads dst z_deflate comp ds msgs' = Some pay'
    | Some p => exists ds', pmd_compress dst z_deflate p ds m = (COk c, ds') /\
                            peer_payloads dst z_deflate comp ds' msgs' = Some pay'
    end.
Proof.
  destruct msgs as [|[t m] msgs']; [discriminate|]. cbn [peer_payloads].
  destruct comp as [p|].
  - destruct (pmd_compress dst z_deflate p ds m) as [[c'| |] ds'] eqn:E; try discriminate.
    destruct (peer_payloads dst z_deflate (Some p) ds' msgs') as [r|] eqn:E2; [|discriminate].
    intro H; injection H as <- <- <-. exists m, msgs'. split; [reflexivity|]. exists ds'. auto.
  - destruct (peer_payloads dst z_deflate None ds msgs') as [r|] eqn:E2; [|discriminate].
    intro H; injection H as <- <- <-. exists m, msgs'. auto.
Qed.

(* (REF) every message list, every fragmentation, every interleaving, compression on or off *)
Theorem reasm_frames cfg eof rest : forall items ds msgs pay dl (st : rstate),
  peer_payloads dst z_deflate (r_decomp cfg) ds msgs = Some pay ->
  msg_payloads items = pay ->
  deliveries msgs = Some dl ->
  Forall (item_ok (r_max cfg)) items ->
  Forall (fun tm : bool * bytes => blen (snd tm) <= r_max cfg) msgs ->
  Inv cfg ds st ->
  exists st' ds',
    run_frames cfg eof st (items_frames (is_some (r_decomp cfg)) items ++ rest) = run_frames cfg eof st' rest /\
    Inv cfg ds' st' /\
    r_events st' = rev (expected_events items dl) ++ r_events st /\
    r_sent st' = rev (expected_replies cfg items) ++ r_sent st.
Proof.
  induction items as [|it items IH]; intros ds msgs pay dl st Hpay Hitems Hdl Fok Fmax HI.
  - exists st, ds. simpl. auto.
  - inversion Fok as [|? ? Hok Foks]; subst.
    unfold items_frames. cbn [flat_map]. fold (items_frames (is_some (r_decomp cfg)) items).
    rewrite <- app_assoc.
    destruct it as [c|text k0 c0 more].
    + (* control frame between messages *)
      destruct HI as (G & Hf & Hz).
      cbn [item_frames app]. rewrite run_frames_cons by apply G.
      rewrite ctl_step by assumption.
      assert (I1 : Inv cfg ds (log st [ctl_event c] (ctl_reply cfg c))).
      { split; [apply good_log; exact G|]. split; [exact Hf|exact Hz]. }
      destruct (IH ds msgs _ dl _ Hpay eq_refl Hdl Foks Fmax I1) as (st' & ds' & R & I' & Ev & Se).
      exists st', ds'. split; [exact R|]. split; [exact I'|].
      rewrite Ev, Se. cbn [expected_events expected_replies rev log r_events r_sent].
      rewrite <- !app_assoc. split; [reflexivity|].
      rewrite rev_app_distr.
      assert (RR : rev (ctl_reply cfg c) = ctl_reply cfg c) by (destruct c as [[[|] k] d]; reflexivity).
      rewrite RR, <- app_assoc. reflexivity.
    + (* a data message *)
      destruct HI as (G & Hf & Hz).
      cbn [msg_payloads flat_map app] in Hpay. fold (msg_payloads items) in Hpay.
      apply peer_payloads_cons in Hpay as (m & msgs' & -> & Hcomp).
      cbn [deliveries] in Hdl.
      destruct (delivery (text, m)) as [d|] eqn:Ed; [|discriminate].
      destruct (deliveries msgs') as [dl'|] eqn:Edl; [|discriminate].
      injection Hdl as <-.
      inversion Fmax as [|? ? Hm Fmax']; subst. cbn [snd] in Hm.
      rewrite (msg_frames_run cfg eof (items_frames (is_some (r_decomp cfg)) items ++ rest) st text k0 c0 more G Hf Hok).
      set (X := log (after_first cfg st) (rev (map ctl_event (more_ctls more)))
                    (rev (flat_map (ctl_reply cfg) (more_ctls more)))).
      assert (GX : good X).
      { apply good_log. unfold after_first. destruct (r_decomp cfg); exact G. }
      destruct (r_decomp cfg) as [p|] eqn:Ep.
      * destruct Hcomp as (ds1 & Hc1 & Hrest).
        assert (FX : r_fcomp X = true) by (subst X; unfold after_first; rewrite ?Ep; reflexivity).
        assert (SX : sync ds (r_z X)) by (subst X; unfold after_first; rewrite ?Ep; exact Hz).
        destruct (deliver_deflated cfg X p ds ds1 text m (c0 ++ more_payload more) d GX FX Ep SX Hc1 Hm Ed)
          as (z' & Hh & Hs').
        rewrite Hh.
        assert (I1 : Inv cfg ds1 (add_event ist (set_z ist X z') (EvMsg (fst d) (snd d)))).
        { unfold Inv. rewrite Ep. split; [exact GX|]. split; [|exact Hs'].
          subst X; unfold after_first; rewrite ?Ep; exact Hf. }
        destruct (IH ds1 msgs' _ dl' _ Hrest eq_refl Edl Foks Fmax' I1) as (st' & ds' & R & I' & Ev & Se).
        exists st', ds'. split; [exact R|]. split; [exact I'|].
        rewrite Ev, Se. subst X. unfold after_first. rewrite ?Ep.
        cbn [expected_events expected_replies add_event set_z log set_fcomp r_events r_sent].
        rewrite !rev_app_distr. cbn [rev]. rewrite <- !app_assoc. cbn [app].
        split; reflexivity.
      * destruct Hcomp as (-> & Hrest).
        assert (FX : r_fcomp X = false) by (subst X; unfold after_first; rewrite ?Ep; exact Hz).
        rewrite (deliver_plain cfg X text _ d GX FX Ed).
        assert (I1 : Inv cfg ds (add_event ist X (EvMsg (fst d) (snd d)))).
        { unfold Inv. rewrite Ep. split; [exact GX|]. split; [|exact FX].
          subst X; unfold after_first; rewrite ?Ep; exact Hf. }
        destruct (IH ds msgs' _ dl' _ Hrest eq_refl Edl Foks Fmax' I1) as (st' & ds' & R & I' & Ev & Se).
        exists st', ds'. split; [exact R|]. split; [exact I'|].
        rewrite Ev, Se. subst X. unfold after_first. rewrite ?Ep.
        cbn [expected_events expected_replies add_event log r_events r_sent].
        rewrite !rev_app_distr. cbn [rev]. rewrite <- !app_assoc. cbn [app].
        split; reflexivity.
Qed.

End Reasm.
