(* The closing handshake between two endpoints (close() on one end, the receive loop on
   the other, the echo back), for every status code and every UTF-8 reason. *)
From Coq Require Import List NArith Arith Bool Lia.
Import ListNotations.
From TV Require Import C18.Model C14.Utf8 C14.Utf8Proofs C14.Model C14.ProofsCodec C14.ProofsRecv C14.Peer
  C14.ProofsReasm C14.ProofsMain.
Local Open Scope N_scope.

(* ---------- on well-formed UTF-8 the lenient decoder is the strict one ---------- *)
Lemma lenient_step b0 t0 c r :
  dec1 (b0 :: t0) = Some (c, r) -> utf8_lenient (b0 :: t0) = c :: utf8_lenient r /\ (length r < length (b0 :: t0))%nat.
Proof.
  cbn [dec1 utf8_lenient]. unfold ok2_3, ok2_4.
  destruct (b0 <? 128). { intro H; injection H as <- <-. split; [reflexivity|simpl; lia]. }
  destruct (in_rng 194 223 b0).
  { destruct t0 as [|b1 t1]; [discriminate|]. destruct (cont b1); [|discriminate].
    intro H; injection H as <- <-. split; [reflexivity|simpl; lia]. }
  destruct (in_rng 224 239 b0).
  { destruct t0 as [|b1 [|b2 t2]]; try discriminate.
    destruct (in_rng (if b0 =? 224 then 160 else 128) (if b0 =? 237 then 159 else 191) b1); cbn [andb]; [|discriminate].
    destruct (cont b2); [|discriminate]. intro H; injection H as <- <-. split; [reflexivity|simpl; lia]. }
  destruct (in_rng 240 244 b0); [|discriminate].
  destruct t0 as [|b1 [|b2 [|b3 t3]]]; try discriminate.
  destruct (in_rng (if b0 =? 240 then 144 else 128) (if b0 =? 244 then 143 else 191) b1); cbn [andb]; [|discriminate].
  destruct (cont b2); cbn [andb]; [|discriminate]. destruct (cont b3); [|discriminate].
  intro H; injection H as <- <-. split; [reflexivity|simpl; lia].
Qed.

Theorem lenient_of_valid : forall l cps, utf8_decode l = Some cps -> utf8_lenient l = cps.
Proof.
  assert (G : forall n l cps, (length l <= n)%nat -> utf8_decode l = Some cps -> utf8_lenient l = cps).
  { induction n as [|n IH]; intros l cps Hn H.
    - destruct l; [injection H as <-; reflexivity|simpl in Hn; lia].
    - destruct l as [|b0 t0]; [injection H as <-; reflexivity|].
      rewrite utf8_decode_step in H.
      destruct (dec1 (b0 :: t0)) as [[c r]|] eqn:D; [|discriminate].
      destruct (lenient_step b0 t0 c r D) as [E L]. rewrite E.
      destruct (utf8_decode r) as [cs|] eqn:R; [|discriminate]. injection H as <-.
      f_equal. apply IH; [simpl in *; lia|exact R]. }
  intros l cps. apply (G (length l)). lia.
Qed.

Section Close.
Variable ist : Type.
Variable z_inflate : ist -> bool -> bytes -> N -> zres * ist.

Local Notation rstate := (rstate ist).
Local Notation step_frame := (step_frame ist z_inflate).
Local Notation handle_message := (handle_message ist z_inflate).

Definition close_frame (k : option bytes) (d : bytes) : frame :=
  {| f_fin := true; f_rsv := 0; f_op := 8; f_mask := k; f_data := d |}.

Lemma close_step cfg (st : rstate) k d :
  r_cterm st = false -> blen d <= 125 -> blen d <= r_max cfg ->
  step_frame cfg st (close_frame k d) = handle_message cfg st 8 d.
Proof.
  intros Hc H125 Hmax. unfold Model.step_frame, close_frame. cbn [f_rsv f_op f_data f_fin].
  assert (HC : header_checks ist cfg st 0 8 = (st, false)) by (unfold header_checks; destruct (r_decomp cfg); reflexivity).
  rewrite HC. change (is_ctl 8) with true. rewrite (leb_false (blen d) 126) by lia. cbn [andb].
  unfold frag_len. change (is_ctl 8) with true. cbv iota. rewrite N.add_0_r.
  rewrite (ltb_false (r_max cfg) (blen d)) by lia.
  unfold dispatch. change (is_ctl 8) with true. reflexivity.
Qed.

Lemma write_close_ok k d : blen d <= 125 -> write_frame k true 8 0 d = Some (encode_frame (close_frame k d)).
Proof.
  intro H. unfold write_frame. change (is_ctl 8) with true. rewrite (ltb_false 125 (blen d)) by lia. reflexivity.
Qed.

Lemma wf_close k d : key_ok k -> blen d <= 125 -> wf_frame (close_frame k d).
Proof. intros Hk H. unfold wf_frame, close_frame; cbn. repeat split; try exact Hk. lia. Qed.

Lemma ws_close_echo cfg (st : rstate) c :
  r_sterm st = false -> r_closed st = false -> r_cterm st = true ->
  ws_close ist cfg st (Some c) None
  = (set_closed ist (set_sterm ist (add_sent ist st (encode_frame (close_frame (r_key cfg) (store BE 2 c)))) true) true, None).
Proof.
  intros S C T. unfold ws_close. rewrite S, C. rewrite app_nil_r.
  rewrite write_close_ok by (unfold blen; rewrite store_BE_length; simpl; lia).
  cbn [set_sterm add_sent r_cterm]. rewrite T. reflexivity.
Qed.

Lemma ws_close_done cfg (st : rstate) c :
  r_sterm st = true -> r_cterm st = true ->
  ws_close ist cfg st c None = (set_closed ist st true, None).
Proof. intros S T. unfold ws_close. rewrite S, T. reflexivity. Qed.

(* close(code, reason) on end A; end B reads the frame, records code and reason, echoes the
   code and closes; end A reads the echo and closes without sending a second close frame *)
Theorem close_handshake cfgA cfgB zA zB eof (c : N) (r : bytes) cps :
  c < 65536 -> blen r <= 123 -> utf8_decode r = Some cps ->
  key_ok (r_key cfgA) -> key_ok (r_key cfgB) ->
  blen r + 2 <= r_max cfgB -> 2 <= r_max cfgA ->
  let d := store BE 2 c ++ r in
  let w := encode_frame (close_frame (r_key cfgA) d) in
  let w2 := encode_frame (close_frame (r_key cfgB) (store BE 2 c)) in
  exists stA,
    ws_close ist cfgA (rinit zA) (Some c) (Some r) = (stA, None) /\
    r_sent stA = [w] /\ r_sterm stA = true /\ r_closed stA = false /\
    exists stB,
      recv_wire ist z_inflate cfgB eof (rinit zB) w = Done stB /\
      r_ccode stB = Some c /\ r_creason stB = (if is_nil r then None else Some cps) /\
      r_closed stB = true /\ r_events stB = [] /\ r_sent stB = [w2] /\
      exists stA',
        recv_wire ist z_inflate cfgA eof stA w2 = Done stA' /\
        r_closed stA' = true /\ r_ccode stA' = Some c /\ r_sent stA' = [w] /\ r_events stA' = [].
Proof.
  intros Hc Hr Hu HkA HkB HmB HmA d w w2.
  assert (L2 : blen (store BE 2 c) = 2) by (unfold blen; rewrite store_BE_length; reflexivity).
  assert (Ld : blen d = 2 + blen r) by (unfold d; rewrite blen_app, L2; reflexivity).
  assert (Len2 : length (store BE 2 c) = 2%nat) by apply store_BE_length.
  (* A: close(code, reason) *)
  exists (set_sterm ist (add_sent ist (rinit zA) w) true). split.
  { unfold ws_close. cbn [rinit r_sterm r_closed r_cterm].
    fold d. rewrite (write_close_ok (r_key cfgA) d) by lia. reflexivity. }
  cbn [set_sterm add_sent rinit r_sent r_sterm r_closed].
  split; [reflexivity|]. split; [reflexivity|]. split; [reflexivity|].
  (* B: reads the close frame *)
  assert (WB : recv_wire ist z_inflate cfgB eof (rinit zB) w
               = run_frames ist z_inflate cfgB eof (rinit zB) [close_frame (r_key cfgA) d]).
  { unfold w. rewrite <- (recv_wire_refines ist z_inflate cfgB eof [close_frame (r_key cfgA) d]).
    - unfold encode_all. cbn [map concat]. rewrite app_nil_r. reflexivity.
    - constructor; [|constructor]. apply wf_close; [exact HkA|lia]. }
  assert (F2 : firstn 2 d = store BE 2 c) by (unfold d; rewrite firstn_app, Len2, Nat.sub_diag, firstn_all2 by lia; cbn [firstn]; apply app_nil_r).
  assert (S2 : skipn 2 d = r) by (unfold d; rewrite skipn_app, Len2, Nat.sub_diag, skipn_all2 by lia; reflexivity).
  assert (LenD : length d = (2 + length r)%nat) by (unfold d; rewrite app_length, Len2; reflexivity).
  destruct r as [|r0 r'].
  - eexists. split.
    { rewrite WB. cbn [Model.run_frames rinit r_cterm].
      rewrite (close_step cfgB (rinit zB) (r_key cfgA) d) by (try reflexivity; lia).
      unfold Model.handle_message. cbn [rinit r_cterm r_fcomp andb].
      change (8 =? 1) with false. change (8 =? 2) with false. change (8 =? 8) with true. cbv iota zeta.
      rewrite LenD. cbn [Nat.leb Nat.add]. rewrite F2, S2, load_store_BE by (change (256 ^ N.of_nat 2) with 65536; exact Hc).
      rewrite ?(lenient_of_valid _ cps Hu).
      cbn [length Nat.ltb Nat.leb Nat.add]; cbn [r_ccode set_creason set_ccode set_cterm];
        rewrite ws_close_echo by reflexivity; reflexivity. }
    cbn [is_nil set_closed set_sterm add_sent set_creason set_ccode set_cterm rinit r_ccode r_creason r_closed r_events r_sent].
    (split; [reflexivity|]); (split; [reflexivity|]); (split; [reflexivity|]); (split; [reflexivity|]); (split; [reflexivity|]).
    eexists; split.
    { rewrite <- (app_nil_r w2); change (w2 ++ []) with (encode_all [close_frame (r_key cfgB) (store BE 2 c)]).
      rewrite recv_wire_refines by (constructor; [apply wf_close; [exact HkB|lia]|constructor]).
      set (SA := set_sterm ist (add_sent ist (rinit zA) w) true).
      assert (CA : r_cterm SA = false) by reflexivity.
      assert (FA : r_fcomp SA = false) by reflexivity.
      cbn [Model.run_frames]. rewrite CA.
      rewrite close_step by (try reflexivity; lia).
      unfold Model.handle_message. rewrite CA, FA. cbn [andb].
      change (8 =? 1) with false; change (8 =? 2) with false; change (8 =? 8) with true; cbv iota zeta.
      rewrite Len2; cbn [Nat.leb Nat.ltb].
      rewrite firstn_all2 by lia; rewrite load_store_BE by (change (256 ^ N.of_nat 2) with 65536; exact Hc).
      cbn [r_ccode set_creason set_ccode set_cterm].
      rewrite ws_close_done by reflexivity; reflexivity. }
    cbn; repeat split; reflexivity.
  - eexists. split.
    { rewrite WB. cbn [Model.run_frames rinit r_cterm].
      rewrite (close_step cfgB (rinit zB) (r_key cfgA) d) by (try reflexivity; lia).
      unfold Model.handle_message. cbn [rinit r_cterm r_fcomp andb].
      change (8 =? 1) with false. change (8 =? 2) with false. change (8 =? 8) with true. cbv iota zeta.
      rewrite LenD. cbn [Nat.leb Nat.add]. rewrite F2, S2, load_store_BE by (change (256 ^ N.of_nat 2) with 65536; exact Hc).
      rewrite ?(lenient_of_valid _ cps Hu).
      cbn [length Nat.ltb Nat.leb Nat.add]; cbn [r_ccode set_creason set_ccode set_cterm];
        rewrite ws_close_echo by reflexivity; reflexivity. }
    cbn [is_nil set_closed set_sterm add_sent set_creason set_ccode set_cterm rinit r_ccode r_creason r_closed r_events r_sent].
    (split; [reflexivity|]); (split; [reflexivity|]); (split; [reflexivity|]); (split; [reflexivity|]); (split; [reflexivity|]).
    eexists; split.
    { rewrite <- (app_nil_r w2); change (w2 ++ []) with (encode_all [close_frame (r_key cfgB) (store BE 2 c)]).
      rewrite recv_wire_refines by (constructor; [apply wf_close; [exact HkB|lia]|constructor]).
      set (SA := set_sterm ist (add_sent ist (rinit zA) w) true).
      assert (CA : r_cterm SA = false) by reflexivity.
      assert (FA : r_fcomp SA = false) by reflexivity.
      cbn [Model.run_frames]. rewrite CA.
      rewrite close_step by (try reflexivity; lia).
      unfold Model.handle_message. rewrite CA, FA. cbn [andb].
      change (8 =? 1) with false; change (8 =? 2) with false; change (8 =? 8) with true; cbv iota zeta.
      rewrite Len2; cbn [Nat.leb Nat.ltb].
      rewrite firstn_all2 by lia; rewrite load_store_BE by (change (256 ^ N.of_nat 2) with 65536; exact Hc).
      cbn [r_ccode set_creason set_ccode set_cterm].
      rewrite ws_close_done by reflexivity; reflexivity. }
    cbn; repeat split; reflexivity.
Qed.

End Close.
