(* A reference decoder for the receive direction, independent of the receive loop and of
   the receiver state: first parse ALL frames of the byte stream (pure codec), then walk
   the frame list RFC-style (reassemble, check the abort conditions of RFC 6455 / 7692 /
   max_message_size; compressed messages are inflated by the given inflater).  After a close
   frame or a trailing incomplete frame only the deliveries (and that the loop ended normally)
   are decided.
   Definitions only. *)
From Coq Require Import List NArith Arith Bool.
Import ListNotations.
From TV Require Import C18.Model C14.Utf8 C14.Model.
Local Open Scope N_scope.

(* one frame, and whether its length field uses an extended form (7-bit value >= 126) *)
Definition rparse (w : bytes) : option (frame * bool * bytes) :=
  match w with
  | b0 :: b1 :: w1 =>
      match read_len (N.land b1 127) w1 with
      | Some (plen, w2) =>
          match read_body (negb (N.land b1 128 =? 0)) plen w2 with
          | Some (k, d, w3) =>
              Some ({| f_fin := negb (N.land b0 128 =? 0); f_rsv := N.land b0 112;
                       f_op := N.land b0 15; f_mask := k; f_data := d |},
                    126 <=? N.land b1 127, w3)
          | None => None
          end
      | None => None
      end
  | _ => None
  end.

(* all complete frames, and the bytes left over (an incomplete frame, or nothing) *)
Fixpoint parse_all (fuel : nat) (w : bytes) : list (frame * bool) * bytes :=
  match fuel with
  | O => ([], w)
  | S n =>
      match rparse w with
      | Some (f, lf, rest) => let '(fs, l) := parse_all n rest in ((f, lf) :: fs, l)
      | None => ([], w)
      end
  end.

Inductive rstatus := SAlive | SAbort | SPartial | SClosed.
(* SPartial: an incomplete frame is left over; SClosed: the peer sent a close frame *)
Inductive rres := RDecided (dl : list (bool * list N)) (s : rstatus) | RUnknown.

Definition rsv_ok (decomp : bool) (f : frame) : bool :=
  (f_rsv f =? 0) || ((f_rsv f =? 64) && decomp && negb (is_ctl (f_op f)) && negb (f_op f =? 0)).

Section RefZ.
Variable ist : Type.
(* the inflater: in the correspondence runs, the tape of recorded zlib results *)
Variable z_inflate : ist -> bool -> bytes -> N -> zres * ist.

(* a complete uncompressed payload: None = must be refused *)
Definition rdeliver (op : N) (m : bytes) : option (bool * list N) :=
  if op =? 1 then match utf8_decode m with Some cps => Some (true, cps) | None => None end
  else if op =? 2 then Some (false, m)
  else None.

(* a complete message (RFC 7692 7.2.2: append 00 00 ff ff and inflate when RSV1 was set):
   None = not decided (the inflater has no answer), Some None = must be refused *)
Definition rcomplete (decomp : option bool) (max : N) (z : ist) (op : N) (comp : bool) (payload : bytes)
  : option (option (bool * list N)) * ist :=
  if comp then
    match decomp with
    | None => (None, z)
    | Some p =>
        let '(r, z') := z_inflate z (negb p) (payload ++ trailer) max in
        match r with
        | ZOk m true => (Some (rdeliver op m), z')
        | ZOk _ false => (Some None, z')          (* larger than max_message_size *)
        | ZErr => (Some None, z')                 (* not DEFLATE data *)
        | ZOracle => (None, z')
        end
    end
  else (Some (rdeliver op payload), z).

Definition ropen := option (N * bool * bytes).     (* opcode, compressed?, bytes so far *)

Inductive rstepres :=
| RGo (open : ropen) (out : list (bool * list N)) (z : ist)   (* connection alive *)
| RStop                                             (* the connection must be aborted here *)
| RClose                                            (* a valid close frame: the loop ends *)
| RUnk.                                             (* not decided: no inflater answer *)

(* one frame, RFC-style *)
Definition rstep (decomp : option bool) (max : N) (open : ropen) (out : list (bool * list N)) (z : ist)
           (f : frame) (lf : bool) : rstepres :=
  if negb (rsv_ok (match decomp with Some _ => true | None => false end) f) then RStop
  else if is_ctl (f_op f) then
    if negb (f_fin f) || lf || (max <? blen (f_data f)) then RStop
    else if (f_op f =? 9) || (f_op f =? 10) then RGo open out z
    else if f_op f =? 8 then RClose
    else RStop
  else if f_op f =? 0 then
    match open with
    | None => RStop
    | Some (fop, comp, buf) =>
        if max <? blen (f_data f) + blen buf then RStop
        else if f_fin f then
          match rcomplete decomp max z fop comp (buf ++ f_data f) with
          | (None, _) => RUnk
          | (Some None, _) => RStop
          | (Some (Some d), z') => RGo None (out ++ [d]) z'
          end
        else RGo (Some (fop, comp, buf ++ f_data f)) out z
    end
  else
    match open with
    | Some _ => RStop
    | None =>
        if max <? blen (f_data f) then RStop
        else if f_fin f then
          match rcomplete decomp max z (f_op f) (f_rsv f =? 64) (f_data f) with
          | (None, _) => RUnk
          | (Some None, _) => RStop
          | (Some (Some d), z') => RGo None (out ++ [d]) z'
          end
        else RGo (Some (f_op f, f_rsv f =? 64, f_data f)) out z
    end.

(* [clean]: no bytes are left over after the last complete frame *)
Fixpoint rwalk (decomp : option bool) (max : N) (open : ropen) (out : list (bool * list N)) (z : ist)
         (fs : list (frame * bool)) (clean : bool) : rres :=
  match fs with
  | [] => RDecided out (if clean then SAlive else SPartial)
  | (f, lf) :: fs' =>
      match rstep decomp max open out z f lf with
      | RGo open' out' z' => rwalk decomp max open' out' z' fs' clean
      | RStop => RDecided out SAbort
      | RClose => RDecided out SClosed
      | RUnk => RUnknown
      end
  end.

Definition ref_decode (decomp : option bool) (max : N) (z : ist) (w : bytes) : rres :=
  let '(fs, l) := parse_all (S (length w)) w in
  rwalk decomp max None [] z fs (match l with [] => true | _ => false end).

End RefZ.

Arguments RGo {ist}. Arguments RStop {ist}. Arguments RClose {ist}. Arguments RUnk {ist}.
