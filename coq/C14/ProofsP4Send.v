(* The checker accepts the model on every sender case. *)
From Coq Require Import List NArith ZArith Arith Bool String Lia.
Import ListNotations.
From TV Require Import Lib.Obs C18.Model C14.Utf8 C14.Model C14.Run C14.ProofsCodec C14.ProofsRecv C14.Peer
  C14.ProofsReasm C14.ProofsMain C14.ProofsE2E.
Local Open Scope N_scope.

Lemma bytes_eqb_refl l : bytes_eqb l l = true.
Proof. induction l as [|a l IH]; [reflexivity|]. cbn. rewrite N.eqb_refl, IH. reflexivity. Qed.

Lemma sent_ok_model mask comp (s : dtape) key binary data :
  sent_ok mask comp binary data key
    (sres_obs (fst (send_message dtape tape_deflate {| s_mask := mask; s_comp := comp |} s key binary data))) = true.
Proof.
  destruct (send_message dtape tape_deflate {| s_mask := mask; s_comp := comp |} s key binary data) as [r s'] eqn:E.
  cbn [fst].
  destruct r as [w| | | | |].
  - destruct (sender_conforming dtape tape_deflate _ _ _ _ _ _ _ E) as (m & payload & Em & Ew & Ec).
    cbn [s_mask s_comp] in *. cbn [sres_obs]. unfold digest.
    destruct (Nat.leb_spec (List.length w) 200) as [L|L]; [|reflexivity].
    cbn [sent_ok].
    destruct (mask && negb (List.length key =? 4)%nat) eqn:G; [reflexivity|].
    set (f := first_frame (is_some comp) (negb binary) (if mask then Some key else None) payload true) in *.
    assert (W : wf_frame f).
    { unfold wf_frame, f, first_frame. cbn [f_op f_rsv f_mask f_data].
      split; [destruct binary; reflexivity|]. split; [destruct comp; reflexivity|]. split; [destruct comp; reflexivity|].
      split.
      - destruct mask; [|exact I]. cbn [andb] in G. apply negb_false_iff, Nat.eqb_eq in G. exact G.
      - pose proof (encode_frame_payload_le f) as P. rewrite <- Ew in P. unfold f, first_frame in P. cbn [f_data] in P.
        unfold blen in *. change (2 ^ 64) with 18446744073709551616. lia. }
    pose proof (parse_encode f [] W) as PE. rewrite app_nil_r, <- Ew in PE. rewrite PE.
    unfold f, first_frame. cbn [f_fin f_op f_mask f_rsv f_data andb].
    assert (O : ((if negb binary then 1 else 2) =? (if binary then 2 else 1)) = true) by (destruct binary; reflexivity).
    rewrite O. cbn [andb].
    assert (Mk : Bool.eqb (match (if mask then Some key else None) with Some _ => true | None => false end) mask = true)
      by (destruct mask; reflexivity).
    rewrite Mk. cbn [andb].
    destruct comp as [p|]; cbn [is_some]; [reflexivity|].
    destruct Ec as [-> _]. rewrite Em. change (0 =? 0) with true. cbn [andb]. apply bytes_eqb_refl.
  - (* UnicodeEncodeError *)
    cbn [sres_obs sent_ok]. change (String.eqb "UnicodeEncodeError" "UnicodeEncodeError") with true. cbv iota.
    unfold send_message in E.
    destruct (if binary then Some data else utf8_encode data) as [m|]; [|reflexivity].
    exfalso. cbn [s_comp s_mask] in E. unfold write_frame in E.
    assert (IC : is_ctl (if binary then 2 else 1) = false) by (destruct binary; reflexivity).
    rewrite IC in E. cbn [andb] in E.
    destruct comp as [p|]; [|discriminate].
    destruct (pmd_compress dtape tape_deflate p s m) as [[c| |] s1]; discriminate.
  - (* ValueError cannot come out of write_message for a data frame *)
    exfalso. unfold send_message in E.
    destruct (if binary then Some data else utf8_encode data) as [m|]; [|discriminate].
    cbn [s_comp s_mask] in E. unfold write_frame in E.
    assert (IC : is_ctl (if binary then 2 else 1) = false) by (destruct binary; reflexivity).
    rewrite IC in E. cbn [andb] in E.
    destruct comp as [p|]; [|discriminate].
    destruct (pmd_compress dtape tape_deflate p s m) as [[c| |] s1]; discriminate.
  - reflexivity.
  - reflexivity.
  - exfalso. unfold send_message in E.
    destruct (if binary then Some data else utf8_encode data) as [m|]; [|discriminate].
    cbn [s_comp s_mask] in E. unfold write_frame in E.
    assert (IC : is_ctl (if binary then 2 else 1) = false) by (destruct binary; reflexivity).
    rewrite IC in E. cbn [andb] in E.
    destruct comp as [p|]; [|discriminate].
    destruct (pmd_compress dtape tape_deflate p s m) as [[c| |] s1]; discriminate.
Qed.

Theorem check_send_model mask comp msgs tape :
  check_case (CSend mask comp msgs tape) (run_case (CSend mask comp msgs tape)) = true.
Proof.
  cbn [check_case run_case]. revert tape.
  induction msgs as [|[[binary data] key] ms IH]; intro tape; [reflexivity|].
  cbn [send_all].
  pose proof (sent_ok_model mask comp tape key binary (expand data)) as S.
  destruct (send_message dtape tape_deflate {| s_mask := mask; s_comp := comp |} tape key binary (expand data)) as [r s'].
  cbn [fst] in S. cbn [sent_all_ok]. rewrite S, IH. reflexivity.
Qed.
